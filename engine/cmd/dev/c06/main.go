package main

import (
	_ "verif/internal/c06"
	"verif/internal/fw"
)

func main() { fw.Main() }
