package main

import (
	_ "verif/internal/c13"
	"verif/internal/fw"
)

func main() { fw.Main() }
