package main

import (
	_ "verif/internal/c18"
	"verif/internal/fw"
)

func main() { fw.Main() }
