package main

import (
	_ "verif/internal/c09"
	"verif/internal/fw"
)

func main() { fw.Main() }
