package main

import (
	_ "verif/internal/c15"
	"verif/internal/fw"
)

func main() { fw.Main() }
