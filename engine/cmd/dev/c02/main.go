package main

import (
	_ "verif/internal/c02"
	"verif/internal/fw"
)

func main() { fw.Main() }
