package main

import (
	_ "verif/internal/c01"
	"verif/internal/fw"
)

func main() { fw.Main() }
