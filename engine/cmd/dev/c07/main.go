package main

import (
	_ "verif/internal/c07"
	"verif/internal/fw"
)

func main() { fw.Main() }
