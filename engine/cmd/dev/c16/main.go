package main

import (
	_ "verif/internal/c16"
	"verif/internal/fw"
)

func main() { fw.Main() }
