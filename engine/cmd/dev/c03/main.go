package main

import (
	_ "verif/internal/c03"
	"verif/internal/fw"
)

func main() { fw.Main() }
