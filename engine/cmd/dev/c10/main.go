package main

import (
	_ "verif/internal/c10"
	"verif/internal/fw"
)

func main() { fw.Main() }
