package main

import (
	_ "verif/internal/c19"
	"verif/internal/fw"
)

func main() { fw.Main() }
