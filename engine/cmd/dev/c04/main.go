package main

import (
	_ "verif/internal/c04"
	"verif/internal/fw"
)

func main() { fw.Main() }
