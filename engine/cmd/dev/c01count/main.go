package main

import (
	"fmt"
	"time"

	"verif/internal/prog"
)

func main() {
	for _, pf := range prog.Profiles() {
		for l := 1; l <= pf.MaxLevel; l++ {
			t := time.Now()
			n := 0
			pf.Level(l, func(p prog.Program) bool { n++; return n < 50_000_000 })
			fmt.Printf("%s L%d: %d programs (%.1fs)\n", pf.Name, l, n, time.Since(t).Seconds())
			if time.Since(t) > 20*time.Second {
				break
			}
		}
	}
}
