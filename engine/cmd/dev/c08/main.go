package main

import (
	_ "verif/internal/c08"
	"verif/internal/fw"
)

func main() { fw.Main() }
