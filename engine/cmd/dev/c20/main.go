package main

import (
	_ "verif/internal/c20"
	"verif/internal/fw"
)

func main() { fw.Main() }
