package main

import (
	_ "verif/internal/c14"
	"verif/internal/fw"
)

func main() { fw.Main() }
