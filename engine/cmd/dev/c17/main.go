package main

import (
	_ "verif/internal/c17"
	"verif/internal/fw"
)

func main() { fw.Main() }
