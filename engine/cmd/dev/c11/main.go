package main

import (
	_ "verif/internal/c11"
	"verif/internal/fw"
)

func main() { fw.Main() }
