package main

import (
	_ "verif/internal/c12"
	"verif/internal/fw"
)

func main() { fw.Main() }
