package main

import (
	_ "verif/internal/c05"
	"verif/internal/fw"
)

func main() { fw.Main() }
