// Command vcheck is the verification engine: see /verif/DESIGN.md.
package main

import (
	_ "verif/internal/c12"
	"verif/internal/fw"
)

func main() { fw.Main() }
