// Command vcheck is the verification engine: see /verif/DESIGN.md.
package main

import (
	_ "verif/internal/c01"
	_ "verif/internal/c02"
	_ "verif/internal/c03"
	_ "verif/internal/c04"
	_ "verif/internal/c05"
	_ "verif/internal/c06"
	_ "verif/internal/c07"
	_ "verif/internal/c08"
	_ "verif/internal/c09"
	_ "verif/internal/c10"
	_ "verif/internal/c11"
	_ "verif/internal/c12"
	_ "verif/internal/c13"
	_ "verif/internal/c14"
	_ "verif/internal/c15"
	_ "verif/internal/c16"
	_ "verif/internal/c17"
	_ "verif/internal/c18"
	_ "verif/internal/c19"
	_ "verif/internal/c20"
	"verif/internal/fw"
)

func main() { fw.Main() }
