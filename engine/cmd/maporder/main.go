// Command maporder produces a `go build -overlay` description in which every
// `for ... range m` over a Go map in the listed packages of the repository is
// rewritten to iterate in an order chosen by the verification harness. The
// rewritten files are generated from the files' CURRENT content; the tool is
// type-driven (go/types), so a newly introduced map range is instrumented too,
// and it fails if the type of a range operand cannot be determined.
package main

import (
	"encoding/json"
	"flag"
	"fmt"
	"go/ast"
	"go/build"
	"go/importer"
	"go/parser"
	"go/token"
	"go/types"
	"os"
	"path/filepath"
	"sort"
	"strings"
)

type edit struct {
	pos, end int
	text     string
}

func main() {
	repo := flag.String("repo", "/repo", "repository root")
	out := flag.String("out", "", "output directory")
	overlayDir := flag.String("overlay-src", "", "directory holding verifmap.go.txt and starlark_maporder.go.txt")
	flag.Parse()
	pkgs := []string{"starlark", "starlarkstruct", "lib/json", "lib/time", "lib/math", "resolve", "syntax", "internal/compile", "internal/spell"}
	if err := os.MkdirAll(*out, 0o755); err != nil {
		die("%v", err)
	}
	if err := os.Chdir(*repo); err != nil {
		die("%v", err)
	}
	replace := map[string]string{}
	var sites []string
	site := 0
	ctx := build.Default
	ctx.BuildTags = append(ctx.BuildTags, "verif")
	for _, rel := range pkgs {
		dir := filepath.Join(*repo, rel)
		bp, err := ctx.ImportDir(dir, 0)
		if err != nil {
			die("%s: %v", rel, err)
		}
		fset := token.NewFileSet()
		var files []*ast.File
		srcs := map[string][]byte{}
		for _, name := range bp.GoFiles {
			path := filepath.Join(dir, name)
			src, err := os.ReadFile(path)
			if err != nil {
				die("%v", err)
			}
			f, err := parser.ParseFile(fset, path, src, parser.ParseComments)
			if err != nil {
				die("%v", err)
			}
			files = append(files, f)
			srcs[path] = src
		}
		info := &types.Info{Types: map[ast.Expr]types.TypeAndValue{}}
		var terrs []error
		conf := types.Config{
			Importer: importer.ForCompiler(fset, "source", nil),
			Error:    func(err error) { terrs = append(terrs, err) },
		}
		conf.Check("go.starlark.net/"+rel, fset, files, info)
		for _, f := range files {
			path := fset.File(f.Pos()).Name()
			src := srcs[path]
			var edits []edit
			ast.Inspect(f, func(n ast.Node) bool {
				rs, ok := n.(*ast.RangeStmt)
				if !ok {
					return true
				}
				tv, ok := info.Types[rs.X]
				if !ok || tv.Type == nil || tv.Type == types.Typ[types.Invalid] {
					die("%s: cannot determine the type of range operand (type errors: %v)", fset.Position(rs.Pos()), terrs)
				}
				if _, isMap := tv.Type.Underlying().(*types.Map); !isMap {
					return true
				}
				site++
				off := func(p token.Pos) int { return fset.Position(p).Offset }
				x := string(src[off(rs.X.Pos()):off(rs.X.End())])
				kv := fmt.Sprintf("verifKV%d", site)
				header := fmt.Sprintf("for _, %s := range verifmap.Pairs(%s, %d) {", kv, x, site)
				tok := ":="
				if rs.Tok == token.ASSIGN {
					tok = "="
				}
				name := func(e ast.Expr) string {
					if e == nil {
						return ""
					}
					s := string(src[off(e.Pos()):off(e.End())])
					if s == "_" {
						return ""
					}
					return s
				}
				k, v := name(rs.Key), name(rs.Value)
				var bind string
				switch {
				case k != "" && v != "":
					bind = fmt.Sprintf(" %s, %s %s %s.K, %s.V;", k, v, tok, kv, kv)
				case k != "":
					bind = fmt.Sprintf(" %s %s %s.K;", k, tok, kv)
				case v != "":
					bind = fmt.Sprintf(" %s %s %s.V;", v, tok, kv)
				default:
					bind = fmt.Sprintf(" _ = %s;", kv)
				}
				edits = append(edits, edit{off(rs.For), off(rs.Body.Lbrace) + 1, header + bind})
				sites = append(sites, fmt.Sprintf("%d\t%s\t%s", site, strings.TrimPrefix(fset.Position(rs.Pos()).String(), *repo+"/"), x))
				return true
			})
			if len(edits) == 0 {
				continue
			}
			// add the import right after the package clause
			pkgEnd := fset.Position(f.Name.End()).Offset
			edits = append(edits, edit{pkgEnd, pkgEnd, "\n\nimport verifmap \"go.starlark.net/internal/verifmap\"\n"})
			sort.Slice(edits, func(i, j int) bool { return edits[i].pos > edits[j].pos })
			for _, e := range edits {
				src = append(append(append([]byte{}, src[:e.pos]...), e.text...), src[e.end:]...)
			}
			dst := filepath.Join(*out, strings.ReplaceAll(strings.TrimPrefix(path, *repo+"/"), "/", "__"))
			if err := os.WriteFile(dst, src, 0o644); err != nil {
				die("%v", err)
			}
			replace[path] = dst
		}
	}
	// the added virtual package and setter
	for _, a := range [][2]string{
		{"verifmap.go.txt", filepath.Join(*repo, "internal/verifmap/verifmap.go")},
		{"starlark_maporder.go.txt", filepath.Join(*repo, "starlark/verif_maporder.go")},
	} {
		b, err := os.ReadFile(filepath.Join(*overlayDir, a[0]))
		if err != nil {
			die("%v", err)
		}
		dst := filepath.Join(*out, strings.TrimSuffix(a[0], ".txt"))
		if err := os.WriteFile(dst, b, 0o644); err != nil {
			die("%v", err)
		}
		replace[a[1]] = dst
	}
	ov, _ := json.MarshalIndent(map[string]any{"Replace": replace}, "", " ")
	if err := os.WriteFile(filepath.Join(*out, "overlay.json"), ov, 0o644); err != nil {
		die("%v", err)
	}
	if err := os.WriteFile(filepath.Join(*out, "sites.tsv"), []byte(strings.Join(sites, "\n")+"\n"), 0o644); err != nil {
		die("%v", err)
	}
	fmt.Printf("maporder: %d map-range sites instrumented\n%s\n", site, strings.Join(sites, "\n"))
}

func die(format string, a ...any) {
	fmt.Fprintf(os.Stderr, "maporder: "+format+"\n", a...)
	os.Exit(2)
}
