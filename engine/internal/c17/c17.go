// Package c17 decides C17: compiled programs survive serialisation unchanged.
// Shape E: every program of the C01 corpus (all size levels completed in the
// budget) plus a feature profile that makes every field of the encoded
// Program/Funcode significant is compiled, written, read back and written
// again; both programs are executed in identical fresh environments.
package c17

import (
	"bufio"
	"bytes"
	"encoding/json"
	"errors"
	"fmt"
	"io"
	"os"
	"sort"
	"strings"
	"testing/iotest"

	"go.starlark.net/starlark"

	"verif/internal/fw"
	"verif/internal/prog"
)

type kase struct {
	Src     string       `json:"src"`
	Opts    prog.Options `json:"opts"`
	File    *string      `json:"file,omitempty"` // file name given to the compiler (nil: p.star)
	Readers bool         `json:"readers,omitempty"`
}

// fileNames: the name under which the program is compiled is data: it comes
// back from Filename, in every position, backtrace and load position.
var fileNames = []string{"", ".", "./p.star", "a/../p.star", "a//b.star", "a/./b.star", "/abs/p.star", "//lib/defs:rules.star", "https://example.com/x/../p.star?q=1",
	"C:\\dir\\p.star", "dir\\..\\p.star", "p.star/", " p.star ", "p\x00q.star", "é日本.star", "\xff\xfe.star", "a\nb.star", strings.Repeat("n", 300) + ".star"}

type obs struct {
	trace     []string
	globals   string
	err       string
	backtrace string
	stack     string
	funcs     string
	loads     string
	steps     uint64
}

func describeFuncs(g starlark.StringDict) string {
	var sb strings.Builder
	seen := map[*starlark.Function]bool{}
	var visit func(v starlark.Value, depth int)
	visit = func(v starlark.Value, depth int) {
		if depth > 8 {
			return
		}
		switch v := v.(type) {
		case *starlark.Function:
			if seen[v] {
				return
			}
			seen[v] = true
			fmt.Fprintf(&sb, "fn %s doc=%q pos=%s np=%d nk=%d va=%v kw=%v [", v.Name(), v.Doc(), v.Position(), v.NumParams(), v.NumKwonlyParams(), v.HasVarargs(), v.HasKwargs())
			for i := 0; i < v.NumParams(); i++ {
				n, p := v.Param(i)
				d := v.ParamDefault(i)
				ds := "<none>"
				if d != nil {
					ds = prog.Canon(d)
				}
				fmt.Fprintf(&sb, "%s@%s=%s,", n, p, ds)
			}
			fmt.Fprintf(&sb, "] free[")
			for i := 0; i < v.NumFreeVars(); i++ {
				b, val := v.FreeVar(i)
				fmt.Fprintf(&sb, "%s@%s,", b.Name, b.Pos)
				if val != nil {
					visit(val, depth+1)
				}
			}
			sb.WriteString("];")
			for i := 0; i < v.NumParams(); i++ {
				if d := v.ParamDefault(i); d != nil {
					visit(d, depth+1)
				}
			}
		case *starlark.List:
			for i := 0; i < v.Len(); i++ {
				visit(v.Index(i), depth+1)
			}
		case starlark.Tuple:
			for _, x := range v {
				visit(x, depth+1)
			}
		case *starlark.Dict:
			for _, it := range v.Items() {
				visit(it[0], depth+1)
				visit(it[1], depth+1)
			}
		}
	}
	keys := g.Keys()
	sort.Strings(keys)
	for _, k := range keys {
		visit(g[k], 0)
	}
	return sb.String()
}

var stepLimit uint64 = 50000

func execute(p *starlark.Program) (o obs) {
	env := prog.NewEnv()
	env.Thread.SetMaxExecutionSteps(stepLimit)
	defer func() {
		if r := recover(); r != nil {
			o.err = fmt.Sprintf("PANIC: %v", r)
		}
	}()
	g, err := p.Init(env.Thread, env.Predeclared)
	o.trace = env.Trace
	o.steps = env.Thread.ExecutionSteps()
	names := g.Keys()
	vals := make([]starlark.Value, len(names))
	for i, n := range names {
		vals[i] = g[n]
	}
	o.globals = prog.CanonAll(names, vals)
	o.funcs = describeFuncs(g)
	var sb strings.Builder
	for i := 0; i < p.NumLoads(); i++ {
		n, pos := p.Load(i)
		fmt.Fprintf(&sb, "%s@%s;", n, pos)
	}
	o.loads = sb.String()
	if err != nil {
		o.err = err.Error()
		var ee *starlark.EvalError
		if errors.As(err, &ee) {
			o.backtrace = ee.Backtrace()
			sb.Reset()
			for _, fr := range ee.CallStack {
				fmt.Fprintf(&sb, "%s@%s;", fr.Name, fr.Pos)
			}
			o.stack = sb.String()
		}
	}
	return
}

func diffObs(a, b obs) string {
	switch {
	case strings.Join(a.trace, "|") != strings.Join(b.trace, "|"):
		return fmt.Sprintf("side effects differ: %v vs %v", a.trace, b.trace)
	case a.globals != b.globals:
		return fmt.Sprintf("globals differ: %s vs %s", a.globals, b.globals)
	case a.err != b.err:
		return fmt.Sprintf("errors differ: %q vs %q", a.err, b.err)
	case a.stack != b.stack:
		return fmt.Sprintf("call stacks differ: %s vs %s", a.stack, b.stack)
	case a.backtrace != b.backtrace:
		return fmt.Sprintf("backtraces differ: %q vs %q", a.backtrace, b.backtrace)
	case a.funcs != b.funcs:
		return fmt.Sprintf("function metadata differs: %s vs %s", a.funcs, b.funcs)
	case a.loads != b.loads:
		return fmt.Sprintf("load lists differ: %s vs %s", a.loads, b.loads)
	case a.steps != b.steps:
		return fmt.Sprintf("step counts differ: %d vs %d", a.steps, b.steps)
	}
	return ""
}

// checkOne returns ("", false) if the source is statically invalid.
func checkOne(src string, o prog.Options) (diff string, ran bool, nontrivial bool) {
	return checkOneNamed("p.star", src, o)
}

func checkOneNamed(file, src string, o prog.Options) (diff string, ran bool, nontrivial bool) {
	defer func() {
		if r := recover(); r != nil {
			diff = fmt.Sprintf("panic during compile/serialise: %v", r)
			ran = true
		}
	}()
	env := prog.NewEnv()
	_, p, err := starlark.SourceProgramOptions(o.FileOptions(), file, src, env.Predeclared.Has)
	if err != nil {
		return "", false, false
	}
	if p.Filename() != file {
		return fmt.Sprintf("Filename() of the compiled program is %q, compiled as %q", p.Filename(), file), true, true
	}
	var b1 bytes.Buffer
	if err := p.Write(&b1); err != nil {
		return "Write failed: " + err.Error(), true, true
	}
	p2, err := starlark.CompiledProgram(bytes.NewReader(b1.Bytes()))
	if err != nil {
		return "CompiledProgram failed on the bytes just written: " + err.Error(), true, true
	}
	if p2.Filename() != file {
		return fmt.Sprintf("Filename() of the program read back is %q, compiled as %q", p2.Filename(), file), true, true
	}
	var b2 bytes.Buffer
	if err := p2.Write(&b2); err != nil {
		return "second Write failed: " + err.Error(), true, true
	}
	if !bytes.Equal(b1.Bytes(), b2.Bytes()) {
		return fmt.Sprintf("re-encoding differs: %d bytes vs %d bytes", b1.Len(), b2.Len()), true, true
	}
	a := execute(p)
	b := execute(p2)
	if d := diffObs(a, b); d != "" {
		return d, true, true
	}
	// Executing a program (which may decode its position tables for a
	// backtrace, bind its loads, ...) must not change what is written
	// afterwards, nor what a second execution observes.
	for i, q := range []*starlark.Program{p, p2} {
		var bn bytes.Buffer
		if err := q.Write(&bn); err != nil {
			return fmt.Sprintf("Write after execution failed (program %d): %v", i, err), true, true
		}
		if !bytes.Equal(bn.Bytes(), b1.Bytes()) {
			return fmt.Sprintf("the bytes written after executing the program (%s) differ from the bytes written before: %d bytes vs %d bytes", []string{"original", "reloaded"}[i], bn.Len(), b1.Len()), true, true
		}
	}
	p3, err := starlark.CompiledProgram(bytes.NewReader(b1.Bytes()))
	if err != nil {
		return "second CompiledProgram failed: " + err.Error(), true, true
	}
	// A program read from a buffer must not depend on the buffer afterwards:
	// the host reuses it (here: overwritten in place, reset and refilled).
	own := append([]byte(nil), b1.Bytes()...)
	buf := bytes.NewBuffer(own)
	p4, err := starlark.CompiledProgram(buf)
	if err != nil {
		return "CompiledProgram(*bytes.Buffer) failed: " + err.Error(), true, true
	}
	for i := range own {
		own[i] = 0xAA
	}
	buf.Reset()
	buf.WriteString(strings.Repeat("\xaa", len(own)))
	if d := diffObs(a, execute(p4)); d != "" {
		return "a program read from a *bytes.Buffer changed when the host reused the buffer: " + d, true, true
	}
	var b4 bytes.Buffer
	if err := p4.Write(&b4); err != nil || !bytes.Equal(b4.Bytes(), b1.Bytes()) {
		return fmt.Sprintf("a program read from a *bytes.Buffer re-encodes differently after the host reused the buffer (err=%v)", err), true, true
	}
	for i, q := range []*starlark.Program{p, p2, p3} {
		if d := diffObs(a, execute(q)); d != "" {
			return fmt.Sprintf("execution number 2 of the %s program differs from the first: %s", []string{"original", "reloaded", "freshly reloaded"}[i], d), true, true
		}
	}
	return "", true, len(a.trace) > 0 || a.err != "" || a.funcs != ""
}

// checkReaders: CompiledProgram takes any io.Reader. The bytes of the program
// are handed over one byte at a time, through a bufio.Reader, and from a file
// that the host has already read a header of (a cache file); each program read
// must write the original bytes again.
func checkReaders(src string, o prog.Options) (diff string, ran bool) {
	defer func() {
		if r := recover(); r != nil {
			diff = fmt.Sprintf("panic while reading a program: %v", r)
			ran = true
		}
	}()
	env := prog.NewEnv()
	_, p, err := starlark.SourceProgramOptions(o.FileOptions(), "p.star", src, env.Predeclared.Has)
	if err != nil {
		return "", false
	}
	var b1 bytes.Buffer
	if err := p.Write(&b1); err != nil {
		return "Write failed: " + err.Error(), true
	}
	const header = "HOST-CACHE-HEADER\x00\x01"
	f, err := os.CreateTemp(fw.BinDir(), "c17-*.bin")
	if err != nil {
		fw.Fatal("c17: %v", err)
	}
	defer os.Remove(f.Name())
	defer f.Close()
	f.WriteString(header)
	f.Write(b1.Bytes())
	readers := []struct {
		name string
		mk   func() io.Reader
	}{
		{"one byte at a time", func() io.Reader { return iotest.OneByteReader(bytes.NewReader(b1.Bytes())) }},
		{"bufio.Reader", func() io.Reader { return bufio.NewReaderSize(bytes.NewReader(b1.Bytes()), 16) }},
		{"a reader that returns data together with io.EOF", func() io.Reader { return iotest.DataErrReader(bytes.NewReader(b1.Bytes())) }},
		{"*os.File positioned after a host header", func() io.Reader {
			f.Seek(0, io.SeekStart)
			io.ReadFull(f, make([]byte, len(header)))
			return f
		}},
		{"*os.File read through io.LimitReader", func() io.Reader {
			f.Seek(int64(len(header)), io.SeekStart)
			return io.LimitReader(f, int64(b1.Len()))
		}},
	}
	for _, r := range readers {
		q, err := starlark.CompiledProgram(r.mk())
		if err != nil {
			return fmt.Sprintf("CompiledProgram(%s) failed on the bytes just written: %v", r.name, err), true
		}
		var b2 bytes.Buffer
		if err := q.Write(&b2); err != nil || !bytes.Equal(b1.Bytes(), b2.Bytes()) {
			return fmt.Sprintf("the program read from %s re-encodes differently (err=%v, %d vs %d bytes)", r.name, err, b2.Len(), b1.Len()), true
		}
	}
	return "", true
}

func worker(c *fw.Ctx) *fw.Stats {
	st := fw.NewStats()
	nviol := 0
	report := func(src string, o prog.Options, diff string) {
		if diff != "" && nviol < 10 {
			nviol++
			key := src
			if len(key) > 200 {
				key = key[:200] + fmt.Sprintf("...(%d bytes)", len(src))
			}
			st.Violate(o.String()+" "+key, diff, kase{Src: src, Opts: o})
		}
	}
	all := prog.Options{Set: true, While: true, TopLevelControl: true, GlobalReassign: true, Recursion: true}
	// feature profile first
	var fi int64 = -1
	for _, f := range features() {
		for _, o := range []prog.Options{{}, all, {Recursion: true}, {LoadBindsGlobally: true, GlobalReassign: true}} {
			fi++
			if !c.Mine(fi) {
				continue
			}
			diff, ran, nt := checkOne(f, o)
			if ran {
				st.Evals++
				if nt {
					st.Nontrivial++
				}
				st.Outcome("feature")
				if fi%7 == 0 {
					s := f
					if len(s) > 300 {
						s = s[:300] + "..."
					}
					st.Sample(map[string]any{"profile": "feature", "options": o.String(), "source": s})
				}
			}
			report(f, o, diff)
			if o == all {
				if d, ran := checkReaders(f, o); ran {
					st.Evals++
					st.Outcome("feature-through-other-readers")
					if d != "" && nviol < 10 {
						nviol++
						rd := "readers"
						st.Violate(fmt.Sprintf("readers: %s %.200s", o.String(), f), d, kase{Src: f, Opts: o, File: &rd, Readers: true})
					}
				}
				for ni := range fileNames {
					name := fileNames[ni]
					diff, ran, _ := checkOneNamed(name, f, o)
					if ran {
						st.Evals++
						st.Nontrivial++
						st.Outcome("feature-under-file-name")
					}
					if diff != "" && nviol < 10 {
						nviol++
						st.Violate(fmt.Sprintf("file name %q: %s %.200s", name, o.String(), f), diff, kase{Src: f, Opts: o, File: &name})
					}
				}
			}
		}
	}
	if c.Shard == 0 {
		st.Count("file_names", int64(len(fileNames)))
		st.Levels = append(st.Levels, "feature")
		st.Count("programs.feature", int64(len(features())))
	}
	maxLevel := map[string]int{"expr": 4, "plus": 4, "assign": 3, "control": 4, "scope": 2, "call": 1, "load": 3, "comp": 2, "fold": 1, "escape": 2, "scale": 2}
	if c.Thorough() {
		maxLevel = map[string]int{"expr": 5, "plus": 4, "assign": 3, "control": 5, "scope": 2, "call": 1, "load": 3, "comp": 3, "fold": 2, "escape": 2, "scale": 3}
	}
	for level := 1; level <= 6; level++ {
		for _, pf := range append(prog.Profiles(), prog.ScaleProfile()) {
			if level > maxLevel[pf.Name] {
				continue
			}
			var idx, mine int64 = -1, 0
			cut := false
			pf.Level(level, func(p prog.Program) bool {
				idx++
				if !c.Mine(idx) {
					return true
				}
				mine++
				if mine%64 == 0 && c.Expired() {
					cut = true
					return false
				}
				src := prog.Render(p.Instantiate())
				stepLimit = 50000 * uint64(p.ScaleBudget())
				o := p.Need
				if idx%2 == 1 {
					o = all
				}
				diff, ran, nt := checkOne(src, o)
				if ran {
					st.Evals++
					if nt {
						st.Nontrivial++
					}
					st.Outcome(p.Profile)
				}
				report(src, o, diff)
				return true
			})
			name := fmt.Sprintf("%s:L%d", pf.Name, level)
			if cut {
				if c.Shard == 0 {
					st.Cut = append(st.Cut, name)
				}
				return st
			}
			if c.Shard == 0 {
				st.Levels = append(st.Levels, name)
				st.Count("programs."+name, idx+1)
			}
		}
	}
	return st
}

func run(c *fw.Ctx) *fw.Stats { return c.Sharded(0, nil) }

func replay(c *fw.Ctx, raw json.RawMessage) []fw.Viol {
	var k kase
	if err := json.Unmarshal(raw, &k); err != nil {
		fw.Fatal("bad case: %v", err)
	}
	if k.Readers {
		if d, _ := checkReaders(k.Src, k.Opts); d != "" {
			return []fw.Viol{{Key: fmt.Sprintf("readers: %s %.200s", k.Opts.String(), k.Src), What: d}}
		}
		return nil
	}
	if k.File != nil {
		if diff, _, _ := checkOneNamed(*k.File, k.Src, k.Opts); diff != "" {
			return []fw.Viol{{Key: fmt.Sprintf("file name %q: %s %.200s", *k.File, k.Opts.String(), k.Src), What: diff}}
		}
		return nil
	}
	diff, _, _ := checkOne(k.Src, k.Opts)
	if diff != "" {
		key := k.Src
		if len(key) > 200 {
			key = key[:200] + fmt.Sprintf("...(%d bytes)", len(k.Src))
		}
		return []fw.Viol{{Key: k.Opts.String() + " " + key, What: diff}}
	}
	return nil
}

func init() {
	fw.Register(&fw.Prop{
		ID:    "C17",
		Level: "exploration",
		Rule: "every feature program is also read back one byte at a time, through bufio, from a reader that returns data with io.EOF, and from a file positioned after a host header; the scale profile (15 templates in which one table of the compiled form has n members, n on both sides of 2^7, 2^8, 2^14, thorough 2^16); every program of the feature profile (also compiled under each of 18 file names: empty, dot segments, doubled slashes, labels, URLs, backslashes, NUL, non-UTF-8, 300 bytes; each constant kind, cells/free variables, keyword-only parameters, varargs/kwargs, docstrings, several loads, recursion flag, saturated position deltas) and of the C01 grammar profiles up to the completed size level; integer constants on both sides of every width boundary in both signs; after the comparison of the two executions the original and the reloaded program are written again (same bytes) and executed again, as is a program read from a *bytes.Buffer that was then overwritten and refilled: " +
			"compile, Write, CompiledProgram, Write again (bytes must be equal), execute both programs in identical fresh environments and compare probe trace, globals, error text, call stack positions, backtrace, function metadata, load list and step count; " +
			"non-trivial = programs with a side effect, an error or at least one function value",
		Run: run, Worker: worker, Replay: replay,
		Assumptions: []string{"both executions use the production interpreter; the original in-memory program is the reference for the decoded one"},
		BudgetQuick: 60, BudgetThorough: 900,
	})
}
