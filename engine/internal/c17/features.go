package c17

import (
	"fmt"
	"strings"
)

// features returns source texts chosen so that every field of the encoded
// Program and Funcode matters to the observable behaviour.
func features() []string {
	var out []string
	add := func(s string) { out = append(out, s) }
	// constants of each kind
	add("a = 0\nb = 2147483647\nc = 2147483648\nd = -9223372036854775808\ne = 9223372036854775807\nf = 9223372036854775808\ng = 1 << 200\nh = -(1 << 200)\nt(1, [a, b, c, d, e, f, g, h])\n")
	// integer constants on both sides of every width an encoder or decoder may switch at
	{
		var sb strings.Builder
		vals := []string{"127", "128", "255", "256", "32767", "32768", "65535", "65536", "2147483647", "2147483648", "4294967295", "4294967296",
			"9223372036854775807", "9223372036854775808", "18446744073709551615", "18446744073709551616", "18446744073709551617",
			"9999999999999999999", "10000000000000000000", "99999999999999999999", "100000000000000000000", "340282366920938463463374607431768211456",
			"0xffffffffffffffff", "0x10000000000000000", "0o2000000000000000000000", "0b1" + strings.Repeat("0", 64)}
		for i, v := range vals {
			fmt.Fprintf(&sb, "p%d = %s\nn%d = -%s\n", i, v, i, v)
		}
		sb.WriteString("t(1, [")
		for i := range vals {
			fmt.Fprintf(&sb, "p%d, n%d, ", i, i)
		}
		sb.WriteString("])\n")
		add(sb.String())
	}
	add("a = 0.0\nb = -0.0\nc = 1e308\nd = 5e-324\ne = 0.1\nf = 1e100\ng = float('nan')\nh = float('inf')\nt(1, [a, b, c, d, e, f, str(g), h, 1/b if False else 0])\nx = str(b)\n")
	add("a = ''\nb = 'abc'\nc = '\\x00\\x01\\xff'\nd = '\\u00e9\\U0001F600'\ne = b''\nf = b'\\x00\\xff\\x80abc'\ng = 'a' * 3\nt(1, [a, b, c, d, e, f, g])\nh = c.elems()\n")
	add("a = '\\xff\\xfe' + 'x'\nb = b'\\xc3\\x28'\nc = str(b)\nt(1, (a, b, c, len(a)))\n")
	// doc strings
	add("\"\"\"module doc\"\"\"\ndef f():\n    \"\"\"doc of f\n    second line\"\"\"\n    return 1\ndef g():\n    'single'\ndef h():\n    pass\nx = (f(), g(), h())\n")
	// params: every kind
	add("def f(a, b=t(1, [1]), *args, c, d=t(2, 'd'), **kw):\n    return (a, b, args, c, d, kw)\nx = f(1, c=3)\ny = f(1, 2, 3, 4, c=5, d=6, e=7)\n")
	add("def f(a, *, k, k2=2):\n    return (a, k, k2)\nx = f(1, k=3)\ndef g(*, k):\n    return k\ny = g(k=1)\nz = g()\n")
	add("def f(*args, **kwargs):\n    return (args, kwargs)\nx = f(1, 2, a=3)\ng = lambda x, y=2, *a, **k: (x, y, a, k)\ny = g(1)\n")
	// cells and free variables, shared cells, nested three deep
	add("def outer(n):\n    acc = [n]\n    def mid(m):\n        def inner(k):\n            acc.append(k + m + n)\n            return acc\n        return inner\n    return mid\nf = outer(1)(2)\nx = f(3)\ny = f(4)\n")
	add("def counter():\n    c = 0\n    def inc():\n        return c + 1\n    def get():\n        return c\n    c = 10\n    return (inc, get)\ni, g = counter()\nx = (i(), g())\n")
	add("def f():\n    fs = []\n    for i in range(3):\n        fs.append(lambda: t(i, i))\n    return fs\nx = [g() for g in f()]\n")
	// loads
	add("load('m', 'a', bb='b')\nload('n', 'z')\nload('m', cc='c')\nx = (a, bb, z, cc)\n")
	add("load('m', 'a')\ndef f():\n    return a\nx = f()\nload('zz', 'q')\n")
	add("load('m', 'nope')\n")
	// recursion
	add("def f(n):\n    return 1 if n == 0 else n * f(n - 1)\nx = f(5)\n")
	add("def a(n):\n    return b(n)\ndef b(n):\n    return a(n - 1) if n else 0\nx = a(3)\n")
	// failures at depth (backtrace positions)
	add("def f(x):\n    return g(x)\ndef g(x):\n    return [h(y) for y in x]\ndef h(y):\n    return 1 // y\nr = f([1, 0])\n")
	add("def f():\n    return sorted([3, 1, 2], key=lambda v: v.nope)\nr = f()\n")
	add("def f(x):\n    x.append(1)\nf(())\n")
	add("x = [1, 2, 3]\ndef f():\n    for i in x:\n        x.append(i)\nf()\n")
	add("def f():\n    return undefined_later\nr = f()\nundefined_later = 1\n")
	add("def f():\n    y = x1\n    x1 = 2\nf()\n")
	add("fail('boom', 1, [2])\n")
	// control flow with every loop exit
	add("def f(xs):\n    r = []\n    for x in xs:\n        if x == 2:\n            continue\n        if x == 4:\n            break\n        for y in xs:\n            if y > x:\n                break\n            r.append((x, y))\n    return r\nx = f([1, 2, 3, 4, 5])\n")
	add("def f():\n    i = 0\n    while True:\n        i += 1\n        if i > 5:\n            return i\nx = f()\n")
	add("x = {k: [v for v in range(k) if v % 2] for k in range(4)}\ny = set([1, 2, 3]) | set([4])\nz = 1 if x else 2\n")
	add("a, (b, c), [d, e] = 1, (2, 3), [4, 5]\nl = [0, 0]\nl[0], l[1] = b, c\no = mk()\no.f = 5\no.f += 1\nl[0] += 10\n")
	// saturated position deltas: big line gaps, wide columns, many instructions
	add("x = 1\n" + strings.Repeat("\n", 100000) + "def f(a):\n    return a.nope\n" + strings.Repeat("\n", 40) + "y = f(x)\n")
	add("x = 1\ny = [" + strings.Repeat(" ", 10000) + "x.nope]\n")
	add("x = (" + strings.Repeat("1 +\n", 2000) + " None)\n")
	{
		var sb strings.Builder
		sb.WriteString("def f(a):\n")
		for i := 0; i < 3000; i++ {
			fmt.Fprintf(&sb, "    a = a + %d\n", i%7)
		}
		sb.WriteString("    return a.nope\nr = f(0)\n")
		add(sb.String())
	}
	for _, dl := range []int{14, 15, 16, 17, 31, 32, 33} {
		for _, dc := range []int{30, 31, 32, 33, 63, 64, 65} {
			add("x = 0\n" + strings.Repeat("\n", dl) + strings.Repeat(" ", 0) + "y = (" + strings.Repeat(" ", dc) + "x.nope)\n")
			add("def f():\n    a = 1" + strings.Repeat("\n", dl) + "    b = [" + strings.Repeat(" ", dc) + "a.nope]\nf()\n")
		}
	}
	// many constants/names/functions
	{
		var sb strings.Builder
		for i := 0; i < 300; i++ {
			fmt.Fprintf(&sb, "def f%d(x, y=%d):\n    return x + y + %d\nv%d = f%d(%d)\n", i, i, 1<<uint(i%40), i, i, i)
		}
		add(sb.String())
	}
	return out
}
