package c16

// Position queries that depend on state left in a compiled function by
// earlier queries: one function with several fallible operations is made to
// fail at operation i, then (the same compiled function, the same thread) at
// operation j, then k - every ordered pair and triple; and recursive
// functions whose frames, all of one function code, are suspended at
// different operations of it when the innermost one fails.

import (
	"errors"
	"fmt"
	"strings"

	"go.starlark.net/starlark"

	. "verif/internal/prog"
)

type seqVariant struct {
	name string
	// build returns the module statements, the position of fallible operation
	// number i, and the argument that makes operation i fail (after operations
	// 0..i-1 succeeded)
	build func() (stmts []*Node, at func(i int) Pos, arg func(i int) starlark.Value, nops int)
}

// nestFor returns a value v for which v[0][1][2]...[i-1] succeeds and the next index fails.
func nestFor(i int) starlark.Value {
	// the innermost value is an empty list, on which any index fails
	var v starlark.Value = starlark.NewList(nil)
	for k := i - 1; k >= 0; k-- {
		elems := make([]starlark.Value, k+1)
		for e := range elems {
			elems[e] = starlark.MakeInt(e)
		}
		elems[k] = v
		v = starlark.NewList(elems)
	}
	return v
}

func seqVariants() []seqVariant {
	return []seqVariant{
		{"index-chain", func() ([]*Node, func(int) Pos, func(int) starlark.Value, int) {
			// return v[0][1][2][3][4]: five INDEX operations on consecutive rows of the table
			var ops []*Node
			var e *Node = Name("v")
			for k := 0; k < 5; k++ {
				e = Index(e, Num(int64(k)))
				ops = append(ops, e)
			}
			stmts := []*Node{Def("g", []*Param{P("v")}, []*Node{Return(e)})}
			return stmts, func(i int) Pos { return ops[i].OpPos }, nestFor, 5
		}},
		{"index-statements", func() ([]*Node, func(int) Pos, func(int) starlark.Value, int) {
			// one operation per statement, with filler statements in between
			var ops []*Node
			var body []*Node
			cur := "v"
			for k := 0; k < 4; k++ {
				e := Index(Name(cur), Num(int64(k)))
				ops = append(ops, e)
				nxt := fmt.Sprintf("a%d", k)
				body = append(body, Assign("=", Name(nxt), e), Assign("=", Name("q"), Num(int64(k))))
				cur = nxt
			}
			body = append(body, Return(Name(cur)))
			stmts := []*Node{Def("g", []*Param{P("v")}, body)}
			return stmts, func(i int) Pos { return ops[i].OpPos }, nestFor, 4
		}},
		{"mixed-ops", func() ([]*Node, func(int) Pos, func(int) starlark.Value, int) {
			// (v[0] + 1, v[1].real_nope, -v[2], v[3](), v[4] < 1): different opcodes, adjacent rows
			i0 := Index(Name("v"), Num(0))
			o0 := Bin("+", i0, Num(1))
			i1 := Index(Name("v"), Num(1))
			o1 := Attr(i1, "nope")
			i2 := Index(Name("v"), Num(2))
			o2 := Un("-", i2)
			i3 := Index(Name("v"), Num(3))
			o3 := Call(i3)
			i4 := Index(Name("v"), Num(4))
			o4 := Bin("<", i4, Num(1))
			ops := []*Node{o0, o1, o2, o3, o4}
			stmts := []*Node{Def("g", []*Param{P("v")}, []*Node{Return(Tuple(o0, o1, o2, o3, o4))})}
			arg := func(i int) starlark.Value {
				// elements: good for the operations before i, bad for operation i
				good := []starlark.Value{starlark.MakeInt(1), goodAttr{}, starlark.MakeInt(1), starlark.Universe["list"], starlark.MakeInt(0)}
				bad := []starlark.Value{starlark.String("s"), starlark.MakeInt(1), starlark.String("s"), starlark.MakeInt(1), starlark.String("s")}
				el := make([]starlark.Value, 5)
				for k := range el {
					if k < i {
						el[k] = good[k]
					} else {
						el[k] = bad[k]
					}
				}
				return starlark.NewList(el)
			}
			return stmts, func(i int) Pos { return ops[i].OpPos }, arg, 5
		}},
	}
}

// goodAttr has an attribute "nope".
type goodAttr struct{}

func (goodAttr) String() string        { return "goodAttr" }
func (goodAttr) Type() string          { return "goodAttr" }
func (goodAttr) Freeze()               {}
func (goodAttr) Truth() starlark.Bool  { return true }
func (goodAttr) Hash() (uint32, error) { return 1, nil }
func (goodAttr) Attr(name string) (starlark.Value, error) {
	if name == "nope" {
		return starlark.MakeInt(1), nil
	}
	return nil, nil
}
func (goodAttr) AttrNames() []string { return []string{"nope"} }

// checkSeq: variant name, then the order of failing operations.
func checkSeq(variant string, order []int) (msg, src string) {
	for _, sv := range seqVariants() {
		if sv.name != variant {
			continue
		}
		stmts, at, arg, nops := sv.build()
		src = Render(stmts)
		th := &starlark.Thread{Name: "c16"}
		g, err := starlark.ExecFileOptions(fileOpts, th, "p.star", src, nil)
		if err != nil {
			return "harness: " + err.Error(), src
		}
		for step, i := range order {
			if i >= nops {
				return "harness: operation index out of range", src
			}
			_, err := starlark.Call(th, g["g"], starlark.Tuple{arg(i)}, nil)
			var ee *starlark.EvalError
			if err == nil || !errors.As(err, &ee) {
				return fmt.Sprintf("harness: call %d (operation %d) did not fail: %v", step, i, err), src
			}
			fr := ee.CallStack[len(ee.CallStack)-1]
			want := at(i)
			if fr.Name != "g" || fr.Pos.Line != want.Line || fr.Pos.Col != want.Col {
				return fmt.Sprintf("failure number %d of the same compiled function (order of failing operations %v): operation %d failed (%s) but the innermost frame is %s@%d:%d, the operation is at %d:%d",
					step+1, order, i, ee.Msg, fr.Name, fr.Pos.Line, fr.Pos.Col, want.Line, want.Col), src
			}
		}
		return "", src
	}
	return "harness: unknown sequence variant " + variant, ""
}

// checkRecursive: r(n) calls itself n times (in one of several syntactic
// places) and the innermost activation fails right after / before the call.
func checkRecursive(shape string, depth int) (msg, src string) {
	var stmts []*Node
	var callAt, failAt func() Pos
	switch shape {
	case "call-then-fail": // if n: r(n-1, v) ; return v.nope
		c := Call(Name("r"), Bin("-", Name("n"), Num(1)), Name("v"))
		f := Attr(Name("v"), "nope")
		stmts = []*Node{Def("r", []*Param{P("n"), P("v")}, []*Node{If(Bin(">", Name("n"), Num(0)), []*Node{ExprS(c)}, nil), Return(f)})}
		callAt, failAt = func() Pos { return c.OpPos }, func() Pos { return f.OpPos }
	case "fail-before-call": // return (v.nope if n == 0 else r(n-1, v))
		c := Call(Name("r"), Bin("-", Name("n"), Num(1)), Name("v"))
		f := Attr(Name("v"), "nope")
		stmts = []*Node{Def("r", []*Param{P("n"), P("v")}, []*Node{Return(Paren(Cond(Bin("==", Name("n"), Num(0)), f, c)))})}
		callAt, failAt = func() Pos { return c.OpPos }, func() Pos { return f.OpPos }
	case "same-expression": // return r(n-1, v) + v.nope  (n > 0), base case fails at v.nope too
		c := Call(Name("r"), Bin("-", Name("n"), Num(1)), Name("v"))
		f := Attr(Name("v"), "nope")
		f0 := Attr(Name("v"), "nope")
		stmts = []*Node{Def("r", []*Param{P("n"), P("v")}, []*Node{If(Bin("==", Name("n"), Num(0)), []*Node{Return(f0)}, nil), Return(Bin("+", c, f))})}
		callAt, failAt = func() Pos { return c.OpPos }, func() Pos { return f0.OpPos }
	default:
		return "harness: unknown recursive shape " + shape, ""
	}
	top := Call(Name("r"), Num(int64(depth)), Num(0))
	stmts = append(stmts, Assign("=", Name("x"), top))
	src = Render(stmts)
	th := &starlark.Thread{Name: "c16"}
	_, err := starlark.ExecFileOptions(fileOpts, th, "p.star", src, nil)
	var ee *starlark.EvalError
	if err == nil || !errors.As(err, &ee) {
		return fmt.Sprintf("harness: did not fail: %v", err), src
	}
	want := []frame{{Name: "<toplevel>", Pos: top.OpPos}}
	for i := 0; i < depth; i++ {
		want = append(want, frame{Name: "r", Pos: callAt()})
	}
	want = append(want, frame{Name: "r", Pos: failAt()})
	var a, b []string
	bad := len(ee.CallStack) != len(want)
	for i, f := range ee.CallStack {
		a = append(a, fmt.Sprintf("%s@%d:%d", f.Name, f.Pos.Line, f.Pos.Col))
		if i < len(want) && (f.Name != want[i].Name || f.Pos.Line != want[i].Pos.Line || f.Pos.Col != want[i].Pos.Col) {
			bad = true
		}
	}
	for _, f := range want {
		b = append(b, fmt.Sprintf("%s@%d:%d", f.Name, f.Pos.Line, f.Pos.Col))
	}
	if bad {
		return fmt.Sprintf("recursive activations of one function: reported [%s], true [%s] (%s)", strings.Join(a, " "), strings.Join(b, " "), ee.Msg), src
	}
	return "", src
}

// checkLoad: a module loaded by a load statement is executed on the SAME
// thread and fails; the error that the loader sees lists the importing
// module's frame, suspended at its load statement, below the frames of the
// loaded module.
func checkLoad(variant string) (msg, src string) {
	variants := map[string]struct {
		main     string
		loadLine int
	}{
		"load-first":        {"load(\"mod\", \"f\")\nx = 1\n", 1},
		"after-a-call":      {"x = len(\"ab\")\nload(\"mod\", \"f\")\n", 2},
		"after-operators":   {"x = 1 + 2\ny = [x, x][0] * 3\nz = (x or y) and -x\nload(\"mod\", \"f\")\n", 4},
		"after-a-good-load": {"load(\"ok\", \"v\")\nw = v + 1\nload(\"mod\", \"f\")\n", 3},
		"after-blank-lines": {"x = str(1)\n\n\n\n\n\n\n\n\n\n\n\n\n\n\n\n\n\n\n\nload(\"mod\", \"f\")\n", 21},
	}
	v, ok := variants[variant]
	if !ok {
		return "harness: unknown load variant " + variant, ""
	}
	const mod = "def g(v):\n    return v.nope\nr = g(1)\n"
	src = v.main + "# mod.star:\n" + mod
	var inner error
	th := &starlark.Thread{Name: "c16"}
	th.Load = func(th *starlark.Thread, module string) (starlark.StringDict, error) {
		if module == "ok" {
			return starlark.StringDict{"v": starlark.MakeInt(1)}, nil
		}
		g, err := starlark.ExecFileOptions(fileOpts, th, "mod.star", mod, nil)
		inner = err
		return g, err
	}
	_, err := starlark.ExecFileOptions(fileOpts, th, "main.star", v.main, nil)
	var ee *starlark.EvalError
	if err == nil || inner == nil || !errors.As(inner, &ee) {
		return fmt.Sprintf("harness: load did not fail as planned: %v / %v", err, inner), src
	}
	type fr struct {
		name, file string
		line, col  int32
	}
	want := []fr{{"<toplevel>", "main.star", int32(v.loadLine), 1}, {"<toplevel>", "mod.star", 3, 6}, {"g", "mod.star", 2, 13}}
	var got []string
	bad := len(ee.CallStack) != len(want)
	for i, f := range ee.CallStack {
		got = append(got, fmt.Sprintf("%s@%s:%d:%d", f.Name, f.Pos.Filename(), f.Pos.Line, f.Pos.Col))
		if i < len(want) && (f.Name != want[i].name || f.Pos.Filename() != want[i].file || f.Pos.Line != want[i].line || f.Pos.Col != want[i].col) {
			bad = true
		}
	}
	if bad {
		var w []string
		for _, f := range want {
			w = append(w, fmt.Sprintf("%s@%s:%d:%d", f.name, f.file, f.line, f.col))
		}
		return fmt.Sprintf("failure inside a module loaded on the same thread: reported [%s], true [%s] (%s)", strings.Join(got, " "), strings.Join(w, " "), ee.Msg), src
	}
	// the importer's own error must name its load statement too
	var outer *starlark.EvalError
	if errors.As(err, &outer) && len(outer.CallStack) > 0 {
		f := outer.CallStack[0]
		if f.Pos.Line != int32(v.loadLine) || f.Pos.Col != 1 {
			return fmt.Sprintf("the importing module's error is reported at %d:%d, its load statement is at %d:1", f.Pos.Line, f.Pos.Col, v.loadLine), src
		}
	}
	return "", src
}

var loadVariants = []string{"load-first", "after-a-call", "after-operators", "after-a-good-load", "after-blank-lines"}

// checkProbes: a host built-in that asks the thread for its call stack (what a
// print or logging handler does) is called several times in a row from one
// function, in one execution; each time the caller's frame must be at the
// '(' of that very call, and the frames below it at their call sites.
func checkProbes(variant string) (msg, src string) {
	var calls []*Node
	p := func() *Node { c := Call(Name("where")); calls = append(calls, c); return c }
	var body []*Node
	switch variant {
	case "statements":
		for i := 0; i < 5; i++ {
			body = append(body, ExprS(p()))
		}
	case "one-expression":
		body = append(body, Assign("=", Name("y"), List(p(), p(), Tuple(p(), p()), Bin("+", p(), p()))))
	case "loop":
		body = append(body, For(Name("i"), List(Num(1), Num(2), Num(3)), []*Node{ExprS(p()), ExprS(p())}))
	case "mixed-with-failing-free-code":
		body = append(body, ExprS(p()), Assign("=", Name("q"), Bin("+", Num(1), Num(2))), ExprS(p()), Assign("=", Name("q"), Index(List(Num(1)), Num(0))), ExprS(p()))
	default:
		return "harness: unknown probe variant " + variant, ""
	}
	body = append(body, Return(Num(0)))
	outer := Call(Name("g"))
	stmts := []*Node{Def("g", nil, body), Def("f", nil, []*Node{Return(outer)}), Assign("=", Name("r"), Call(Name("f")))}
	top := stmts[2].Kids[1]
	src = Render(stmts)
	type rec struct{ stack []string }
	var got [][]string
	where := starlark.NewBuiltin("where", func(th *starlark.Thread, _ *starlark.Builtin, _ starlark.Tuple, _ []starlark.Tuple) (starlark.Value, error) {
		var s []string
		for _, fr := range th.CallStack() {
			s = append(s, fmt.Sprintf("%s@%d:%d", fr.Name, fr.Pos.Line, fr.Pos.Col))
		}
		// and the single-frame accessor
		s = append(s, fmt.Sprintf("CallFrame(1)=%s@%d:%d", th.CallFrame(1).Name, th.CallFrame(1).Pos.Line, th.CallFrame(1).Pos.Col))
		// and the debugger's view of each frame (depth 0 = this built-in)
		for d := 1; d < th.CallStackDepth(); d++ {
			df := th.DebugFrame(d)
			s = append(s, fmt.Sprintf("DebugFrame(%d)=%s@%d:%d", d, df.Callable().Name(), df.Position().Line, df.Position().Col))
		}
		got = append(got, s)
		return starlark.MakeInt(len(got)), nil
	})
	th := &starlark.Thread{Name: "c16"}
	if _, err := starlark.ExecFileOptions(fileOpts, th, "p.star", src, starlark.StringDict{"where": where}); err != nil {
		return "harness: probe program failed: " + err.Error(), src
	}
	// expected order of the probe calls = order of execution: for the loop variant each pair repeats
	order := calls
	if variant == "loop" {
		order = nil
		for i := 0; i < 3; i++ {
			order = append(order, calls...)
		}
	}
	if len(got) != len(order) {
		return fmt.Sprintf("harness: %d probe calls recorded, %d expected", len(got), len(order)), src
	}
	for i, c := range order {
		want := []string{
			fmt.Sprintf("<toplevel>@%d:%d", top.OpPos.Line, top.OpPos.Col),
			fmt.Sprintf("f@%d:%d", outer.OpPos.Line, outer.OpPos.Col),
			fmt.Sprintf("g@%d:%d", c.OpPos.Line, c.OpPos.Col),
			"where@0:0",
			fmt.Sprintf("CallFrame(1)=g@%d:%d", c.OpPos.Line, c.OpPos.Col),
			fmt.Sprintf("DebugFrame(1)=g@%d:%d", c.OpPos.Line, c.OpPos.Col),
			fmt.Sprintf("DebugFrame(2)=f@%d:%d", outer.OpPos.Line, outer.OpPos.Col),
			fmt.Sprintf("DebugFrame(3)=<toplevel>@%d:%d", top.OpPos.Line, top.OpPos.Col),
		}
		if strings.Join(got[i], " ") != strings.Join(want, " ") {
			return fmt.Sprintf("call number %d of the built-in that inspects the call stack: the thread reports [%s], true [%s]", i+1, strings.Join(got[i], " "), strings.Join(want, " ")), src
		}
	}
	return "", src
}

var probeVariants = []string{"statements", "one-expression", "loop", "mixed-with-failing-free-code"}
