package c16

import (
	"fmt"

	"go.starlark.net/starlark"
	"go.starlark.net/syntax"
)

// hostVal is a value implemented by the host whose attribute, operators,
// index and call operations run a Starlark function on the thread that is
// executing the operation (a lazily computed attribute, an operator
// overloaded in Starlark).  The function it calls is the next of the chain, so
// the frame of the function that performs the operation is suspended at an
// instruction that is not a call.
type hostVal struct {
	fn  starlark.Value
	arg starlark.Value
	th  *starlark.Thread
}

var (
	_ starlark.HasAttrs  = (*hostVal)(nil)
	_ starlark.HasBinary = (*hostVal)(nil)
	_ starlark.HasUnary  = (*hostVal)(nil)
	_ starlark.Mapping   = (*hostVal)(nil)
	_ starlark.Callable  = (*hostVal)(nil)
)

func (h *hostVal) String() string        { return "hostval" }
func (h *hostVal) Type() string          { return "hostval" }
func (h *hostVal) Freeze()               {}
func (h *hostVal) Truth() starlark.Bool  { return true }
func (h *hostVal) Hash() (uint32, error) { return 0, fmt.Errorf("unhashable") }
func (h *hostVal) Name() string          { return "hostval" }
func (h *hostVal) run() (starlark.Value, error) {
	return starlark.Call(h.th, h.fn, starlark.Tuple{h.arg}, nil)
}
func (h *hostVal) Attr(name string) (starlark.Value, error) {
	if name == "go" {
		return h.run()
	}
	return nil, nil
}
func (h *hostVal) AttrNames() []string { return []string{"go"} }
func (h *hostVal) Binary(op syntax.Token, y starlark.Value, side starlark.Side) (starlark.Value, error) {
	return h.run()
}
func (h *hostVal) Unary(op syntax.Token) (starlark.Value, error) { return h.run() }
func (h *hostVal) Get(k starlark.Value) (v starlark.Value, found bool, err error) {
	v, err = h.run()
	return v, err == nil, err
}
func (h *hostVal) CallInternal(th *starlark.Thread, args starlark.Tuple, kwargs []starlark.Tuple) (starlark.Value, error) {
	return starlark.Call(th, h.fn, starlark.Tuple{h.arg}, nil)
}

func hostPredeclared() starlark.StringDict {
	return starlark.StringDict{
		"hv": starlark.NewBuiltin("hv", func(th *starlark.Thread, _ *starlark.Builtin, args starlark.Tuple, kwargs []starlark.Tuple) (starlark.Value, error) {
			if len(args) != 2 {
				return nil, fmt.Errorf("hv: want (function, argument)")
			}
			return &hostVal{fn: args[0], arg: args[1], th: th}, nil
		}),
	}
}
