// Package c16 decides C16: errors report the true call stack and source
// positions.  Shape E: call chains (depth 1-8) through defs, lambdas,
// comprehensions and built-in callbacks x failing operation kinds x layouts
// that put every delta of the position table (line, column, pc) on each side
// of each saturation boundary of its 5/6/4-bit encoding, in all combinations
// for the rows of one operation.  The oracle is the renderer's own record of
// where each token was written.
package c16

import (
	"encoding/json"
	"errors"
	"fmt"
	"strings"

	"go.starlark.net/starlark"
	"go.starlark.net/syntax"

	"verif/internal/fw"
	. "verif/internal/prog"
)

type frame struct {
	Name    string
	Pos     Pos
	Builtin bool
}

// layout is one placement of the rows of the failing operation.
type layout struct {
	P1, P2 int // spaces before the operator token / before the right operand
	N1, N2 int // line breaks before the operator token / before the right operand
	K      int // filler constants (instructions without a position) before the operation
	Lines  int // blank lines before the failing statement
	Fill   int // filler statements before the failing statement (pc distance)
	// FillKind: what the filler statements are. 0: q = const; 1: for a, b in [(1, 2)]: pass;
	// 2: q = [0 for a, b in [(1, 2)]]; 3: a, (b, c) = (1, (2, 3)); 4: q = a if b else c chains.
	// Destructuring produces consecutive positioned instructions with the same position.
	FillKind int `json:",omitempty"`
	// W: 1 = the tokens to the left of the failing operation (of the calls, for a link layout) on its
	// line include a string literal and an identifier made of 2-, 3- and 4-byte characters, so that
	// byte offsets and rune columns differ.
	W int `json:",omitempty"`
}

// wideNow is set while the innermost function of a chain is built with layout.W.
var wideNow bool

const wideText = "é日本𝄞ß"
const wideIdent = "ÿ日ж"

func fillerStmt(kind, i int) *Node {
	switch kind {
	case 1:
		return For(Tuple(Name("fa"), Name("fb")), List(Tuple(Num(1), Num(2))), []*Node{Pass()})
	case 2:
		return Assign("=", Name("q"), ListComp(Num(0), ForC(Tuple(Name("fa"), Name("fb")), List(Tuple(Num(1), Num(2))))))
	case 3:
		return Assign("=", Tuple(Name("fa"), Paren(Tuple(Name("fb"), Name("fc")))), Tuple(Num(1), Paren(Tuple(Num(2), Num(3)))))
	case 4:
		return Assign("=", Name("q"), Cond(Num(int64(i%2)), Num(1), Num(2)))
	}
	return Assign("=", Name("q"), Num(int64(i%5)))
}

func (l layout) String() string {
	s := fmt.Sprintf("p%d,%d n%d,%d k%d L%d F%d", l.P1, l.P2, l.N1, l.N2, l.K, l.Lines, l.Fill)
	if l.FillKind != 0 {
		s += fmt.Sprintf(" kind%d", l.FillKind)
	}
	if l.W != 0 {
		s += " wide"
	}
	return s
}

// failing statement builders: return the statements of the innermost
// function (parameter x = 0, s = "a") and a function telling where the failure
// must be reported after rendering, plus an optional trailing builtin frame.
type failOpLit struct {
	name  string
	build func(l layout) (body []*Node, at func() Pos, builtin string)
}

type failOp struct {
	name  string
	build func(l layout) (body []*Node, at func() Pos, builtin string)
	// inner, if set, names a function nested in the innermost function of the
	// chain: the failure happens inside it, `at` is its position there, and
	// callAt is where the innermost chain function calls it.
	inner        string
	innerBuiltin string // a built-in frame between the chain function and the nested one
	callAt       func() Pos
}

// freeVarOp: a function nested in the innermost chain function (a def, a
// lambda, or a lambda called back by max) reads a local of the enclosing
// function before it has been assigned; the failing operation is that read.
func freeVarOp(name, form string) failOp {
	var callNode *Node
	op := failOp{name: name}
	switch form {
	case "def":
		op.inner = "inner"
	case "lambda":
		op.inner = "lambda"
	case "max-key":
		op.inner, op.innerBuiltin = "lambda", "max"
	}
	op.build = func(l layout) ([]*Node, func() Pos, string) {
		z := Name("z")
		z.PadCols, z.NL = l.P2, l.N2
		use := withFill(l.K, Bin("+", Num(1), z))
		var body []*Node
		switch form {
		case "def":
			body = append(body, Def("inner", nil, []*Node{Return(Paren(use))}))
			callNode = Call(Name("inner"))
		case "lambda":
			callNode = Call(Paren(Lambda(nil, Paren(use))))
		case "max-key":
			callNode = Call(Name("max"), List(Num(1), Num(2)))
			callNode.Named = []NamedArg{{"key", Lambda([]*Param{P("e")}, Paren(use))}}
		}
		callNode.OpPad = l.P1
		body = append(body, assignParen(callNode), Assign("=", Name("z"), Num(1)))
		return body, func() Pos { return z.Start }, ""
	}
	op.callAt = func() Pos { return callNode.OpPos }
	return op
}

func consts(k int) []*Node {
	var out []*Node
	for i := 0; i < k; i++ {
		out = append(out, Num(int64(i%7)))
	}
	return out
}

// wrap puts an expression in parentheses (so that line breaks are legal)
// and assigns it.
func assignParen(e *Node) *Node {
	if wideNow {
		return Assign("=", Name(wideIdent), Paren(e))
	}
	return Assign("=", Name("y"), Paren(e))
}

// withFill prepends k position-free instructions to the evaluation of e by
// building [c0, c1, ..., e][-1]... the list display carries no position, the
// final index does, so the rows of e itself are preceded by k constants.
func withFill(k int, e *Node) *Node {
	if wideNow {
		return Tuple(append(append([]*Node{{Kind: EStr, Str: wideText, Raw: true}}, consts(k)...), e)...)
	}
	if k == 0 {
		return e
	}
	return Tuple(append(consts(k), e)...)
}

func failOps() []failOp {
	padR := func(n *Node, l layout) *Node { n.PadCols, n.NL = l.P2, l.N2; return n }
	padOp := func(n *Node, l layout) *Node { n.OpPad, n.OpNL = l.P1, l.N1; return n }
	lits := []failOpLit{
		{"binary", func(l layout) ([]*Node, func() Pos, string) {
			e := padOp(Bin("+", Name("x"), padR(Name("s"), l)), l)
			return []*Node{assignParen(withFill(l.K, e))}, func() Pos { return e.OpPos }, ""
		}},
		{"binary-before-literal-run", func(l layout) ([]*Node, func() Pos, string) {
			// x + "a" + "b": the compiler may fold the literals; the failing + is the first one
			first := padOp(Bin("+", Name("x"), padR(Str("a"), l)), l)
			e := Bin("+", Bin("+", first, Str("b")), Str("c"))
			return []*Node{assignParen(withFill(l.K, e))}, func() Pos { return first.OpPos }, ""
		}},
		{"binary-after-literal-run", func(l layout) ([]*Node, func() Pos, string) {
			// "a" + "b" + x + "c": the failing + is the second one
			second := padOp(Bin("+", Bin("+", Str("a"), Str("b")), padR(Name("x"), l)), l)
			e := Bin("+", second, Str("c"))
			return []*Node{assignParen(withFill(l.K, e))}, func() Pos { return second.OpPos }, ""
		}},
		{"compare", func(l layout) ([]*Node, func() Pos, string) {
			e := padOp(Bin("<", Name("x"), padR(Name("s"), l)), l)
			return []*Node{assignParen(withFill(l.K, e))}, func() Pos { return e.OpPos }, ""
		}},
		{"unary", func(l layout) ([]*Node, func() Pos, string) {
			e := Un("-", padR(Name("s"), l))
			e.PadCols, e.NL = l.P1, l.N1
			return []*Node{assignParen(withFill(l.K, e))}, func() Pos { return e.OpPos }, ""
		}},
		{"index", func(l layout) ([]*Node, func() Pos, string) {
			e := padOp(Index(Name("x"), padR(Name("x"), l)), l)
			return []*Node{assignParen(withFill(l.K, e))}, func() Pos { return e.OpPos }, ""
		}},
		{"slice", func(l layout) ([]*Node, func() Pos, string) {
			e := padOp(Slice(Name("x"), padR(Name("x"), l), Num(1), nil), l)
			return []*Node{assignParen(withFill(l.K, e))}, func() Pos { return e.OpPos }, ""
		}},
		{"attr", func(l layout) ([]*Node, func() Pos, string) {
			e := padOp(Attr(Name("x"), "nope"), l)
			e.Kids[0].PadCols, e.Kids[0].NL = l.P2, l.N2
			return []*Node{assignParen(withFill(l.K, e))}, func() Pos { return e.OpPos }, ""
		}},
		{"call-noncallable", func(l layout) ([]*Node, func() Pos, string) {
			e := padOp(Call(Name("x"), consts(l.K)...), l)
			e.Kids[0].PadCols, e.Kids[0].NL = l.P2, l.N2
			return []*Node{assignParen(e)}, func() Pos { return e.OpPos }, ""
		}},
		{"fail", func(l layout) ([]*Node, func() Pos, string) {
			e := padOp(Call(Name("fail"), append(consts(l.K), padR(Name("s"), l))...), l)
			return []*Node{assignParen(e)}, func() Pos { return e.OpPos }, "fail"
		}},
		{"builtin-arg", func(l layout) ([]*Node, func() Pos, string) {
			e := padOp(Call(Name("len"), padR(Name("x"), l)), l)
			return []*Node{assignParen(withFill(l.K, e))}, func() Pos { return e.OpPos }, "len"
		}},
		{"cond-then", func(l layout) ([]*Node, func() Pos, string) {
			// the condition is evaluated first although it is written later: negative deltas
			a := padOp(Attr(Name("x"), "nope"), l)
			c := padR(Name("s"), l)
			e := Cond(c, a, Num(0))
			return []*Node{assignParen(withFill(l.K, e))}, func() Pos { return a.OpPos }, ""
		}},
		{"cond-else", func(l layout) ([]*Node, func() Pos, string) {
			a := padOp(Attr(Name("x"), "nope"), l)
			a.Kids[0].PadCols, a.Kids[0].NL = l.P2, l.N2
			e := Cond(Name("x"), Num(0), a)
			return []*Node{assignParen(withFill(l.K, e))}, func() Pos { return a.OpPos }, ""
		}},
		{"dict-duplicate", func(l layout) ([]*Node, func() Pos, string) {
			k2 := padR(Num(1), l)
			e := DictE(Num(1), Num(1), k2, Num(2))
			return []*Node{assignParen(withFill(l.K, e))}, func() Pos { return k2.Colon() }, ""
		}},
		{"undefined-local", func(l layout) ([]*Node, func() Pos, string) {
			z := padR(Name("z"), l)
			return []*Node{assignParen(withFill(l.K, Bin("+", Num(1), z))), Assign("=", Name("z"), Num(1))}, func() Pos { return z.Start }, ""
		}},
		{"undefined-global", func(l layout) ([]*Node, func() Pos, string) {
			z := padR(Name("LATER"), l)
			return []*Node{assignParen(withFill(l.K, Bin("+", Num(1), z)))}, func() Pos { return z.Start }, ""
		}},
		{"comp-noniterable", func(l layout) ([]*Node, func() Pos, string) {
			c := ForC(Name("a"), padR(Name("x"), l))
			e := ListComp(Name("a"), c)
			return []*Node{assignParen(withFill(l.K, e))}, func() Pos { return c.OpPos }, ""
		}},
		// statement-level operations (no line breaks possible inside them)
		{"setfield", func(l layout) ([]*Node, func() Pos, string) {
			t := Attr(Name("x"), "f")
			t.OpPad = l.P1
			return []*Node{Assign("=", t, withFill(l.K, Num(1)))}, func() Pos { return t.OpPos }, ""
		}},
		{"setindex", func(l layout) ([]*Node, func() Pos, string) {
			t := Index(Name("x"), padRcols(Num(0), l))
			t.OpPad = l.P1
			return []*Node{Assign("=", t, withFill(l.K, Num(1)))}, func() Pos { return t.OpPos }, ""
		}},
		{"augmented-index", func(l layout) ([]*Node, func() Pos, string) {
			t := Index(Name("x"), padRcols(Num(0), l))
			t.OpPad = l.P1
			return []*Node{Assign("+=", t, withFill(l.K, Num(1)))}, func() Pos { return t.OpPos }, ""
		}},
		{"augmented-index-store", func(l layout) ([]*Node, func() Pos, string) {
			// the load half succeeds, the store half fails (a tuple element)
			t := Index(Name("q"), padRcols(Num(0), l))
			t.OpPad = l.P1
			return []*Node{Assign("=", Name("q"), Tuple(Num(1), Num(2))), Assign("+=", t, Num(1))}, func() Pos { return t.OpPos }, ""
		}},
		{"augmented-op", func(l layout) ([]*Node, func() Pos, string) {
			st := Assign("+=", Name("x"), padRcols(Name("s"), l))
			return []*Node{st}, func() Pos { return st.OpPos }, ""
		}},
		{"unpack", func(l layout) ([]*Node, func() Pos, string) {
			st := Assign("=", Tuple(Name("a"), Name("b")), padRcols(Name("x"), l))
			return []*Node{st}, func() Pos { return st.OpPos }, ""
		}},
		{"for-noniterable", func(l layout) ([]*Node, func() Pos, string) {
			st := For(Name("a"), padRcols(Name("x"), l), []*Node{Pass()})
			return []*Node{st}, func() Pos { return st.OpPos }, ""
		}},
		{"for-unpack", func(l layout) ([]*Node, func() Pos, string) {
			st := For(Tuple(Name("a"), Name("b")), List(padRcols(Name("x"), l)), []*Node{Pass()})
			return []*Node{st}, func() Pos { return st.OpPos }, ""
		}},
		{"default-value", func(l layout) ([]*Node, func() Pos, string) {
			d := padOp(Bin("//", Num(1), padRcols(Name("x"), l)), layout{P1: l.P1})
			st := Def("g", []*Param{PD("a", d)}, []*Node{Pass()})
			return []*Node{st}, func() Pos { return d.OpPos }, ""
		}},
	}
	var out []failOp
	for _, l := range lits {
		out = append(out, failOp{name: l.name, build: l.build})
	}
	return out
}

func padRcols(n *Node, l layout) *Node { n.PadCols = l.P2; return n }

func allFailOps() []failOp {
	return append(failOps(), freeVarOp("freevar-in-def", "def"), freeVarOp("freevar-in-lambda", "lambda"), freeVarOp("freevar-in-max-key", "max-key"))
}

// link kinds: how function i calls function i+1
var linkKinds = []string{"direct", "lambda", "comp", "sorted", "max", "method-arg", "host-attr", "host-binary", "host-rbinary", "host-unary", "host-index", "host-call"}

// chain builds the program for one case and returns the expected call stack.
func chain(links []string, op failOp, l layout, linkLayout layout) (stmts []*Node, expect func() []frame) {
	d := len(links) + 1
	fname := func(i int) string { return fmt.Sprintf("f%d", i) }
	type site struct {
		fn      string
		call    *Node
		builtin string
	}
	var sites []site
	// innermost function
	wideNow = l.W != 0
	body, at, builtin := op.build(l)
	wideNow = false
	var inner []*Node
	for i := 0; i < l.Fill; i++ {
		inner = append(inner, fillerStmt(l.FillKind, i))
	}
	body[0].PadLines = l.Lines
	inner = append(inner, body...)
	inner = append(inner, Return(Name("x")))
	stmts = append(stmts, Def(fname(d), []*Param{P("x"), PD("s", Str("a"))}, inner))
	// intermediate functions, innermost first
	for i := d - 1; i >= 1; i-- {
		callee := Name(fname(i + 1))
		var e *Node
		var ss []site
		pad := func(c *Node) *Node { c.OpPad, c.OpNL = linkLayout.P1, linkLayout.N1; return c }
		switch links[i-1] {
		case "direct":
			c := pad(Call(callee, Name("x")))
			e = c
			ss = []site{{fname(i), c, ""}}
		case "lambda":
			in := pad(Call(callee, Name("v")))
			out := Call(Paren(Lambda([]*Param{P("v")}, in)), Name("x"))
			e = out
			ss = []site{{fname(i), out, ""}, {"lambda", in, ""}}
		case "comp":
			in := pad(Call(callee, Name("v")))
			e = Index(ListComp(in, ForC(Name("v"), List(Name("x")))), Num(0))
			ss = []site{{fname(i), in, ""}}
		case "sorted":
			c := pad(Call(Name("sorted"), List(Name("x"))))
			c.Named = []NamedArg{{"key", callee}}
			e = c
			ss = []site{{fname(i), c, "sorted"}}
		case "max":
			c := pad(Call(Name("max"), List(Name("x"), Name("x"))))
			c.Named = []NamedArg{{"key", callee}}
			e = c
			ss = []site{{fname(i), c, "max"}}
		case "host-attr":
			in := pad(Attr(Call(Name("hv"), callee, Name("x")), "go"))
			e = in
			ss = []site{{fname(i), in, ""}}
		case "host-binary":
			in := pad(Bin("+", Call(Name("hv"), callee, Name("x")), Num(1)))
			e = in
			ss = []site{{fname(i), in, ""}}
		case "host-rbinary":
			in := pad(Bin("*", Num(1), Call(Name("hv"), callee, Name("x"))))
			e = in
			ss = []site{{fname(i), in, ""}}
		case "host-unary":
			in := Un("-", Call(Name("hv"), callee, Name("x")))
			in.PadCols, in.NL = linkLayout.P1, linkLayout.N1
			e = in
			ss = []site{{fname(i), in, ""}}
		case "host-index":
			in := pad(Index(Call(Name("hv"), callee, Name("x")), Num(0)))
			e = in
			ss = []site{{fname(i), in, ""}}
		case "host-call":
			in := pad(Call(Call(Name("hv"), callee, Name("x"))))
			e = in
			ss = []site{{fname(i), in, "hostval"}}
		case "method-arg":
			in := pad(Call(callee, Name("x")))
			e = Call(Attr(List(Num(1)), "index"), in)
			ss = []site{{fname(i), in, ""}}
		}
		var b []*Node
		for k := 0; k < linkLayout.Fill; k++ {
			b = append(b, fillerStmt(linkLayout.FillKind, k))
		}
		if linkLayout.W != 0 {
			e = Index(Tuple(&Node{Kind: EStr, Str: wideText, Raw: true}, e), Num(1))
		}
		ret := Return(Paren(e))
		ret.PadLines = linkLayout.Lines
		b = append(b, ret)
		stmts = append(stmts, Def(fname(i), []*Param{P("x")}, b))
		sites = append(ss, sites...)
	}
	top := Call(Name("f1"), Num(0))
	topStmt := Assign("=", Name("r"), top)
	topStmt.PadLines = linkLayout.Lines
	stmts = append(stmts, topStmt, Assign("=", Name("LATER"), Num(1)))
	expect = func() []frame {
		fr := []frame{{Name: "<toplevel>", Pos: top.OpPos}}
		for _, s := range sites {
			// the frame of function s.fn is suspended at the call s.call
			fr = append(fr, frame{Name: s.fn, Pos: s.call.OpPos})
			if s.builtin != "" {
				fr = append(fr, frame{Name: s.builtin, Builtin: true})
			}
		}
		if op.inner != "" {
			fr = append(fr, frame{Name: fname(d), Pos: op.callAt()})
			if op.innerBuiltin != "" {
				fr = append(fr, frame{Name: op.innerBuiltin, Builtin: true})
			}
			fr = append(fr, frame{Name: op.inner, Pos: at()})
		} else {
			fr = append(fr, frame{Name: fname(d), Pos: at()})
		}
		if builtin != "" {
			fr = append(fr, frame{Name: builtin, Builtin: true})
		}
		return fr
	}
	return
}

type kase struct {
	Links  []string `json:"links"`
	Op     string   `json:"op"`
	Layout layout   `json:"layout"`
	LinkL  layout   `json:"link_layout"`
}

func (k kase) key() string {
	return fmt.Sprintf("%s via [%s] layout(%s) links(%s)", k.Op, strings.Join(k.Links, ","), k.Layout, k.LinkL)
}

var fileOpts = &syntax.FileOptions{Set: true, While: true, TopLevelControl: true, GlobalReassign: true, Recursion: true}

// checkCase runs one case; "" = agreement.
func checkCase(k kase, ops map[string]failOp) (msg string, src string) {
	if strings.HasPrefix(k.Op, "seq:") {
		var order []int
		for _, l := range k.Links {
			var i int
			fmt.Sscan(l, &i)
			order = append(order, i)
		}
		return checkSeq(strings.TrimPrefix(k.Op, "seq:"), order)
	}
	if strings.HasPrefix(k.Op, "probe:") {
		return checkProbes(strings.TrimPrefix(k.Op, "probe:"))
	}
	if strings.HasPrefix(k.Op, "load:") {
		return checkLoad(strings.TrimPrefix(k.Op, "load:"))
	}
	if strings.HasPrefix(k.Op, "rec:") {
		return checkRecursive(strings.TrimPrefix(k.Op, "rec:"), len(k.Links))
	}
	op, ok := ops[k.Op]
	if !ok {
		return "harness: unknown op " + k.Op, ""
	}
	stmts, expect := chain(k.Links, op, k.Layout, k.LinkL)
	src = Render(stmts)
	th := &starlark.Thread{Name: "c16"}
	_, err := starlark.ExecFileOptions(fileOpts, th, "p.star", src, hostPredeclared())
	if err == nil {
		return "harness: program did not fail", src
	}
	var ee *starlark.EvalError
	if !errors.As(err, &ee) {
		return "harness: static error: " + err.Error(), src
	}
	want := expect()
	got := ee.CallStack
	show := func() string {
		var a, b []string
		for _, f := range got {
			a = append(a, fmt.Sprintf("%s@%d:%d", f.Name, f.Pos.Line, f.Pos.Col))
		}
		for _, f := range want {
			if f.Builtin {
				b = append(b, f.Name+"@builtin")
			} else {
				b = append(b, fmt.Sprintf("%s@%d:%d", f.Name, f.Pos.Line, f.Pos.Col))
			}
		}
		return fmt.Sprintf("reported [%s], true [%s] (%s)", strings.Join(a, " "), strings.Join(b, " "), ee.Msg)
	}
	if len(got) != len(want) {
		return "call stack has the wrong number of frames: " + show(), src
	}
	for i := range want {
		if got[i].Name != want[i].Name {
			return fmt.Sprintf("frame %d names the wrong function: %s", i, show()), src
		}
		if want[i].Builtin {
			if got[i].Pos.Line != 0 && got[i].Pos.Filename() != "<builtin>" {
				return fmt.Sprintf("frame %d should be a built-in frame: %s", i, show()), src
			}
			continue
		}
		if got[i].Pos.Filename() != "p.star" || got[i].Pos.Line != want[i].Pos.Line || got[i].Pos.Col != want[i].Pos.Col {
			return fmt.Sprintf("frame %d has the wrong position: %s", i, show()), src
		}
	}
	// Backtrace must list the same frames in the same order
	bt := ee.Backtrace()
	idx := 0
	for _, f := range want {
		var needle string
		if f.Builtin {
			needle = "in " + f.Name
		} else {
			needle = fmt.Sprintf("p.star:%d:%d: in %s", f.Pos.Line, f.Pos.Col, f.Name)
		}
		j := strings.Index(bt[idx:], needle)
		if j < 0 {
			return fmt.Sprintf("Backtrace() does not list %q in order: %q", needle, bt), src
		}
		idx += j + len(needle)
	}
	return "", src
}

// ---------------------------------------------------------------------------
// enumeration

var colBoundary = []int{0, 1, 29, 30, 31, 32, 33, 34, 61, 62, 63, 64, 65, 66}
var lineBoundary = []int{0, 1, 14, 15, 16, 17, 30, 31, 32, 33}
var fillBoundary = []int{0, 1, 5, 6, 7, 8, 9, 14, 15, 16, 17}

func enumerate(thorough bool, yield func(level string, k kase) bool) {
	ops := allFailOps()
	zero := layout{}
	// level 1: every op, every chain depth 1..8 with each link kind, canonical layout
	for _, op := range ops {
		for d := 1; d <= 8; d++ {
			for _, lk := range linkKinds {
				links := make([]string, d-1)
				for i := range links {
					links[i] = lk
				}
				if !yield("L1:ops x depth 1-8 x uniform link kind", kase{Links: links, Op: op.name, Layout: zero, LinkL: zero}) {
					return
				}
				if d == 1 {
					break
				}
			}
		}
	}
	// level 2: all link-kind sequences of length <= 2 (3 thorough), every op
	maxSeq := 2
	if thorough {
		maxSeq = 3
	}
	var seqs [][]string
	var rec func(cur []string)
	rec = func(cur []string) {
		if len(cur) > 0 {
			seqs = append(seqs, append([]string(nil), cur...))
		}
		if len(cur) == maxSeq {
			return
		}
		for _, lk := range linkKinds {
			rec(append(cur, lk))
		}
	}
	rec(nil)
	for _, op := range ops {
		for _, s := range seqs {
			if !yield("L2:ops x all link sequences", kase{Links: s, Op: op.name, Layout: zero, LinkL: zero}) {
				return
			}
		}
	}
	// level 3: two-row windows: all combinations of column and line boundaries for the
	// operator token and the right operand
	for _, op := range ops {
		for _, p1 := range colBoundary {
			for _, p2 := range colBoundary {
				for _, n1 := range lineBoundary {
					for _, n2 := range lineBoundary {
						if !thorough && n1 > 17 && n2 > 17 {
							continue
						}
						l := layout{P1: p1, P2: p2, N1: n1, N2: n2}
						if !yield("L3:ops x col boundaries^2 x line boundaries^2", kase{Links: []string{"direct"}, Op: op.name, Layout: l, LinkL: zero}) {
							return
						}
					}
				}
			}
		}
	}
	// level 4: pc distance (filler constants inside the expression and filler statements
	// before it) x column and line boundaries
	for _, op := range ops {
		for _, k := range fillBoundary {
			for _, f := range []int{0, 3, 7, 8} {
				for _, p1 := range []int{0, 31, 32, 33, 64} {
					for _, n1 := range []int{0, 15, 16, 17} {
						l := layout{P1: p1, N1: n1, K: k, Fill: f, Lines: n1}
						if !yield("L4:ops x pc fillers x boundaries", kase{Links: []string{"direct"}, Op: op.name, Layout: l, LinkL: zero}) {
							return
						}
					}
				}
			}
		}
	}
	// level 5: the same boundaries on the calling frames (links), 3-row chains
	for _, lk := range linkKinds {
		for _, p1 := range colBoundary {
			for _, n1 := range lineBoundary {
				for _, f := range []int{0, 7, 8, 16} {
					ll := layout{P1: p1, N1: n1, Fill: f, Lines: n1}
					for _, op := range []string{"binary", "attr", "fail", "cond-then"} {
						if !yield("L5:link layouts", kase{Links: []string{lk, "direct", lk}, Op: op, Layout: layout{P1: p1, N2: n1}, LinkL: ll}) {
							return
						}
					}
				}
			}
		}
	}
	// level 6: extremes: column 10^4, line gaps 10^5, thousands of instructions
	for _, op := range ops {
		for _, l := range []layout{
			{P1: 10000}, {P2: 10000}, {P1: 10000, P2: 10000}, {N1: 1000}, {N2: 1000}, {Lines: 100000}, {Lines: 100000, P1: 10000},
			{Fill: 3000}, {K: 200}, {Fill: 3000, Lines: 40, P1: 70, N1: 40}, {K: 200, P2: 500, N2: 200},
		} {
			if !yield("L6:extremes", kase{Links: []string{"direct", "lambda"}, Op: op.name, Layout: l, LinkL: layout{Lines: l.Lines, Fill: l.Fill / 10, P1: l.P1}}) {
				return
			}
		}
	}
	// level 6b: the statements that precede the failing operation (and the calls on the way to
	// it) are destructuring loops, comprehensions and assignments or conditional expressions
	for _, op := range ops {
		for kind := 1; kind <= 4; kind++ {
			for _, f := range []int{1, 2, 3, 9} {
				l := layout{Fill: f, FillKind: kind}
				if !yield("L6b:preceding statements of every shape", kase{Links: []string{"direct"}, Op: op.name, Layout: l, LinkL: l}) {
					return
				}
			}
		}
	}
	// level 6c: multi-byte characters to the left of the failing operation and of the calls
	for _, op := range ops {
		for _, lk := range linkKinds {
			for _, p1 := range []int{0, 1, 31, 63} {
				for _, k := range []int{0, 3} {
					l := layout{W: 1, P1: p1, K: k}
					if !yield("L6c:multi-byte text to the left of the operation", kase{Links: []string{lk}, Op: op.name, Layout: l, LinkL: layout{W: 1, P1: p1}}) {
						return
					}
				}
			}
		}
	}
	// level 7: state left in a compiled function by earlier position queries: every ordered
	// pair and triple (quadruple: thorough) of failing operations of one function, and
	// recursive activations of one function suspended at different operations
	maxOrder := 3
	if thorough {
		maxOrder = 4
	}
	for _, sv := range seqVariants() {
		_, _, _, nops := sv.build()
		var rec func(cur []string) bool
		rec = func(cur []string) bool {
			if len(cur) > 0 {
				if !yield("L7:repeated and recursive position queries on one function", kase{Links: append([]string(nil), cur...), Op: "seq:" + sv.name}) {
					return false
				}
			}
			if len(cur) == maxOrder {
				return true
			}
			for i := 0; i < nops; i++ {
				if !rec(append(cur, fmt.Sprint(i))) {
					return false
				}
			}
			return true
		}
		if !rec(nil) {
			return
		}
	}
	for _, v := range probeVariants {
		if !yield("L7:repeated and recursive position queries on one function", kase{Op: "probe:" + v, Layout: layout{Lines: 1}}) {
			return
		}
	}
	for _, v := range loadVariants {
		if !yield("L7:repeated and recursive position queries on one function", kase{Op: "load:" + v, Layout: layout{Lines: 1}}) {
			return
		}
	}
	for _, shape := range []string{"call-then-fail", "fail-before-call", "same-expression"} {
		for d := 0; d <= 6; d++ {
			if !yield("L7:repeated and recursive position queries on one function", kase{Links: make([]string, d), Op: "rec:" + shape}) {
				return
			}
		}
	}
}

func worker(c *fw.Ctx) *fw.Stats {
	st := fw.NewStats()
	ops := map[string]failOp{}
	for _, o := range allFailOps() {
		ops[o.name] = o
	}
	var idx, mine int64 = -1, 0
	nviol := 0
	cur := ""
	cut := false
	enumerate(c.Thorough(), func(level string, k kase) bool {
		idx++
		if level != cur {
			if cur != "" && c.Shard == 0 {
				st.Levels = append(st.Levels, cur)
			}
			cur = level
		}
		if !c.Mine(idx) {
			return true
		}
		mine++
		if mine%128 == 0 && c.Expired() {
			cut = true
			return false
		}
		msg, src := checkCase(k, ops)
		st.Evals++
		if (k.Layout != layout{}) || (k.LinkL != layout{}) {
			// the position table has to encode at least one non-default delta
			st.Nontrivial++
		} else {
			st.Count("cases_in_default_layout", 1)
		}
		st.Outcome(k.Op + "/" + fmt.Sprint(len(k.Links)))
		if idx%20011 == 0 {
			s := src
			if len(s) > 400 {
				s = s[:400] + "..."
			}
			st.Sample(map[string]any{"case": k.key(), "source": s})
		}
		if msg != "" && nviol < 15 {
			nviol++
			st.Violate(k.key(), msg, k)
		}
		return true
	})
	if c.Shard == 0 {
		if cut {
			st.Cut = append(st.Cut, cur)
		} else if cur != "" {
			st.Levels = append(st.Levels, cur)
		}
		st.Count("cases_enumerated", idx+1)
	}
	return st
}

func run(c *fw.Ctx) *fw.Stats { return c.Sharded(0, nil) }

func replay(c *fw.Ctx, raw json.RawMessage) []fw.Viol {
	var k kase
	if err := json.Unmarshal(raw, &k); err != nil {
		fw.Fatal("bad case: %v", err)
	}
	ops := map[string]failOp{}
	for _, o := range allFailOps() {
		ops[o.name] = o
	}
	if msg, _ := checkCase(k, ops); msg != "" {
		return []fw.Viol{{Key: k.key(), What: msg}}
	}
	return nil
}

func init() {
	fw.Register(&fw.Prop{
		ID:    "C16",
		Level: "exploration",
		Rule: "call chains of depth 1-8 (links: direct call, lambda, comprehension, sorted/max key callback, call as method argument; all link sequences up to a length) x 26 failing operation kinds (incl. free variables read before assignment in a nested def / lambda / key callback) x layouts; the statements that precede the failing operation in destructuring/comprehension/conditional shapes; every ordered pair and triple of failing operations of ONE compiled function on one thread (3 variants), recursive activations of one function (3 shapes x depth 0-6), a module loaded on the same thread failing (5 importer shapes); layouts: " +
			"all combinations of column boundaries {0,1,29..34,61..66} and line-break boundaries {0,1,14..17,30..33} for the operator token and the right operand (two-row windows), pc fillers {0..17 constants, 0..8 statements}, the same on calling frames, and extremes (column 10^4, 10^5 blank lines, 3000 instructions); " +
			"oracle: every CallStack frame names the right function at exactly the (line, col) where the renderer wrote the call's '(' or the failing operator token, built-in frames in place, Backtrace() lists the same frames in order; every case fails and is compared frame by frame; non-trivial = cases (all distinct by construction) whose failing or calling frame is rendered in a non-default layout, i.e. whose position table has to encode at least one non-minimal line/column/pc delta",
		Run: run, Worker: worker, Replay: replay,
		Assumptions: []string{
			"the failure position of an operation is the start of its operator token (binary/unary operator, '(' of a call, '[' of index/slice, '.' of attribute, ':' of a dict entry, '=' or 'for' of an unpack, identifier of an unbound variable); for 'not in' the position of 'in'",
			"argument-binding failures are not enumerated as position obligations (DESIGN §9)",
		},
		BudgetQuick: 60, BudgetThorough: 900,
	})
}
