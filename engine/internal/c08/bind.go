package c08

import (
	"fmt"
	"sort"
	"strings"
)

// ---------------------------------------------------------------------------
// Alphabet of names.  Positional parameters are a, b, c; keyword-only
// parameters k, m; the variadic parameters are called args and kw; u and v are
// never declared.

var allNames = []string{"a", "b", "c", "k", "m", "args", "kw", "u", "v"}

func nameIndex(n string) int {
	for i, x := range allNames {
		if x == n {
			return i
		}
	}
	panic("unknown name " + n)
}

var posNames = []string{"a", "b", "c"}
var kwoNames = []string{"k", "m"}

// default value of a declared parameter / value of a named argument / value in **d.
func defaultOf(name string) int { return 100 + nameIndex(name) }
func namedVal(name string) int  { return 10 + nameIndex(name) }
func dictVal(name string) int   { return 40 + nameIndex(name) }

const nonStringKeyVal = 31

// ---------------------------------------------------------------------------
// signatures

const (
	starNone = 0
	starBare = 1
	starArgs = 2
)

// Sig is a function signature:
//
//	def f(<NPos positional, first NReq required>, [* | *args], <KwReq keyword-only>, [**kw])
type Sig struct {
	NPos   int    `json:"npos"`
	NReq   int    `json:"nreq"`
	Star   int    `json:"star"`
	KwReq  []bool `json:"kwreq"` // per keyword-only parameter: required?
	Kwargs bool   `json:"kwargs"`
}

func (s Sig) nparams() int {
	n := s.NPos + len(s.KwReq)
	if s.Star == starArgs {
		n++
	}
	if s.Kwargs {
		n++
	}
	return n
}

// params renders the parameter list and the tuple of all parameters.
func (s Sig) params() (plist string, ret string) {
	var ps, rs []string
	for i := 0; i < s.NPos; i++ {
		n := posNames[i]
		if i < s.NReq {
			ps = append(ps, n)
		} else {
			ps = append(ps, fmt.Sprintf("%s=%d", n, defaultOf(n)))
		}
		rs = append(rs, n)
	}
	switch s.Star {
	case starBare:
		ps = append(ps, "*")
	case starArgs:
		ps = append(ps, "*args")
		rs = append(rs, "args")
	}
	for i, req := range s.KwReq {
		n := kwoNames[i]
		if req {
			ps = append(ps, n)
		} else {
			ps = append(ps, fmt.Sprintf("%s=%d", n, defaultOf(n)))
		}
		rs = append(rs, n)
	}
	if s.Kwargs {
		ps = append(ps, "**kw")
		rs = append(rs, "kw")
	}
	ret = "(" + strings.Join(rs, ", ")
	if len(rs) == 1 {
		ret += ","
	}
	ret += ")"
	return strings.Join(ps, ", "), ret
}

func (s Sig) DefText() string {
	p, r := s.params()
	return "def f(" + p + "): return " + r
}

func (s Sig) LambdaText() string {
	p, r := s.params()
	if p != "" {
		p = " " + p
	}
	return "g = lambda" + p + ": " + r
}

// declared returns the names a call may sensibly mention: every declared
// parameter name (including args and kw themselves) plus the two undeclared ones.
func (s Sig) universe() []string {
	var u []string
	u = append(u, posNames[:s.NPos]...)
	u = append(u, kwoNames[:len(s.KwReq)]...)
	if s.Star == starArgs {
		u = append(u, "args")
	}
	if s.Kwargs {
		u = append(u, "kw")
	}
	u = append(u, "u", "v")
	sort.Slice(u, func(i, j int) bool { return nameIndex(u[i]) < nameIndex(u[j]) })
	return u
}

// allSigs enumerates every signature of the bound, simplest (fewest
// parameters) first.
func allSigs() []Sig {
	var out []Sig
	kwos := [][]bool{{}, {true}, {false}, {true, true}, {true, false}, {false, true}, {false, false}}
	for npos := 0; npos <= 3; npos++ {
		for nreq := 0; nreq <= npos; nreq++ {
			for star := 0; star <= 2; star++ {
				for _, kwo := range kwos {
					if star == starNone && len(kwo) > 0 {
						continue // keyword-only parameters need a star
					}
					if star == starBare && len(kwo) == 0 {
						continue // static error: bare * needs keyword-only parameters
					}
					for _, kw := range []bool{false, true} {
						out = append(out, Sig{NPos: npos, NReq: nreq, Star: star, KwReq: append([]bool{}, kwo...), Kwargs: kw})
					}
				}
			}
		}
	}
	sort.SliceStable(out, func(i, j int) bool { return out[i].nparams() < out[j].nparams() })
	return out
}

// ---------------------------------------------------------------------------
// calls

// Call is a call  f(1, .., NPos, n1=.., n2=.., *Seq, **Dict).
type Call struct {
	NPos  int      `json:"npos"`
	Named []string `json:"named"`
	Seq   int      `json:"seq"`  // -1: no *seq; else its length (values 21, 22, 23)
	Dict  int      `json:"dict"` // dictAbsent, dictEmpty, dictNonString, or dictName+i for {allNames[i]: 40+i}
}

const (
	dictAbsent    = 0
	dictEmpty     = 1
	dictNonString = 2
	dictName      = 3
)

func (c Call) shapeKey() string {
	return fmt.Sprintf("%d|%s|%v|%v", c.NPos, strings.Join(c.Named, ","), c.Seq >= 0, c.Dict != dictAbsent)
}

// argText renders the argument list of the call as it appears in the source
// of the call shape.
func (c Call) argText() string {
	var as []string
	for i := 1; i <= c.NPos; i++ {
		as = append(as, fmt.Sprint(i))
	}
	for _, n := range c.Named {
		as = append(as, fmt.Sprintf("%s=%d", n, namedVal(n)))
	}
	if c.Seq >= 0 {
		as = append(as, "*s")
	}
	if c.Dict != dictAbsent {
		as = append(as, "**d")
	}
	return strings.Join(as, ", ")
}

func (c Call) seqVals() []int {
	var v []int
	for i := 0; i < c.Seq; i++ {
		v = append(v, 21+i)
	}
	return v
}

// String renders the call with the values of s and d written out.
func (c Call) String() string {
	t := "f(" + c.argText() + ")"
	if c.Seq >= 0 {
		t += fmt.Sprintf(" s=%v", c.seqVals())
	}
	switch {
	case c.Dict == dictEmpty:
		t += " d={}"
	case c.Dict == dictNonString:
		t += fmt.Sprintf(" d={1: %d}", nonStringKeyVal)
	case c.Dict >= dictName:
		n := allNames[c.Dict-dictName]
		t += fmt.Sprintf(" d={%q: %d}", n, dictVal(n))
	}
	return t
}

// subsets of xs of size <= k, in lexicographic position order, smallest first.
func subsets(xs []string, k int) [][]string {
	out := [][]string{{}}
	var rec func(start int, cur []string)
	for size := 1; size <= k; size++ {
		rec = func(start int, cur []string) {
			if len(cur) == size {
				out = append(out, append([]string{}, cur...))
				return
			}
			for i := start; i < len(xs); i++ {
				rec(i+1, append(cur, xs[i]))
			}
		}
		rec(0, nil)
	}
	return out
}

func reversed(xs []string) []string {
	r := make([]string, len(xs))
	for i, x := range xs {
		r[len(xs)-1-i] = x
	}
	return r
}

// callsFor enumerates every call of the bound for one signature and one number
// of positional values.  With rev, named subsets of two or more names are also
// tried in reverse order.
func callsFor(s Sig, npos int, rev bool) []Call {
	u := s.universe()
	var out []Call
	var nameds [][]string
	for _, sub := range subsets(u, 3) {
		nameds = append(nameds, sub)
		if rev && len(sub) >= 2 {
			nameds = append(nameds, reversed(sub))
		}
	}
	dicts := []int{dictAbsent, dictEmpty, dictNonString}
	for _, n := range u {
		dicts = append(dicts, dictName+nameIndex(n))
	}
	for _, named := range nameds {
		for seq := -1; seq <= 3; seq++ {
			for _, d := range dicts {
				out = append(out, Call{NPos: npos, Named: named, Seq: seq, Dict: d})
			}
		}
	}
	return out
}

// ---------------------------------------------------------------------------
// reference binder, written from doc/spec.md § Functions and § Function
// definitions:
//
//   * positional arguments (explicit ones, then the elements of *seq) are
//     assigned to the positional parameters in order; surplus ones are formed
//     into a tuple for *args, and are an error without *args (keyword-only
//     parameters can never be given positionally);
//   * each named argument (explicit ones, then the entries of **d in order) is
//     assigned to the parameter of that name; a parameter given twice is a
//     dynamic error; a name that is not a parameter goes into the new **kwargs
//     dictionary, and is an error without **kwargs; two surplus arguments of the
//     same name are an error ("may yet have two values for the same name");
//   * a key of **d that is not a string cannot name anything: error;
//   * parameters still unassigned take their default; a required parameter
//     without a value is an error.
//
// The result is the canonical rendering of the tuple of all parameters in
// declaration order, or ok=false.

type kv struct {
	k string
	v int
}

func refBind(s Sig, c Call) (result string, ok bool) {
	// flatten the call
	var pos []int
	for i := 1; i <= c.NPos; i++ {
		pos = append(pos, i)
	}
	pos = append(pos, c.seqVals()...)
	var named []kv
	for _, n := range c.Named {
		named = append(named, kv{n, namedVal(n)})
	}
	switch {
	case c.Dict == dictNonString:
		return "", false
	case c.Dict >= dictName:
		n := allNames[c.Dict-dictName]
		named = append(named, kv{n, dictVal(n)})
	}
	return refBindFlat(s, pos, named)
}

func refBindFlat(s Sig, pos []int, named []kv) (string, bool) {
	type slot struct {
		name     string
		set      bool
		val      int
		required bool
		kwonly   bool
	}
	var slots []*slot
	for i := 0; i < s.NPos; i++ {
		slots = append(slots, &slot{name: posNames[i], required: i < s.NReq})
	}
	for i, req := range s.KwReq {
		slots = append(slots, &slot{name: kwoNames[i], required: req, kwonly: true})
	}
	var varargs []int
	// positional
	pi := 0
	for _, sl := range slots {
		if sl.kwonly || pi >= len(pos) {
			break
		}
		sl.set, sl.val = true, pos[pi]
		pi++
	}
	if pi < len(pos) {
		if s.Star != starArgs {
			return "", false
		}
		varargs = pos[pi:]
	}
	// named
	var surplus []kv
	for _, a := range named {
		var target *slot
		for _, sl := range slots {
			if sl.name == a.k {
				target = sl
			}
		}
		if target != nil {
			if target.set {
				return "", false
			}
			target.set, target.val = true, a.v
			continue
		}
		if !s.Kwargs {
			return "", false
		}
		for _, e := range surplus {
			if e.k == a.k {
				return "", false
			}
		}
		surplus = append(surplus, a)
	}
	// defaults
	for _, sl := range slots {
		if !sl.set {
			if sl.required {
				return "", false
			}
			sl.set, sl.val = true, defaultOf(sl.name)
		}
	}
	// render in declaration order: positional, *args, keyword-only, **kw
	var parts []string
	for _, sl := range slots {
		if !sl.kwonly {
			parts = append(parts, fmt.Sprint(sl.val))
		}
	}
	if s.Star == starArgs {
		var es []string
		for _, v := range varargs {
			es = append(es, fmt.Sprint(v))
		}
		parts = append(parts, "("+strings.Join(es, ",")+")")
	}
	for _, sl := range slots {
		if sl.kwonly {
			parts = append(parts, fmt.Sprint(sl.val))
		}
	}
	if s.Kwargs {
		var es []string
		for _, e := range surplus {
			es = append(es, fmt.Sprintf("%s:%d", e.k, e.v))
		}
		parts = append(parts, "{"+strings.Join(es, ",")+"}")
	}
	return "(" + strings.Join(parts, ",") + ")", true
}
