// Package c08 decides C08: arguments bind to parameters exactly as specified.
//
// Shape E.  Part 1 enumerates every signature of the bound and every call of
// the bound; the call is compiled from Starlark source (so that the CALL,
// CALL_VAR, CALL_KW and CALL_VAR_KW opcodes flatten the arguments) and repeated
// through starlark.Call; the callee returns the tuple of all its parameters.
// Oracle 1 is a binder written from doc/spec.md, oracle 2 is CPython evaluating
// the same def and call text (one batch process per shard).  Part 2 enumerates
// UnpackArgs / UnpackPositionalArgs specs and calls against a reader of the
// UnpackArgs doc comment, with every variable pre-seeded with a sentinel.
package c08

import (
	"bufio"
	"bytes"
	"encoding/json"
	"fmt"
	"os"
	"os/exec"
	"runtime"
	"runtime/debug"
	"runtime/pprof"
	"sort"
	"strings"
	"time"

	"go.starlark.net/starlark"
	"go.starlark.net/syntax"

	"verif/internal/fw"
)

// ---------------------------------------------------------------------------
// python batch

type pyProc struct {
	cmd *exec.Cmd
	in  *bufio.Writer
	out *bufio.Reader
}

// pythonPath resolves the real interpreter once (a pyenv shim costs seconds
// per start on a loaded machine).
func pythonPath() string {
	if p := os.Getenv("VERIF_PYTHON"); p != "" {
		return p
	}
	out, err := exec.Command("python3", "-S", "-c", "import sys;print(sys.executable)").Output()
	if err != nil {
		return ""
	}
	return strings.TrimSpace(string(out))
}

func startPython(path string) (*pyProc, error) {
	if path == "" {
		return nil, fmt.Errorf("python3 not found")
	}
	cmd := exec.Command(path, "-S", fw.EngineDir()+"/internal/c08/pyoracle.py")
	stdin, err := cmd.StdinPipe()
	if err != nil {
		return nil, err
	}
	stdout, err := cmd.StdoutPipe()
	if err != nil {
		return nil, err
	}
	if err := cmd.Start(); err != nil {
		return nil, err
	}
	return &pyProc{cmd: cmd, in: bufio.NewWriterSize(stdin, 1<<20), out: bufio.NewReaderSize(stdout, 1<<20)}, nil
}

func (p *pyProc) send(v any) error {
	b, _ := json.Marshal(v)
	if _, err := p.in.Write(append(b, '\n')); err != nil {
		return err
	}
	return nil
}

func (p *pyProc) recv() (map[string][]string, error) {
	if err := p.in.Flush(); err != nil {
		return nil, err
	}
	line, err := p.out.ReadBytes('\n')
	if err != nil {
		return nil, err
	}
	var r map[string][]string
	if err := json.Unmarshal(line, &r); err != nil {
		return nil, err
	}
	return r, nil
}

func (p *pyProc) close() {
	p.in.Flush()
	p.cmd.Process.Kill()
	p.cmd.Wait()
}

// ---------------------------------------------------------------------------
// environment of one worker

type env struct {
	th       *starlark.Thread
	shapes   map[string]starlark.Value
	shapeIDs map[string]int
	py       *pyProc
	pyErr    error
}

func newEnv(python string) *env {
	withPython := python != ""
	e := &env{th: &starlark.Thread{Name: "c08"}, shapes: map[string]starlark.Value{}, shapeIDs: map[string]int{}}
	if withPython && os.Getenv("VERIF_C08_NOPY") == "" {
		e.py, e.pyErr = startPython(python)
	}
	return e
}

func (e *env) close() {
	if e.py != nil {
		e.py.close()
	}
}

func shapeSrc(c Call) string {
	return "def call(f, s, d): return f(" + c.argText() + ")\n"
}

// shape2Src: the same call made twice by one caller, with other work on the
// caller's operand stack in between; both results are kept and returned, so
// that a binding that hands the callee storage it shares with the caller
// (the *args tuple, the **kwargs dict) shows when the first result is looked
// at after the second call.
func shape2Src(c Call) string {
	a := c.argText()
	return "def call2(f, s, d):\n    r1 = f(" + a + ")\n    w = [7, 8, 9, (10, 11)]\n    r2 = f(" + a + ")\n    w2 = {12: 13, 14: [15, 16, 17]}\n    return (r1, r2)\n"
}

func (e *env) shape2(c Call) starlark.Value {
	k := "2|" + c.shapeKey()
	if v, ok := e.shapes[k]; ok {
		return v
	}
	g, err := starlark.ExecFileOptions(&syntax.FileOptions{}, e.th, "shape2.star", shape2Src(c), nil)
	if err != nil {
		fw.Fatal("c08: call shape %q does not compile: %v", shape2Src(c), err)
	}
	e.shapes[k] = g["call2"]
	return g["call2"]
}

// shape returns the compiled call shape for c (compiling it on first use and
// defining it in the Python process).
func (e *env) shape(c Call) (starlark.Value, int) {
	k := c.shapeKey()
	if v, ok := e.shapes[k]; ok {
		return v, e.shapeIDs[k]
	}
	src := shapeSrc(c)
	g, err := starlark.ExecFileOptions(&syntax.FileOptions{}, e.th, "shape.star", src, nil)
	if err != nil {
		fw.Fatal("c08: call shape %q does not compile: %v", src, err)
	}
	id := len(e.shapes)
	e.shapes[k] = g["call"]
	e.shapeIDs[k] = id
	if e.py != nil {
		if err := e.py.send(map[string]any{"op": "shape", "id": id, "src": src}); err != nil {
			e.pyErr = err
		}
	}
	return g["call"], id
}

func compileSig(th *starlark.Thread, s Sig) (f, g starlark.Value) {
	src := s.DefText() + "\n" + s.LambdaText() + "\n"
	gl, err := starlark.ExecFileOptions(&syntax.FileOptions{}, th, "sig.star", src, nil)
	if err != nil {
		fw.Fatal("c08: signature %q does not compile: %v", src, err)
	}
	// the same definitions in a program that was written and read back
	clear(reloadedOf)
	if _, p, err := starlark.SourceProgramOptions(&syntax.FileOptions{}, "sig.star", src, func(string) bool { return false }); err == nil {
		var buf bytes.Buffer
		if err := p.Write(&buf); err == nil {
			if p2, err := starlark.CompiledProgram(&buf); err == nil {
				if g2, err := p2.Init(th, nil); err == nil {
					reloadedOf[gl["f"]] = g2["f"]
				}
			}
		}
	}
	return gl["f"], gl["g"]
}

// reloadedOf maps the def form of a signature to the same def of the program read back by CompiledProgram.
var reloadedOf = map[starlark.Value]starlark.Value{}

func mkSeq(c Call) starlark.Value {
	if c.Seq < 0 {
		return starlark.None
	}
	var es []starlark.Value
	for _, v := range c.seqVals() {
		es = append(es, starlark.MakeInt(v))
	}
	return starlark.NewList(es)
}

func mkDict(c Call) starlark.Value {
	switch {
	case c.Dict == dictAbsent:
		return starlark.None
	case c.Dict == dictEmpty:
		return starlark.NewDict(0)
	case c.Dict == dictNonString:
		d := starlark.NewDict(1)
		d.SetKey(starlark.MakeInt(1), starlark.MakeInt(nonStringKeyVal))
		return d
	}
	n := allNames[c.Dict-dictName]
	d := starlark.NewDict(1)
	d.SetKey(starlark.String(n), starlark.MakeInt(dictVal(n)))
	return d
}

func canonVal(v starlark.Value) string { return canonValDepth(v, 0) }

// (a value that has come to contain itself is cut off, not followed for ever)
func canonValDepth(v starlark.Value, depth int) string {
	if depth > 12 {
		return "<deeper than any value a binding can produce>"
	}
	canonVal := func(x starlark.Value) string { return canonValDepth(x, depth+1) }
	switch v := v.(type) {
	case starlark.Tuple:
		var es []string
		for _, x := range v {
			es = append(es, canonVal(x))
		}
		return "(" + strings.Join(es, ",") + ")"
	case *starlark.Dict:
		var es []string
		for _, it := range v.Items() {
			k, ok := it[0].(starlark.String)
			ks := string(k)
			if !ok {
				ks = "?" + it[0].String()
			}
			es = append(es, ks+":"+canonVal(it[1]))
		}
		return "{" + strings.Join(es, ",") + "}"
	case starlark.Int:
		return v.String()
	case nil:
		return "<nil>"
	case *starlark.List:
		var es []string
		for i := 0; i < v.Len(); i++ {
			es = append(es, canonVal(v.Index(i)))
		}
		return "?[" + strings.Join(es, ", ") + "]"
	}
	return "?" + v.String()
}

const failed = "F"

// safeCall calls fn and renders the outcome canonically ("F" for an error).
func safeCall(th *starlark.Thread, fn starlark.Value, args starlark.Tuple, kwargs []starlark.Tuple) (res string, ret starlark.Value, errText string) {
	defer func() {
		if r := recover(); r != nil {
			res, errText = "PANIC", fmt.Sprint(r)
		}
	}()
	v, err := starlark.Call(th, fn, args, kwargs)
	if err != nil {
		return failed, nil, err.Error()
	}
	return canonVal(v), v, ""
}

// BindCase identifies one binding case for replay.
type BindCase struct {
	Part string `json:"part"` // "bind" | "unpack" | "builtin"
	Sig  *Sig   `json:"sig,omitempty"`
	Call *Call  `json:"call,omitempty"`
	U    *UCase `json:"u,omitempty"`
	Spec []int  `json:"spec,omitempty"` // builtin part: markers
}

type finding struct {
	kind string
	key  string
	what string
	c    BindCase
}

// checkBind runs one (signature, call) case through every path and compares
// with the reference binder and, if given, the CPython results.
func (e *env) checkBind(s Sig, f, g starlark.Value, c Call, pyDef, pyLam string, st *fw.Stats) []finding {
	var out []finding
	want, ok := refBind(s, c)
	if !ok {
		want = failed
	}
	shape, _ := e.shape(c)
	bc := BindCase{Part: "bind", Sig: &s, Call: &c}
	report := func(kind string, lam bool, via, got, detail string) {
		fnText := s.DefText()
		if lam {
			fnText = s.LambdaText()
		}
		key := fmt.Sprintf("%s:%s <- %s", kind, fnText, c.String())
		out = append(out, finding{kind, key, fmt.Sprintf("%s: %s gives %s, %s (%s)", via, c.String(), got, detail, fnText), bc})
	}
	for vi, fn := range []starlark.Value{f, g} {
		fnText := vi == 1
		py := pyDef
		if vi == 1 {
			py = pyLam
		}
		// 1. compiled call
		sv, dv := mkSeq(c), mkDict(c)
		got, ret, etext := safeCall(e.th, shape, starlark.Tuple{fn, sv, dv}, nil)
		if st != nil {
			st.Evals++
		}
		if got != want {
			report("bind-src", fnText, "compiled call", got, fmt.Sprintf("specification says %s; err=%q", want, etext))
		}
		if rf := reloadedOf[fn]; rf != nil {
			gotR, _, etextR := safeCall(e.th, shape, starlark.Tuple{rf, mkSeq(c), mkDict(c)}, nil)
			if st != nil {
				st.Evals++
			}
			if gotR != want {
				report("bind-reloaded", fnText, "compiled call of the function of the program written and read back", gotR, fmt.Sprintf("specification says %s; err=%q", want, etextR))
			}
		}
		// the same call twice from one caller, both results kept
		if want != failed {
			_, ret2, etext2 := safeCall(e.th, e.shape2(c), starlark.Tuple{fn, mkSeq(c), mkDict(c)}, nil)
			if st != nil {
				st.Evals++
			}
			if t2, ok := ret2.(starlark.Tuple); !ok || len(t2) != 2 || canonVal(t2[0]) != want || canonVal(t2[1]) != want {
				desc := etext2
				if ok && len(t2) == 2 {
					desc = canonVal(t2[0]) + " and " + canonVal(t2[1])
				}
				report("bind-retained", fnText, "the call made twice by one caller, results looked at afterwards", desc, fmt.Sprintf("specification says %s both times", want))
			}
		}
		if py != "" && py != "S" && got != py {
			report("bind-py", fnText, "compiled call", got, fmt.Sprintf("CPython gives %s for the same text (reference binder: %s)", py, want))
		}
		// the ** dictionary is only read, and kw is a new dictionary
		if d, isDict := dv.(*starlark.Dict); isDict {
			wantLen := 0
			if c.Dict >= dictNonString {
				wantLen = 1
			}
			if d.Len() != wantLen {
				report("bind-alias", fnText, "compiled call", got, "the caller's ** dictionary was modified")
			}
			if tup, isTuple := ret.(starlark.Tuple); isTuple && s.Kwargs && len(tup) > 0 {
				if kd, isDict := tup[len(tup)-1].(*starlark.Dict); isDict && kd == d {
					report("bind-alias", fnText, "compiled call", got, "kw is the caller's ** dictionary, not a new one")
				}
			}
		}
		if l, isList := sv.(*starlark.List); isList && l.Len() != c.Seq {
			report("bind-alias", fnText, "compiled call", got, "the caller's * sequence was modified")
		}
		// 2. Go API with the flattened arguments (keys must be strings there)
		if c.Dict != dictNonString {
			var args starlark.Tuple
			for i := 1; i <= c.NPos; i++ {
				args = append(args, starlark.MakeInt(i))
			}
			for _, v := range c.seqVals() {
				args = append(args, starlark.MakeInt(v))
			}
			var kwargs []starlark.Tuple
			for _, n := range c.Named {
				kwargs = append(kwargs, starlark.Tuple{starlark.String(n), starlark.MakeInt(namedVal(n))})
			}
			if c.Dict >= dictName {
				n := allNames[c.Dict-dictName]
				kwargs = append(kwargs, starlark.Tuple{starlark.String(n), starlark.MakeInt(dictVal(n))})
			}
			got2, retAPI, etext2 := safeCall(e.th, fn, args, kwargs)
			if st != nil {
				st.Evals++
			}
			if got2 != want {
				report("bind-api", fnText, "starlark.Call", got2, fmt.Sprintf("specification says %s; err=%q", want, etext2))
			}
			// The host owns the arrays it passed to starlark.Call and reuses them for
			// its next call (as min/max do with their key function): what the callee
			// bound and returned must not change with them.
			if want != failed && retAPI != nil {
				for i := range args {
					args[i] = starlark.MakeInt(-99)
				}
				for i := range kwargs {
					kwargs[i][0], kwargs[i][1] = starlark.String("zz"), starlark.MakeInt(-98)
					kwargs[i] = starlark.Tuple{starlark.String("yy"), starlark.MakeInt(-97)}
				}
				if after := canonVal(retAPI); after != want {
					report("bind-api-retained", fnText, "starlark.Call, then the host reuses its argument arrays", after, fmt.Sprintf("specification says %s (what the call returned before the arrays were reused)", want))
				}
			}
		}
	}
	if st != nil {
		st.Nontrivial++
		op := "CALL"
		if c.Seq >= 0 {
			op += "_VAR"
		}
		if c.Dict != dictAbsent {
			op += "_KW"
		}
		oc := "binds"
		if !ok {
			oc = "fails"
		}
		st.Outcome(op + ":" + oc)
		if pyDef != "" {
			st.Count("python_compared", 1)
		}
	}
	return out
}

// ---------------------------------------------------------------------------
// built-in implemented with UnpackArgs, called through compiled call shapes

var bNames = []string{"a", "b", "c"}

func mkBuiltin(spec []int) *starlark.Builtin {
	return starlark.NewBuiltin("bf", func(th *starlark.Thread, b *starlark.Builtin, args starlark.Tuple, kwargs []starlark.Tuple) (starlark.Value, error) {
		targets := make([]*target, len(spec))
		pairs := make([]any, 0, 2*len(spec))
		for i, m := range spec {
			targets[i] = newTarget(tValue)
			pairs = append(pairs, bNames[i]+markers[m], targets[i].ptr())
		}
		if err := starlark.UnpackArgs("bf", args, kwargs, pairs...); err != nil {
			return nil, err
		}
		var out []string
		for _, t := range targets {
			out = append(out, t.state())
		}
		return starlark.String(strings.Join(out, ";")), nil
	})
}

func (e *env) checkBuiltin(spec []int, c Call, st *fw.Stats) []finding {
	var ps []UParam
	for _, m := range spec {
		ps = append(ps, UParam{Marker: m, Type: tValue})
	}
	var flat []flatArg
	for i := 1; i <= c.NPos; i++ {
		flat = append(flat, flatArg{"", starlark.MakeInt(i)})
	}
	for _, v := range c.seqVals() {
		flat = append(flat, flatArg{"", starlark.MakeInt(v)})
	}
	for _, n := range c.Named {
		flat = append(flat, flatArg{n, starlark.MakeInt(namedVal(n))})
	}
	if c.Dict >= dictName {
		n := allNames[c.Dict-dictName]
		flat = append(flat, flatArg{n, starlark.MakeInt(dictVal(n))})
	}
	ok, wantStates, _ := refUnpack(bNames[:len(spec)], ps, flat)
	if len(c.seqVals())+c.NPos > len(spec) {
		ok = false
	}
	if c.Dict == dictNonString {
		ok = false
	}
	want := failed
	if ok {
		want = "?" + starlark.String(strings.Join(wantStates, ";")).String()
	}
	shape, _ := e.shape(c)
	got, _, etext := safeCall(e.th, shape, starlark.Tuple{mkBuiltin(spec), mkSeq(c), mkDict(c)}, nil)
	if st != nil {
		st.Evals++
		st.Nontrivial++
		oc := "binds"
		if !ok {
			oc = "fails"
		}
		st.Outcome("builtin:" + oc)
	}
	if got != want {
		var ms []string
		for i, m := range spec {
			ms = append(ms, fmt.Sprintf("%q", bNames[i]+markers[m]))
		}
		text := "UnpackArgs(" + strings.Join(ms, ", ") + ")"
		return []finding{{"builtin", fmt.Sprintf("builtin:%s <- %s", text, c.String()),
			fmt.Sprintf("built-in using %s called as %s gives %s, reference says %s; err=%q", text, c.String(), got, want, etext),
			BindCase{Part: "builtin", Spec: spec, Call: &c}}}
	}
	return nil
}

func builtinUniverse(n int) Sig {
	// a pseudo signature whose universe is the built-in's parameter names + u, v
	return Sig{NPos: n}
}

// ---------------------------------------------------------------------------
// worker

type limiter struct {
	perKind map[string]int
	st      *fw.Stats
}

func (l *limiter) add(fs []finding) {
	for _, f := range fs {
		l.st.Count("violating_cases:"+f.kind, 1)
		if l.perKind[f.kind] >= 3 {
			continue
		}
		l.perKind[f.kind]++
		l.st.Violate(f.key, f.what, f.c)
	}
}

func levelNames(thorough bool) []string {
	var ls []string
	for n := 0; n <= 7; n++ {
		ls = append(ls, fmt.Sprintf("bind:signatures-with-%d-params", n))
	}
	ls = append(ls, "builtin:UnpackArgs-through-compiled-calls", "unpackpos:n<=3", "unpack:n<=1", "unpack:n=2")
	if thorough {
		ls = append(ls, "unpack:n=3(all-types)")
	} else {
		ls = append(ls, "unpack:n=3(at-most-one-non-Value-variable)")
	}
	return ls
}

func worker(c *fw.Ctx) *fw.Stats {
	runtime.GOMAXPROCS(2)
	debug.SetGCPercent(400)
	if p := os.Getenv("VERIF_C08_PROF"); p != "" && c.Shard == 0 {
		f, _ := os.Create(p)
		pprof.StartCPUProfile(f)
		defer pprof.StopCPUProfile()
	}
	st := fw.NewStats()
	lim := &limiter{perKind: map[string]int{}, st: st}
	py := ""
	if len(c.Args) > 0 {
		py = c.Args[0]
	}
	if py == "" {
		py = pythonPath()
	}
	e := newEnv(py)
	defer e.close()
	if e.pyErr != nil {
		st.Inconcl = append(st.Inconcl, "python3 oracle unavailable: "+e.pyErr.Error())
		e.py = nil
	}
	levels := levelNames(c.Thorough())
	done := func(i int) { st.Count("leveldone:"+levels[i], 1) }
	cut := func(i int) *fw.Stats {
		st.Count("levelcut:"+levels[i], 1)
		return st
	}

	// Part 1: def/lambda binding.  It may use at most 60% of the budget, so
	// that on a slow machine the UnpackArgs levels are still reached.
	bindDeadline := time.Now().Add(time.Until(c.Deadline) * 6 / 10)
	bindCut := false
	sigs := allSigs()
	unit := int64(0)
	sampled := false
	for lvl := 0; lvl <= 7 && !bindCut; lvl++ {
		for _, s := range sigs {
			if s.nparams() != lvl {
				continue
			}
			var f, g starlark.Value
			for npos := 0; npos <= 4 && !bindCut; npos++ {
				unit++
				if !c.Mine(unit) {
					continue
				}
				if c.Expired() {
					return cut(lvl)
				}
				if time.Now().After(bindDeadline) {
					bindCut = true
					break
				}
				if f == nil {
					f, g = compileSig(e.th, s)
				}
				calls := callsFor(s, npos, c.Thorough())
				var pyDef, pyLam []string
				if e.py != nil {
					cases := make([][3]int, len(calls))
					for i, cl := range calls {
						_, id := e.shape(cl)
						cases[i] = [3]int{id, cl.Seq, cl.Dict}
					}
					e.py.send(map[string]any{"op": "sig", "def": s.DefText(), "cases": cases})
					r, err := e.py.recv()
					if err != nil || len(r["def"]) != len(calls) {
						st.Inconcl = append(st.Inconcl, fmt.Sprintf("python3 oracle failed on %s: %v", s.DefText(), err))
						e.py.close()
						e.py = nil
					} else {
						pyDef, pyLam = r["def"], r["def"] // CPython binds def and lambda by the same code; the lambda is compared with the def's result
					}
				}
				for i, cl := range calls {
					pd, pl := "", ""
					if pyDef != nil {
						pd, pl = pyDef[i], pyLam[i]
						if pd == "S" || pl == "S" {
							st.Count("python_rejects_syntax", 1)
						}
					}
					lim.add(e.checkBind(s, f, g, cl, pd, pl, st))
					if !sampled && lvl >= 5 && cl.Seq >= 1 && cl.Dict >= dictName && len(cl.Named) >= 1 {
						if want, ok := refBind(s, cl); ok {
							st.Sample(map[string]any{"def": s.DefText(), "call": cl.String(), "binding": want, "cpython": pd})
							sampled = true
						}
					}
				}
			}
		}
		if bindCut {
			st.Count("levelcut:"+levels[lvl], 1)
			break
		}
		done(lvl)
	}

	// Part 1b: a built-in that uses UnpackArgs, through the same compiled calls
	unit = 1 << 40 // the same numbering in every shard wherever part 1 stopped
	lv := 8
	for n := 0; n <= 3; n++ {
		var specs [][]int
		specs = [][]int{{}}
		for i := 0; i < n; i++ {
			var next [][]int
			for _, sp := range specs {
				for m := 0; m < 3; m++ {
					next = append(next, append(append([]int{}, sp...), m))
				}
			}
			specs = next
		}
		for _, sp := range specs {
			for npos := 0; npos <= 4; npos++ {
				unit++
				if !c.Mine(unit) {
					continue
				}
				if c.Expired() {
					return cut(lv)
				}
				for _, cl := range callsFor(builtinUniverse(n), npos, false) {
					lim.add(e.checkBuiltin(sp, cl, st))
				}
			}
		}
	}
	done(lv)

	// Part 2: UnpackPositionalArgs and UnpackArgs directly
	runU := func(u UCase) {
		oc, bad := runUnpack(u)
		st.Evals++
		st.Nontrivial++
		api := "unpack"
		if u.PosAPI {
			api = "unpackpos"
		}
		st.Outcome(api + ":" + oc)
		if bad != "" {
			lim.add([]finding{{api, api + ":" + u.String(), bad, BindCase{Part: "unpack", U: &u}}})
		}
	}
	lv = 9
	for n := 0; n <= 3; n++ {
		for _, ps := range unpackSpecs(n, false) {
			allPlain := true
			for _, p := range ps {
				if p.Marker != 0 {
					allPlain = false
				}
			}
			if !allPlain {
				continue
			}
			unit++
			if !c.Mine(unit) {
				continue
			}
			if c.Expired() {
				return cut(lv)
			}
			casesForPosSpec(ps, runU)
		}
	}
	done(lv)
	for li, n := range []int{1, 2, 3} {
		lv = 10 + li
		lo := n
		if n == 1 {
			lo = 0
		}
		for k := lo; k <= n; k++ {
			for _, ps := range unpackSpecs(k, n == 3 && !c.Thorough()) {
				unit++
				if !c.Mine(unit) {
					continue
				}
				if c.Expired() {
					return cut(lv)
				}
				casesForSpec(ps, runU)
				if c.Shard == 1 && k == 2 && ps[0].Marker == 2 && ps[1].Type == tInt && len(st.Samples) < 2 {
					st.Sample(map[string]any{"unpack": UCase{Params: ps, Args: []UArg{{Cls: clsNone}}, Kw: []UArg{{Name: "y", Cls: clsWrong}}}.String(),
						"expect": "error; variable y keeps its sentinel"})
				}
			}
		}
		done(lv)
	}
	return st
}

func run(c *fw.Ctx) *fw.Stats {
	py := pythonPath()
	os.Setenv("VERIF_PYTHON", py) // inherited by workers and by the frame's replay processes
	nshards := runtime.NumCPU()
	total := c.Sharded(nshards, nil, py)
	for _, l := range levelNames(c.Thorough()) {
		d, cu := total.Counters["leveldone:"+l], total.Counters["levelcut:"+l]
		delete(total.Counters, "leveldone:"+l)
		delete(total.Counters, "levelcut:"+l)
		switch {
		case cu == 0 && d == int64(nshards):
			total.Levels = append(total.Levels, l)
		case cu > 0 || d > 0:
			total.Cut = append(total.Cut, fmt.Sprintf("%s (completed in %d of %d shards)", l, d, nshards))
		default:
			total.Cut = append(total.Cut, l+" (not started)")
		}
	}
	// A few violations per kind are enough; the counters say how many cases disagree.
	sort.SliceStable(total.Viols, func(i, j int) bool {
		if len(total.Viols[i].Key) != len(total.Viols[j].Key) {
			return len(total.Viols[i].Key) < len(total.Viols[j].Key)
		}
		return total.Viols[i].Key < total.Viols[j].Key
	})
	per := map[string]int{}
	var keep []fw.Viol
	for _, v := range total.Viols {
		kind := v.Key[:strings.Index(v.Key, ":")]
		if per[kind] < 4 {
			per[kind]++
			keep = append(keep, v)
		}
	}
	total.Viols = keep
	// dedupe inconclusive notes
	seen := map[string]bool{}
	var inc []string
	for _, s := range total.Inconcl {
		if !seen[s] {
			seen[s] = true
			inc = append(inc, s)
		}
	}
	total.Inconcl = inc
	return total
}

func replay(c *fw.Ctx, raw json.RawMessage) []fw.Viol {
	var bc BindCase
	if err := json.Unmarshal(raw, &bc); err != nil {
		fw.Fatal("bad case: %v", err)
	}
	var fs []finding
	switch bc.Part {
	case "bind":
		e := newEnv(pythonPath())
		defer e.close()
		f, g := compileSig(e.th, *bc.Sig)
		pd, pl := "", ""
		if e.py != nil && e.pyErr == nil {
			_, id := e.shape(*bc.Call)
			e.py.send(map[string]any{"op": "sig", "def": bc.Sig.DefText(), "cases": [][3]int{{id, bc.Call.Seq, bc.Call.Dict}}})
			if r, err := e.py.recv(); err == nil && len(r["def"]) == 1 {
				pd, pl = r["def"][0], r["def"][0]
			}
		}
		fs = e.checkBind(*bc.Sig, f, g, *bc.Call, pd, pl, nil)
	case "builtin":
		e := newEnv("")
		fs = e.checkBuiltin(bc.Spec, *bc.Call, nil)
	case "unpack":
		_, bad := runUnpack(*bc.U)
		if bad != "" {
			api := "unpack"
			if bc.U.PosAPI {
				api = "unpackpos"
			}
			fs = []finding{{api, api + ":" + bc.U.String(), bad, bc}}
		}
	}
	var out []fw.Viol
	for _, f := range fs {
		out = append(out, fw.Viol{Key: f.key, What: f.what})
	}
	return out
}

func init() {
	fw.Register(&fw.Prop{
		ID:    "C08",
		Level: "exploration",
		Rule: "all 280 signatures def f(<=3 positional required/optional, none|*|*args, <=2 keyword-only required/optional, [**kw]) (as def and as lambda) x all calls with 0-4 positional values, " +
			"every subset of size <=3 of {declared names incl. args/kw, u, v} as named arguments, *s absent or of length 0-3, **d absent/{}/{1:..}/one entry for every name of the universe (covers declared, undeclared and duplicate-of-named); " +
			"each call is compiled from source (CALL/CALL_VAR/CALL_KW/CALL_VAR_KW) and repeated through starlark.Call; compared with a binder written from doc/spec.md and with CPython on the same text; " +
			"plus a built-in using UnpackArgs through the same compiled calls; plus UnpackPositionalArgs and UnpackArgs directly: all specs of <=3 parameters over markers {x,x?,x??} x 8 variable kinds x " +
			"positional prefixes and named sequences (duplicates, unknown name) x argument class {right type, wrong type, None} per argument, variables pre-seeded with sentinels. " +
			"non-trivial = every (signature, call) or (spec, call) pair: each is compared against the reference outcome",
		Run: run, Worker: worker, Replay: replay,
		Assumptions: []string{
			"error wording is never compared; only fails-vs-binds and the bound values",
			"UnpackArgs: a parameter given both positionally and by name is an error even when the positional value is None for a \"??\" parameter (binding follows def-like rules; None only leaves the variable unchanged)",
			"after a failed UnpackArgs every variable must hold its sentinel or the value of a well-typed argument directed at it; nothing is demanded about which of several simultaneous errors is reported",
			"quick tier: UnpackArgs specs of 3 parameters are restricted to at most one non-Value variable, and named arguments appear in one order only; thorough lifts both",
		},
		BudgetQuick: 60, BudgetThorough: 900,
	})
}
