#!/usr/bin/env python3
"""C08 differential oracle: evaluates the same def/call text with CPython.

One process per shard evaluates that shard's whole table.  Protocol: JSON
lines on stdin; a "shape" request defines a call shape
(def call(f, s, d): return f(1, 2, a=10, *s, **d)) and produces no output; a
"sig" request carries the def text, the lambda text and a list of cases
[shape id, seq length or -1, dict code] and produces one output line holding
the results in order: the canonical rendering of the returned tuple, "F" when
the call raises TypeError, "S" when CPython rejects the definition's syntax,
"X:<type>" for any other exception (never expected).
"""
import json
import sys

NAMES = ["a", "b", "c", "k", "m", "args", "kw", "u", "v"]
shapes = {}


def canon(v):
    if isinstance(v, tuple):
        return "(" + ",".join(canon(x) for x in v) + ")"
    if isinstance(v, dict):
        return "{" + ",".join("%s:%s" % (k, canon(x)) for k, x in v.items()) + "}"
    return str(v)


def mkdict(code):
    if code == 0:
        return None
    if code == 1:
        return {}
    if code == 2:
        return {1: 31}
    i = code - 3
    return {NAMES[i]: 40 + i}


def run(fn, cases):
    out = []
    for sid, seq, dcode in cases:
        call = shapes[sid]
        if call is None:
            out.append("S")
            continue
        s = None if seq < 0 else [21 + i for i in range(seq)]
        d = mkdict(dcode)
        try:
            out.append(canon(call(fn, s, d)))
        except TypeError:
            out.append("F")
        except Exception as e:  # pragma: no cover
            out.append("X:" + type(e).__name__)
    return out


def main():
    w = sys.stdout
    for line in sys.stdin:
        req = json.loads(line)
        if req["op"] == "shape":
            env = {}
            try:
                exec(req["src"], env)
                shapes[req["id"]] = env["call"]
            except SyntaxError:
                shapes[req["id"]] = None
            continue
        res = {}
        for key, name in (("def", "f"), ("lam", "g")):
            src = req.get(key)
            if not src:
                continue
            env = {}
            try:
                exec(src, env)
            except SyntaxError:
                res[key] = ["S"] * len(req["cases"])
                continue
            res[key] = run(env[name], req["cases"])
        w.write(json.dumps(res, separators=(",", ":")))
        w.write("\n")
        w.flush()


main()
