package c08

import (
	"fmt"
	"strings"

	"go.starlark.net/starlark"
)

// ---------------------------------------------------------------------------
// target variables of the eight kinds, pre-seeded with sentinels

const (
	tValue = iota
	tInt
	tString
	tBool
	tList
	tCallable
	tIterable
	tCustom
	nTypes
)

var typeNames = []string{"Value", "int", "string", "bool", "*List", "Callable", "Iterable", "custom"}

// custU is a user-defined Unpacker: it accepts ints only.
type custU struct{ n int }

func (u *custU) Unpack(v starlark.Value) error {
	i, ok := v.(starlark.Int)
	if !ok {
		return fmt.Errorf("got %s, want int for custom", v.Type())
	}
	x, _ := i.Int64()
	u.n = int(x)
	return nil
}

func nopBuiltin(name string) *starlark.Builtin {
	return starlark.NewBuiltin(name, func(*starlark.Thread, *starlark.Builtin, starlark.Tuple, []starlark.Tuple) (starlark.Value, error) {
		return starlark.None, nil
	})
}

const sentinelState = "SENT"

type target struct {
	typ int
	v   starlark.Value
	i   int
	s   string
	b   bool
	l   *starlark.List
	c   starlark.Callable
	it  starlark.Iterable
	u   custU
}

func newTarget(typ int) *target {
	t := &target{typ: typ}
	switch typ {
	case tValue:
		t.v = starlark.String(sentinelState)
	case tInt:
		t.i = -12345
	case tString:
		t.s = sentinelState
	case tBool:
		t.b = true
	case tList:
		t.l = starlark.NewList([]starlark.Value{starlark.String(sentinelState)})
	case tCallable:
		t.c = nopBuiltin(sentinelState)
	case tIterable:
		t.it = starlark.Tuple{starlark.String(sentinelState)}
	case tCustom:
		t.u.n = -777
	}
	return t
}

func (t *target) ptr() any {
	switch t.typ {
	case tValue:
		return &t.v
	case tInt:
		return &t.i
	case tString:
		return &t.s
	case tBool:
		return &t.b
	case tList:
		return &t.l
	case tCallable:
		return &t.c
	case tIterable:
		return &t.it
	}
	return &t.u
}

// state renders the variable's content; sentinelState if untouched.
func (t *target) state() string {
	switch t.typ {
	case tValue:
		if t.v == nil {
			return "<nil>"
		}
		if s, ok := t.v.(starlark.String); ok && string(s) == sentinelState {
			return sentinelState
		}
		return "V:" + t.v.String()
	case tInt:
		if t.i == -12345 {
			return sentinelState
		}
		return fmt.Sprint("i:", t.i)
	case tString:
		if t.s == sentinelState {
			return sentinelState
		}
		return "s:" + t.s
	case tBool:
		if t.b {
			return sentinelState
		}
		return "b:false"
	case tList:
		if t.l == nil {
			return "<nil>"
		}
		if t.l.Len() == 1 && t.l.Index(0) == starlark.String(sentinelState) {
			return sentinelState
		}
		return "L:" + t.l.String()
	case tCallable:
		if t.c == nil {
			return "<nil>"
		}
		if t.c.Name() == sentinelState {
			return sentinelState
		}
		return "C:" + t.c.Name()
	case tIterable:
		if t.it == nil {
			return "<nil>"
		}
		if tu, ok := t.it.(starlark.Tuple); ok && len(tu) == 1 && tu[0] == starlark.String(sentinelState) {
			return sentinelState
		}
		return "I:" + t.it.String()
	}
	if t.u.n == -777 {
		return sentinelState
	}
	return fmt.Sprint("u:", t.u.n)
}

// accepts is the reference's reading of "UnpackArgs performs the appropriate
// type check" for each kind of variable, and the state the variable has after
// a successful assignment of v.
func accepts(typ int, v starlark.Value) (bool, string) {
	switch typ {
	case tValue:
		return true, "V:" + v.String()
	case tInt:
		if i, ok := v.(starlark.Int); ok {
			if x, ok := i.Int64(); ok {
				return true, fmt.Sprint("i:", x)
			}
		}
	case tString:
		if s, ok := v.(starlark.String); ok {
			return true, "s:" + string(s)
		}
	case tBool:
		if b, ok := v.(starlark.Bool); ok && !bool(b) {
			return true, "b:false"
		} else if ok {
			return true, sentinelState // True is indistinguishable from the sentinel; never generated
		}
	case tList:
		if l, ok := v.(*starlark.List); ok {
			return true, "L:" + l.String()
		}
	case tCallable:
		if c, ok := v.(starlark.Callable); ok {
			return true, "C:" + c.Name()
		}
	case tIterable:
		if it, ok := v.(starlark.Iterable); ok {
			return true, "I:" + it.String()
		}
	case tCustom:
		if i, ok := v.(starlark.Int); ok {
			x, _ := i.Int64()
			return true, fmt.Sprint("u:", x)
		}
	}
	return false, ""
}

// argument classes
const (
	clsRight = 0
	clsWrong = 1
	clsNone  = 2
)

var clsNames = []string{"R", "W", "N"}

var bigInt = starlark.MakeInt(1).Lsh(70)

// argValue builds a fresh argument value of the class for a parameter of the
// type; idx makes distinct arguments distinguishable.
func argValue(typ, cls, idx int) starlark.Value {
	if cls == clsNone {
		return starlark.None
	}
	if cls == clsRight {
		switch typ {
		case tValue, tInt, tCustom:
			return starlark.MakeInt(7 + idx)
		case tString:
			return starlark.String(fmt.Sprint("r", idx))
		case tBool:
			return starlark.False
		case tList:
			return starlark.NewList([]starlark.Value{starlark.MakeInt(100 + idx)})
		case tCallable:
			return nopBuiltin(fmt.Sprint("cb", idx))
		case tIterable:
			return starlark.NewList([]starlark.Value{starlark.MakeInt(200 + idx)})
		}
	}
	// wrong type
	switch typ {
	case tValue:
		return starlark.String(fmt.Sprint("w", idx)) // nothing is wrong for a Value
	case tInt:
		if idx%2 == 1 {
			return bigInt // an int, but not representable
		}
		return starlark.String("w")
	case tString:
		return starlark.MakeInt(7 + idx)
	case tBool:
		return starlark.MakeInt(1)
	case tList:
		return starlark.Tuple{starlark.MakeInt(1)}
	case tCallable:
		return starlark.MakeInt(3)
	case tIterable:
		return starlark.MakeInt(4)
	}
	return starlark.String("w") // custom
}

// ---------------------------------------------------------------------------
// specs and calls

var uNames = []string{"x", "y", "z"}
var markers = []string{"", "?", "??"}

type UParam struct {
	Marker int `json:"m"` // index into markers
	Type   int `json:"t"`
}

type UArg struct {
	Name string `json:"n,omitempty"` // "" for positional
	Cls  int    `json:"c"`
}

type UCase struct {
	Params []UParam `json:"params"`
	Args   []UArg   `json:"args"`   // positional
	Kw     []UArg   `json:"kw"`     // named, in order (duplicates allowed)
	Min    int      `json:"min"`    // UnpackPositionalArgs only
	PosAPI bool     `json:"posapi"` // use UnpackPositionalArgs
}

func (u UCase) String() string {
	var ps, as []string
	for i, p := range u.Params {
		if u.PosAPI {
			ps = append(ps, typeNames[p.Type])
		} else {
			ps = append(ps, fmt.Sprintf("%q:%s", uNames[i]+markers[p.Marker], typeNames[p.Type]))
		}
	}
	for _, a := range u.Args {
		as = append(as, clsNames[a.Cls])
	}
	for _, a := range u.Kw {
		as = append(as, a.Name+"="+clsNames[a.Cls])
	}
	api := "UnpackArgs"
	if u.PosAPI {
		api = fmt.Sprintf("UnpackPositionalArgs[min=%d]", u.Min)
	}
	return api + "(" + strings.Join(ps, ", ") + ") <- (" + strings.Join(as, ", ") + ")"
}

// flatArg is an argument as the reference sees it.
type flatArg struct {
	name string // "" positional
	val  starlark.Value
}

// refUnpack is the reference written from the doc comment of UnpackArgs:
//
//   - pairs name a parameter each; a name ending in "?" is optional; one ending
//     in "??" is optional and a None argument leaves the variable alone; once a
//     parameter is optional all following ones are;
//   - binding follows the rules of def f(a, b=.., c=..): positional arguments go
//     to the parameters in order (too many: error), a named argument to the
//     parameter of that name (no such parameter: error; parameter already
//     given, positionally or by name: error), a required parameter without an
//     argument: error;
//   - an argument that fails the variable's type check: error.
//
// It returns whether the call succeeds, the expected state of every variable
// on success, and for every variable the set of states it may legitimately
// hold whatever happens (its sentinel, or the value of a right-typed argument
// directed to it).
func refUnpack(names []string, ps []UParam, args []flatArg) (ok bool, want []string, allowed []map[string]bool) {
	n := len(ps)
	want = make([]string, n)
	allowed = make([]map[string]bool, n)
	for i := range allowed {
		allowed[i] = map[string]bool{sentinelState: true}
		want[i] = sentinelState
	}
	ok = true
	firstOpt := n
	for i, p := range ps {
		if p.Marker != 0 {
			firstOpt = i
			break
		}
	}
	given := make([]int, n)
	npos := 0
	for _, a := range args {
		idx := -1
		if a.name == "" {
			if npos < n {
				idx = npos
			}
			npos++
		} else {
			for i := range ps {
				if names[i] == a.name {
					idx = i
				}
			}
		}
		if idx < 0 {
			ok = false // surplus positional or unknown name
			continue
		}
		given[idx]++
		if given[idx] > 1 {
			ok = false
		}
		if _, isNone := a.val.(starlark.NoneType); isNone && ps[idx].Marker == 2 {
			continue // "??": None leaves the variable unchanged
		}
		acc, st := accepts(ps[idx].Type, a.val)
		if !acc {
			ok = false
			continue
		}
		allowed[idx][st] = true
		want[idx] = st
	}
	for i := 0; i < firstOpt; i++ {
		if given[i] == 0 {
			ok = false
		}
	}
	return
}

// refUnpackPositional: "reports an error if the number of arguments is less
// than min or greater than len(vars), if kwargs is nonempty, or if any
// conversion fails".
func refUnpackPositional(ps []UParam, min int, args []flatArg, nkw int) (ok bool, want []string, allowed []map[string]bool) {
	n := len(ps)
	want = make([]string, n)
	allowed = make([]map[string]bool, n)
	for i := range allowed {
		allowed[i] = map[string]bool{sentinelState: true}
		want[i] = sentinelState
	}
	ok = nkw == 0 && len(args) >= min && len(args) <= n
	for i, a := range args {
		if i >= n {
			break
		}
		acc, st := accepts(ps[i].Type, a.val)
		if !acc {
			ok = false
			continue
		}
		allowed[i][st] = true
		want[i] = st
	}
	return
}

type uviol struct {
	what string
}

// runUnpack executes one case against the real helper and compares.
func runUnpack(u UCase) (outcome string, bad string) {
	n := len(u.Params)
	targets := make([]*target, n)
	for i, p := range u.Params {
		targets[i] = newTarget(p.Type)
	}
	var flat []flatArg
	var args starlark.Tuple
	var kwargs []starlark.Tuple
	typeFor := func(i int) int {
		if i >= 0 && i < n {
			return u.Params[i].Type
		}
		return tValue
	}
	for i, a := range u.Args {
		v := argValue(typeFor(i), a.Cls, i)
		args = append(args, v)
		flat = append(flat, flatArg{"", v})
	}
	for j, a := range u.Kw {
		pi := -1
		for i := 0; i < n; i++ {
			if uNames[i] == a.Name {
				pi = i
			}
		}
		v := argValue(typeFor(pi), a.Cls, 10+j)
		kwargs = append(kwargs, starlark.Tuple{starlark.String(a.Name), v})
		flat = append(flat, flatArg{a.Name, v})
	}
	var ok bool
	var want []string
	var allowed []map[string]bool
	var err error
	panicked := ""
	func() {
		defer func() {
			if r := recover(); r != nil {
				panicked = fmt.Sprint(r)
			}
		}()
		if u.PosAPI {
			vars := make([]any, n)
			for i, t := range targets {
				vars[i] = t.ptr()
			}
			err = starlark.UnpackPositionalArgs("fn", args, kwargs, u.Min, vars...)
		} else {
			pairs := make([]any, 0, 2*n)
			for i, t := range targets {
				pairs = append(pairs, uNames[i]+markers[u.Params[i].Marker], t.ptr())
			}
			err = starlark.UnpackArgs("fn", args, kwargs, pairs...)
		}
	}()
	if panicked != "" {
		return "panic", "panic: " + panicked
	}
	if u.PosAPI {
		ok, want, allowed = refUnpackPositional(u.Params, u.Min, flat[:len(u.Args)], len(u.Kw))
	} else {
		ok, want, allowed = refUnpack(uNames[:n], u.Params, flat)
	}
	var states []string
	for _, t := range targets {
		states = append(states, t.state())
	}
	outcome = "ok"
	if !ok {
		outcome = "fail"
	}
	if (err == nil) != ok {
		return outcome, fmt.Sprintf("helper returned err=%v, reference expects success=%v; variables=%v", err, ok, states)
	}
	for i, st := range states {
		if ok && st != want[i] {
			return outcome, fmt.Sprintf("after success variable %d holds %s, reference expects %s (all variables %v, want %v)", i, st, want[i], states, want)
		}
		if !allowed[i][st] {
			return outcome, fmt.Sprintf("after err=%v variable %d holds %s, which is neither its sentinel nor the value of a well-typed argument for it (variables %v)", err, i, st, states)
		}
	}
	return outcome, ""
}

// ---------------------------------------------------------------------------
// enumeration

func clsVectors(n int) [][]int {
	out := [][]int{{}}
	for i := 0; i < n; i++ {
		var next [][]int
		for _, v := range out {
			for c := 0; c < 3; c++ {
				next = append(next, append(append([]int{}, v...), c))
			}
		}
		out = next
	}
	return out
}

// kwShapes: all name sequences of length <= 2 over names (repetition and both
// orders allowed) plus all ordered subsets of size 3.
func kwShapes(names []string) [][]string {
	out := [][]string{{}}
	for _, a := range names {
		out = append(out, []string{a})
	}
	for _, a := range names {
		for _, b := range names {
			out = append(out, []string{a, b})
		}
	}
	for _, s := range subsets(names, 3) {
		if len(s) == 3 {
			out = append(out, s)
		}
	}
	return out
}

// unpackSpecs enumerates parameter lists of exactly n parameters.  With
// restrict, at most one variable is not a Value.
func unpackSpecs(n int, restrict bool) [][]UParam {
	out := [][]UParam{{}}
	for i := 0; i < n; i++ {
		var next [][]UParam
		for _, v := range out {
			for m := 0; m < 3; m++ {
				for t := 0; t < nTypes; t++ {
					next = append(next, append(append([]UParam{}, v...), UParam{m, t}))
				}
			}
		}
		out = next
	}
	if restrict {
		var keep [][]UParam
		for _, s := range out {
			nv := 0
			for _, p := range s {
				if p.Type != tValue {
					nv++
				}
			}
			if nv <= 1 {
				keep = append(keep, s)
			}
		}
		out = keep
	}
	return out
}

// casesForSpec calls f on every call of the bound for one UnpackArgs spec.
func casesForSpec(ps []UParam, f func(UCase)) {
	n := len(ps)
	names := append(append([]string{}, uNames[:n]...), "u")
	shapes := kwShapes(names)
	if n > 0 {
		// keyword names that spell a parameter's spec string ("x?", "x??"): they reach a
		// built-in through a ** mapping or starlark.Call, and name no parameter
		for _, nm := range names[:n] {
			shapes = append(shapes, []string{nm + "?"}, []string{nm + "??"}, []string{"*" + nm}, []string{nm + " "})
		}
		shapes = append(shapes, []string{names[0], names[0] + "?"})
	}
	for k := 0; k <= n+1; k++ {
		var posVecs [][]int
		if k > n {
			posVecs = [][]int{make([]int, k)} // surplus: classes are irrelevant
		} else {
			posVecs = clsVectors(k)
		}
		for _, pv := range posVecs {
			args := make([]UArg, k)
			for i, c := range pv {
				args[i] = UArg{Cls: c}
			}
			for _, sh := range shapes {
				for _, kv := range clsVectors(len(sh)) {
					kw := make([]UArg, len(sh))
					for i, c := range kv {
						kw[i] = UArg{Name: sh[i], Cls: c}
					}
					f(UCase{Params: ps, Args: args, Kw: kw})
				}
			}
		}
	}
}

func casesForPosSpec(ps []UParam, f func(UCase)) {
	n := len(ps)
	for min := 0; min <= n; min++ {
		for k := 0; k <= n+1; k++ {
			var posVecs [][]int
			if k > n {
				posVecs = [][]int{make([]int, k)}
			} else {
				posVecs = clsVectors(k)
			}
			for _, pv := range posVecs {
				args := make([]UArg, k)
				for i, c := range pv {
					args[i] = UArg{Cls: c}
				}
				f(UCase{Params: ps, Args: args, Min: min, PosAPI: true})
				f(UCase{Params: ps, Args: args, Min: min, PosAPI: true, Kw: []UArg{{Name: "x", Cls: clsRight}}})
			}
		}
	}
}
