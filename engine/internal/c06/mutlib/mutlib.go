// Package mutlib holds what C06 and C04 share: a canonical, lock-free,
// cycle-safe serialisation of Starlark object graphs, and the *discovery* of
// operations on the built-in mutable types (every method in AttrNames(), every
// exported Go method found by reflection, every augmented assignment / index /
// field assignment written as Starlark helper functions), each paired with a
// small argument pool.  Whether an (operation, arguments) pair is a mutator is
// never listed: it is decided by applying it to a fresh mutable twin of the
// value and looking for a change in the serialisation.
package mutlib

import (
	"fmt"
	"reflect"
	"sort"
	"strconv"
	"strings"

	"go.starlark.net/starlark"
	"go.starlark.net/starlarkstruct"
	"go.starlark.net/syntax"
)

// Custom lets harness value types choose their own serialisation.
type Custom interface{ VerifSer() string }

type ser struct {
	ids   []any // identity numbering; graphs are small, linear search beats a map
	sb    strings.Builder
	depth int
}

// Ser returns the canonical serialisation of everything reachable from roots
// through list/tuple/dict/set elements, struct fields, function defaults and
// free variables and bound-method receivers.  Pointer identity is rendered by
// numbering (sharing and cycles are visible).  No Starlark iterator is used,
// so the serialisation neither depends on nor disturbs iteration locks.
func Ser(roots ...starlark.Value) string {
	s := &ser{}
	s.sb.Grow(128)
	for i, r := range roots {
		if i > 0 {
			s.sb.WriteString(" ; ")
		}
		s.val(r)
	}
	return s.sb.String()
}

// SetKeys returns the elements of s in order without taking an iterator.
func SetKeys(s *starlark.Set) []starlark.Value {
	var seen []starlark.Value
	s.VerifLayout(func(v starlark.Value) string { seen = append(seen, v); return "" })
	n := s.Len()
	if n > len(seen) {
		n = len(seen)
	}
	return seen[len(seen)-n:]
}

func (s *ser) ref(p any, tag string) bool {
	for i, q := range s.ids {
		if q == p {
			s.sb.WriteByte('@')
			s.sb.WriteString(strconv.Itoa(i + 1))
			return true
		}
	}
	s.ids = append(s.ids, p)
	s.sb.WriteString(tag)
	s.sb.WriteByte('#')
	s.sb.WriteString(strconv.Itoa(len(s.ids)))
	return false
}

func (s *ser) val(v starlark.Value) {
	if v == nil {
		s.sb.WriteString("nil")
		return
	}
	s.depth++
	defer func() { s.depth-- }()
	if s.depth > 500 {
		s.sb.WriteString("!deep")
		return
	}
	switch v := v.(type) {
	case Custom:
		s.sb.WriteString(v.VerifSer())
	case *starlark.List:
		if s.ref(v, "L") {
			return
		}
		s.sb.WriteByte('[')
		for i := 0; i < v.Len(); i++ {
			if i > 0 {
				s.sb.WriteByte(',')
			}
			s.val(v.Index(i))
		}
		s.sb.WriteByte(']')
	case *starlark.Dict:
		if s.ref(v, "D") {
			return
		}
		s.sb.WriteByte('{')
		for i, it := range v.Items() {
			if i > 0 {
				s.sb.WriteByte(',')
			}
			s.val(it[0])
			s.sb.WriteByte(':')
			s.val(it[1])
		}
		s.sb.WriteByte('}')
	case *starlark.Set:
		if s.ref(v, "S") {
			return
		}
		s.sb.WriteByte('{')
		for i, k := range SetKeys(v) {
			if i > 0 {
				s.sb.WriteByte(',')
			}
			s.val(k)
		}
		s.sb.WriteByte('}')
	case starlark.Tuple:
		s.sb.WriteString("T(")
		for i, e := range v {
			if i > 0 {
				s.sb.WriteByte(',')
			}
			s.val(e)
		}
		s.sb.WriteByte(')')
	case *starlarkstruct.Struct:
		if s.ref(v, "R") {
			return
		}
		s.sb.WriteByte('(')
		for i, n := range v.AttrNames() {
			if i > 0 {
				s.sb.WriteByte(',')
			}
			s.sb.WriteString(n)
			s.sb.WriteByte('=')
			f, _ := v.Attr(n)
			s.val(f)
		}
		s.sb.WriteByte(')')
	case *starlark.Function:
		if s.ref(v, "F") {
			return
		}
		s.sb.WriteString("<" + v.Name() + ">(")
		for i := 0; i < v.NumParams(); i++ {
			if d := v.ParamDefault(i); d != nil {
				n, _ := v.Param(i)
				s.sb.WriteString(n + "=")
				s.val(d)
				s.sb.WriteByte(',')
			}
		}
		s.sb.WriteByte('|')
		for i := 0; i < v.NumFreeVars(); i++ {
			b, fv := v.FreeVar(i)
			s.sb.WriteString(b.Name + "=")
			s.val(fv)
			s.sb.WriteByte(',')
		}
		s.sb.WriteByte(')')
	case *starlark.Builtin:
		s.sb.WriteString("B<" + v.Name() + ">")
		if r := v.Receiver(); r != nil {
			s.sb.WriteByte('(')
			s.val(r)
			s.sb.WriteByte(')')
		}
	default:
		s.sb.WriteString(v.Type())
		s.sb.WriteByte(':')
		s.sb.WriteString(v.String())
	}
}

// Twin returns a fresh, unfrozen, unlocked value with the same top-level
// content as v (children shared), or nil if v is not one of the mutable
// built-in kinds.  For a bound method it returns the same method bound to a
// twin of the receiver.
func Twin(v starlark.Value) starlark.Value {
	switch v := v.(type) {
	case *starlark.List:
		e := make([]starlark.Value, v.Len())
		for i := range e {
			e[i] = v.Index(i)
		}
		return starlark.NewList(e)
	case *starlark.Dict:
		d := new(starlark.Dict)
		for _, it := range v.Items() {
			if err := d.SetKey(it[0], it[1]); err != nil {
				return nil
			}
		}
		return d
	case *starlark.Set:
		t := new(starlark.Set)
		for _, k := range SetKeys(v) {
			if err := t.Insert(k); err != nil {
				return nil
			}
		}
		return t
	case *starlark.Builtin:
		r := v.Receiver()
		if r == nil {
			return nil
		}
		tr := Twin(r)
		if tr == nil {
			return nil
		}
		h, ok := tr.(starlark.HasAttrs)
		if !ok {
			return nil
		}
		m, err := h.Attr(v.Name())
		if err != nil || m == nil {
			return nil
		}
		return m
	}
	return nil
}

// Pool is the argument pool: two small ints (indices / present elements by the
// content conventions of the callers), a present string key, an absent
// hashable, an iterable, a sequence of pairs, a mapping.  Fresh on every call.
func Pool() []starlark.Value {
	d := new(starlark.Dict)
	d.SetKey(starlark.MakeInt(7), starlark.MakeInt(9))
	return []starlark.Value{
		starlark.MakeInt(0),
		starlark.MakeInt(1),
		starlark.String("a"),
		starlark.MakeInt(9),
		starlark.NewList([]starlark.Value{starlark.MakeInt(9)}),
		starlark.NewList([]starlark.Value{starlark.Tuple{starlark.MakeInt(8), starlark.MakeInt(9)}}),
		d,
	}
}

// ExtraRHS are further right-hand sides for augmented assignments.
func ExtraRHS() []starlark.Value {
	s := new(starlark.Set)
	s.Insert(starlark.MakeInt(9))
	return []starlark.Value{starlark.Tuple{starlark.MakeInt(9)}, s}
}

// ArgTuples: (), (a) for every pool value, (a, 9) for every pool value.
func ArgTuples(pool []starlark.Value) []starlark.Tuple {
	out := []starlark.Tuple{nil}
	for _, a := range pool {
		out = append(out, starlark.Tuple{a})
	}
	for _, a := range pool {
		out = append(out, starlark.Tuple{a, starlark.MakeInt(9)})
	}
	return out
}

// Op is one discovered operation instance.
type Op struct {
	Kind  string // method | stmt | goapi | read
	Desc  string // canonical: "append(9)", "stmt:aug_add(x,[9])", "Go:SetIndex(0,9)"
	Apply func(th *starlark.Thread, x starlark.Value) (starlark.Value, error)
	// HasErr is false for Go methods that have no error result (so "returns
	// an error" cannot be demanded of them).
	HasErr bool
	// For helper-function operations: the function's name and the argument
	// builder, so that a caller can run the same statement through the
	// equally named function of another module.
	Helper string
	Build  func(x starlark.Value) starlark.Tuple
}

// SafeCall calls fn and turns a panic into a PanicError.
func SafeCall(th *starlark.Thread, fn starlark.Value, args starlark.Tuple) (starlark.Value, error) {
	return safeCall(th, fn, args)
}

// PanicError marks a recovered panic (never counted as a returned error by
// C04/C06; crashes are C02's subject).
type PanicError struct{ V any }

func (p PanicError) Error() string { return fmt.Sprintf("PANIC: %v", p.V) }

func IsPanic(err error) bool { _, ok := err.(PanicError); return ok }

// Pass-through sentinel: harness panics that must not be swallowed here.
type PassPanic interface{ VerifPassPanic() }

func safeCall(th *starlark.Thread, fn starlark.Value, args starlark.Tuple) (res starlark.Value, err error) {
	defer func() {
		if r := recover(); r != nil {
			if _, ok := r.(PassPanic); ok {
				panic(r)
			}
			res, err = nil, PanicError{r}
		}
	}()
	return starlark.Call(th, fn, args, nil)
}

func argsDesc(args starlark.Tuple) string {
	var parts []string
	for _, a := range args {
		parts = append(parts, a.String())
	}
	return strings.Join(parts, ",")
}

// MethodOps: every name in AttrNames() x every argument tuple.
func MethodOps(v starlark.Value, pool []starlark.Value) []Op {
	h, ok := v.(starlark.HasAttrs)
	if !ok {
		return nil
	}
	names := append([]string(nil), h.AttrNames()...)
	sort.Strings(names)
	var ops []Op
	for _, name := range names {
		name := name
		for _, args := range ArgTuples(pool) {
			args := args
			ops = append(ops, Op{Kind: "method", HasErr: true,
				Desc: fmt.Sprintf("%s(%s)", name, argsDesc(args)),
				Apply: func(th *starlark.Thread, x starlark.Value) (starlark.Value, error) {
					xh, ok := x.(starlark.HasAttrs)
					if !ok {
						return nil, fmt.Errorf("no attrs")
					}
					m, err := xh.Attr(name)
					if err != nil || m == nil {
						return nil, fmt.Errorf("no method %s", name)
					}
					return safeCall(th, m, args)
				}})
		}
	}
	return ops
}

// ---------------------------------------------------------------------------
// Starlark-statement helpers

var augOps = []struct{ name, op string }{
	{"add", "+="}, {"sub", "-="}, {"mul", "*="}, {"div", "/="}, {"fdiv", "//="}, {"mod", "%="},
	{"and", "&="}, {"or", "|="}, {"xor", "^="}, {"shl", "<<="}, {"shr", ">>="},
}

var binOps = []struct{ name, op string }{
	{"add", "+"}, {"sub", "-"}, {"mul", "*"}, {"div", "/"}, {"fdiv", "//"}, {"mod", "%"},
	{"and", "&"}, {"or", "|"}, {"xor", "^"}, {"shl", "<<"}, {"shr", ">>"},
	{"eq", "=="}, {"ne", "!="}, {"lt", "<"}, {"le", "<="}, {"gt", ">"}, {"ge", ">="},
	{"in", "in"}, {"notin", "not in"},
}

// HelperSrc is Starlark source defining one function per statement form.
// Mutating forms: aug_<op>(x, y), setidx(x, i, v), setfield_<name>(x, v).
// Reading forms: bin_<op>(x, y) (x on the left), rbin_<op>(x, y) (x on the
// right), un_<op>(x), rd_<what>(x).
func HelperSrc() string {
	var sb strings.Builder
	for _, a := range augOps {
		fmt.Fprintf(&sb, "def aug_%s(x, y):\n    x %s y\n    return x\n", a.name, a.op)
	}
	sb.WriteString("def setidx(x, i, v):\n    x[i] = v\n")
	for _, f := range []string{"a", "f", "append"} {
		fmt.Fprintf(&sb, "def setfield_%s(x, v):\n    x.%s = v\n", f, f)
	}
	for _, b := range binOps {
		fmt.Fprintf(&sb, "def bin_%s(x, y):\n    return x %s y\n", b.name, b.op)
		fmt.Fprintf(&sb, "def rbin_%s(x, y):\n    return y %s x\n", b.name, b.op)
	}
	sb.WriteString(`def un_neg(x): return -x
def un_pos(x): return +x
def un_inv(x): return ~x
def un_not(x): return not x
def rd_str(x): return str(x)
def rd_repr(x): return repr(x)
def rd_fmt(x): return "%s %r" % (x, x)
def rd_format(x): return "{} {!r}".format(x, x)
def rd_hash(x): return hash(x)
def rd_key(x): return {x: 1}
def rd_len(x): return len(x)
def rd_bool(x): return bool(x)
def rd_type(x): return type(x)
def rd_dir(x): return dir(x)
def rd_list(x): return list(x)
def rd_comp(x): return [e for e in x]
def rd_dcomp(x): return {i: e for i, e in enumerate(x)}
def rd_for(x):
    n = 0
    for e in x:
        n += 1
    return n
def rd_star(x): return rd_sink(*x)
def rd_sink(*a): return len(a)
def rd_kw(x): return rd_ksink(**x)
def rd_ksink(**k): return len(k)
def rd_idx0(x): return x[0]
def rd_idxa(x): return x["a"]
def rd_slice(x): return x[0:1]
def rd_slice_all(x): return x[:]
def rd_slice_tail(x): return x[1:]
def rd_slice_head(x): return x[:1]
def rd_slice_step1(x): return x[::1]
def rd_slice_rev(x): return x[::-1]
def rd_slice_step2(x): return x[::2]
def rd_mul1(x): return x * 1
def rd_mul2(x): return 2 * x
def rd_tuple(x): return tuple(x)
def rd_dict(x): return dict(x)
def rd_set(x): return set(x)
def rd_reversed(x): return reversed(x)
def rd_enumerate(x): return enumerate(x)
def rd_zip(x): return zip(x, x)
def rd_minmax(x): return (min(x), max(x))
def rd_anyall(x): return (any(x), all(x))
def rd_cond(x): return x if x else [x]
def rd_unpack(x):
    a, b = x
    return [a, b]
def rd_attr(x): return x.a
def rd_eqself(x): return x == x
def rd_sorted(x): return sorted(x)
def rd_json(x): return json.encode(x)
def rd_call0(x): return x()
def rd_getattr(x): return [getattr(x, n) for n in dir(x)]
`)
	return sb.String()
}

// HelperOps builds the operations offered by one compiled helper module.
// label distinguishes which module the functions belong to.
func HelperOps(label string, g starlark.StringDict, pool []starlark.Value) []Op {
	names := make([]string, 0, len(g))
	for n := range g {
		names = append(names, n)
	}
	sort.Strings(names)
	rhs := append(append([]starlark.Value(nil), pool...), ExtraRHS()...)
	nine := starlark.MakeInt(9)
	var ops []Op
	curName := ""
	// reading binary operators take a reduced right-hand-side set
	readRHS := []starlark.Value{pool[0], pool[4]}
	mk := func(kind, desc string, fn starlark.Value, build func(x starlark.Value) starlark.Tuple) {
		ops = append(ops, Op{Kind: kind, Desc: label + ":" + desc, HasErr: true, Helper: curName, Build: build,
			Apply: func(th *starlark.Thread, x starlark.Value) (starlark.Value, error) {
				return safeCall(th, fn, build(x))
			}})
	}
	for _, n := range names {
		fn, ok := g[n].(*starlark.Function)
		if !ok {
			continue
		}
		curName = n
		switch {
		case strings.HasPrefix(n, "aug_"):
			for _, y := range rhs {
				y := y
				mk("stmt", fmt.Sprintf("%s(x,%s)", n, y.String()), fn, func(x starlark.Value) starlark.Tuple { return starlark.Tuple{x, y} })
			}
		case n == "setidx":
			for _, i := range pool {
				i := i
				mk("stmt", fmt.Sprintf("x[%s]=9", i.String()), fn, func(x starlark.Value) starlark.Tuple { return starlark.Tuple{x, i, nine} })
			}
		case strings.HasPrefix(n, "setfield_"):
			mk("stmt", fmt.Sprintf("x.%s=9", n[len("setfield_"):]), fn, func(x starlark.Value) starlark.Tuple { return starlark.Tuple{x, nine} })
		case strings.HasPrefix(n, "bin_"), strings.HasPrefix(n, "rbin_"):
			for _, y := range readRHS {
				y := y
				mk("read", fmt.Sprintf("%s(x,%s)", n, y.String()), fn, func(x starlark.Value) starlark.Tuple { return starlark.Tuple{x, y} })
			}
			mk("read", fmt.Sprintf("%s(x,x)", n), fn, func(x starlark.Value) starlark.Tuple { return starlark.Tuple{x, x} })
		case strings.HasPrefix(n, "un_"), strings.HasPrefix(n, "rd_"):
			if fn.NumParams() == 1 && !fn.HasVarargs() && !fn.HasKwargs() {
				mk("read", n+"(x)", fn, func(x starlark.Value) starlark.Tuple { return starlark.Tuple{x} })
			}
		}
	}
	return ops
}

// ---------------------------------------------------------------------------
// Go API, by reflection

var (
	tValue    = reflect.TypeOf((*starlark.Value)(nil)).Elem()
	tIterator = reflect.TypeOf((*starlark.Iterator)(nil)).Elem()
	tError    = reflect.TypeOf((*error)(nil)).Elem()
	tInt      = reflect.TypeOf(int(0))
	tString   = reflect.TypeOf("")
	tToken    = reflect.TypeOf(syntax.Token(0))
	tDictPtr  = reflect.TypeOf((*starlark.Dict)(nil))
)

// goDeny: Freeze is the freezing operation itself (it changes no content but
// would make every later twin comparison meaningless); Iterate acquires the
// iteration lock, whose release is the caller's obligation by contract.
var goDeny = map[string]bool{"Freeze": true, "Iterate": true}

type argGen struct {
	desc string
	make func() reflect.Value
}

func candidates(t reflect.Type, pool []starlark.Value) []argGen {
	switch {
	case t == tInt:
		return []argGen{
			{"0", func() reflect.Value { return reflect.ValueOf(0) }},
			{"1", func() reflect.Value { return reflect.ValueOf(1) }},
		}
	case t == tString:
		return []argGen{{`"a"`, func() reflect.Value { return reflect.ValueOf("a") }}}
	case t == tToken:
		return []argGen{{"==", func() reflect.Value { return reflect.ValueOf(syntax.EQL) }}}
	case t == tIterator:
		return []argGen{{"iter((9,))", func() reflect.Value {
			return reflect.ValueOf(starlark.Tuple{starlark.MakeInt(9)}.Iterate()).Convert(tIterator)
		}}}
	case t == tDictPtr:
		return []argGen{{"{7:9}", func() reflect.Value {
			d := new(starlark.Dict)
			d.SetKey(starlark.MakeInt(7), starlark.MakeInt(9))
			return reflect.ValueOf(d)
		}}}
	case t == tValue:
		var out []argGen
		for _, p := range pool {
			p := p
			out = append(out, argGen{p.String(), func() reflect.Value { return reflect.ValueOf(&p).Elem() }})
		}
		return out
	}
	return nil
}

// GoOps enumerates every exported method of v's dynamic type (reflection) with
// every combination of candidate arguments for its first two parameters (the
// remaining parameters take their last candidate).  Methods with a parameter
// type for which no candidate exists are returned in skipped.
func GoOps(v starlark.Value, pool []starlark.Value) (ops []Op, skipped []string) {
	t := reflect.TypeOf(v)
	for i := 0; i < t.NumMethod(); i++ {
		m := t.Method(i)
		if goDeny[m.Name] {
			continue
		}
		mt := m.Type // receiver is parameter 0
		if mt.IsVariadic() {
			skipped = append(skipped, m.Name)
			continue
		}
		np := mt.NumIn() - 1
		cands := make([][]argGen, np)
		okm := true
		for p := 0; p < np; p++ {
			cands[p] = candidates(mt.In(p+1), pool)
			if len(cands[p]) == 0 {
				okm = false
			}
		}
		if !okm {
			skipped = append(skipped, m.Name)
			continue
		}
		errIdx := -1
		for r := 0; r < mt.NumOut(); r++ {
			if mt.Out(r) == tError {
				errIdx = r
			}
		}
		// combinations
		var combos [][]argGen
		var rec func(p int, cur []argGen)
		rec = func(p int, cur []argGen) {
			if p == np {
				combos = append(combos, append([]argGen(nil), cur...))
				return
			}
			cs := cands[p]
			if p >= 2 {
				// (last candidate: a third int is a step/depth and must not be 0)
				cs = cs[len(cs)-1:]
			}
			for _, c := range cs {
				rec(p+1, append(cur, c))
			}
		}
		rec(0, nil)
		for _, combo := range combos {
			combo := combo
			var ds []string
			for _, c := range combo {
				ds = append(ds, c.desc)
			}
			name := m.Name
			ops = append(ops, Op{Kind: "goapi", HasErr: errIdx >= 0,
				Desc: fmt.Sprintf("Go:%s(%s)", name, strings.Join(ds, ",")),
				Apply: func(th *starlark.Thread, x starlark.Value) (res starlark.Value, err error) {
					defer func() {
						if r := recover(); r != nil {
							if _, ok := r.(PassPanic); ok {
								panic(r)
							}
							res, err = nil, PanicError{r}
						}
					}()
					rv := reflect.ValueOf(x)
					if rv.Type() != t {
						return nil, fmt.Errorf("type mismatch")
					}
					in := make([]reflect.Value, len(combo))
					for i, c := range combo {
						in[i] = c.make()
					}
					out := rv.MethodByName(name).Call(in)
					if errIdx >= 0 && !out[errIdx].IsNil() {
						return nil, out[errIdx].Interface().(error)
					}
					return starlark.None, nil
				}})
		}
	}
	return ops, skipped
}
