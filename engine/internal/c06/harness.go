package c06

import (
	"bytes"
	"fmt"
	"iter"
	"math"
	"sort"
	"strings"
	"sync"

	"go.starlark.net/lib/json"
	stdmath "go.starlark.net/lib/math"
	"go.starlark.net/lib/time"
	"go.starlark.net/starlark"
	"go.starlark.net/starlarkstruct"
	"go.starlark.net/syntax"

	"verif/internal/c06/mutlib"
	"verif/internal/fw"
)

var fileOpts = &syntax.FileOptions{Set: true, TopLevelControl: true, GlobalReassign: true}

// Case identifies one execution completely.
type Case struct {
	Kind string `json:"kind"` // list | dict | set
	Fam  string `json:"fam"`  // element family
	N    int    `json:"n"`    // number of elements
	Cons string `json:"cons"` // construct id
	Tmpl string `json:"tmpl,omitempty"`
	Nest string `json:"nest"` // N1 one construct | N2 inside a loop over the same collection | N3 inside a called function | N4 loop in caller, construct in callee
	Site string `json:"site"` // where the mutation is attempted during the iteration: none | body | key | elem
	Tag  string `json:"tag"`  // locked: must fail | cond: must fail if an iterator is live
	Mut  string `json:"mut"`  // discovered mutator (description)
	Exit string `json:"exit"` // exhaust|break|continue|return|fail|nested|boom|err
	I    int    `json:"i"`    // iteration / callback index at which the exit is taken
	K    uint64 `json:"k"`    // 0: unlimited; else SetMaxExecutionSteps(K)
	Src  string `json:"src,omitempty"`
	// Reloaded: the case program is compiled, written with Program.Write, read back
	// with CompiledProgram and initialised, instead of being executed from source.
	Reloaded bool `json:"reloaded,omitempty"`
}

// groupKey is the identity used in violation keys: construct + collection
// kind (nesting, site, mutator, exit and cancellation point are in the case).
func (cs *Case) groupKey() string {
	if cs.Reloaded {
		return fmt.Sprintf("%s(program written and read back)|%s", cs.Cons, cs.Kind)
	}
	return fmt.Sprintf("%s|%s", cs.Cons, cs.Kind)
}

type attemptRec struct {
	Tag       string
	Live      int
	Err       bool
	Changed   bool
	Cancelled bool
	Panic     bool
}

type freeRec struct {
	Live int
	Err  bool
}

type runState struct {
	x          starlark.Value
	th         *starlark.Thread
	k          uint64
	steps      int
	ticks      int
	cb         int
	inCb       bool
	marked     bool
	inWindow   bool
	attempts   []attemptRec
	frees      []freeRec
	unlocked   int // conditional attempts skipped because no iterator was live
	gotThrough int
}

type outcome struct {
	Res      string
	Err      bool
	Panic    string
	Attempts []attemptRec
	Frees    []freeRec
	StepCnt  int
	Ticks    int
	Cbs      int
	Steps    uint64
	Marked   bool
	Unlocked int
}

// sig is what a second execution on the same thread must reproduce.
func (o *outcome) sig() string {
	var sb strings.Builder
	fmt.Fprintf(&sb, "res=%s err=%v panic=%s steps=%d ticks=%d cbs=%d frees=%d |", o.Res, o.Err, o.Panic, o.StepCnt, o.Ticks, o.Cbs, len(o.Frees))
	for _, a := range o.Attempts {
		fmt.Fprintf(&sb, "%s:%d:%v:%v,", a.Tag, a.Live, a.Err, a.Changed)
	}
	return sb.String()
}

func (o *outcome) class() string {
	switch {
	case o.Panic != "":
		return "panic"
	case o.Err:
		return "error"
	}
	return "ok"
}

type harness struct {
	cs     *Case
	run    starlark.Value
	reuse  starlark.Value
	mut    *mutlib.Op
	rs     *runState
	aux    *starlark.Thread
	probe  *Probe
	cbSeen int
	pre    starlark.StringDict
	// discovery of operators: does any element callback see a live iterator?
	watch     starlark.Value
	watchLive int
	quiet     bool
}

var (
	errInjected = fmt.Errorf("injected element error")
	errStop     = fmt.Errorf("harness: stopping the program after a mutation got through during iteration")
)

func newThread(name string) *starlark.Thread {
	return &starlark.Thread{Name: name, Print: func(*starlark.Thread, string) {}}
}

func newHarness() *harness {
	h := &harness{aux: newThread("aux")}
	h.pre = h.predeclared()
	return h
}

// ---------------------------------------------------------------------------
// helper module (statement-form mutators), compiled once per process

var (
	helperOnce sync.Once
	helperG    starlark.StringDict
)

func helpers() starlark.StringDict {
	helperOnce.Do(func() {
		pre := starlark.StringDict{"json": json.Module}
		g, err := starlark.ExecFileOptions(fileOpts, newThread("helpers"), "helpers.star", mutlib.HelperSrc(), pre)
		if err != nil {
			fw.Fatal("c06 helpers: %v", err)
		}
		helperG = g
	})
	return helperG
}

// ---------------------------------------------------------------------------
// predeclared host built-ins

func (h *harness) predeclared() starlark.StringDict {
	b := func(name string, f func(th *starlark.Thread, args starlark.Tuple) (starlark.Value, error)) *starlark.Builtin {
		return starlark.NewBuiltin(name, func(th *starlark.Thread, _ *starlark.Builtin, args starlark.Tuple, kwargs []starlark.Tuple) (starlark.Value, error) {
			return f(th, args)
		})
	}
	pushLoop := func(th *starlark.Thread, cb starlark.Value, seq func(yield func(starlark.Value) bool)) (starlark.Value, error) {
		var rerr error
		n := 0
		for e := range seq {
			r, err := starlark.Call(th, cb, starlark.Tuple{e}, nil)
			if err != nil {
				rerr = err
				break
			}
			n++
			if r == starlark.False {
				break
			}
		}
		if rerr != nil {
			return nil, rerr
		}
		return starlark.MakeInt(n), nil
	}
	pushLoop2 := func(th *starlark.Thread, cb starlark.Value, seq func(yield func(k, v starlark.Value) bool)) (starlark.Value, error) {
		return pushLoop(th, cb, func(yield func(starlark.Value) bool) {
			for k := range seq {
				if !yield(k) {
					return
				}
			}
		})
	}
	return starlark.StringDict{
		"attempt": b("attempt", func(th *starlark.Thread, args starlark.Tuple) (starlark.Value, error) {
			if h.rs == nil || len(args) != 2 {
				return nil, fmt.Errorf("attempt: no run")
			}
			tag, _ := starlark.AsString(args[1])
			if h.doAttempt(th, h.rs, args[0], tag) {
				// The mutation got through: the program may now never end
				// (a list growing under its own loop). Stop it; the attempt
				// record already carries the violation.
				return nil, errStop
			}
			return starlark.None, nil
		}),
		"free": b("free", func(th *starlark.Thread, args starlark.Tuple) (starlark.Value, error) {
			if h.rs == nil || len(args) != 1 {
				return nil, fmt.Errorf("free: no run")
			}
			live := iterCount(args[0])
			err := goNoop(args[0])
			h.rs.frees = append(h.rs.frees, freeRec{Live: live, Err: err != nil})
			return starlark.None, nil
		}),
		"mustmutate": b("mustmutate", func(th *starlark.Thread, args starlark.Tuple) (starlark.Value, error) {
			if err := goNoop(args[0]); err != nil {
				return nil, err
			}
			return starlark.None, nil
		}),
		"step": b("step", func(th *starlark.Thread, args starlark.Tuple) (starlark.Value, error) {
			if h.rs == nil {
				return starlark.MakeInt(-1), nil
			}
			h.rs.steps++
			return starlark.MakeInt(h.rs.steps - 1), nil
		}),
		"tick": b("tick", func(th *starlark.Thread, args starlark.Tuple) (starlark.Value, error) {
			if h.rs != nil {
				h.rs.ticks++
			}
			return starlark.None, nil
		}),
		"mark": b("mark", func(th *starlark.Thread, args starlark.Tuple) (starlark.Value, error) {
			if h.rs != nil {
				h.rs.marked = true
				h.rs.inWindow = true
			}
			return starlark.None, nil
		}),
		"unmark": b("unmark", func(th *starlark.Thread, args starlark.Tuple) (starlark.Value, error) {
			if h.rs != nil {
				h.rs.inWindow = false
			}
			return starlark.None, nil
		}),
		"boom": b("boom", func(th *starlark.Thread, args starlark.Tuple) (starlark.Value, error) {
			panic(boomPanic{})
		}),
		"hsink": b("hsink", func(th *starlark.Thread, args starlark.Tuple) (starlark.Value, error) {
			return starlark.MakeInt(len(args)), nil
		}),
		"CB": b("CB", func(th *starlark.Thread, args starlark.Tuple) (starlark.Value, error) {
			h.cbSeen++
			if h.probe != nil {
				h.probe.noteCallback()
			}
			return starlark.MakeInt(0), nil
		}),
		"other": b("other", func(th *starlark.Thread, args starlark.Tuple) (starlark.Value, error) {
			if h.cs == nil {
				return nil, fmt.Errorf("other: no case")
			}
			// building the operand hashes its elements: not part of the construct
			h.quiet = true
			defer func() { h.quiet = false }()
			d := 0
			if len(args) == 1 {
				d, _ = starlark.AsInt32(args[0])
			}
			return mkColl(h.cs.Kind, h.cs.Fam, h.cs.N+d, h), nil
		}),
		// Go push iterators, driven by a Starlark callback per element.
		"go_Elements": b("go_Elements", func(th *starlark.Thread, args starlark.Tuple) (starlark.Value, error) {
			switch x := args[0].(type) {
			case *starlark.List:
				return pushLoop(th, args[1], x.Elements())
			case *starlark.Set:
				return pushLoop(th, args[1], x.Elements())
			}
			return nil, fmt.Errorf("no Elements method")
		}),
		"go_Entries": b("go_Entries", func(th *starlark.Thread, args starlark.Tuple) (starlark.Value, error) {
			if x, ok := args[0].(*starlark.Dict); ok {
				return pushLoop2(th, args[1], x.Entries())
			}
			return nil, fmt.Errorf("no Entries method")
		}),
		"go_starlark_Elements": b("go_starlark_Elements", func(th *starlark.Thread, args starlark.Tuple) (starlark.Value, error) {
			if x, ok := args[0].(starlark.Iterable); ok {
				return pushLoop(th, args[1], starlark.Elements(x))
			}
			return nil, fmt.Errorf("not iterable")
		}),
		"go_starlark_Entries": b("go_starlark_Entries", func(th *starlark.Thread, args starlark.Tuple) (starlark.Value, error) {
			if x, ok := args[0].(starlark.IterableMapping); ok {
				return pushLoop2(th, args[1], starlark.Entries(x))
			}
			return nil, fmt.Errorf("not an iterable mapping")
		}),
		// Two pull cursors over one collection, stopped first-in-first-out: the
		// callback runs for the elements the second cursor still yields after the
		// first one has been stopped (the collection is still being iterated).
		"go_pull_fifo": b("go_pull_fifo", func(th *starlark.Thread, args starlark.Tuple) (starlark.Value, error) {
			x, ok := args[0].(starlark.Iterable)
			if !ok {
				return nil, fmt.Errorf("not iterable")
			}
			next1, stop1 := iter.Pull(starlark.Elements(x))
			next2, stop2 := iter.Pull(starlark.Elements(x))
			defer stop2()
			defer stop1()
			next1()
			stop1()
			n := 0
			for {
				e, ok := next2()
				if !ok {
					break
				}
				r, err := starlark.Call(th, args[1], starlark.Tuple{e}, nil)
				if err != nil {
					return nil, err
				}
				n++
				if r == starlark.False {
					break
				}
			}
			return starlark.MakeInt(n), nil
		}),
		// An Iterate() obtained inside the body of a push loop and used after
		// that loop has ended.
		"go_iterate_in_push": b("go_iterate_in_push", func(th *starlark.Thread, args starlark.Tuple) (starlark.Value, error) {
			x, ok := args[0].(starlark.Iterable)
			if !ok {
				return nil, fmt.Errorf("not iterable")
			}
			var it starlark.Iterator
			for range starlark.Elements(x) {
				it = x.Iterate()
				break
			}
			if it == nil {
				it = x.Iterate()
			}
			defer it.Done()
			n := 0
			var e starlark.Value
			for it.Next(&e) {
				r, err := starlark.Call(th, args[1], starlark.Tuple{e}, nil)
				if err != nil {
					return nil, err
				}
				n++
				if r == starlark.False {
					break
				}
			}
			return starlark.MakeInt(n), nil
		}),
		"json":   json.Module,
		"math":   stdmath.Module,
		"time":   time.Module,
		"struct": starlark.NewBuiltin("struct", starlarkstruct.Make),
	}
}

// doAttempt performs the case's mutator on x and records the result; it
// reports whether an attempt that had to fail got through.
func (h *harness) doAttempt(th *starlark.Thread, rs *runState, x starlark.Value, tag string) (gotThrough bool) {
	live := iterCount(x)
	if tag == "cond" && live == 0 {
		rs.unlocked++
		return false
	}
	if h.mut == nil {
		return false
	}
	before := mutlib.Ser(x)
	_, err := h.mut.Apply(th, x)
	after := mutlib.Ser(x)
	rec := attemptRec{Tag: tag, Live: live, Err: err != nil, Changed: before != after, Panic: mutlib.IsPanic(err)}
	if th == rs.th && rs.k > 0 && th.ExecutionSteps() >= rs.k {
		rec.Cancelled = true
	}
	rs.attempts = append(rs.attempts, rec)
	if !rec.Err || rec.Changed {
		rs.gotThrough++
		return true
	}
	return false
}

// elemCallback is reached from Elem.Truth/Hash/CompareSameType.
func (h *harness) elemCallback(kind string, canErr bool) error {
	if h.quiet {
		return nil
	}
	if h.probe != nil {
		h.probe.noteCallback()
	}
	if h.watch != nil && iterCount(h.watch) > 0 {
		h.watchLive++
	}
	rs := h.rs
	if rs == nil || h.cs == nil || h.cs.Site != "elem" || !rs.inWindow || rs.inCb {
		return nil
	}
	rs.inCb = true
	defer func() { rs.inCb = false }()
	idx := rs.cb
	rs.cb++
	if h.doAttempt(h.aux, rs, rs.x, h.cs.Tag) {
		// stop the built-in: the collection changed under its iterator
		panic(stopPanic{})
	}
	if idx == h.cs.I {
		switch h.cs.Exit {
		case "err":
			if canErr {
				return errInjected
			}
		case "boom":
			panic(boomPanic{})
		}
	}
	return nil
}

// ---------------------------------------------------------------------------
// one execution

func (h *harness) runOnce(th *starlark.Thread, x starlark.Value, k uint64) *outcome {
	rs := &runState{x: x, th: th, k: k}
	h.rs = rs
	out := &outcome{}
	func() {
		defer func() {
			if r := recover(); r != nil {
				if _, ok := r.(boomPanic); ok {
					out.Panic = "boom"
				} else if _, ok := r.(stopPanic); ok {
					out.Panic = "stopped"
				} else {
					out.Panic = fmt.Sprintf("unexpected: %v", r)
				}
			}
		}()
		res, err := starlark.Call(th, h.run, starlark.Tuple{x}, nil)
		if err != nil {
			out.Err = true
		} else if s, ok := starlark.AsString(res); ok {
			out.Res = s
		} else {
			out.Res = res.String()
		}
	}()
	h.rs = nil
	out.Attempts, out.Frees = rs.attempts, rs.frees
	out.StepCnt, out.Ticks, out.Cbs, out.Marked, out.Unlocked = rs.steps, rs.ticks, rs.cb, rs.marked, rs.unlocked
	out.Steps = th.ExecutionSteps()
	return out
}

type finding struct{ inv, what string }

func resetThread(th *starlark.Thread) {
	th.Uncancel()
	th.SetMaxExecutionSteps(math.MaxUint64)
}

// post evaluates the oracle on one finished execution. ref is the outcome of
// the unlimited execution on a fresh thread (nil if out is that execution).
func (h *harness) post(th *starlark.Thread, x starlark.Value, refContent string, out, ref *outcome) *finding {
	cs := h.cs
	if strings.HasPrefix(out.Panic, "unexpected") {
		return &finding{"unexpected-panic", out.Panic}
	}
	// (a) during the iteration
	for i, a := range out.Attempts {
		if a.Panic {
			return &finding{"mutator-panicked", fmt.Sprintf("attempt #%d (%s) of %s panicked", i, a.Tag, cs.Mut)}
		}
		mustFail := a.Tag == "locked" || (a.Tag == "cond" && a.Live > 0)
		if mustFail && (!a.Err || a.Changed) {
			return &finding{"mutation-during-iteration", fmt.Sprintf("attempt #%d of %s while iterating (live iterators recorded: %d): error=%v content changed=%v", i, cs.Mut, a.Live, a.Err, a.Changed)}
		}
	}
	// (b) after the outermost call returned
	if n := iterCount(x); n != 0 {
		return &finding{"lock-leak", fmt.Sprintf("after the call returned (result=%q error=%v panic=%q) the collection still records %d live iterator(s)", out.Res, out.Err, out.Panic, n)}
	}
	for i, f := range out.Frees {
		if f.Err {
			return &finding{"locked-after-iteration", fmt.Sprintf("no-op Go mutation #%d attempted by the program after the iteration ended failed (live=%d)", i, f.Live)}
		}
	}
	if err := goNoop(x); err != nil {
		return &finding{"noop-mutation-fails", fmt.Sprintf("no-op mutation through the Go API after the call returned: %v", err)}
	}
	if d := th.CallStackDepth(); d != 0 {
		return &finding{"call-stack-depth", fmt.Sprintf("CallStackDepth()=%d after the outermost call returned", d)}
	}
	alias := strings.HasPrefix(cs.Cons, "alias:") // the construct itself is a mutator of x
	if c := mutlib.Ser(x); c != refContent && !alias {
		return &finding{"content-changed", fmt.Sprintf("content after the run %s differs from the initial content %s although every mutation attempt had to fail", c, refContent)}
	}
	// (b2) if the execution was cancelled, the thread stays cancelled: a call made now
	// is refused, and it too leaves the stack and the collection as they were
	if ref != nil && out.Err {
		_, err := starlark.Call(th, h.reuse, starlark.Tuple{x}, nil)
		if d := th.CallStackDepth(); d != 0 {
			return &finding{"call-stack-depth", fmt.Sprintf("CallStackDepth()=%d after a call on the still-cancelled thread (that call returned: %v)", d, err)}
		}
		if n := iterCount(x); n != 0 {
			return &finding{"lock-leak", fmt.Sprintf("a call on the still-cancelled thread left %d live iterator(s) on the collection", n)}
		}
	}
	// (c) thread and value remain usable
	resetThread(th)
	want := int64(starlark.Len(x))
	if r, err := starlark.Call(th, h.reuse, starlark.Tuple{x}, nil); err != nil {
		return &finding{"value-unusable", fmt.Sprintf("iterating and re-assigning the collection on the same thread afterwards failed: %v", err)}
	} else if n, _ := starlark.AsInt32(r); int64(n) != want {
		return &finding{"value-unusable", fmt.Sprintf("re-iteration yielded %d elements, want %d", n, want)}
	}
	if d := th.CallStackDepth(); d != 0 {
		return &finding{"call-stack-depth", fmt.Sprintf("CallStackDepth()=%d after reuse", d)}
	}
	// (d) a second execution on the same thread gives the normal result
	x2 := mkColl(cs.Kind, cs.Fam, cs.N, h)
	out2 := h.runOnce(th, x2, 0)
	want2 := out
	if ref != nil {
		want2 = ref
	}
	if out2.sig() != want2.sig() {
		return &finding{"second-execution-differs", fmt.Sprintf("second execution on the same thread: %s; normal: %s", out2.sig(), want2.sig())}
	}
	if n := iterCount(x2); n != 0 || th.CallStackDepth() != 0 {
		return &finding{"lock-leak", fmt.Sprintf("after the second execution: live iterators=%d depth=%d", n, th.CallStackDepth())}
	}
	// (e) the real mutator now succeeds on the original collection
	if h.mut != nil && !alias {
		_, err := h.mut.Apply(h.aux, x)
		if err != nil || mutlib.Ser(x) == refContent {
			return &finding{"mutator-fails-after-iteration", fmt.Sprintf("%s applied after the call returned: err=%v, content changed=%v", cs.Mut, err, mutlib.Ser(x) != refContent)}
		}
	}
	return nil
}

// prepare compiles the case's program and selects its mutator.
func (h *harness) prepare(cs *Case) error {
	h.cs = cs
	h.mut = nil
	if cs.Mut != "" {
		m := findMutator(cs.Kind, cs.Fam, cs.N, cs.Mut, h)
		if m == nil {
			return fmt.Errorf("mutator %q not discovered for %s/%s", cs.Mut, cs.Kind, cs.Fam)
		}
		h.mut = m
	}
	src := cs.source()
	var g starlark.StringDict
	var err error
	if cs.Reloaded {
		// the same program after Program.Write and CompiledProgram: what a host that caches compiled files runs
		var p, p2 *starlark.Program
		_, p, err = starlark.SourceProgramOptions(fileOpts, "case.star", src, h.pre.Has)
		if err == nil {
			var buf bytes.Buffer
			if err = p.Write(&buf); err == nil {
				if p2, err = starlark.CompiledProgram(&buf); err == nil {
					g, err = p2.Init(newThread("compile"), h.pre)
				}
			}
		}
	} else {
		g, err = starlark.ExecFileOptions(fileOpts, newThread("compile"), "case.star", src, h.pre)
	}
	if err != nil {
		return fmt.Errorf("case program does not compile: %v\n%s", err, src)
	}
	h.run, h.reuse = g["run"], g["reuse"]
	if h.run == nil || h.reuse == nil {
		return fmt.Errorf("case program lacks run/reuse")
	}
	return nil
}

// execBase runs the unlimited execution of a prepared case.
func (h *harness) execBase() (ref *outcome, f *finding) {
	cs := h.cs
	th := newThread("t0")
	x := mkColl(cs.Kind, cs.Fam, cs.N, h)
	content := mutlib.Ser(x)
	ref = h.runOnce(th, x, 0)
	// keep a pristine copy of the reference outcome: post() re-runs
	keep := *ref
	f = h.post(th, x, content, ref, nil)
	return &keep, f
}

// execK runs the execution cancelled at step k.
func (h *harness) execK(ref *outcome, k uint64) (*outcome, *finding) {
	cs := h.cs
	th := newThread("tk")
	th.SetMaxExecutionSteps(k)
	x := mkColl(cs.Kind, cs.Fam, cs.N, h)
	content := mutlib.Ser(x)
	out := h.runOnce(th, x, k)
	keep := *out
	return &keep, h.post(th, x, content, out, ref)
}

// ---------------------------------------------------------------------------
// mutator discovery

type mutSel struct {
	Desc string
	Name string
	Op   mutlib.Op
}

var mutCache = map[string][]mutSel{}

func opName(desc string) string {
	if i := strings.IndexAny(desc, "(["); i > 0 && !strings.HasPrefix(desc, "stmt:x[") {
		return desc[:i]
	}
	if strings.HasPrefix(desc, "stmt:x[") {
		return "stmt:setindex"
	}
	return desc
}

// allOps returns every candidate operation instance for a collection.
func allOps(x starlark.Value) []mutlib.Op {
	pool := mutlib.Pool()
	if f := firstElem(x); f != nil {
		pool = append(pool, f)
	}
	var ops []mutlib.Op
	ops = append(ops, mutlib.MethodOps(x, pool)...)
	for _, o := range mutlib.HelperOps("stmt", helpers(), pool) {
		if o.Kind == "stmt" {
			ops = append(ops, o)
		}
	}
	g, _ := mutlib.GoOps(x, pool)
	ops = append(ops, g...)
	return ops
}

// discoverMutators applies every operation instance to a fresh mutable
// collection and keeps those that change its content; per operation name the
// first perName instances.
func discoverMutators(kind, fam string, n int, h *harness) []mutSel {
	key := fmt.Sprintf("%s/%s/%d", kind, fam, n)
	if m, ok := mutCache[key]; ok {
		return m
	}
	proto := mkColl(kind, fam, n, h)
	ops := allOps(proto)
	var out []mutSel
	for _, op := range ops {
		x := mkColl(kind, fam, n, h)
		before := mutlib.Ser(x)
		op.Apply(h.aux, x)
		if mutlib.Ser(x) != before {
			out = append(out, mutSel{Desc: op.Desc, Name: opName(op.Desc), Op: op})
		}
	}
	mutCache[key] = out
	return out
}

func selectMutators(kind, fam string, n int, h *harness, perName int) []mutSel {
	all := discoverMutators(kind, fam, n, h)
	cnt := map[string]int{}
	var out []mutSel
	for _, m := range all {
		if cnt[m.Name] < perName {
			cnt[m.Name]++
			out = append(out, m)
		}
	}
	return out
}

func findMutator(kind, fam string, n int, desc string, h *harness) *mutlib.Op {
	for _, m := range discoverMutators(kind, fam, n, h) {
		if m.Desc == desc {
			op := m.Op
			return &op
		}
	}
	return nil
}

func sortedKeys[V any](m map[string]V) []string {
	ks := make([]string, 0, len(m))
	for k := range m {
		ks = append(ks, k)
	}
	sort.Strings(ks)
	return ks
}
