package c06

import (
	"fmt"

	"go.starlark.net/starlark"
	"go.starlark.net/syntax"

	"verif/internal/c06/mutlib"
)

// ---------------------------------------------------------------------------
// harness element: hashable, ordered, truthy; every observable method calls
// back into the harness (mutation attempts from Truth/Hash/compare).

type Elem struct {
	ID int
	H  *harness
}

var (
	_ starlark.Comparable = Elem{}
	_ mutlib.Custom       = Elem{}
)

func (e Elem) String() string   { return fmt.Sprintf("E%d", e.ID) }
func (e Elem) VerifSer() string { return fmt.Sprintf("E%d", e.ID) }
func (e Elem) Type() string     { return "E" }
func (e Elem) Freeze()          {}
func (e Elem) Truth() starlark.Bool {
	e.H.elemCallback("truth", false)
	return true
}
func (e Elem) Hash() (uint32, error) {
	if err := e.H.elemCallback("hash", true); err != nil {
		return 0, err
	}
	return uint32(e.ID + 1), nil
}
func (e Elem) CompareSameType(op syntax.Token, y starlark.Value, depth int) (bool, error) {
	if err := e.H.elemCallback("cmp", true); err != nil {
		return false, err
	}
	d := e.ID - y.(Elem).ID
	switch op {
	case syntax.EQL:
		return d == 0, nil
	case syntax.NEQ:
		return d != 0, nil
	case syntax.LT:
		return d < 0, nil
	case syntax.LE:
		return d <= 0, nil
	case syntax.GT:
		return d > 0, nil
	case syntax.GE:
		return d >= 0, nil
	}
	return false, fmt.Errorf("bad op")
}

// ---------------------------------------------------------------------------
// probing iterable used to DISCOVER which built-ins iterate their arguments.

type Probe struct {
	elems     []starlark.Value
	iterates  int
	dones     int
	live      int
	exhausted bool
	// callbacks observed while an iterator was live and not yet exhausted /
	// at any other time (element callbacks and callable callbacks)
	cbInWindow, cbOutside int
}

var _ starlark.Sequence = (*Probe)(nil)

func (p *Probe) String() string        { return "P" }
func (p *Probe) Type() string          { return "probe" }
func (p *Probe) Freeze()               {}
func (p *Probe) Truth() starlark.Bool  { return true }
func (p *Probe) Hash() (uint32, error) { return 0, fmt.Errorf("unhashable: probe") }
func (p *Probe) Len() int              { return len(p.elems) }
func (p *Probe) Iterate() starlark.Iterator {
	p.iterates++
	p.live++
	p.exhausted = false
	return &probeIter{p: p}
}
func (p *Probe) noteCallback() {
	if p.live > 0 && !p.exhausted {
		p.cbInWindow++
	} else {
		p.cbOutside++
	}
}

type probeIter struct {
	p *Probe
	i int
}

func (it *probeIter) Next(v *starlark.Value) bool {
	if it.i < len(it.p.elems) {
		*v = it.p.elems[it.i]
		it.i++
		return true
	}
	it.p.exhausted = true
	return false
}
func (it *probeIter) Done() { it.p.live--; it.p.dones++ }

// ---------------------------------------------------------------------------
// collections under test

const famInt, famStr, famPair, famE = "int", "str", "pair", "E"

var families = []string{famInt, famStr, famPair, famE}

// elements of the given family; n <= 5.
func famElems(fam string, n int, h *harness) []starlark.Value {
	ints := []int{1, 0, 5, 3, 4}
	strs := []string{"a", "b", "c", "d", "e"}
	out := make([]starlark.Value, n)
	for i := 0; i < n; i++ {
		switch fam {
		case famInt:
			out[i] = starlark.MakeInt(ints[i])
		case famStr:
			out[i] = starlark.String(strs[i])
		case famPair:
			out[i] = starlark.Tuple{starlark.MakeInt(ints[i]), starlark.MakeInt(20 + i)}
		case famE:
			out[i] = Elem{ID: i, H: h}
		}
	}
	return out
}

// mkColl builds a fresh mutable collection. A dict maps each element to 10+i.
func mkColl(kind, fam string, n int, h *harness) starlark.Value {
	el := famElems(fam, n, h)
	switch kind {
	case "list":
		return starlark.NewList(el)
	case "dict":
		d := new(starlark.Dict)
		for i, e := range el {
			if err := d.SetKey(e, starlark.MakeInt(10+i)); err != nil {
				panic(err)
			}
		}
		return d
	case "set":
		s := new(starlark.Set)
		for _, e := range el {
			if err := s.Insert(e); err != nil {
				panic(err)
			}
		}
		return s
	}
	panic("kind " + kind)
}

func firstElem(x starlark.Value) starlark.Value {
	switch x := x.(type) {
	case *starlark.List:
		if x.Len() > 0 {
			return x.Index(0)
		}
	case *starlark.Dict:
		if it := x.Items(); len(it) > 0 {
			return it[0][0]
		}
	case *starlark.Set:
		if k := mutlib.SetKeys(x); len(k) > 0 {
			return k[0]
		}
	}
	return nil
}

func iterCount(x starlark.Value) int {
	n, _, _ := starlark.VerifIterCount(x)
	return n
}

// goNoop is a mutation through the Go API that is guarded by the mutability
// check but leaves the content as it is.
func goNoop(x starlark.Value) error {
	switch x := x.(type) {
	case *starlark.List:
		if x.Len() > 0 {
			return x.SetIndex(0, x.Index(0))
		}
		return x.Clear()
	case *starlark.Dict:
		if it := x.Items(); len(it) > 0 {
			return x.SetKey(it[0][0], it[0][1])
		}
		return x.Clear()
	case *starlark.Set:
		if k := mutlib.SetKeys(x); len(k) > 0 {
			return x.Insert(k[0])
		}
		return x.Clear()
	}
	return fmt.Errorf("not a collection")
}

// boomPanic is the value a host built-in panics with.
type boomPanic struct{}

func (boomPanic) VerifPassPanic() {}

// stopPanic aborts a built-in after a mutation got through during its iteration.
type stopPanic struct{}

func (stopPanic) VerifPassPanic() {}
