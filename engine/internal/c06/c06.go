// Package c06 decides C06: mutation during iteration fails, and iteration
// locks and thread state are restored on every exit path.
//
// Shape D (fault enumeration): for every {list, dict, set} x iterating
// construct x discovered mutator x exit path x nesting, a small Starlark
// program is generated and executed on the real interpreter once without a
// limit (S = steps used) and then once for every k in [1..S] with
// SetMaxExecutionSteps(k), i.e. with the cancellation landing before every
// single instruction.  The oracle of the property is evaluated on every one of
// these executions.
package c06

import (
	"encoding/json"
	"fmt"
	"runtime"
	"runtime/debug"
	"sort"
	"strings"

	"verif/internal/fw"
)

type tally struct {
	st       *fw.Stats
	seenKeys map[string]bool
}

func (t *tally) violate(cs *Case, f *finding) {
	key := f.inv + "|" + cs.groupKey()
	if t.seenKeys[key] {
		t.st.Count("violating_executions_same_key", 1)
		return
	}
	if len(t.seenKeys) >= 6 {
		t.st.Count("violation_keys_dropped_over_6_per_shard", 1)
		return
	}
	t.seenKeys[key] = true
	c := *cs
	c.Src = cs.source()
	t.st.Violate(key, f.what+" || program:\n"+c.Src, c)
}

// exitIndexes: the iteration/callback indexes at which an exit is taken.
func exitIndexes(total int, all bool) []int {
	if total <= 0 {
		return nil
	}
	if all {
		out := make([]int, total)
		for i := range out {
			out[i] = i
		}
		return out
	}
	set := map[int]bool{0: true, total - 1: true}
	if total > 1 {
		set[1] = true
	}
	var out []int
	for i := range set {
		out = append(out, i)
	}
	sort.Ints(out)
	return out
}

// runGroup executes every exit variant of a group, each with the full
// cancellation sweep.
func runGroup(h *harness, g *group, cfg enumCfg, t *tally) {
	st := t.st
	total := 0 // number of step()/callback events of the exhaustive run
	for _, exit := range g.Exits {
		idxs := []int{-1}
		if exit != "exhaust" {
			idxs = exitIndexes(total, cfg.AllI)
		}
		for _, i := range idxs {
			cs := g.Case
			cs.Exit, cs.I = exit, i
			if err := h.prepare(&cs); err != nil {
				st.Violate("harness|"+cs.groupKey(), err.Error(), cs)
				continue
			}
			ref, f := h.execBase()
			st.Evals++
			st.Count("executions_unlimited", 1)
			if exit == "exhaust" {
				if cs.Site == "elem" {
					total = ref.Cbs
				} else {
					total = ref.StepCnt
				}
			}
			nontrivial := ref.Marked
			st.Outcome(fmt.Sprintf("%s/%s/%s", g.Level, exit, ref.class()))
			st.Count("mutation_attempts_during_iteration", int64(len(ref.Attempts)))
			st.Count("conditional_attempts_skipped_no_live_iterator", int64(ref.Unlocked))
			if f != nil {
				t.violate(&cs, f)
			}
			if len(st.Samples) < 6 && (exit == "boom" || exit == "break" || cs.Site == "elem") && st.Evals%7 == 1 {
				cc := cs
				cc.Src = cs.source()
				st.Sample(map[string]any{"case": cc, "steps": ref.Steps, "outcome": ref.sig()})
			}
			// fault enumeration: cancellation before every instruction
			for k := uint64(1); k <= ref.Steps; k++ {
				out, f := h.execK(ref, k)
				st.Evals++
				st.Schedules++
				if out.Marked {
					nontrivial = true
					st.Count("cancellations_after_construct_started", 1)
				}
				st.Count("mutation_attempts_during_iteration", int64(len(out.Attempts)))
				if f != nil {
					ck := cs
					ck.K = k
					t.violate(&ck, f)
				}
			}
			st.Count("fault_points", int64(ref.Steps))
			if nontrivial {
				st.Nontrivial++
			}
			st.States++
			st.Transitions += int64(ref.Steps) + 1
		}
	}
}

func worker(c *fw.Ctx) *fw.Stats {
	// one shard = one busy goroutine; keep the GC from fanning out over all cores
	runtime.GOMAXPROCS(2)
	debug.SetGCPercent(400)
	st := fw.NewStats()
	t := &tally{st: st, seenKeys: map[string]bool{}}
	h := newHarness()
	cfg := cfgFor(c.Tier)
	disc := discover(h)
	groups := enumerate(cfg, h, disc)
	if c.Shard == 0 {
		st.Count("discovery.callables_probed", int64(disc.Callables))
		st.Count("discovery.probe_evaluations", int64(disc.Tried))
		st.Count("discovery.iterating_calls", int64(len(disc.Calls)))
		st.Count("discovery.callback_calls", int64(len(disc.Callbacks)))
		st.Count("discovery.calls_iterating_elements_of_their_argument", int64(len(disc.Nested)))
		st.Count("discovery.iterating_operators", int64(len(disc.Ops)))
		var names []string
		for _, d := range disc.Calls {
			names = append(names, d.Tmpl)
		}
		for _, d := range disc.Callbacks {
			names = append(names, d.Tmpl)
		}
		for _, d := range disc.Nested {
			names = append(names, d.Tmpl)
		}
		for _, d := range disc.Ops {
			names = append(names, d.Kind+": "+d.Tmpl)
		}
		st.Notes = append(st.Notes, "discovered iterating constructs: "+strings.Join(names, " | "))
		for _, kind := range kinds {
			for _, fam := range []string{famInt, famE} {
				var ms []string
				for _, m := range selectMutators(kind, fam, cfg.N, h, cfg.PerName) {
					ms = append(ms, m.Desc)
				}
				st.Notes = append(st.Notes, fmt.Sprintf("discovered mutators %s/%s: %s", kind, fam, strings.Join(ms, " | ")))
			}
		}
	}
	for i := range groups {
		g := &groups[i]
		st.Count("groups_total."+g.Level, 1)
		if !c.Mine(int64(i)) {
			continue
		}
		if c.Expired() {
			st.Count("groups_cut."+g.Level, 1)
			continue
		}
		runGroup(h, g, cfg, t)
		st.Count("groups_done."+g.Level, 1)
	}
	return st
}

func run(c *fw.Ctx) *fw.Stats {
	st := c.Sharded(0, nil)
	n := int64(16)
	if st.Counters["discovery.callables_probed"] == 0 {
		st.Inconcl = append(st.Inconcl, "shard 0 reported no discovery")
	}
	for _, lvl := range levelOrder {
		total := st.Counters["groups_total."+lvl]
		done := st.Counters["groups_done."+lvl]
		cut := st.Counters["groups_cut."+lvl]
		if total == 0 {
			continue
		}
		per := total / n // every shard counts every group
		switch {
		case cut == 0 && done == per:
			st.Levels = append(st.Levels, fmt.Sprintf("%s: %d groups (construct x kind x nesting x site x mutator), each with every exit and every cancellation point", lvl, done))
		default:
			st.Cut = append(st.Cut, fmt.Sprintf("%s: %d of %d groups", lvl, done, per))
		}
	}
	return st
}

func replay(c *fw.Ctx, raw json.RawMessage) []fw.Viol {
	var cs Case
	if err := json.Unmarshal(raw, &cs); err != nil {
		fw.Fatal("bad case: %v", err)
	}
	cs.Src = ""
	h := newHarness()
	if err := h.prepare(&cs); err != nil {
		return []fw.Viol{{Key: "harness|" + cs.groupKey(), What: err.Error()}}
	}
	ref, f := h.execBase()
	if cs.K > 0 {
		_, f = h.execK(ref, cs.K)
	}
	if f == nil {
		return nil
	}
	return []fw.Viol{{Key: f.inv + "|" + cs.groupKey(), What: f.what}}
}

func init() {
	fw.Register(&fw.Prop{
		ID:    "C06",
		Level: "fault_enumeration",
		Rule: "every {list,dict,set} x iterating construct (for, 7 comprehension shapes, *args, 12 unpacking forms, Go push iterators, and every built-in/method/operator DISCOVERED to call Iterate on an argument by probing each universe built-in, each method of each built-in type, json/math/time members and struct with a harness Iterable in argument positions 0..2; and every such callable that iterates the ELEMENTS of its argument, found with the probe inside a wrapper, run with the collection in that place for each length 1..3) " +
			"x every DISCOVERED mutator (methods, x[i]=v, augmented assignments, reflected Go API methods that change a mutable copy) attempted from the loop body / key= callback / an element's Truth, Hash or comparison " +
			"x exit {exhaustion, break, continue, return, fail, error in nested call, host panic, element error} at iteration first/second/last x nesting {alone, inside a loop over the same collection, in a called function, loop in caller + construct in callee}; " +
			"each such program is executed unlimited and then once per k in [1..S] with SetMaxExecutionSteps(k). Oracle on every execution: attempts while an iterator is live fail and leave the content unchanged; afterwards iterator count 0, Go no-op mutation succeeds, CallStackDepth 0, value re-iterable, second execution on the same thread reproduces the normal outcome, the mutator now succeeds. " +
			"non-trivial = program x exit variants in which the iterating construct was actually reached",
		Run: run, Worker: worker, Replay: replay,
		Assumptions: []string{
			"a mutation attempted from a callback that a built-in invokes is required to fail only if the discovery run saw that callback strictly inside the iteration (and, for dict arguments, only if an iterator is recorded live: built-ins may work on an Items() snapshot); otherwise it must fail whenever an iterator is live",
			"collections have 3 elements; argument positions 0..2 and the keyword key= are probed; lib/proto is not probed",
			"cancellation is injected through SetMaxExecutionSteps(k) (observed at the head of every instruction), not from a second goroutine",
		},
		BudgetQuick: 60, BudgetThorough: 900,
	})
}
