package c06

import (
	"fmt"
	"sort"
	"strings"

	"go.starlark.net/lib/json"
	stdmath "go.starlark.net/lib/math"
	"go.starlark.net/lib/time"
	"go.starlark.net/starlark"
	"go.starlark.net/starlarkstruct"

	"verif/internal/c06/mutlib"
)

type discCall struct {
	Tmpl       string // expression with {x} where the iterable goes
	RecvKind   string // list|dict|set if the callable is a method of that kind
	AliasTmpl  string // same call with the collection itself as receiver
	ElemDuring bool   // element callbacks were all observed strictly inside the iteration
}

type discCb struct {
	Tmpl   string // expression with {x} and {cb}
	During bool   // the callable was only invoked strictly inside the iteration
}

type discOp struct {
	Kind, Tmpl string
	Callbacks  bool // element callbacks ran while the collection was locked
}

type discovery struct {
	Nested    []discCall // the collection is an ELEMENT of the argument and gets iterated itself
	Calls     []discCall
	Callbacks []discCb
	Ops       []discOp
	Callables int
	Tried     int
}

type callable struct {
	prefix   string // "sorted", "[9].extend", "json.encode"
	recvKind string
	method   string
}

func listCallables(h *harness) []callable {
	var cs []callable
	for _, name := range starlark.Universe.Keys() {
		if _, ok := starlark.Universe[name].(*starlark.Builtin); ok {
			cs = append(cs, callable{prefix: name})
		}
	}
	recvs := []struct{ kind, lit string }{
		{"list", "[9]"}, {"dict", "{7: 9}"}, {"set", "set([9])"}, {"string", `"a"`}, {"bytes", `b"a"`}, {"tuple", "(9,)"}, {"range", "range(3)"},
	}
	for _, r := range recvs {
		v, err := starlark.EvalOptions(fileOpts, newThread("d"), "d", r.lit, nil)
		if err != nil {
			continue
		}
		ha, ok := v.(starlark.HasAttrs)
		if !ok {
			continue
		}
		names := append([]string(nil), ha.AttrNames()...)
		sort.Strings(names)
		for _, n := range names {
			cs = append(cs, callable{prefix: r.lit + "." + n, recvKind: r.kind, method: n})
		}
	}
	mods := []struct {
		name string
		m    *starlarkstruct.Module
	}{{"json", json.Module}, {"math", stdmath.Module}, {"time", time.Module}}
	for _, m := range mods {
		for _, n := range m.m.Members.Keys() {
			if _, ok := m.m.Members[n].(starlark.Callable); ok {
				cs = append(cs, callable{prefix: m.name + "." + n})
			}
		}
	}
	cs = append(cs, callable{prefix: "struct"})
	return cs
}

// evalProbe evaluates expr with P bound to a fresh probe over fam elements.
func (h *harness) evalProbe(expr, fam string) (p *Probe, err error, cbs int) {
	p = &Probe{elems: famElems(fam, 3, h)}
	h.probe = p
	h.cbSeen = 0
	defer func() {
		h.probe = nil
		cbs = h.cbSeen
		if r := recover(); r != nil {
			err = fmt.Errorf("panic: %v", r)
		}
	}()
	env := starlark.StringDict{"P": p}
	for k, v := range h.pre {
		env[k] = v
	}
	_, err = starlark.EvalOptions(fileOpts, newThread("probe"), "probe", expr, env)
	return
}

var fillers = []string{"0", `"a"`, "[9]", "None", "len"}

func fillerCombos(p int) [][]string {
	out := [][]string{nil}
	for i := 0; i < p; i++ {
		var next [][]string
		for _, c := range out {
			for _, f := range fillers {
				next = append(next, append(append([]string(nil), c...), f))
			}
		}
		out = next
	}
	return out
}

func discover(h *harness) *discovery {
	d := &discovery{}
	cals := listCallables(h)
	d.Callables = len(cals)
	for _, c := range cals {
		for p := 0; p <= 2; p++ {
			var chosen string
			chosenOK := false
			for _, combo := range fillerCombos(p) {
				args := strings.Join(append(append([]string(nil), combo...), "P"), ", ")
				expr := c.prefix + "(" + args + ")"
				iter, ok := false, false
				for _, fam := range families {
					pr, err, _ := h.evalProbe(expr, fam)
					d.Tried++
					if pr.iterates > 0 {
						iter = true
						if err == nil {
							ok = true
							break
						}
					}
				}
				if !iter {
					continue
				}
				if chosen == "" || (ok && !chosenOK) {
					chosen, chosenOK = expr, ok
				}
				if chosenOK {
					break
				}
			}
			if chosen == "" {
				continue
			}
			tmpl := strings.TrimSuffix(chosen, "P)") + "{x})"
			dc := discCall{Tmpl: tmpl}
			if c.recvKind == "list" || c.recvKind == "dict" || c.recvKind == "set" {
				dc.RecvKind = c.recvKind
				dc.AliasTmpl = "{x}." + c.method + strings.TrimPrefix(tmpl, c.prefix)
			}
			pr, _, _ := h.evalProbe(chosen, famE)
			dc.ElemDuring = pr.cbInWindow > 0 && pr.cbOutside == 0
			d.Calls = append(d.Calls, dc)
			// does it also accept a callable that it calls back?
			for _, v := range []string{", key=CB)", ", CB)"} {
				e2 := strings.TrimSuffix(chosen, ")") + v
				pr, _, cbs := h.evalProbe(e2, famInt)
				d.Tried++
				if pr.iterates > 0 && cbs > 0 {
					t2 := strings.TrimSuffix(tmpl, ")") + strings.ReplaceAll(v, "CB", "{cb}")
					d.Callbacks = append(d.Callbacks, discCb{Tmpl: t2, During: pr.cbInWindow > 0 && pr.cbOutside == 0})
					break
				}
			}
		}
	}
	// Built-ins that iterate the ELEMENTS of their argument (dict(pairs),
	// d.update(pairs), zip(...), json.encode of nested values, ...): the probe
	// is placed inside a wrapper; if Iterate is called on it, the construct is
	// kept with the collection in the probe's place.
	seenNested := map[string]bool{}
	for _, c := range cals {
		for p := 0; p <= 1; p++ {
			for _, combo := range fillerCombos(p) {
				for _, wrap := range []string{"[P]", "[(0, 1), P]", "(P, P)", "{0: P}"} {
					args := strings.Join(append(append([]string(nil), combo...), wrap), ", ")
					expr := c.prefix + "(" + args + ")"
					iter := false
					for _, fam := range []string{famInt, famStr} {
						pr, _, _ := h.evalProbe(expr, fam)
						d.Tried++
						if pr.iterates > 0 {
							iter = true
							break
						}
					}
					if !iter {
						continue
					}
					key := c.prefix + "|" + wrap
					if seenNested[key] {
						continue // one filler combination per (callable, wrapper)
					}
					seenNested[key] = true
					tmpl := c.prefix + "(" + strings.Join(append(append([]string(nil), combo...), strings.ReplaceAll(wrap, "P", "{x}")), ", ") + ")"
					d.Nested = append(d.Nested, discCall{Tmpl: tmpl})
				}
			}
		}
	}
	// operators and receiver methods: every binary operator and augmented
	// assignment with the collection on either side (other operand: equal
	// content, a strict subset, a strict superset), and every method of the
	// collection itself with pool arguments. Kept if an element callback ever
	// observed a live iterator on the collection (Callbacks=true) or if a
	// probe in the collection's place had Iterate called.
	var tms []string
	for _, y := range []string{"{y}", "{ysub}", "{ysup}"} {
		for _, op := range []string{"+", "-", "*", "/", "//", "%", "&", "|", "^", "<<", ">>", "==", "!=", "<", "<=", ">", ">=", "in", "not in"} {
			tms = append(tms, "r = {x} "+op+" "+y, "r = "+y+" "+op+" {x}")
		}
		for _, op := range []string{"+=", "-=", "*=", "/=", "//=", "%=", "&=", "|=", "^=", "<<=", ">>="} {
			tms = append(tms, "yy = "+y+"; yy "+op+" {x}")
		}
	}
	for _, kind := range kinds {
		var all []string
		all = append(all, tms...)
		proto := mkColl(kind, famE, 3, h)
		for _, op := range mutlib.MethodOps(proto, mutlib.Pool()) {
			all = append(all, "r = {x}."+op.Desc)
		}
		for _, t := range all {
			cs := &Case{Kind: kind, Fam: famE, N: 3, Cons: "op:" + t, Tmpl: t, Nest: "N1", Site: "none", Tag: "locked"}
			if err := h.prepare(cs); err != nil {
				continue
			}
			x := mkColl(kind, famE, 3, h)
			h.watch, h.watchLive = x, 0
			h.runOnce(newThread("opd"), x, 0)
			live := h.watchLive
			h.watch = nil
			// the same statement with a probe where the collection stands
			pr := &Probe{elems: famElems(famE, 3, h)}
			h.probe = pr
			func() {
				defer func() { recover() }()
				starlark.Call(newThread("opp"), h.run, starlark.Tuple{pr}, nil)
			}()
			h.probe = nil
			d.Tried += 2
			if live > 0 || pr.iterates > 0 {
				d.Ops = append(d.Ops, discOp{Kind: kind, Tmpl: t, Callbacks: live > 0})
			}
		}
	}
	h.cs = nil
	return d
}

var famCache = map[string]string{}

// bestFamily picks the first element family with which the construct runs to
// a normal result on a real collection (so that the whole iteration happens).
func bestFamily(h *harness, kind string, n int, tmpl string) string {
	key := kind + "|" + tmpl
	if f, ok := famCache[key]; ok {
		return f
	}
	best := famInt
	for _, fam := range []string{famInt, famStr, famPair} {
		cs := &Case{Kind: kind, Fam: fam, N: n, Cons: "call:", Tmpl: tmpl, Nest: "N1", Site: "none", Tag: "locked"}
		if err := h.prepare(cs); err != nil {
			continue
		}
		out := h.runOnce(newThread("fam"), mkColl(kind, fam, n, h), 0)
		if !out.Err && out.Panic == "" {
			best = fam
			break
		}
	}
	h.cs = nil
	famCache[key] = best
	return best
}
