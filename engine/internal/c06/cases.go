package c06

import (
	"fmt"
	"strings"
)

// ---------------------------------------------------------------------------
// program text of a case

const prelude = `def bad():
    return [][0]
def bad2():
    return bad()
def sink(*a):
    return len(a)
def ksink(**k):
    return len(k)
def reuse(x):
    n = 0
    for e in x:
        n += 1
    mustmutate(x)
    return n
`

func indent(lines []string, n int) []string {
	pad := strings.Repeat("    ", n)
	out := make([]string, len(lines))
	for i, l := range lines {
		out[i] = pad + l
	}
	return out
}

// exitLines: statements taking the exit at step index I. inLoop: break /
// continue / return are available.
func (cs *Case) exitLines(inLoop bool) []string {
	cond := fmt.Sprintf("if step() == %d:", cs.I)
	switch cs.Exit {
	case "break":
		if inLoop {
			return []string{cond, "    break"}
		}
		return []string{cond, "    return False"} // Go push iterator: stop the range loop
	case "continue":
		return []string{cond, "    continue"}
	case "return":
		return []string{cond, `    return "ret"`}
	case "fail":
		return []string{cond, `    fail("x")`}
	case "nested":
		return []string{cond, "    bad2()"}
	case "boom":
		return []string{cond, "    boom()"}
	}
	if cs.Site == "body" || cs.Site == "key" {
		return []string{"step()"}
	}
	return nil
}

// unpack target lists for "values in x" relative to "targets".
func targets(n int) string {
	names := []string{"a", "b", "c", "d", "e2", "f2", "g2"}
	return strings.Join(names[:n], ", ")
}

func unpackTargets(cons string, n int) int {
	switch {
	case strings.Contains(cons, "toomany"):
		return n - 1
	case strings.Contains(cons, "toofew"):
		return n + 1
	}
	return n
}

// constructLines renders the iterating construct over variable x.
func (cs *Case) constructLines() []string {
	att := fmt.Sprintf(`attempt(x, "%s")`, cs.Tag)
	cbdef := func(ret string) []string {
		l := []string{"def cb(e):"}
		if cs.Site == "body" || cs.Site == "key" {
			l = append(l, "    "+att)
		}
		l = append(l, indent(cs.exitLines(false), 1)...)
		l = append(l, "    return "+ret)
		return l
	}
	fill := func(t string) string {
		t = strings.ReplaceAll(t, "{x}", "x")
		t = strings.ReplaceAll(t, "{cb}", "cb")
		t = strings.ReplaceAll(t, "{y}", "other(0)")
		t = strings.ReplaceAll(t, "{ysub}", "other(-1)")
		t = strings.ReplaceAll(t, "{ysup}", "other(1)")
		return t
	}
	switch {
	case cs.Cons == "for":
		l := []string{"for e in x:", "    " + att}
		l = append(l, indent(cs.exitLines(true), 1)...)
		l = append(l, "    tick()")
		return l
	case strings.HasPrefix(cs.Cons, "comp:"):
		l := cbdef("e")
		var e string
		switch cs.Cons {
		case "comp:list":
			e = "[cb(e) for e in x]"
		case "comp:list_if":
			e = "[e for e in x if cb(e)]"
		case "comp:list_2nd":
			e = "[cb(e) for q in (1, 2) for e in x]"
		case "comp:list_1st":
			e = "[cb(e) for e in x for q in (1, 2)]"
		case "comp:list_same2":
			e = "[cb(e) for p in x for e in x]"
		case "comp:dict":
			e = "{e: cb(e) for e in x}"
		case "comp:dict_2nd":
			e = "{(q, e): cb(e) for q in (1, 2) for e in x}"
		}
		return append(l, "r = "+e)
	case cs.Cons == "star:def":
		return []string{"r = sink(*x)"}
	case cs.Cons == "star:builtin":
		return []string{"r = hsink(*x)"}
	case cs.Cons == "star:fails":
		return []string{"r = bad(*x)"}
	case cs.Cons == "starstar:def":
		return []string{"r = ksink(**x)"}
	case strings.HasPrefix(cs.Cons, "unpack_"):
		t := targets(unpackTargets(cs.Cons, cs.N))
		switch {
		case strings.HasSuffix(cs.Cons, ":assign"):
			return []string{t + " = x"}
		case strings.HasSuffix(cs.Cons, ":list"):
			return []string{"[" + t + "] = x"}
		case strings.HasSuffix(cs.Cons, ":for"):
			return []string{"for (" + t + ") in [x]:", "    tick()"}
		case strings.HasSuffix(cs.Cons, ":comp"):
			return []string{"r = [a for (" + t + ") in [x]]"}
		}
	case strings.HasPrefix(cs.Cons, "cb:"), strings.HasPrefix(cs.Cons, "gopush:"):
		l := cbdef("0")
		return append(l, fill(cs.Tmpl))
	case strings.HasPrefix(cs.Cons, "call:"), strings.HasPrefix(cs.Cons, "alias:"), strings.HasPrefix(cs.Cons, "op:"):
		return []string{fill(cs.Tmpl)}
	}
	panic("unknown construct " + cs.Cons)
}

func (cs *Case) source() string {
	c := cs.constructLines()
	outerAtt := `attempt(x, "locked")`
	var l []string
	switch cs.Nest {
	case "N1":
		l = append(l, "def run(x):", "    mark()")
		l = append(l, indent(c, 1)...)
		l = append(l, "    unmark()", "    free(x)", `    return "done"`)
	case "N2":
		l = append(l, "def run(x):", "    for o in x:", "        mark()")
		l = append(l, indent(c, 2)...)
		l = append(l, "        unmark()", "        "+outerAtt, "    free(x)", `    return "done"`)
	case "N3":
		l = append(l, "def inner(x):", "    mark()")
		l = append(l, indent(c, 1)...)
		l = append(l, "    unmark()", "    free(x)", `    return "inner"`)
		l = append(l, "def run(x):", "    r = inner(x)", "    unmark()", "    free(x)", "    return r")
	case "N4":
		l = append(l, "def inner(x):", "    mark()")
		l = append(l, indent(c, 1)...)
		l = append(l, "    unmark()", "    "+outerAtt, `    return "inner"`)
		l = append(l, "def run(x):", "    for o in x:", "        inner(x)", "        unmark()", "        "+outerAtt, "    free(x)", `    return "done"`)
	default:
		panic("nest " + cs.Nest)
	}
	return prelude + strings.Join(l, "\n") + "\n"
}

// ---------------------------------------------------------------------------
// enumeration

// group is everything but the exit index and the cancellation point.
type group struct {
	Level string
	Case  Case     // Exit/I/K unset
	Exits []string // exit kinds to enumerate
}

var kinds = []string{"list", "dict", "set"}

func nests(full bool) []string {
	if full {
		return []string{"N1", "N2", "N3", "N4"}
	}
	return []string{"N1", "N2", "N3"}
}

type enumCfg struct {
	N       int
	PerName int
	AllI    bool
	// Full: mutator x nesting is the full product; otherwise (quick) every
	// mutator is tried un-nested and every nesting with the first mutator.
	Full bool
}

func cfgFor(tier string) enumCfg {
	if tier == "thorough" {
		return enumCfg{N: 3, PerName: 2, AllI: true, Full: true}
	}
	return enumCfg{N: 3, PerName: 1, AllI: false}
}

// pairs yields the (mutator, nesting) combinations for a construct.
func (cfg enumCfg) pairs(ms []mutSel, ns []string) [][2]string {
	var out [][2]string
	for mi, m := range ms {
		for ni, n := range ns {
			if cfg.Full || mi == 0 || ni == 0 {
				out = append(out, [2]string{m.Desc, n})
			}
		}
	}
	return out
}

// enumerate lists every group, simplest level first. It is deterministic and
// identical in every shard.
func enumerate(cfg enumCfg, h *harness, disc *discovery) []group {
	var gs []group
	n := cfg.N
	defMut := func(kind, fam string) string {
		ms := selectMutators(kind, fam, n, h, 1)
		if len(ms) == 0 {
			return ""
		}
		return ms[0].Desc
	}
	// L1: syntactic constructs without a body
	nobody := []string{"star:def", "star:builtin", "star:fails"}
	for _, shape := range []string{"toomany", "exact", "toofew"} {
		for _, form := range []string{"assign", "list", "for", "comp"} {
			nobody = append(nobody, "unpack_"+shape+":"+form)
		}
	}
	for _, cons := range nobody {
		for _, kind := range kinds {
			for _, nest := range nests(true) {
				gs = append(gs, group{Level: "L1-nobody", Exits: []string{"exhaust"},
					Case: Case{Kind: kind, Fam: famInt, N: n, Cons: cons, Nest: nest, Site: "none", Tag: "locked", Mut: defMut(kind, famInt)}})
			}
		}
	}
	for _, nest := range nests(true) {
		gs = append(gs, group{Level: "L1-nobody", Exits: []string{"exhaust"},
			Case: Case{Kind: "dict", Fam: famStr, N: n, Cons: "starstar:def", Nest: nest, Site: "none", Tag: "locked", Mut: defMut("dict", famStr)}})
	}
	// L2: for statement
	for _, kind := range kinds {
		for _, m := range selectMutators(kind, famInt, n, h, cfg.PerName) {
			for _, nest := range nests(true) {
				gs = append(gs, group{Level: "L2-for", Exits: []string{"exhaust", "break", "continue", "return", "fail", "nested", "boom"},
					Case: Case{Kind: kind, Fam: famInt, N: n, Cons: "for", Nest: nest, Site: "body", Tag: "locked", Mut: m.Desc}})
			}
		}
	}
	// L3: comprehensions
	for _, cons := range []string{"comp:list", "comp:list_if", "comp:list_2nd", "comp:list_1st", "comp:list_same2", "comp:dict", "comp:dict_2nd"} {
		for _, kind := range kinds {
			for _, mn := range cfg.pairs(selectMutators(kind, famInt, n, h, cfg.PerName), nests(true)) {
				gs = append(gs, group{Level: "L3-comprehension", Exits: []string{"exhaust", "fail", "nested", "boom"},
					Case: Case{Kind: kind, Fam: famInt, N: n, Cons: cons, Nest: mn[1], Site: "body", Tag: "locked", Mut: mn[0]}})
			}
		}
	}
	// L4: Go push iterators and discovered built-ins taking a callback
	type cbc struct {
		cons, tmpl string
		kinds      []string
		during     bool
		exits      []string
	}
	var cbs []cbc
	cbs = append(cbs,
		cbc{"gopush:Elements", "r = go_Elements({x}, {cb})", []string{"list", "set"}, true, []string{"exhaust", "break", "fail", "nested", "boom"}},
		cbc{"gopush:Entries", "r = go_Entries({x}, {cb})", []string{"dict"}, true, []string{"exhaust", "break", "fail", "nested", "boom"}},
		cbc{"gopush:starlark.Elements", "r = go_starlark_Elements({x}, {cb})", kinds, true, []string{"exhaust", "break", "fail", "nested", "boom"}},
		cbc{"gopush:starlark.Entries", "r = go_starlark_Entries({x}, {cb})", []string{"dict"}, true, []string{"exhaust", "break", "fail", "nested", "boom"}},
		// overlapping Go iterations that do not end in nested order
		cbc{"gopush:two pull cursors stopped first-in-first-out", "r = go_pull_fifo({x}, {cb})", kinds, true, []string{"exhaust", "break", "fail", "nested"}},
		cbc{"gopush:Iterate obtained inside a push loop, used after it", "r = go_iterate_in_push({x}, {cb})", kinds, true, []string{"exhaust", "break", "fail", "nested"}},
	)
	for _, d := range disc.Callbacks {
		cbs = append(cbs, cbc{"cb:" + d.Tmpl, "r = " + d.Tmpl, kinds, d.During, []string{"exhaust", "fail", "nested", "boom"}})
	}
	for _, c := range cbs {
		for _, kind := range c.kinds {
			tag := "cond"
			// A callback that the discovery run saw strictly inside the
			// iteration must find the collection locked. (dict: built-ins may
			// legitimately work on an Items() snapshot, so only conditional.)
			if c.during && (kind != "dict" || strings.HasPrefix(c.cons, "gopush:")) {
				tag = "locked"
			}
			for _, mn := range cfg.pairs(selectMutators(kind, famInt, n, h, cfg.PerName), nests(false)) {
				gs = append(gs, group{Level: "L4-callback", Exits: c.exits,
					Case: Case{Kind: kind, Fam: famInt, N: n, Cons: c.cons, Tmpl: c.tmpl, Nest: mn[1], Site: "key", Tag: tag, Mut: mn[0]}})
			}
		}
	}
	// L5: discovered built-ins and methods that iterate an argument
	for _, d := range disc.Calls {
		for _, kind := range kinds {
			variants := []struct{ cons, tmpl string }{{"call:" + d.Tmpl, "r = " + d.Tmpl}}
			if d.RecvKind == kind && d.AliasTmpl != "" {
				variants = append(variants, struct{ cons, tmpl string }{"alias:" + d.AliasTmpl, "r = " + d.AliasTmpl})
			}
			for _, v := range variants {
				fam := bestFamily(h, kind, n, v.tmpl)
				for _, nest := range nests(false) {
					gs = append(gs, group{Level: "L5-builtin", Exits: []string{"exhaust"},
						Case: Case{Kind: kind, Fam: fam, N: n, Cons: v.cons, Tmpl: v.tmpl, Nest: nest, Site: "none", Tag: "locked", Mut: defMut(kind, fam)}})
				}
				if strings.HasPrefix(v.cons, "alias:") {
					continue
				}
				tag := "cond"
				if d.ElemDuring && kind != "dict" {
					tag = "locked"
				}
				for _, mn := range cfg.pairs(selectMutators(kind, famE, n, h, cfg.PerName), nests(false)) {
					gs = append(gs, group{Level: "L5-builtin", Exits: []string{"exhaust", "err", "boom"},
						Case: Case{Kind: kind, Fam: famE, N: n, Cons: v.cons, Tmpl: v.tmpl, Nest: mn[1], Site: "elem", Tag: tag, Mut: mn[0]}})
				}
			}
		}
	}
	// L5n: built-ins that iterate the elements of their argument, with the
	// collection as such an element, of every length 1..3 (a "pair" of the
	// wrong length is the error exit of dict(pairs) and d.update(pairs))
	for _, d := range disc.Nested {
		for _, kind := range kinds {
			for _, fam := range []string{famInt, famStr} {
				for nn := 1; nn <= 3; nn++ {
					for _, nest := range []string{"N1", "N2"} {
						gs = append(gs, group{Level: "L5-builtin", Exits: []string{"exhaust"},
							Case: Case{Kind: kind, Fam: fam, N: nn, Cons: "call:" + d.Tmpl, Tmpl: "r = " + d.Tmpl, Nest: nest, Site: "none", Tag: "locked", Mut: defMut(kind, fam)}})
					}
				}
			}
		}
	}
	// L5r: the syntactic constructs (every group of L1-L3) once more, run from a compiled
	// program that went through Program.Write and CompiledProgram
	for _, g := range append([]group(nil), gs...) {
		if g.Level == "L1-nobody" || g.Level == "L2-for" || g.Level == "L3-comprehension" {
			if g.Case.Nest != "N1" && g.Case.Nest != "N3" {
				continue
			}
			r := g
			r.Level = "L5-builtin"
			r.Case.Reloaded = true
			gs = append(gs, r)
		}
	}
	// L6: operators / receiver methods found to iterate the collection
	for _, d := range disc.Ops {
		fam := bestFamily(h, d.Kind, n, d.Tmpl)
		for _, nest := range nests(false) {
			gs = append(gs, group{Level: "L6-operator", Exits: []string{"exhaust"},
				Case: Case{Kind: d.Kind, Fam: fam, N: n, Cons: "op:" + d.Tmpl, Tmpl: d.Tmpl, Nest: nest, Site: "none", Tag: "locked", Mut: defMut(d.Kind, fam)}})
		}
		if !d.Callbacks {
			continue
		}
		for _, mn := range cfg.pairs(selectMutators(d.Kind, famE, n, h, cfg.PerName), nests(false)) {
			gs = append(gs, group{Level: "L6-operator", Exits: []string{"exhaust", "err", "boom"},
				Case: Case{Kind: d.Kind, Fam: famE, N: n, Cons: "op:" + d.Tmpl, Tmpl: d.Tmpl, Nest: mn[1], Site: "elem", Tag: "cond", Mut: mn[0]}})
		}
	}
	return gs
}

var levelOrder = []string{"L1-nobody", "L2-for", "L3-comprehension", "L4-callback", "L5-builtin", "L6-operator"}
