//go:build !race

package fw

const raceBuild = false
