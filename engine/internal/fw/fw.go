// Package fw is the shared frame of the verification engine: a property is a
// bounded exhaustive exploration that produces Stats; fw shards it over worker
// processes, isolates crashes, matches known findings, re-executes violations
// from their replay file and writes evidence/<id>.json.
package fw

import (
	"bufio"
	"bytes"
	"crypto/sha256"
	"encoding/hex"
	"encoding/json"
	"fmt"
	"os"
	"os/exec"
	"path/filepath"
	"runtime"
	"sort"
	"strconv"
	"strings"
	"sync"
	"syscall"
	"time"
)

const Root = "/verif"

// Viol is one violating case. Key is its canonical identity (the thing a
// known-findings entry names); Case is everything Replay needs.
type Viol struct {
	Key  string          `json:"key"`
	What string          `json:"what"`
	Case json.RawMessage `json:"case,omitempty"`
}

// Stats is what an exploration (or one shard of it) measured.
type Stats struct {
	Evals       int64            `json:"evals"`       // executions against the implementation
	Nontrivial  int64            `json:"nontrivial"`  // distinct cases in which the oracle had something to compare
	States      int64            `json:"states"`      // distinct canonical states (S-shaped searches)
	Transitions int64            `json:"transitions"` // operations applied to reach/leave states
	Schedules   int64            `json:"schedules"`   // complete schedules / fault placements (D-shaped searches)
	Counters    map[string]int64 `json:"counters,omitempty"`
	Outcomes    map[string]int64 `json:"outcomes,omitempty"` // outcome class -> count (vacuity guard)
	Samples     []any            `json:"samples,omitempty"`
	Viols       []Viol           `json:"viols,omitempty"`
	Levels      []string         `json:"levels,omitempty"` // fully completed enumeration levels
	Cut         []string         `json:"cut,omitempty"`    // levels cut by the budget (then exhaustive=false)
	Notes       []string         `json:"notes,omitempty"`
	Inconcl     []string         `json:"inconclusive,omitempty"`
}

func NewStats() *Stats {
	return &Stats{Counters: map[string]int64{}, Outcomes: map[string]int64{}}
}

func (s *Stats) Count(name string, n int64) {
	if s.Counters == nil {
		s.Counters = map[string]int64{}
	}
	s.Counters[name] += n
}

const maxOutcomeKeys = 4096

func (s *Stats) Outcome(class string) {
	if s.Outcomes == nil {
		s.Outcomes = map[string]int64{}
	}
	if _, ok := s.Outcomes[class]; !ok && len(s.Outcomes) >= maxOutcomeKeys {
		class = "(other)"
	}
	s.Outcomes[class]++
}

func (s *Stats) Sample(x any) {
	if len(s.Samples) < 6 {
		s.Samples = append(s.Samples, x)
	}
}

func (s *Stats) Violate(key, what string, c any) {
	if len(s.Viols) >= 200 {
		s.Count("violations_dropped_over_200", 1)
		return
	}
	var raw json.RawMessage
	if c != nil {
		raw, _ = json.Marshal(c)
	}
	s.Viols = append(s.Viols, Viol{Key: key, What: what, Case: raw})
}

func (s *Stats) Merge(o *Stats) {
	if o == nil {
		return
	}
	s.Evals += o.Evals
	s.Nontrivial += o.Nontrivial
	s.States += o.States
	s.Transitions += o.Transitions
	s.Schedules += o.Schedules
	for k, v := range o.Counters {
		s.Count(k, v)
	}
	for k, v := range o.Outcomes {
		if s.Outcomes == nil {
			s.Outcomes = map[string]int64{}
		}
		if _, ok := s.Outcomes[k]; !ok && len(s.Outcomes) >= maxOutcomeKeys {
			k = "(other)"
		}
		s.Outcomes[k] += v
	}
	for _, x := range o.Samples {
		s.Sample(x)
	}
	s.Viols = append(s.Viols, o.Viols...)
	s.Levels = append(s.Levels, o.Levels...)
	s.Cut = append(s.Cut, o.Cut...)
	s.Notes = append(s.Notes, o.Notes...)
	s.Inconcl = append(s.Inconcl, o.Inconcl...)
}

// Ctx is handed to a property's Run.
type Ctx struct {
	ID       string
	Tier     string // quick | thorough
	Seed     int64
	Shard    int // worker only
	NShards  int
	Args     []string // worker only: extra arguments
	Deadline time.Time
	IsWorker bool
	progress *os.File
	resume   string // skip cases up to and including this progress key (crash restart)
	resuming bool
}

func (c *Ctx) Thorough() bool { return c.Tier == "thorough" }

// Expired reports whether the deepening budget is used up. It is only ever
// consulted between enumeration levels or to cut a level short (in which case
// the level is reported under Cut); it never feeds an oracle.
func (c *Ctx) Expired() bool { return time.Now().After(c.Deadline) }

// Mine reports whether case number i belongs to this shard.
func (c *Ctx) Mine(i int64) bool {
	if c.NShards <= 1 {
		return true
	}
	return int(i%int64(c.NShards)) == c.Shard
}

// Risky records key as the case about to run, so that if the process dies the
// coordinator knows which case killed it. It returns false if the case must
// be skipped because a restarted worker is still fast-forwarding to the case
// after the one that crashed.
func (c *Ctx) Risky(key string) bool {
	if c.resuming {
		if key == c.resume {
			c.resuming = false
		}
		return false
	}
	if c.progress != nil {
		b := make([]byte, 0, len(key)+1)
		b = append(b, key...)
		b = append(b, '\n')
		c.progress.Truncate(0)
		c.progress.WriteAt(b, 0)
	}
	return true
}

// Prop is one property's check.
type Prop struct {
	ID    string
	Level string // evidence level
	Rule  string // how cases are enumerated / what counts as non-trivial
	// Run is the coordinator entry: it usually calls ctx.Sharded.
	Run func(c *Ctx) *Stats
	// Worker runs one shard (optional).
	Worker func(c *Ctx) *Stats
	// Replay re-executes one violating case and returns the violations it
	// shows now (empty = did not reproduce).
	Replay      func(c *Ctx, raw json.RawMessage) []Viol
	Assumptions []string
	// BudgetQuick/BudgetThorough are deepening budgets in seconds.
	BudgetQuick, BudgetThorough int
}

var Props = map[string]*Prop{}

func Register(p *Prop) { Props[p.ID] = p }

// ---------------------------------------------------------------------------
// sharding

type CrashInfo struct {
	Shard  int
	Key    string
	Stderr string
}

// Sharded runs the property's Worker in n subprocesses and merges their
// stats. If a worker dies, onCrash (if non-nil) is told which case was
// running; the shard is restarted just after that case. With onCrash nil a
// dead worker is a harness error.
func (c *Ctx) Sharded(n int, onCrash func(ci CrashInfo, s *Stats), args ...string) *Stats {
	if n <= 0 {
		n = runtime.NumCPU()
	}
	self, err := os.Executable()
	if err != nil {
		Fatal("os.Executable: %v", err)
	}
	total := NewStats()
	var mu sync.Mutex
	var wg sync.WaitGroup
	// A worker polls the deadline between cases. One that is still running long
	// after it (5 minutes, or half the budget if that is more) is stuck inside a
	// case: it is made to dump its goroutines and is killed, and is then handled
	// like any other dead worker (attributed to its announced case, or a harness error).
	grace := time.Until(c.Deadline) / 2
	if grace < 5*time.Minute {
		grace = 5 * time.Minute
	}
	killAt := c.Deadline.Add(grace)
	for i := 0; i < n; i++ {
		wg.Add(1)
		go func(shard int) {
			defer wg.Done()
			resume := ""
			for attempt := 0; ; attempt++ {
				pf, _ := os.CreateTemp(BinDir(), "progress-*.tmp")
				pf.Close()
				a := append([]string{"worker", c.ID, c.Tier, strconv.Itoa(shard), strconv.Itoa(n)}, args...)
				cmd := exec.Command(self, a...)
				cmd.Env = append(os.Environ(),
					"VERIF_PROGRESS="+pf.Name(),
					"VERIF_RESUME="+resume,
					"VERIF_DEADLINE="+strconv.FormatInt(c.Deadline.UnixNano(), 10),
					"VERIF_SEED="+strconv.FormatInt(c.Seed, 10))
				var out, errb bytes.Buffer
				cmd.Stdout = &out
				cmd.Stderr = &errb
				runErr := cmd.Start()
				if runErr == nil {
					done := make(chan struct{})
					note := make(chan string, 1)
					go func() {
						select {
						case <-done:
						case <-time.After(time.Until(killAt)):
							note <- fmt.Sprintf("OVERRUN: worker %d still running %v after the deadline; goroutine dump requested, then killed\n", shard, grace)
							cmd.Process.Signal(syscall.SIGQUIT)
							select {
							case <-done:
							case <-time.After(20 * time.Second):
								cmd.Process.Kill()
							}
						}
					}()
					runErr = cmd.Wait()
					close(done)
					select {
					case msg := <-note:
						errb.WriteString("\n" + msg)
					default:
					}
				}
				st, ok := parseResult(out.Bytes())
				if ok {
					mu.Lock()
					total.Merge(st)
					mu.Unlock()
				}
				pk, _ := os.ReadFile(pf.Name())
				os.Remove(pf.Name())
				if runErr == nil && ok {
					return
				}
				// The worker died.
				key := strings.TrimRight(string(pk), "\n")
				ci := CrashInfo{Shard: shard, Key: key, Stderr: tail(errb.String(), 4000)}
				if onCrash == nil || key == "" || attempt > 200 {
					Fatal("worker %d of %s died (err=%v, case=%q):\n%s", shard, c.ID, runErr, key, ci.Stderr)
				}
				mu.Lock()
				onCrash(ci, total)
				mu.Unlock()
				resume = key
			}
		}(i)
	}
	wg.Wait()
	return total
}

// EngineDir is the directory of the engine sources this binary was built
// from (its oracle scripts live there); Root/engine if that is gone.
func EngineDir() string {
	_, file, _, _ := runtime.Caller(0)
	d := filepath.Dir(filepath.Dir(filepath.Dir(file)))
	if _, err := os.Stat(filepath.Join(d, "go.mod")); err == nil {
		return d
	}
	return Root + "/engine"
}

// OutDir is where evidence/ and replays/ are written (VERIF_OUT overrides it
// for runs against mutated copies, so that they do not clobber real evidence).
func OutDir() string {
	if d := os.Getenv("VERIF_OUT"); d != "" {
		return d
	}
	return Root
}

// BinDir is where build outputs and scratch files of this run live.
func BinDir() string {
	if d := os.Getenv("VERIF_BIN"); d != "" {
		return d
	}
	return filepath.Join(Root, "bin")
}

func tail(s string, n int) string {
	if len(s) > n {
		return s[:n/2] + "\n...\n" + s[len(s)-n/2:]
	}
	return s
}

func parseResult(out []byte) (*Stats, bool) {
	sc := bufio.NewScanner(bytes.NewReader(out))
	sc.Buffer(make([]byte, 1<<20), 1<<30)
	var st *Stats
	for sc.Scan() {
		line := sc.Text()
		if strings.HasPrefix(line, "RESULT ") {
			s := NewStats()
			if err := json.Unmarshal([]byte(line[7:]), s); err == nil {
				if st == nil {
					st = s
				} else {
					st.Merge(s)
				}
			}
		}
	}
	return st, st != nil
}

// EmitPartial lets a worker flush what it has so far (kept if it later dies).
func EmitPartial(s *Stats) {
	b, _ := json.Marshal(s)
	fmt.Printf("RESULT %s\n", b)
}

func Fatal(format string, a ...any) {
	fmt.Fprintf(os.Stderr, "HARNESS-ERROR: "+format+"\n", a...)
	os.Exit(2)
}

// ---------------------------------------------------------------------------
// known findings

type Finding struct {
	Property string `json:"property"`
	Key      string `json:"key"`
	What     string `json:"what"`
	Fixed    string `json:"fixed,omitempty"`  // "fixed: property=<id> <commit> <what>" entries suppress nothing
	Prefix   bool   `json:"prefix,omitempty"` // Key names a call site: it matches every case key that starts with it
}

func loadFindings() []Finding {
	var all []Finding
	paths := []string{filepath.Join(Root, "known_findings.json")}
	more, _ := filepath.Glob(filepath.Join(Root, "findings.d", "*.json"))
	paths = append(paths, more...)
	for _, p := range paths {
		b, err := os.ReadFile(p)
		if err != nil {
			continue
		}
		var f struct {
			Findings []Finding `json:"findings"`
		}
		if err := json.Unmarshal(b, &f); err != nil {
			Fatal("%s: %v", p, err)
		}
		all = append(all, f.Findings...)
	}
	return all
}

// ---------------------------------------------------------------------------
// main entry points

func budget(p *Prop, tier string) time.Duration {
	if v := os.Getenv("VERIF_BUDGET_S"); v != "" {
		if n, err := strconv.Atoi(v); err == nil {
			return time.Duration(n) * time.Second
		}
	}
	q, t := p.BudgetQuick, p.BudgetThorough
	if q < 150 {
		// the quick levels are finite and take 5-60 s on an idle 16-core machine; the
		// budget only matters on a loaded one, where cutting a level would weaken the check
		q = 150
	}
	if t == 0 {
		t = 900
	}
	if tier == "thorough" {
		return time.Duration(t) * time.Second
	}
	return time.Duration(q) * time.Second
}

func seed() int64 {
	if v := os.Getenv("VERIF_SEED"); v != "" {
		if n, err := strconv.ParseInt(v, 10, 64); err == nil {
			return n
		}
	}
	return 1
}

func Main() {
	if len(os.Args) < 3 {
		fmt.Fprintln(os.Stderr, "usage: vcheck run <ID> <tier> | worker <ID> <tier> <shard> <n> [args] | replay <ID> <file>")
		os.Exit(2)
	}
	p := Props[os.Args[2]]
	if p == nil {
		Fatal("unknown property %q", os.Args[2])
	}
	switch os.Args[1] {
	case "run":
		tier := "quick"
		if len(os.Args) > 3 {
			tier = os.Args[3]
		}
		if os.Getenv("VERIF_CHILD") == "" && os.Getenv("VERIF_KEYS_ONLY") == "" {
			os.Exit(guardedRun(p, tier))
		}
		os.Exit(runCheck(p, tier))
	case "worker":
		tier := os.Args[3]
		shard, _ := strconv.Atoi(os.Args[4])
		n, _ := strconv.Atoi(os.Args[5])
		c := &Ctx{ID: p.ID, Tier: tier, Seed: seed(), Shard: shard, NShards: n, Args: os.Args[6:], IsWorker: true}
		if v := os.Getenv("VERIF_DEADLINE"); v != "" {
			ns, _ := strconv.ParseInt(v, 10, 64)
			c.Deadline = time.Unix(0, ns)
		} else {
			c.Deadline = time.Now().Add(budget(p, tier))
		}
		if pf := os.Getenv("VERIF_PROGRESS"); pf != "" {
			c.progress, _ = os.OpenFile(pf, os.O_WRONLY|os.O_CREATE, 0o644)
		}
		if r := os.Getenv("VERIF_RESUME"); r != "" {
			c.resume, c.resuming = r, true
		}
		limitAddressSpace()
		st := p.Worker(c)
		EmitPartial(st)
		os.Exit(0)
	case "replay":
		raw, err := os.ReadFile(os.Args[3])
		if err != nil {
			Fatal("%v", err)
		}
		var v Viol
		if err := json.Unmarshal(raw, &v); err != nil {
			Fatal("replay file: %v", err)
		}
		c := &Ctx{ID: p.ID, Tier: "quick", Seed: seed(), Deadline: time.Now().Add(time.Hour)}
		vs := p.Replay(c, v.Case)
		for _, x := range vs {
			fmt.Printf("REPRODUCED key=%s what=%s\n", x.Key, x.What)
		}
		if len(vs) > 0 {
			os.Exit(1)
		}
		fmt.Println("not reproduced")
		os.Exit(0)
	default:
		Fatal("unknown mode %q", os.Args[1])
	}
}

// limitAddressSpace caps a worker's address space (the 4 GiB small-int
// reservation of starlark.Int plus 10 GiB), so that a case that allocates
// without bound kills its worker instead of exhausting the machine. A
// property that sets its own, tighter limit later (C02) still can. Race
// builds are exempt: the detector's shadow memory needs terabytes of
// address space.
func limitAddressSpace() {
	if raceBuild || os.Getenv("VERIF_NO_RLIMIT") != "" {
		return
	}
	lim := uint64(14) << 30
	var cur syscall.Rlimit
	if syscall.Getrlimit(syscall.RLIMIT_AS, &cur) == nil && cur.Cur < lim {
		return
	}
	syscall.Setrlimit(syscall.RLIMIT_AS, &syscall.Rlimit{Cur: lim, Max: cur.Max})
}

// guardedRun runs the check in a child process. Several checks execute the
// implementation inside the coordinating process; a modification of the
// implementation that makes the Go runtime abort there (stack exhaustion,
// concurrent map access through state shared behind the API, ...) would
// otherwise end the check without a verdict. If the child is killed by the
// runtime, it is run once more; if it dies again, that is reported as a
// violation whose replay artefact is the run itself.
func guardedRun(p *Prop, tier string) int {
	self, err := os.Executable()
	if err != nil {
		return runCheck(p, tier)
	}
	run := func() (code int, death string) {
		cmd := exec.Command(self, "run", p.ID, tier)
		cmd.Env = append(os.Environ(), "VERIF_CHILD=1")
		cmd.Stdout = os.Stdout
		var errb bytes.Buffer
		cmd.Stderr = &errb
		runErr := cmd.Run()
		es := errb.String()
		code = 0
		if cmd.ProcessState != nil {
			code = cmd.ProcessState.ExitCode()
		}
		if runErr == nil || code == 1 || strings.Contains(es, "HARNESS-ERROR") {
			os.Stderr.WriteString(es)
			return code, ""
		}
		for _, marker := range []string{"fatal error:", "panic:", "goroutine stack exceeds", "signal:"} {
			if i := strings.Index(es, marker); i >= 0 {
				os.Stderr.WriteString(tail(es, 3000))
				return code, oneLine(es[i:min(len(es), i+300)], 300)
			}
		}
		os.Stderr.WriteString(es)
		return code, ""
	}
	code, death := run()
	if death == "" {
		return code
	}
	fmt.Fprintf(os.Stderr, "%s: the checking process was killed by the Go runtime (%s); running it once more\n", p.ID, death)
	_, death2 := run()
	if death2 == "" {
		fmt.Fprintf(os.Stderr, "HARNESS-ERROR: the checking process died once (%s) but not when run again\n", death)
		return 2
	}
	os.MkdirAll(filepath.Join(OutDir(), "replays"), 0o755)
	path := filepath.Join(OutDir(), "replays", p.ID+"-process-death.json")
	v := Viol{Key: "process-death:" + death2, What: "the process that exercises the implementation was killed by the Go runtime, twice in two runs: " + death + " | " + death2 + " (replay: run the check again)"}
	b, _ := json.MarshalIndent(v, "", " ")
	os.WriteFile(path, b, 0o644)
	fmt.Printf("  %s: %s\n", v.Key, oneLine(v.What, 600))
	fmt.Printf("VIOLATION property=%s replay=%s\n", p.ID, path)
	return 1
}

func runCheck(p *Prop, tier string) int {
	start := time.Now()
	c := &Ctx{ID: p.ID, Tier: tier, Seed: seed(), NShards: 1, Deadline: start.Add(budget(p, tier))}
	os.MkdirAll(BinDir(), 0o755)
	os.MkdirAll(filepath.Join(OutDir(), "replays"), 0o755)
	os.MkdirAll(filepath.Join(OutDir(), "evidence"), 0o755)
	st := p.Run(c)

	// Deduplicate violations by key.
	seen := map[string]bool{}
	var viols []Viol
	for _, v := range st.Viols {
		if !seen[v.Key] {
			seen[v.Key] = true
			viols = append(viols, v)
		}
	}
	sort.Slice(viols, func(i, j int) bool { return viols[i].Key < viols[j].Key })

	findings := loadFindings()
	known := map[string]Finding{}
	var knownPrefix []Finding
	for _, f := range findings {
		if f.Property == p.ID && f.Fixed == "" {
			if f.Prefix {
				knownPrefix = append(knownPrefix, f)
			} else {
				known[f.Key] = f
			}
		}
	}
	lookupKnown := func(key string) (Finding, bool) {
		if f, ok := known[key]; ok {
			return f, true
		}
		for _, f := range knownPrefix {
			if strings.HasPrefix(key, f.Key) {
				return f, true
			}
		}
		return Finding{}, false
	}
	if os.Getenv("VERIF_KEYS_ONLY") != "" {
		// child of the whole-run reproduction below: list the violating keys, nothing else
		for _, v := range viols {
			fmt.Printf("VIOLATIONKEY %s\n", v.Key)
		}
		return 0
	}
	nviol, nknown, unreported := 0, 0, 0
	var wholeRuns []map[string]bool
	var unstable []string
	const maxReported = 24
	self, _ := os.Executable()
	var knownHit []string
	for _, v := range viols {
		if f, ok := lookupKnown(v.Key); ok {
			fmt.Printf("KNOWN-FINDING: property=%s %s [%s]\n", p.ID, f.What, v.Key)
			knownHit = append(knownHit, v.Key)
			nknown++
			continue
		}
		if nviol >= maxReported || len(unstable) >= 12 {
			// enough to fail the check; the rest is counted, not re-executed
			unreported++
			continue
		}
		sum := sha256.Sum256([]byte(v.Key))
		path := filepath.Join(OutDir(), "replays", p.ID+"-"+hex.EncodeToString(sum[:6])+".json")
		b, _ := json.MarshalIndent(v, "", " ")
		os.WriteFile(path, b, 0o644)
		// Re-execute from the replay file in fresh processes before believing it.
		if p.Replay != nil && v.Case != nil {
			repro := 0
			const tries = 5
			for i := 0; i < tries; i++ {
				cmd := exec.Command(self, "replay", p.ID, path)
				cmd.Env = os.Environ()
				out, _ := cmd.CombinedOutput()
				if cmd.ProcessState != nil && cmd.ProcessState.ExitCode() == 1 && bytes.Contains(out, []byte("REPRODUCED")) {
					repro++
				} else if cmd.ProcessState != nil && cmd.ProcessState.ExitCode() != 0 && !bytes.Contains(out, []byte("not reproduced")) {
					// the replay itself crashed: for crash findings that is a reproduction
					if strings.Contains(v.What, "process death") {
						repro++
					}
				}
			}
			if repro != tries {
				// The case alone does not show it. It may depend on state that the
				// implementation carries from earlier cases of the same run (a
				// process-wide cache, say): the whole run, whose enumeration order is
				// fixed, is then the replayable artefact. Two fresh whole runs (made
				// once, shared by all such cases) must both report the same key;
				// otherwise the case is set aside as unstable: it is never reported,
				// and if nothing else is left to report the run ends as a harness error.
				if wholeRuns == nil {
					for i := 0; i < 2; i++ {
						cmd := exec.Command(self, "run", p.ID, tier)
						cmd.Env = append(os.Environ(), "VERIF_KEYS_ONLY=1", "VERIF_CHILD=1")
						out, _ := cmd.Output()
						keys := map[string]bool{}
						for _, l := range strings.Split(string(out), "\n") {
							if strings.HasPrefix(l, "VIOLATIONKEY ") {
								keys[strings.TrimPrefix(l, "VIOLATIONKEY ")] = true
							}
						}
						wholeRuns = append(wholeRuns, keys)
					}
				}
				if !(wholeRuns[0][v.Key] && wholeRuns[1][v.Key]) {
					unstable = append(unstable, fmt.Sprintf("%s (reproduced %d/%d times from %s, not in both whole runs)", v.Key, repro, tries, path))
					continue
				}
				v.What += " [does not reproduce from this case alone: it depends on state carried over from earlier cases of the run; reproduced by two further whole runs (" + self + " run " + p.ID + " " + tier + ")]"
				b, _ := json.MarshalIndent(v, "", " ")
				os.WriteFile(path, b, 0o644)
			}
		}
		fmt.Printf("  %s: %s\n", v.Key, oneLine(v.What, 600))
		fmt.Printf("VIOLATION property=%s replay=%s\n", p.ID, path)
		nviol++
	}
	if len(unstable) > 0 && nviol == 0 {
		fmt.Fprintf(os.Stderr, "HARNESS-ERROR: %d violating case(s) did not reproduce, e.g. %s\n", len(unstable), unstable[0])
		writeEvidence(p, c, st, start, nviol, knownHit, []string{"results that did not reproduce: " + strings.Join(unstable, "; ")})
		return 2
	}
	if len(unstable) > 0 {
		st.Notes = append(st.Notes, fmt.Sprintf("%d further violating cases did not reproduce and are not reported: %s", len(unstable), strings.Join(unstable, "; ")))
	}
	if unreported > 0 {
		fmt.Printf("  ... and %d further violating cases (not re-executed, not listed)\n", unreported)
		st.Count("violating_cases_beyond_the_first_24_not_listed", int64(unreported))
	}
	writeEvidence(p, c, st, start, nviol+unreported, knownHit, nil)
	fmt.Printf("%s %s: evals=%d nontrivial=%d states=%d transitions=%d schedules=%d outcomes=%d violations=%d known=%d exhaustive=%v levels=%v cut=%v wall=%.1fs\n",
		p.ID, tier, st.Evals, st.Nontrivial, st.States, st.Transitions, st.Schedules, len(st.Outcomes), nviol, nknown, len(st.Cut) == 0, st.Levels, st.Cut, time.Since(start).Seconds())
	if nviol > 0 {
		return 1
	}
	return 0
}

func oneLine(s string, n int) string {
	s = strings.ReplaceAll(s, "\n", " | ")
	if len(s) > n {
		s = s[:n] + "…"
	}
	return s
}

func writeEvidence(p *Prop, c *Ctx, st *Stats, start time.Time, nviol int, knownHit []string, extraNotes []string) {
	cov := map[string]any{
		"evaluations":                   st.Evals,
		"distinct_nontrivial":           st.Nontrivial,
		"rule":                          p.Rule,
		"samples":                       st.Samples,
		"exhaustive":                    len(st.Cut) == 0,
		"completed_levels":              st.Levels,
		"levels_cut_by_budget":          st.Cut,
		"distinct_outcomes":             len(st.Outcomes),
		"counters":                      st.Counters,
		"known_findings_hit":            knownHit,
		"inconclusive":                  st.Inconcl,
		"notes":                         append(st.Notes, extraNotes...),
		"traces_validated_against_impl": st.Evals,
	}
	if st.States > 0 {
		cov["states"] = st.States
	}
	if st.Transitions > 0 {
		cov["transitions"] = st.Transitions
	}
	if st.Schedules > 0 {
		cov["schedules"] = st.Schedules
	}
	if p.Level == "model_checking" {
		// model_checking evidence requires states/transitions >= 1
		if st.States == 0 {
			cov["states"] = st.Evals
		}
		if st.Transitions == 0 {
			cov["transitions"] = st.Evals
		}
	}
	if len(st.Outcomes) > 0 && len(st.Outcomes) <= 40 {
		cov["outcome_histogram"] = st.Outcomes
	}
	if st.Samples == nil {
		cov["samples"] = []any{}
	}
	ev := map[string]any{
		"property_id": p.ID,
		"tier":        c.Tier,
		"seed":        c.Seed,
		"level":       p.Level,
		"coverage":    cov,
		"assumptions": p.Assumptions,
		"wall_s":      time.Since(start).Seconds(),
		"violations":  nviol,
	}
	b, _ := json.MarshalIndent(ev, "", " ")
	os.WriteFile(filepath.Join(OutDir(), "evidence", p.ID+".json"), append(b, '\n'), 0o644)
}
