package c04

import (
	"fmt"
	"sort"
	"strings"
	"sync"

	"go.starlark.net/lib/json"
	"go.starlark.net/starlark"
	"go.starlark.net/starlarkstruct"
	"go.starlark.net/syntax"

	"verif/internal/c06/mutlib"
)

var fileOpts = &syntax.FileOptions{Set: true, TopLevelControl: true, GlobalReassign: true}

// Case is one module program (graph + outcome); Node/Op narrow a violation
// down to one operation on one node.
type Case struct {
	Graph   Graph      `json:"graph"`
	Outcome string     `json:"outcome"` // ok | fail
	Node    int        `json:"node"`
	Op      string     `json:"op,omitempty"`
	Src     string     `json:"src,omitempty"`
	Early   *earlyCase `json:"early_freeze_case,omitempty"`
}

type finding struct {
	inv  string
	node int
	op   string
	what string
}

func newThread(name string) *starlark.Thread {
	return &starlark.Thread{Name: name, Print: func(*starlark.Thread, string) {}}
}

var (
	helperSrcOnce sync.Once
	helperSrc     string
)

func helperText() string {
	helperSrcOnce.Do(func() { helperSrc = mutlib.HelperSrc() })
	return helperSrc
}

var secondProgs = map[string]*starlark.Program{}

// secondProgram: the second module's program is the same for every graph, so
// it is compiled once per process and initialised per run.
func secondProgram(outcome string) *starlark.Program {
	if p, ok := secondProgs[outcome]; ok {
		return p
	}
	src := helperText() + "keep = g\n"
	isPre := func(name string) bool { return name == "json" || (outcome != "ok" && name == "g") }
	if outcome == "ok" {
		src = `load("m1.star", "g")` + "\n" + src
	}
	_, p, err := starlark.SourceProgramOptions(fileOpts, "m2.star", src, isPre)
	if err != nil {
		panic(err)
	}
	secondProgs[outcome] = p
	return p
}

// snapshot of a StringDict: names and value identities.
type envSnap struct {
	keys []string
	vals []starlark.Value
}

func snapEnv(d starlark.StringDict) envSnap {
	s := envSnap{keys: d.Keys()}
	for _, k := range s.keys {
		s.vals = append(s.vals, d[k])
	}
	return s
}

func sameIdentity(a, b starlark.Value) (same bool) {
	defer func() {
		if recover() != nil { // uncomparable dynamic types
			same = mutlib.Ser(a) == mutlib.Ser(b)
		}
	}()
	return a == b
}

func (s envSnap) diff(d starlark.StringDict) string {
	now := d.Keys()
	if strings.Join(now, ",") != strings.Join(s.keys, ",") {
		return fmt.Sprintf("key set changed: before %v, after %v", s.keys, now)
	}
	for i, k := range s.keys {
		if !sameIdentity(d[k], s.vals[i]) {
			return fmt.Sprintf("entry %q rebound", k)
		}
	}
	return ""
}

// run is one executed module with everything the oracle needs.
type modRun struct {
	g         *Graph
	outcome   string
	src       string
	th        *starlark.Thread
	globals   starlark.StringDict
	second    starlark.StringDict
	nodes     []starlark.Value
	reach     []bool
	pre       starlark.StringDict
	preSnap   envSnap
	uniSnap   envSnap
	hostv     *starlark.List
	skipPrint bool
	stats     *counters
	knownIDs  map[any]bool
}

type counters struct {
	attempts, mutatorAttempts, reads, twinRuns, panics, unreachableMutations, derivedValues, derivedMutations int64
	opsByKind                                                                                                 map[string]int64
}

// execGraph runs the module program. harnessErr is set when the generated
// program does not behave as generated (a defect of the harness, not a finding).
func execGraph(g *Graph, outcome string, st *counters) (r *modRun, harnessErr string) {
	r = &modRun{g: g, outcome: outcome, stats: st, nodes: make([]starlark.Value, len(g.Nodes)), reach: g.reach(0)}
	r.skipPrint = g.structCycle()
	r.src = g.Program(outcome, helperText())
	r.hostv = starlark.NewList([]starlark.Value{starlark.MakeInt(1)})
	pre := starlark.StringDict{
		"struct": starlark.NewBuiltin("struct", starlarkstruct.Make),
		"json":   json.Module,
		"hostv":  r.hostv,
		// frozen values that the host supplies: operands of +, | inside the module
		"libclo": libFactories()["libclo"],
		"libdef": libFactories()["libdef"],
		"hfs":    frozenValue(starlarkstruct.FromStringDict(starlarkstruct.Default, starlark.StringDict{"z": starlark.MakeInt(1), "w": starlark.NewList([]starlark.Value{starlark.MakeInt(7)})})),
		"hft":    frozenValue(starlark.Tuple{starlark.MakeInt(1), starlark.NewList([]starlark.Value{starlark.MakeInt(7)})}),
		"hfl":    frozenValue(starlark.NewList([]starlark.Value{starlark.MakeInt(7)})),
		"hfd": frozenValue(func() starlark.Value {
			d := new(starlark.Dict)
			d.SetKey(starlark.String("h"), starlark.NewList([]starlark.Value{starlark.MakeInt(7)}))
			return d
		}()),
		"hostfreeze": starlark.NewBuiltin("hostfreeze", func(th *starlark.Thread, _ *starlark.Builtin, args starlark.Tuple, _ []starlark.Tuple) (starlark.Value, error) {
			args[0].Freeze() // what a host does before handing a value to another thread
			return starlark.None, nil
		}),
		"stash": starlark.NewBuiltin("stash", func(th *starlark.Thread, _ *starlark.Builtin, args starlark.Tuple, _ []starlark.Tuple) (starlark.Value, error) {
			i, _ := starlark.AsInt32(args[0])
			r.nodes[i] = args[1]
			return starlark.None, nil
		}),
	}
	for i, nd := range g.Nodes {
		if nd.Kind == kHostList {
			pre[fmt.Sprintf("h%d", i)] = starlark.NewList([]starlark.Value{starlark.MakeInt(1)})
		}
	}
	r.pre = pre
	r.preSnap = snapEnv(pre)
	r.uniSnap = snapEnv(starlark.Universe)
	r.th = newThread("m1")
	globals, err := starlark.ExecFileOptions(fileOpts, r.th, "m1.star", r.src, pre)
	r.globals = globals
	if (err != nil) != (outcome == "fail") {
		return r, fmt.Sprintf("module outcome %q but ExecFile error = %v\n%s", outcome, err, r.src)
	}
	if globals == nil || globals["g"] == nil {
		return r, fmt.Sprintf("module left no global g (err=%v)\n%s", err, r.src)
	}
	for i, v := range r.nodes {
		if v == nil {
			return r, fmt.Sprintf("node %d was not stashed\n%s", i, r.src)
		}
	}
	return r, ""
}

func frozenValue(v starlark.Value) starlark.Value { v.Freeze(); return v }

var (
	libOnce sync.Once
	libG    starlark.StringDict
)

// libFactories: a library module executed to completion (so frozen) before any
// module under test; its functions create closures and functions with defaults
// while the module under test runs.
func libFactories() starlark.StringDict {
	libOnce.Do(func() {
		const src = `
def libclo(a, b = None):
    def c():
        return (a, b)
    return c
def libdef(a, b = None):
    def d(p = a, q = b):
        return (p, q)
    return d
`
		g, err := starlark.ExecFileOptions(fileOpts, newThread("lib"), "lib.star", src, nil)
		if err != nil {
			panic(err)
		}
		libG = g
	})
	return libG
}

// sweepReachable: every list, dict and set reachable from the globals through
// the Go API (stashed node or not: values inside bigger structures, parts of
// host values added to, ...) refuses mutation through the Go API and the
// frozen graph stays as it is.
func (r *modRun) sweepReachable() *finding {
	before := r.frozenSer()
	nine := starlark.MakeInt(9)
	for id := range apiReachable(r.globals["g"]) {
		try := func(desc string, err error) *finding {
			r.stats.attempts++
			if now := r.frozenSer(); err == nil || now != before {
				return &finding{"reachable-value-mutable", -1, desc, fmt.Sprintf("%s on a %T reachable from the module globals returned err=%v, state changed: %v\n before %s\n after  %s", desc, id, err, now != before, before, now)}
			}
			return nil
		}
		switch x := id.(type) {
		case *starlark.List:
			if f := try("Go:Append(9)", x.Append(nine)); f != nil {
				return f
			}
			if x.Len() > 0 {
				if f := try("Go:SetIndex(0,9)", x.SetIndex(0, nine)); f != nil {
					return f
				}
			}
			if f := try("Go:Clear()", x.Clear()); f != nil {
				return f
			}
		case *starlark.Dict:
			if f := try("Go:SetKey(9,9)", x.SetKey(nine, nine)); f != nil {
				return f
			}
			if f := try("Go:Clear()", x.Clear()); f != nil {
				return f
			}
		case *starlark.Set:
			if f := try("Go:Insert(9)", x.Insert(nine)); f != nil {
				return f
			}
			if f := try("Go:Clear()", x.Clear()); f != nil {
				return f
			}
		}
	}
	return nil
}

// buildSecond creates the second module, which receives the root value:
// through load() when the first module succeeded, through predeclared when
// it failed. It is built only after the first module's values have been
// examined, because storing the value in its own global freezes it again.
func (r *modRun) buildSecond() string {
	globals, outcome := r.globals, r.outcome
	// the second module receives the root: through load() when the first
	// module succeeded, through predeclared when it failed.
	th2 := newThread("m2")
	pre2 := starlark.StringDict{"json": json.Module}
	if outcome == "ok" {
		th2.Load = func(*starlark.Thread, string) (starlark.StringDict, error) { return globals, nil }
	} else {
		pre2["g"] = globals["g"]
	}
	second, err := secondProgram(outcome).Init(th2, pre2)
	second.Freeze() // what ExecFile does when a module finishes
	if err != nil {
		return fmt.Sprintf("second module failed: %v", err)
	}
	r.second = second
	return ""
}

// frozenSer serialises everything reachable from the module globals plus the
// reachable stashed nodes (in particular the whole frozen graph).
func (r *modRun) frozenSer() string {
	roots := []starlark.Value{r.globals["g"]}
	for i, v := range r.nodes {
		if r.reach[i] {
			roots = append(roots, v)
		}
	}
	return mutlib.Ser(roots...)
}

// apiReachable walks from the globals through the public Go API only.
func apiReachable(roots ...starlark.Value) map[any]bool {
	seen := map[any]bool{}
	var walk func(v starlark.Value, depth int)
	walk = func(v starlark.Value, depth int) {
		if v == nil || depth > 200 {
			return
		}
		mark := func(p any) bool {
			if seen[p] {
				return true
			}
			seen[p] = true
			return false
		}
		switch v := v.(type) {
		case *starlark.List:
			if mark(v) {
				return
			}
			for i := 0; i < v.Len(); i++ {
				walk(v.Index(i), depth+1)
			}
		case *starlark.Dict:
			if mark(v) {
				return
			}
			for _, it := range v.Items() {
				walk(it[0], depth+1)
				walk(it[1], depth+1)
			}
		case *starlark.Set:
			if mark(v) {
				return
			}
			it := v.Iterate()
			var e starlark.Value
			var es []starlark.Value
			for it.Next(&e) {
				es = append(es, e)
			}
			it.Done()
			for _, e := range es {
				walk(e, depth+1)
			}
		case starlark.Tuple:
			for _, e := range v {
				walk(e, depth+1)
			}
		case *starlarkstruct.Struct:
			if mark(v) {
				return
			}
			for _, n := range v.AttrNames() {
				f, _ := v.Attr(n)
				walk(f, depth+1)
			}
		case *starlark.Function:
			if mark(v) {
				return
			}
			for i := 0; i < v.NumParams(); i++ {
				walk(v.ParamDefault(i), depth+1)
			}
			for i := 0; i < v.NumFreeVars(); i++ {
				_, fv := v.FreeVar(i)
				walk(fv, depth+1)
			}
		case *starlark.Builtin:
			walk(v.Receiver(), depth+1)
		}
	}
	for _, r := range roots {
		walk(r, 0)
	}
	return seen
}

func identityOf(v starlark.Value) any {
	switch v := v.(type) {
	case *starlark.List, *starlark.Dict, *starlark.Set, *starlarkstruct.Struct, *starlark.Function:
		return v
	}
	return nil
}

// ---------------------------------------------------------------------------
// operations on a node

// opSpec is one operation instance, built once per value type and shared by
// all runs; helper-function operations resolve their function in the module
// of the current run (same module / second module).
type opSpec struct {
	Kind, Desc string
	HasErr     bool
	// callsFn: the op calls a generated function whose body mutates its first kid.
	callsFn bool
	// second: executed by a function of the second module
	second bool
	apply  func(r *modRun, th *starlark.Thread, x starlark.Value) (starlark.Value, error)
}

var (
	opCache   = map[string][]opSpec{}
	twinCache = map[string]bool{}
	tmplOnce  sync.Once
	tmplG     starlark.StringDict
	auxThread = newThread("aux")
)

func templateHelpers() starlark.StringDict {
	tmplOnce.Do(func() {
		g, err := starlark.ExecFileOptions(fileOpts, newThread("tmpl"), "helpers.star", helperText(), starlark.StringDict{"json": json.Module})
		if err != nil {
			panic(err)
		}
		tmplG = g
	})
	return tmplG
}

// frozenPool: the argument pool, frozen so that sharing it between runs
// cannot alias mutable state.
func frozenPool() []starlark.Value {
	p := mutlib.Pool()
	for _, v := range p {
		v.Freeze()
	}
	return p
}

func printing(desc string) bool {
	for _, p := range []string{"rd_str", "rd_repr", "rd_fmt", "rd_format", "rd_json", "rd_getattr", "Go:String()", "universe:"} {
		if strings.Contains(desc, p) {
			return true
		}
	}
	return false
}

func opsForType(v starlark.Value) []opSpec {
	key := fmt.Sprintf("%T", v)
	if ops, ok := opCache[key]; ok {
		return ops
	}
	pool := frozenPool()
	var ops []opSpec
	direct := func(os []mutlib.Op) {
		for _, o := range os {
			o := o
			ops = append(ops, opSpec{Kind: o.Kind, Desc: o.Desc, HasErr: o.HasErr,
				apply: func(_ *modRun, th *starlark.Thread, x starlark.Value) (starlark.Value, error) { return o.Apply(th, x) }})
		}
	}
	direct(mutlib.MethodOps(v, pool))
	for _, o := range mutlib.HelperOps("same", templateHelpers(), pool) {
		o := o
		ops = append(ops, opSpec{Kind: o.Kind, Desc: o.Desc, HasErr: true,
			apply: func(r *modRun, th *starlark.Thread, x starlark.Value) (starlark.Value, error) {
				return mutlib.SafeCall(th, r.globals[o.Helper], o.Build(x))
			}})
	}
	for _, o := range mutlib.HelperOps("second", templateHelpers(), pool) {
		o := o
		if o.Kind != "stmt" {
			continue
		}
		ops = append(ops, opSpec{Kind: o.Kind, Desc: o.Desc, HasErr: true, second: true,
			apply: func(r *modRun, th *starlark.Thread, x starlark.Value) (starlark.Value, error) {
				return mutlib.SafeCall(th, r.second[o.Helper], o.Build(x))
			}})
	}
	g, _ := mutlib.GoOps(v, pool)
	direct(g)
	// every universe built-in applied to the value
	for _, name := range starlark.Universe.Keys() {
		b, ok := starlark.Universe[name].(*starlark.Builtin)
		if !ok {
			continue
		}
		for _, shape := range []string{"x", "x,0", "0,x"} {
			shape := shape
			ops = append(ops, opSpec{Kind: "read", HasErr: true, Desc: fmt.Sprintf("universe:%s(%s)", name, shape),
				apply: func(_ *modRun, th *starlark.Thread, x starlark.Value) (starlark.Value, error) {
					var args starlark.Tuple
					switch shape {
					case "x":
						args = starlark.Tuple{x}
					case "x,0":
						args = starlark.Tuple{x, starlark.MakeInt(0)}
					default:
						args = starlark.Tuple{starlark.MakeInt(0), x}
					}
					return mutlib.SafeCall(th, b, args)
				}})
		}
	}
	// calling the value itself
	switch v.(type) {
	case *starlark.Function:
		ops = append(ops, opSpec{Kind: "call", HasErr: true, Desc: "call x()", callsFn: true,
			apply: func(_ *modRun, th *starlark.Thread, x starlark.Value) (starlark.Value, error) {
				return mutlib.SafeCall(th, x, nil)
			}})
	case *starlark.Builtin:
		for _, args := range mutlib.ArgTuples(pool) {
			args := args
			var ds []string
			for _, a := range args {
				ds = append(ds, a.String())
			}
			ops = append(ops, opSpec{Kind: "method", HasErr: true, Desc: "call x(" + strings.Join(ds, ",") + ")",
				apply: func(_ *modRun, th *starlark.Thread, x starlark.Value) (starlark.Value, error) {
					return mutlib.SafeCall(th, x, args)
				}})
		}
	}
	opCache[key] = ops
	return ops
}

// isMutator: does the (operation, arguments) pair change a fresh mutable
// value with identical content? content is the serialisation of v.
func (r *modRun) isMutator(v starlark.Value, content string, op *opSpec) bool {
	if op.Kind == "read" || op.callsFn {
		return false
	}
	key := content + "|" + op.Desc
	if m, ok := twinCache[key]; ok {
		return m
	}
	tw := mutlib.Twin(v)
	if tw == nil {
		return false
	}
	before := mutlib.Ser(tw)
	r.stats.twinRuns++
	op.apply(r, auxThread, tw)
	m := mutlib.Ser(tw) != before
	if len(twinCache) < 4_000_000 {
		twinCache[key] = m
	}
	return m
}

func twinnable(v starlark.Value) bool {
	switch v := v.(type) {
	case *starlark.List, *starlark.Dict, *starlark.Set:
		return true
	case *starlark.Builtin:
		return v.Receiver() != nil
	}
	return false
}

// checkNode applies every operation to node i. only: if non-empty, just that op.
func (r *modRun) checkNode(i int, only string, second bool) *finding {
	v := r.nodes[i]
	nd := r.g.Nodes[i]
	nodeFrozen := r.reach[i]
	if nd.Kind == kMethod {
		// what a bound method mutates is its receiver
		nodeFrozen = r.reach[nd.Kids[0]]
	}
	canTwin := twinnable(v)
	content := ""
	if canTwin {
		content = fmt.Sprintf("%T|", v) + mutlib.Ser(v)
	}
	before := r.frozenSer()
	ops := opsForType(v)
	for k := range ops {
		op := &ops[k]
		if only != "" && op.Desc != only {
			continue
		}
		if op.second != second {
			continue
		}
		if r.skipPrint && printing(op.Desc) {
			continue
		}
		frozen := nodeFrozen
		mut := canTwin && r.isMutator(v, content, op)
		if op.callsFn && (nd.Kind == kLibClo || nd.Kind == kLibDef) {
			// the library's functions only return what they hold: a read
			mut = false
		} else if op.callsFn {
			// the generated function body mutates its first kid
			kid := nd.Kids[0]
			frozen = r.reach[kid]
			mut = mutableKind(r.g.Nodes[kid].Kind) && frozen
			// (mutating an unreachable value may succeed; only the frozen part is judged)
		}
		res, err := op.apply(r, r.th, v)
		after := r.frozenSer()
		r.stats.attempts++
		r.stats.opsByKind[op.Kind]++
		if mutlib.IsPanic(err) {
			r.stats.panics++
		}
		if after != before {
			return &finding{"frozen-state-changed", i, op.Desc, fmt.Sprintf("operation %s on node %d (%s, %s) changed the state reachable from the module globals:\n before %s\n after  %s", op.Desc, i, nd.Kind, reachWord(r.reach[i]), before, after)}
		}
		if mut {
			r.stats.mutatorAttempts++
		} else {
			r.stats.reads++
		}
		if err == nil && res != nil {
			if what := r.pokeDerived(res, before); what != "" {
				return &finding{"derived-value-aliases-frozen-state", i, op.Desc, fmt.Sprintf("%s on node %d (%s, %s) returned a new value; %s", op.Desc, i, nd.Kind, reachWord(r.reach[i]), what)}
			}
		}
		if frozen && mut && op.HasErr && (err == nil || mutlib.IsPanic(err)) {
			return &finding{"mutator-succeeds-on-frozen", i, op.Desc, fmt.Sprintf("%s changes a mutable value of identical content but on frozen node %d (%s) it returned err=%v", op.Desc, i, nd.Kind, err)}
		}
		if !frozen && canTwin {
			now := fmt.Sprintf("%T|", v) + mutlib.Ser(v)
			if mut && !op.callsFn {
				r.stats.unreachableMutations++
				if err != nil || now == content {
					return &finding{"unreachable-value-not-mutable", i, op.Desc, fmt.Sprintf("node %d (%s) is not reachable from the module globals, yet %s failed on it: err=%v changed=%v", i, nd.Kind, op.Desc, err, now != content)}
				}
			}
			content = now
		}
	}
	return nil
}

// known returns the identities of every container reachable, through the Go
// API, from the module globals or from any stashed node (frozen or not).
// Anything else an operation returns is a value created by that operation.
func (r *modRun) known() map[any]bool {
	if r.knownIDs == nil {
		roots := []starlark.Value{r.globals["g"]}
		roots = append(roots, r.nodes...)
		for _, v := range r.pre {
			roots = append(roots, v)
		}
		r.knownIDs = apiReachable(roots...)
	}
	return r.knownIDs
}

var sentinel = starlark.String("c04-sentinel")

// pokeDerived mutates, through the Go API, every container inside res that
// the operation created (slices, copies, unions, sorted lists, items() ...)
// and reports if that changes the frozen graph: a value derived from a frozen
// value must not share storage with it.
func (r *modRun) pokeDerived(res starlark.Value, before string) (what string) {
	known := r.known()
	visited := map[any]bool{}
	ser := func() (s string) {
		defer func() {
			if e := recover(); e != nil {
				s = fmt.Sprintf("<serialising the frozen graph panicked: %v>", e)
			}
		}()
		return r.frozenSer()
	}
	check := func(desc string) bool {
		r.stats.derivedMutations++
		if now := ser(); now != before {
			what = fmt.Sprintf("%s on that new value changed the state reachable from the module globals:\n before %s\n after  %s", desc, before, now)
			return false
		}
		return true
	}
	var walk func(v starlark.Value, depth int) bool
	walk = func(v starlark.Value, depth int) bool {
		if v == nil || depth > 6 {
			return true
		}
		switch x := v.(type) {
		case *starlark.List:
			if known[x] || visited[x] {
				return true
			}
			visited[x] = true
			for i := 0; i < x.Len(); i++ {
				if !walk(x.Index(i), depth+1) {
					return false
				}
			}
			r.stats.derivedValues++
			for i := 0; i < x.Len(); i++ {
				if x.SetIndex(i, sentinel) == nil && !check(fmt.Sprintf("SetIndex(%d)", i)) {
					return false
				}
			}
			if x.Append(sentinel) == nil && !check("Append") {
				return false
			}
			if x.Clear() == nil && !check("Clear") {
				return false
			}
		case *starlark.Dict:
			if known[x] || visited[x] {
				return true
			}
			visited[x] = true
			items := x.Items()
			for _, it := range items {
				if !walk(it[0], depth+1) || !walk(it[1], depth+1) {
					return false
				}
			}
			r.stats.derivedValues++
			for _, it := range items {
				if x.SetKey(it[0], sentinel) == nil && !check("SetKey(existing key)") {
					return false
				}
			}
			if x.SetKey(sentinel, sentinel) == nil && !check("SetKey(new key)") {
				return false
			}
			if len(items) > 0 {
				if _, _, err := x.Delete(items[0][0]); err == nil && !check("Delete") {
					return false
				}
			}
			if x.Clear() == nil && !check("Clear") {
				return false
			}
		case *starlark.Set:
			if known[x] || visited[x] {
				return true
			}
			visited[x] = true
			elems := mutlib.SetKeys(x)
			for _, e := range elems {
				if !walk(e, depth+1) {
					return false
				}
			}
			r.stats.derivedValues++
			if x.Insert(sentinel) == nil && !check("Insert") {
				return false
			}
			if len(elems) > 0 {
				if _, err := x.Delete(elems[0]); err == nil && !check("Delete") {
					return false
				}
			}
			if x.Clear() == nil && !check("Clear") {
				return false
			}
		case starlark.Tuple:
			for _, e := range x {
				if !walk(e, depth+1) {
					return false
				}
			}
		}
		return true
	}
	walk(res, 0)
	return what
}

func reachWord(b bool) string {
	if b {
		return "reachable"
	}
	return "unreachable"
}

// checkAll is the whole oracle for one executed module.
func (r *modRun) checkAll(onlyNode int, onlyOp string) *finding {
	// reachability through the Go API must agree with the generated graph,
	// and the frozen flags with reachability
	api := apiReachable(r.globals["g"])
	for i, v := range r.nodes {
		if id := identityOf(v); id != nil && api[id] != r.reach[i] {
			return &finding{"harness", i, "", fmt.Sprintf("node %d: reachable through the Go API = %v, in the generated graph = %v", i, api[id], r.reach[i])}
		}
	}
	// frozen nodes first, then the unreachable ones (whose mutation succeeds)
	order := make([]int, 0, len(r.nodes))
	for i := range r.nodes {
		if r.reach[i] {
			order = append(order, i)
		}
	}
	for i := range r.nodes {
		if !r.reach[i] {
			order = append(order, i)
		}
	}
	// phase 0: every container reachable from the globals, whether or not it is a node of the graph
	if onlyNode < 0 {
		if f := r.sweepReachable(); f != nil {
			return f
		}
	}
	// phase 1: everything that does not involve the second module
	for _, i := range order {
		if onlyNode >= 0 && i != onlyNode {
			continue
		}
		if f := r.checkNode(i, onlyOp, false); f != nil {
			return f
		}
	}
	// phase 2: a second module receives the value; its functions try to mutate it
	if herr := r.buildSecond(); herr != "" {
		return &finding{"harness", -1, "", herr}
	}
	for _, i := range order {
		if onlyNode >= 0 && i != onlyNode {
			continue
		}
		if f := r.checkNode(i, onlyOp, true); f != nil {
			return f
		}
	}
	if onlyNode >= 0 {
		return nil
	}
	// The private frozen flag must agree with reachability. It is looked at
	// only after the behavioural checks above (which find an unfrozen reachable
	// value through a mutator that succeeds, and a frozen unreachable one
	// through a mutator that fails), so that what is reported is behaviour
	// wherever behaviour shows it.
	for i, v := range r.nodes {
		if _, fr, ok := starlark.VerifIterCount(v); ok && fr != r.reach[i] {
			return &finding{"frozen-flag", i, "", fmt.Sprintf("node %d (%s): frozen flag = %v but reachable from globals = %v", i, r.g.Nodes[i].Kind, fr, r.reach[i])}
		}
	}
	// a value created after the module finished is mutable
	before := r.frozenSer()
	if mk := r.globals["mk_after"]; mk != nil {
		res, err := starlark.Call(r.th, mk, starlark.Tuple{r.globals["g"]}, nil)
		l, ok := res.(*starlark.List)
		if err != nil || !ok {
			return &finding{"harness", -1, "mk_after", fmt.Sprintf("mk_after: %v %v", res, err)}
		}
		if err := l.Append(starlark.MakeInt(9)); err != nil {
			return &finding{"new-value-not-mutable", -1, "mk_after", fmt.Sprintf("a list created by a module function called after the module finished rejects Append: %v", err)}
		}
		if _, err := starlark.Call(r.th, r.globals["aug_add"], starlark.Tuple{l, starlark.NewList([]starlark.Value{starlark.MakeInt(9)})}, nil); err != nil || l.Len() != 3 {
			return &finding{"new-value-not-mutable", -1, "mk_after", fmt.Sprintf("a list created after the module finished: += failed: %v len=%d", err, l.Len())}
		}
	}
	// a host value never stored by the module is still mutable
	if err := r.hostv.Append(starlark.MakeInt(2)); err != nil {
		return &finding{"unstored-host-value-frozen", -1, "hostv", fmt.Sprintf("predeclared list that the module never stored rejects Append: %v", err)}
	}
	if r.frozenSer() != before {
		return &finding{"frozen-state-changed", -1, "mk_after", "creating new values changed the frozen graph"}
	}
	if d := r.preSnap.diff(r.pre); d != "" {
		return &finding{"predeclared-changed", -1, "", "predeclared: " + d}
	}
	if d := r.uniSnap.diff(starlark.Universe); d != "" {
		return &finding{"universe-changed", -1, "", "Universe: " + d}
	}
	return nil
}

func sortedInt64(m map[string]int64) []string {
	ks := make([]string, 0, len(m))
	for k := range m {
		ks = append(ks, k)
	}
	sort.Strings(ks)
	return ks
}
