package c04

// Values frozen early: the host may freeze a value (to hand it to another
// thread) while the module that is building it is still running.  Whatever
// was frozen early and whatever is assigned afterwards, when the module ends
// everything reachable from its globals must be frozen.  The family below is
// every combination of {closure shape} x {captured value kind} x {when the
// host freezes, relative to the assignment of the captured variable} x
// {module succeeds, fails}.

import (
	"fmt"
	"strings"

	"go.starlark.net/lib/json"
	"go.starlark.net/starlark"
	"go.starlark.net/starlarkstruct"

	"verif/internal/c06/mutlib"
)

type earlyCase struct {
	Shape   string `json:"shape"`
	Kind    string `json:"kind"`
	When    string `json:"when"`
	Outcome string `json:"outcome"`
}

var earlyShapes = []string{"closure", "holder-of-closure", "lambda", "closure-in-list", "two-variables", "closure-in-struct", "default-captures-closure"}
var earlyKinds = map[string]string{"list": "[1]", "dict": `{"a": 1}`, "set": "set([1])", "nested": "[[1], {}]"}
var earlyWhens = []string{"before-assignment", "after-assignment", "between-two-assignments", "before-and-after"}

func (c earlyCase) source() string {
	val := earlyKinds[c.Kind]
	var b []string
	emit := func(s ...string) { b = append(b, s...) }
	// the value that gets frozen early
	target := "f"
	switch c.Shape {
	case "closure":
		emit("def f():", "    return x")
	case "holder-of-closure":
		emit("def inner():", "    return x", "def f():", "    return inner")
	case "lambda":
		emit("f = lambda: x")
	case "closure-in-list":
		emit("def inner():", "    return x", "f = [inner]")
	case "two-variables":
		emit("y = "+val, "def f():", "    return (x, y)")
	case "closure-in-struct":
		emit("def inner():", "    return x", "f = struct(g = inner)")
	case "default-captures-closure":
		emit("def inner():", "    return x", "def f(d = inner):", "    return d")
	}
	fr := "hostfreeze(" + target + ")"
	switch c.When {
	case "before-assignment":
		emit(fr, "x = "+val)
	case "after-assignment":
		emit("x = "+val, fr)
	case "between-two-assignments":
		emit("x = "+val, fr, "x = "+val)
	case "before-and-after":
		emit(fr, "x = "+val, fr, "x = "+val)
	}
	emit("return f")
	var sb strings.Builder
	sb.WriteString("def build():\n")
	for _, l := range b {
		sb.WriteString("    " + l + "\n")
	}
	sb.WriteString("g = build()\n")
	if c.Outcome == "fail" {
		sb.WriteString("fail(\"module fails after construction\")\n")
	}
	return sb.String()
}

// checkEarly runs one case and returns "" or a description of the first
// reachable value that is still mutable after the module ended.
func checkEarly(c earlyCase) (what string, attempts int) {
	src := c.source()
	pre := starlark.StringDict{
		"struct": starlark.NewBuiltin("struct", starlarkstruct.Make),
		"json":   json.Module,
		"hostfreeze": starlark.NewBuiltin("hostfreeze", func(_ *starlark.Thread, _ *starlark.Builtin, args starlark.Tuple, _ []starlark.Tuple) (starlark.Value, error) {
			args[0].Freeze()
			return starlark.None, nil
		}),
	}
	th := newThread("early")
	globals, err := starlark.ExecFileOptions(fileOpts, th, "early.star", src, pre)
	if (err != nil) != (c.Outcome == "fail") || globals["g"] == nil {
		return fmt.Sprintf("harness: module outcome %q but error = %v\n%s", c.Outcome, err, src), 0
	}
	before := mutlib.Ser(globals["g"])
	for id := range apiReachable(globals["g"]) {
		v, ok := id.(starlark.Value)
		if !ok {
			continue
		}
		try := func(desc string, f func() error) string {
			attempts++
			err := f()
			if now := mutlib.Ser(globals["g"]); err == nil || now != before {
				return fmt.Sprintf("after the module ended, %s on a %s reachable from its globals returned err=%v (state changed: %v); the host had frozen the closure %s\nprogram:\n%s", desc, v.Type(), err, now != before, c.When, src)
			}
			return ""
		}
		nine := starlark.MakeInt(9)
		switch x := v.(type) {
		case *starlark.List:
			if w := try("Append", func() error { return x.Append(nine) }); w != "" {
				return w, attempts
			}
			if w := try("Clear", func() error { return x.Clear() }); w != "" {
				return w, attempts
			}
			if x.Len() > 0 {
				if w := try("SetIndex", func() error { return x.SetIndex(0, nine) }); w != "" {
					return w, attempts
				}
			}
		case *starlark.Dict:
			if w := try("SetKey", func() error { return x.SetKey(nine, nine) }); w != "" {
				return w, attempts
			}
			if w := try("Clear", func() error { return x.Clear() }); w != "" {
				return w, attempts
			}
		case *starlark.Set:
			if w := try("Insert", func() error { return x.Insert(nine) }); w != "" {
				return w, attempts
			}
			if w := try("Clear", func() error { return x.Clear() }); w != "" {
				return w, attempts
			}
		}
		for _, m := range []string{"append", "add", "clear", "pop", "popitem"} {
			if h, ok := v.(starlark.HasAttrs); ok {
				if fn, _ := h.Attr(m); fn != nil {
					var args starlark.Tuple
					if m == "append" || m == "add" {
						args = starlark.Tuple{nine}
					}
					if w := try("method "+m, func() error { _, err := mutlib.SafeCall(th, fn, args); return err }); w != "" {
						return w, attempts
					}
				}
			}
		}
	}
	return "", attempts
}

func earlyCases() []earlyCase {
	var out []earlyCase
	for _, s := range earlyShapes {
		for _, k := range []string{"list", "dict", "set", "nested"} {
			for _, w := range earlyWhens {
				for _, o := range []string{"ok", "fail"} {
					out = append(out, earlyCase{s, k, w, o})
				}
			}
		}
	}
	return out
}
