package c04

import (
	"fmt"
	"strings"
)

// Node kinds. Every container also holds one scalar so that element-directed
// mutators (pop, remove, x[0]=..) have something to act on.
const (
	kList     = "list"     // kids are elements
	kDict     = "dict"     // kids are values
	kDictK    = "dictk"    // kids are reached through keys (k,)
	kSet      = "set"      // kids are reached through elements (k,)
	kTuple    = "tuple"    // kids are elements
	kStruct   = "struct"   // kids are fields
	kFnDef    = "fndef"    // kids are parameter defaults
	kClosure  = "closure"  // kids are captured variables
	kMethod   = "method"   // kid is the receiver of a bound method stored as a value
	kHostList = "hostlist" // list created by the host, passed in through predeclared; kids are elements
	// leaf containers that never hold (or no longer hold) an element: their
	// backing storage is in its initial (nil) or emptied state when the module ends
	kEList = "elist" // []
	kEDict = "edict" // {}
	kESet  = "eset"  // set()
	kCList = "clist" // [1] then clear()
	kCDict = "cdict" // {"a": 1} then clear()
	kCSet  = "cset"  // set([1]) then clear()
)

// containers made inside the module FROM already frozen host values, and a
// dict whose entries overflow one bucket chain
const (
	kFStruct = "fstruct" // hfs + struct(...)   (hfs: a frozen struct supplied by the host)
	kFTuple  = "ftuple"  // hft + (...,)
	kFList   = "flist"   // hfl + [1]
	kFDict   = "fdict"   // hfd | {"a": 1}
	kBigDict = "bigdict" // {64*i: [i] for i in range(12)}: 12 entries in one chain of the table
	// functions created, while THIS module runs, by factories that belong to another,
	// already finished module (supplied by the host): libclo(a, b) returns a closure over
	// its arguments, libdef(a, b) a function whose parameter defaults they are
	kLibClo = "libclo"
	kLibDef = "libdef"
)

func leafKind(k string) bool {
	return k == kEList || k == kEDict || k == kESet || k == kCList || k == kCDict || k == kCSet
}

// coreKinds: the node kinds used at every size; the cleared-container kinds
// are only enumerated in graphs of <= 2 nodes and the never-populated ones in
// graphs of <= 3 nodes (they are leaves, so larger graphs add little).
var coreKinds = []string{kList, kDict, kDictK, kSet, kTuple, kStruct, kFnDef, kClosure, kMethod, kHostList}
var coreAndEmptyKinds = append(append([]string{}, coreKinds...), kEList, kEDict, kESet)

var allKinds = []string{kList, kDict, kDictK, kSet, kTuple, kStruct, kFnDef, kClosure, kMethod, kHostList, kEList, kEDict, kESet, kCList, kCDict, kCSet, kFStruct, kFTuple, kFList, kFDict, kBigDict, kLibClo, kLibDef}

type Node struct {
	Kind string `json:"kind"`
	Kids []int  `json:"kids"`
}

// Graph: node 0 is the root, stored in the module global g; all other nodes
// are locals of build() and reachable (or not) only through edges.
type Graph struct {
	Nodes []Node `json:"nodes"`
}

func mutableKind(k string) bool {
	return k == kList || k == kDict || k == kDictK || k == kSet || k == kHostList || leafKind(k) || k == kFList || k == kFDict || k == kBigDict
}

// hard: children are fixed when the node is created.
func hardKind(k string) bool {
	return k == kTuple || k == kStruct || k == kFnDef || k == kMethod || k == kFStruct || k == kFTuple || k == kLibClo || k == kLibDef
}

// flagless: Freeze has no visited flag on this kind.
func flaglessKind(k string) bool {
	return k == kTuple || k == kFnDef || k == kClosure || k == kFTuple || k == kLibClo || k == kLibDef
}

func (g *Graph) String() string {
	var sb strings.Builder
	for i, n := range g.Nodes {
		if i > 0 {
			sb.WriteByte(' ')
		}
		fmt.Fprintf(&sb, "%d:%s", i, n.Kind)
		if len(n.Kids) > 0 {
			sb.WriteByte('>')
			for j, k := range n.Kids {
				if j > 0 {
					sb.WriteByte(',')
				}
				fmt.Fprintf(&sb, "%d", k)
			}
		}
	}
	return sb.String()
}

func (g *Graph) hasKind(k string) bool {
	for _, nd := range g.Nodes {
		if nd.Kind == k {
			return true
		}
	}
	return false
}

func (g *Graph) hasLeafKind() bool {
	for _, nd := range g.Nodes {
		if leafKind(nd.Kind) {
			return true
		}
	}
	return false
}

func (g *Graph) edges() int {
	n := 0
	for _, nd := range g.Nodes {
		n += len(nd.Kids)
	}
	return n
}

// hashable: can the node's value be hashed (so that it can sit in a key).
func (g *Graph) hashable(i int, seen map[int]bool) bool {
	if seen[i] {
		return true
	}
	seen[i] = true
	n := g.Nodes[i]
	switch n.Kind {
	case kFnDef, kClosure, kMethod, kLibClo, kLibDef:
		return true
	case kTuple, kStruct, kFTuple, kFStruct:
		for _, k := range n.Kids {
			if !g.hashable(k, seen) {
				return false
			}
		}
		return true
	}
	return false
}

// topo orders nodes so that hard parents come after their kids; ok=false if
// hard edges form a cycle (not constructible).
func (g *Graph) topo() (order []int, ok bool) {
	n := len(g.Nodes)
	state := make([]int, n)
	var visit func(i int) bool
	visit = func(i int) bool {
		switch state[i] {
		case 1:
			return false
		case 2:
			return true
		}
		state[i] = 1
		if hardKind(g.Nodes[i].Kind) {
			for _, k := range g.Nodes[i].Kids {
				if !visit(k) {
					return false
				}
			}
		}
		state[i] = 2
		order = append(order, i)
		return true
	}
	for i := 0; i < n; i++ {
		if !visit(i) {
			return nil, false
		}
	}
	return order, true
}

func (g *Graph) valid() bool {
	for i, n := range g.Nodes {
		switch n.Kind {
		case kTuple, kStruct, kFnDef, kClosure, kFTuple, kFStruct, kLibClo, kLibDef:
			if len(n.Kids) == 0 {
				return false
			}
		case kMethod:
			if len(n.Kids) != 1 || !mutableKind(g.Nodes[n.Kids[0]].Kind) {
				return false
			}
		}
		if leafKind(n.Kind) && len(n.Kids) != 0 {
			return false
		}
		if hardKind(n.Kind) {
			for _, k := range n.Kids {
				if k == i {
					return false
				}
			}
		}
		if n.Kind == kDictK || n.Kind == kSet {
			for _, k := range n.Kids {
				if !g.hashable(k, map[int]bool{}) {
					return false
				}
			}
		}
	}
	_, ok := g.topo()
	return ok
}

func (g *Graph) reach(from int) []bool {
	r := make([]bool, len(g.Nodes))
	var dfs func(i int)
	dfs = func(i int) {
		if r[i] {
			return
		}
		r[i] = true
		for _, k := range g.Nodes[i].Kids {
			dfs(k)
		}
	}
	dfs(from)
	return r
}

// cycleThrough reports whether the graph has a cycle (fromRoot: reachable
// from the root) all of whose nodes satisfy pred (needAll) or that contains
// at least one node satisfying pred.
func (g *Graph) cycleThrough(pred func(kind string) bool, needAll, fromRoot bool) bool {
	reach := g.reach(0)
	n := len(g.Nodes)
	for s := 0; s < n; s++ {
		if (fromRoot && !reach[s]) || !pred(g.Nodes[s].Kind) {
			continue
		}
		// search path s -> ... -> s
		seen := make([]bool, n)
		var dfs func(i int) bool
		dfs = func(i int) bool {
			for _, k := range g.Nodes[i].Kids {
				if needAll && !pred(g.Nodes[k].Kind) {
					continue
				}
				if k == s {
					return true
				}
				if !seen[k] {
					seen[k] = true
					if dfs(k) {
						return true
					}
				}
			}
			return false
		}
		if dfs(s) {
			return true
		}
	}
	return false
}

// freezeOverflows: a cycle of nodes whose Freeze has no visited flag,
// reachable from the module globals: Freeze recurses without bound.
func (g *Graph) freezeOverflows() bool { return g.cycleThrough(flaglessKind, true, true) }

// structCycle: a cycle through a struct anywhere in the graph; printing any
// value on it recurses without bound (Struct.String has no cycle guard).
func (g *Graph) structCycle() bool {
	return g.cycleThrough(func(k string) bool { return k == kStruct || k == kFStruct }, false, false)
}

var kindIndex = func() map[string]int {
	m := map[string]int{}
	for i, k := range allKinds {
		m[k] = i
	}
	return m
}()

// canonical: is this labelling the smallest among all relabellings that keep
// the root at 0? (order: per node (kind, kid bit mask), lexicographic)
func (g *Graph) canonical() bool {
	n := len(g.Nodes)
	if n <= 2 {
		return true
	}
	var me, h [8]int
	code := func(kind string, kids []int, perm []int) int {
		mask := 0
		for _, k := range kids {
			if perm != nil {
				k = perm[k]
			}
			mask |= 1 << k
		}
		return kindIndex[kind]<<8 | mask
	}
	for i, nd := range g.Nodes {
		me[i] = code(nd.Kind, nd.Kids, nil)
	}
	perm := make([]int, n)
	for i := range perm {
		perm[i] = i
	}
	less := false
	var rec func(i int)
	rec = func(i int) {
		if less {
			return
		}
		if i == n {
			for old, nw := range perm {
				h[nw] = code(g.Nodes[old].Kind, g.Nodes[old].Kids, perm)
			}
			for j := 0; j < n; j++ {
				if h[j] != me[j] {
					if h[j] < me[j] {
						less = true
					}
					return
				}
			}
			return
		}
		for j := i; j < n; j++ {
			perm[i], perm[j] = perm[j], perm[i]
			rec(i + 1)
			perm[i], perm[j] = perm[j], perm[i]
		}
	}
	rec(1)
	return !less
}

// kidChoices: all sorted kid sets of size <= maxKids over n nodes.
func kidChoices(n, maxKids int) [][]int {
	out := [][]int{nil}
	for a := 0; a < n; a++ {
		out = append(out, []int{a})
	}
	if maxKids >= 2 {
		for a := 0; a < n; a++ {
			for b := a + 1; b < n; b++ {
				out = append(out, []int{a, b})
			}
		}
	}
	return out
}

// enumGraphs calls f on every valid canonical graph with exactly n nodes and
// at most maxEdges edges, in a fixed order.
func enumGraphs(n, maxKids, maxEdges int, kinds []string, f func(g *Graph)) {
	choices := kidChoices(n, maxKids)
	g := &Graph{Nodes: make([]Node, n)}
	var recKinds func(i int)
	var recKids func(i, edges int)
	recKids = func(i, edges int) {
		if i == n {
			if g.valid() && g.canonical() {
				c := &Graph{Nodes: make([]Node, n)}
				for j, nd := range g.Nodes {
					c.Nodes[j] = Node{Kind: nd.Kind, Kids: append([]int(nil), nd.Kids...)}
				}
				f(c)
			}
			return
		}
		for _, ch := range choices {
			if edges+len(ch) > maxEdges {
				continue
			}
			k := g.Nodes[i].Kind
			if k == kMethod && len(ch) != 1 {
				continue
			}
			if leafKind(k) && len(ch) != 0 {
				continue
			}
			if (k == kTuple || k == kStruct || k == kFnDef || k == kClosure || k == kFTuple || k == kFStruct || k == kLibClo || k == kLibDef) && len(ch) == 0 {
				continue
			}
			g.Nodes[i].Kids = ch
			recKids(i+1, edges+len(ch))
		}
	}
	recKinds = func(i int) {
		if i == n {
			recKids(0, 0)
			return
		}
		for _, k := range kinds {
			g.Nodes[i].Kind = k
			recKinds(i + 1)
		}
	}
	recKinds(0)
}

// ---------------------------------------------------------------------------
// program text

// mutation statement on a kid value named v (inside function bodies)
func mutStmt(kind, v string) string {
	switch kind {
	case kList, kHostList, kEList, kCList, kFList:
		return v + ".append(9)"
	case kDict, kDictK, kEDict, kCDict, kFDict, kBigDict:
		return v + "[9] = 9"
	case kSet, kESet, kCSet:
		return v + ".add(9)"
	}
	return ""
}

func methodName(kind string) string {
	switch kind {
	case kList, kHostList, kEList, kCList, kFList:
		return "append"
	case kDict, kDictK, kEDict, kCDict, kFDict, kBigDict:
		return "setdefault"
	case kSet, kESet, kCSet:
		return "add"
	}
	return ""
}

// Program renders the module. outcome "fail" appends a failing statement
// after the construction.
func (g *Graph) Program(outcome string, helperSrc string) string {
	order, _ := g.topo()
	var b []string
	name := func(i int) string { return fmt.Sprintf("n%d", i) }
	for _, i := range order {
		nd := g.Nodes[i]
		switch nd.Kind {
		case kList:
			b = append(b, name(i)+" = [1]")
		case kHostList:
			b = append(b, fmt.Sprintf("%s = h%d", name(i), i))
		case kDict, kDictK:
			b = append(b, name(i)+` = {"a": 1}`)
		case kSet:
			b = append(b, name(i)+" = set([1])")
		case kEList:
			b = append(b, name(i)+" = []")
		case kEDict:
			b = append(b, name(i)+" = {}")
		case kESet:
			b = append(b, name(i)+" = set()")
		case kCList:
			b = append(b, name(i)+" = [1]", name(i)+".clear()")
		case kCDict:
			b = append(b, name(i)+` = {"a": 1}`, name(i)+".clear()")
		case kCSet:
			b = append(b, name(i)+" = set([1])", name(i)+".clear()")
		case kLibClo, kLibDef:
			var as []string
			for _, k := range nd.Kids {
				as = append(as, name(k))
			}
			b = append(b, name(i)+" = "+nd.Kind+"("+strings.Join(as, ", ")+")")
		case kFList:
			b = append(b, name(i)+" = hfl + [1]")
		case kFDict:
			b = append(b, name(i)+` = hfd | {"a": 1}`)
		case kBigDict:
			b = append(b, name(i)+" = {64 * i: [i] for i in range(12)}")
		case kFTuple:
			parts := []string{}
			for _, k := range nd.Kids {
				parts = append(parts, name(k))
			}
			b = append(b, name(i)+" = hft + ("+strings.Join(parts, ", ")+",)")
		case kFStruct:
			parts := []string{}
			for j, k := range nd.Kids {
				parts = append(parts, fmt.Sprintf("%c = %s", 'a'+j, name(k)))
			}
			b = append(b, name(i)+" = hfs + struct("+strings.Join(parts, ", ")+")")
		case kTuple:
			parts := []string{"1"}
			for _, k := range nd.Kids {
				parts = append(parts, name(k))
			}
			b = append(b, name(i)+" = ("+strings.Join(parts, ", ")+",)")
		case kStruct:
			parts := []string{"z = 1"}
			for j, k := range nd.Kids {
				parts = append(parts, fmt.Sprintf("%c = %s", 'a'+j, name(k)))
			}
			b = append(b, name(i)+" = struct("+strings.Join(parts, ", ")+")")
		case kFnDef:
			var ps []string
			for j, k := range nd.Kids {
				ps = append(ps, fmt.Sprintf("p%d = %s", j, name(k)))
			}
			b = append(b, "def "+name(i)+"("+strings.Join(ps, ", ")+"):")
			if m := mutStmt(g.Nodes[nd.Kids[0]].Kind, "p0"); m != "" {
				b = append(b, "    "+m)
			}
			b = append(b, "    return p0")
		case kClosure:
			b = append(b, "def "+name(i)+"():")
			if m := mutStmt(g.Nodes[nd.Kids[0]].Kind, name(nd.Kids[0])); m != "" {
				b = append(b, "    "+m)
			}
			var ps []string
			for _, k := range nd.Kids {
				ps = append(ps, name(k))
			}
			b = append(b, "    return ("+strings.Join(ps, ", ")+",)")
		case kMethod:
			b = append(b, fmt.Sprintf("%s = %s.%s", name(i), name(nd.Kids[0]), methodName(g.Nodes[nd.Kids[0]].Kind)))
		}
	}
	// soft edges
	for i, nd := range g.Nodes {
		for _, k := range nd.Kids {
			switch nd.Kind {
			case kList, kHostList, kFList:
				b = append(b, fmt.Sprintf("%s.append(%s)", name(i), name(k)))
			case kDict, kFDict, kBigDict:
				b = append(b, fmt.Sprintf(`%s["k%d"] = %s`, name(i), k, name(k)))
			case kDictK:
				b = append(b, fmt.Sprintf(`%s[(%s,)] = 1`, name(i), name(k)))
			case kSet:
				b = append(b, fmt.Sprintf(`%s.add((%s,))`, name(i), name(k)))
			}
		}
	}
	for i := range g.Nodes {
		b = append(b, fmt.Sprintf("stash(%d, %s)", i, name(i)))
	}
	b = append(b, "return n0")
	var sb strings.Builder
	sb.WriteString("def build():\n")
	for _, l := range b {
		sb.WriteString("    " + l + "\n")
	}
	sb.WriteString("g = build()\n")
	sb.WriteString("def mk_after(x):\n    return [x]\n")
	sb.WriteString(helperSrc)
	if outcome == "fail" {
		sb.WriteString("fail(\"module fails after construction\")\n")
	}
	return sb.String()
}
