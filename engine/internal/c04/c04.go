// Package c04 decides C04: values reachable from a finished module are deeply
// immutable.
//
// Shape S/E: every module program that builds an object graph of <= 3 (quick)
// / <= 4 (thorough) container nodes over 10 node kinds and every edge kind,
// up to isomorphism, is executed (once succeeding, once failing after the
// construction); afterwards every operation DISCOVERED on each node's type is
// applied to every node and the oracle of the property is evaluated.
package c04

import (
	"encoding/json"
	"fmt"
	"runtime"
	"runtime/debug"
	"strings"

	"verif/internal/fw"
)

type level struct {
	name     string
	n        int
	maxKids  int
	maxEdges int
	kinds    []string
}

func levels(tier string) []level {
	ls := []level{
		{"size1", 1, 2, 2, allKinds},
		{"size2", 2, 2, 4, allKinds},
		{"size3(<=2 edges)", 3, 2, 2, coreAndEmptyKinds},
		{"size3(3 edges)", 3, 2, 3, coreKinds},
	}
	if tier == "thorough" {
		ls = append(ls,
			level{"size3(3 edges, with never-populated and cleared containers)", 3, 2, 3, allKinds},
			level{"size3(4..6 edges, <=2 kids per node)", 3, 2, 6, coreKinds},
			level{"size4(<=3 edges)", 4, 2, 3, coreKinds},
			level{"size4(4 edges)", 4, 2, 4, coreKinds})
	}
	return ls
}

func violKey(f *finding, g *Graph, outcome string) string {
	// operation + node kind (argument class); the graph is in the case
	kind := ""
	if f.node >= 0 && f.node < len(g.Nodes) {
		kind = g.Nodes[f.node].Kind
	}
	op := f.op
	if i := strings.Index(op, "("); i > 0 {
		op = op[:i]
	}
	return fmt.Sprintf("%s|%s|%s", f.inv, kind, op)
}

// crashKey names a graph whose execution may kill the process.
func crashKey(g *Graph, outcome string) string { return "crash|" + g.String() + "|" + outcome }

func runOne(g *Graph, outcome string, cn *counters) (*modRun, *finding) {
	r, herr := execGraph(g, outcome, cn)
	if herr != "" {
		return r, &finding{"harness", -1, "", herr}
	}
	return r, r.checkAll(-1, "")
}

func worker(c *fw.Ctx) *fw.Stats {
	runtime.GOMAXPROCS(2)
	debug.SetGCPercent(400)
	// An unbounded recursion dies when the stack limit is reached; a smaller
	// limit (default 1 GB) only makes that inevitable death quick.
	debug.SetMaxStack(256 << 20)
	st := fw.NewStats()
	cn := &counters{opsByKind: map[string]int64{}}
	seen := map[string]bool{}
	var idx, programs int64
	if len(c.Args) > 0 && c.Args[0] == "probe" {
		// Probe pass (one isolated worker): does freezing a closure that
		// captures itself terminate on this tree? If not, the process dies
		// here and the coordinator skips the rest of that family.
		g := selfClosure()
		for _, outcome := range []string{"ok", "fail"} {
			if !c.Risky(crashKey(g, outcome)) {
				continue
			}
			_, f := runOne(g, outcome, cn)
			st.States++
			st.Outcome(fmt.Sprintf("%s/%s/%d-nodes/%d-edges", outcome, verdictWord(f), 1, 1))
			if f != nil {
				st.Violate(violKey(f, g, outcome), f.what, Case{Graph: *g, Outcome: outcome, Node: f.node, Op: f.op})
			}
		}
		flushCounters(st, cn)
		return st
	}
	skipFamily := len(c.Args) > 0 && c.Args[0] == "family=skip"
	for _, lv := range levels(c.Tier) {
		cut := false
		var total int64
		enumGraphs(lv.n, lv.maxKids, lv.maxEdges, lv.kinds, func(g *Graph) {
			// a level that extends an earlier one skips what that one covered
			if (lv.name == "size3(4..6 edges, <=2 kids per node)" || lv.name == "size4(4 edges)") && g.edges() <= 3 {
				return
			}
			if lv.name == "size3(3 edges)" && g.edges() <= 2 {
				return
			}
			if lv.name == "size3(3 edges, with never-populated and cleared containers)" && !g.hasLeafKind() {
				return // covered by the core-kind levels
			}
			idx++
			total++
			if !c.Mine(idx) {
				return
			}
			if cut || c.Expired() {
				cut = true
				return
			}
			if g.freezeOverflows() && (skipFamily || len(g.Nodes) == 1) {
				// The one-node member (a closure capturing itself) was executed by
				// the probe pass. If it killed the process there, the rest of the
				// family (cycles of closures/defaults/tuples only) is not executed.
				if skipFamily && len(g.Nodes) > 1 {
					st.Count("graphs_skipped_known_crash_family."+lv.name, 1)
				}
				st.Count("graphs_done."+lv.name, 1)
				return
			}
			for _, outcome := range []string{"ok", "fail"} {
				// every program is announced, so that a process death is
				// attributed to the program that caused it
				if !c.Risky(crashKey(g, outcome)) {
					continue
				}
				// Flush what has been measured so far: if a later program
				// kills the process, the work done up to here stays counted.
				if programs++; programs%150 == 0 {
					flushCounters(st, cn)
					fw.EmitPartial(st)
					st = fw.NewStats()
					cn = &counters{opsByKind: map[string]int64{}}
				}
				r, f := runOne(g, outcome, cn)
				st.States++
				st.Outcome(fmt.Sprintf("%s/%s/%d-nodes/%d-edges", outcome, verdictWord(f), len(g.Nodes), g.edges()))
				if f != nil {
					key := violKey(f, g, outcome)
					if !seen[key] && len(seen) < 6 {
						seen[key] = true
						st.Violate(key, f.what+"\nprogram:\n"+r.src, Case{Graph: *g, Outcome: outcome, Node: f.node, Op: f.op, Src: r.src})
					} else {
						st.Count("violating_programs_same_key", 1)
					}
				}
				if len(st.Samples) < 6 && idx%97 == 3 && outcome == "ok" {
					st.Sample(map[string]any{"graph": g.String(), "outcome": outcome, "program": r.src[:strings.Index(r.src, "def mk_after")]})
				}
			}
			st.Count("graphs_done."+lv.name, 1)
		})
		st.Count("graphs_total."+lv.name, total)
		if cut {
			st.Count("cut."+lv.name, 1)
		}
	}
	// values that the host froze while the module was still building them
	if !skipFamily {
		ecs := earlyCases()
		seenEarly := map[string]bool{}
		for i, ec := range ecs {
			if !c.Mine(int64(i)) || !c.Risky("early|"+ec.Shape+"|"+ec.Kind+"|"+ec.When+"|"+ec.Outcome) {
				continue
			}
			what, attempts := checkEarly(ec)
			st.Evals++
			st.States++
			st.Nontrivial++
			st.Transitions += int64(attempts)
			st.Outcome(fmt.Sprintf("early-freeze/%s/%s", ec.When, map[bool]string{true: "violation", false: "holds"}[what != ""]))
			if what != "" {
				ec := ec
				key := fmt.Sprintf("early-freeze|%s|%s|%s", ec.Shape, ec.When, ec.Outcome)
				if strings.HasPrefix(what, "harness") {
					key = "harness||"
				}
				if !seenEarly[key] && len(seenEarly) < 60 {
					seenEarly[key] = true
					st.Violate(key, what, Case{Outcome: ec.Outcome, Early: &ec})
				}
			}
		}
		if c.Shard == 0 {
			st.Count("early_freeze_cases", int64(len(ecs)))
			st.Sample(map[string]any{"early_freeze_program": ecs[0].source()})
		}
	}
	flushCounters(st, cn)
	return st
}

func flushCounters(st *fw.Stats, cn *counters) {
	st.Nontrivial += cn.mutatorAttempts
	st.Transitions += cn.attempts
	st.Evals += cn.attempts // evaluations = operations applied to nodes of executed modules (states = executed modules)
	st.Count("operation_attempts", cn.attempts)
	st.Count("mutator_attempts(pair changes a mutable twin)", cn.mutatorAttempts)
	st.Count("non_mutating_attempts", cn.reads)
	st.Count("mutations_of_unreachable_values_checked_to_succeed", cn.unreachableMutations)
	st.Count("values_created_by_operations_then_mutated", cn.derivedValues)
	st.Count("mutations_of_created_values_checked_against_frozen_state", cn.derivedMutations)
	st.Count("twin_discovery_runs", cn.twinRuns)
	st.Count("recovered_panics_in_operations(C02 subject)", cn.panics)
	for _, k := range sortedInt64(cn.opsByKind) {
		st.Count("attempts_by_kind."+k, cn.opsByKind[k])
	}
}

func verdictWord(f *finding) string {
	if f == nil {
		return "holds"
	}
	return f.inv
}

func recordCrash(ci fw.CrashInfo, s *fw.Stats) {
	// the worker died while executing the program named by ci.Key
	var g Graph
	outcome := "ok"
	parts := strings.Split(ci.Key, "|")
	if len(parts) == 5 && parts[0] == "early" {
		ec := earlyCase{parts[1], parts[2], parts[3], parts[4]}
		s.Violate(ci.Key, "process death while executing/freezing the module: "+ci.Stderr[:min(len(ci.Stderr), 200)], Case{Outcome: ec.Outcome, Early: &ec, Src: ec.source()})
		return
	}
	if len(parts) == 3 {
		outcome = parts[2]
		g = parseGraph(parts[1])
	}
	head := ci.Stderr
	if i := strings.Index(head, "\n"); i > 0 {
		head = head[:i]
	}
	s.Violate(ci.Key, "process death while executing/freezing the module: "+head, Case{Graph: g, Outcome: outcome, Node: -1, Src: g.Program(outcome, "")})
}

func selfClosure() *Graph { return &Graph{Nodes: []Node{{Kind: kClosure, Kids: []int{0}}}} }

func run(c *fw.Ctx) *fw.Stats {
	// probe pass: the smallest member of the Freeze-overflow family, alone
	probeCrashed := false
	probe := c.Sharded(1, func(ci fw.CrashInfo, s *fw.Stats) {
		probeCrashed = true
		recordCrash(ci, s)
	}, "probe")
	mode := "family=run"
	if probeCrashed {
		mode = "family=skip"
	}
	st := c.Sharded(0, recordCrash, mode)
	st.Merge(probe)
	if probeCrashed {
		st.Notes = append(st.Notes, "freezing a closure that captures itself killed the probe worker: graphs whose only cycles consist of closures/defaults/tuples were not executed (counted under graphs_skipped_known_crash_family)")
	} else {
		st.Notes = append(st.Notes, "freezing a closure that captures itself terminates on this tree: the whole closure-cycle family was executed")
	}
	for _, lv := range levels(c.Tier) {
		total := st.Counters["graphs_total."+lv.name] / 16
		done := st.Counters["graphs_done."+lv.name]
		sk := st.Counters["graphs_skipped_known_crash_family."+lv.name]
		if st.Counters["cut."+lv.name] > 0 || done != total {
			st.Cut = append(st.Cut, fmt.Sprintf("%s: %d of %d graphs", lv.name, done, total))
			continue
		}
		st.Levels = append(st.Levels, fmt.Sprintf("%s: %d rooted graphs up to isomorphism x {module succeeds, module fails} (%d graphs of the Freeze-overflow family not executed)", lv.name, total, sk))
	}
	return st
}

func parseGraph(s string) Graph {
	var g Graph
	for _, f := range strings.Fields(s) {
		var nd Node
		colon := strings.Index(f, ":")
		rest := f[colon+1:]
		if gt := strings.Index(rest, ">"); gt >= 0 {
			nd.Kind = rest[:gt]
			for _, k := range strings.Split(rest[gt+1:], ",") {
				var x int
				fmt.Sscanf(k, "%d", &x)
				nd.Kids = append(nd.Kids, x)
			}
		} else {
			nd.Kind = rest
		}
		g.Nodes = append(g.Nodes, nd)
	}
	return g
}

func replay(c *fw.Ctx, raw json.RawMessage) []fw.Viol {
	var cs Case
	if err := json.Unmarshal(raw, &cs); err != nil {
		fw.Fatal("bad case: %v", err)
	}
	debug.SetMaxStack(256 << 20)
	if cs.Early != nil {
		what, _ := checkEarly(*cs.Early)
		if what == "" {
			return nil
		}
		return []fw.Viol{{Key: fmt.Sprintf("early-freeze|%s|%s|%s", cs.Early.Shape, cs.Early.When, cs.Early.Outcome), What: what}}
	}
	g := &cs.Graph
	cn := &counters{opsByKind: map[string]int64{}}
	r, herr := execGraph(g, cs.Outcome, cn) // a crash finding dies here
	if herr != "" {
		return []fw.Viol{{Key: "harness||", What: herr}}
	}
	f := r.checkAll(-1, "")
	if f == nil {
		return nil
	}
	return []fw.Viol{{Key: violKey(f, g, cs.Outcome), What: f.what}}
}

func init() {
	fw.Register(&fw.Prop{
		ID:    "C04",
		Level: "model_checking",
		Rule: "all module programs (up to isomorphism of the rooted graph) that build <=3 (quick) / <=4 (thorough) container nodes over kinds {list, dict(value edges), dict(key edges via tuple), set(via tuple), tuple, struct, function with defaults, closure, bound method, host list passed through predeclared; in graphs of <= 2 nodes also never-populated and cleared containers, containers built from frozen host values (hfs + struct(..), hft + (..,), hfl + [..], hfd | {..}) and a dict with 12 entries in one bucket chain} with every edge set (<=2 kids per node; sharing, self loops, cycles), only the root stored in a global, x {module succeeds, module fails after construction}; " +
			"after ExecFile every node (reachable or not) receives every operation: every method in AttrNames() x argument tuples from a pool, every augmented/index/field assignment executed by helper functions of the same module and of a second module that loaded the value, every exported Go method found by reflection x pooled arguments, every universe built-in, every binary/unary operator, calls of stored functions and bound methods. " +
			"A (operation, arguments) pair counts as a mutator iff it changes a fresh mutable twin of identical content. Oracle: on reachable nodes mutators return an error and NO operation changes the serialisation of the graph reachable from the globals; on unreachable nodes mutators succeed; values created afterwards are mutable; every container that an operation returns and that is not part of the graph is mutated through the Go API without changing the frozen graph; every list/dict/set reachable from the globals through the Go API refuses Append/SetIndex/Clear/SetKey/Insert; predeclared and Universe keep keys and value identities; early-freeze family: the host freezes a closure (7 shapes) before/after/between the assignments of the variable it captures (4 kinds of value, module succeeds/fails): at the end of the module everything reachable refuses mutation. " +
			"non-trivial = mutator attempts (pairs shown to change a mutable twin)",
		Run: run, Worker: worker, Replay: replay,
		Assumptions: []string{
			"Freeze (the freezing operation) and Iterate (lock acquisition, caller must call Done) are excluded from the reflected Go API methods; methods with parameter types outside {int, string, Value, Iterator, *Dict, syntax.Token} are not called",
			"graphs with a cycle through a struct are not printed (Struct.String has no cycle guard: C02's subject); graphs of the Freeze-overflow family (cycle of closures/defaults/tuples only) are executed only for its smallest member (a closure capturing itself), in an isolated worker",
			"recovered panics inside an operation are counted, not judged (C02's subject)",
		},
		BudgetQuick: 75, BudgetThorough: 900,
	})
}
