// Package sched is the controlled scheduler and stateless schedule explorer
// (iterative context bounding): N bodies run on N goroutines, but exactly one
// runs between two scheduling points; every point where more than one body is
// enabled is a choice, and all choice sequences with at most `bound`
// preemptions are enumerated.  A body reaches a scheduling point by calling
// the yield function it is given (the checks call it from Thread.OnMaxSteps,
// i.e. before every interpreter instruction).
package sched

import "fmt"

// Point is one scheduling decision.
type Point struct {
	Enabled []int // canonical order: the running body first if still enabled, then ascending ids
	Running int   // the body that ran the previous step (-1 at the start)
}

// Execution is one complete schedule.
type Execution struct {
	Points  []Point
	Choices []int
}

// Run executes n bodies under the schedule given by prefix (indices into each
// point's Enabled list) and choice 0 afterwards. A prefix that does not fit
// the execution (replay divergence) is a hard error.
func Run(n int, prefix []int, body func(id int, yield func())) (*Execution, error) {
	type msg struct {
		id   int
		done bool
	}
	events := make(chan msg)
	grant := make([]chan struct{}, n)
	x := &Execution{}
	for i := 0; i < n; i++ {
		grant[i] = make(chan struct{})
		go func(i int) {
			<-grant[i]
			first := true
			body(i, func() {
				if first {
					first = false // the initial grant covers the first step
					return
				}
				events <- msg{i, false}
				<-grant[i]
			})
			events <- msg{i, true}
		}(i)
	}
	alive := make([]bool, n)
	for i := range alive {
		alive[i] = true
	}
	running := -1
	var failure error
	for step := 0; ; step++ {
		var en []int
		if running >= 0 && alive[running] {
			en = append(en, running)
		}
		for i := 0; i < n; i++ {
			if alive[i] && i != running {
				en = append(en, i)
			}
		}
		if len(en) == 0 {
			break
		}
		c := 0
		if step < len(prefix) && failure == nil {
			c = prefix[step]
			if c >= len(en) {
				failure = fmt.Errorf("replay diverged at step %d: choice %d of %d enabled", step, c, len(en))
				c = 0
			}
		}
		x.Points = append(x.Points, Point{Enabled: en, Running: running})
		x.Choices = append(x.Choices, c)
		who := en[c]
		grant[who] <- struct{}{}
		m := <-events
		if m.id != who && failure == nil {
			failure = fmt.Errorf("body %d moved while body %d was scheduled", m.id, who)
		}
		if m.done {
			alive[m.id] = false
		}
		running = who
	}
	return x, failure
}

// PreemptionsBefore counts the preemptions among the first i choices.
func (x *Execution) PreemptionsBefore(i int) int {
	n := 0
	for j := 0; j < i; j++ {
		p := x.Points[j]
		if p.Running >= 0 && len(p.Enabled) > 0 && p.Enabled[0] == p.Running && x.Choices[j] != 0 {
			n++
		}
	}
	return n
}

// Explore enumerates every schedule with at most bound preemptions. visit is
// called for each complete execution (after run produced it). mine selects
// which first-deviation subtrees this shard explores (nil = all); the root
// execution is visited only if visitRoot is true.
func Explore(n, bound int, run func(prefix []int) *Execution, visit func(x *Execution), mine func(key int64) bool, visitRoot bool) {
	var rec func(prefix []int, v bool)
	rec = func(prefix []int, v bool) {
		x := run(prefix)
		if v {
			visit(x)
		}
		for i := len(prefix); i < len(x.Points); i++ {
			pt := x.Points[i]
			cost := x.PreemptionsBefore(i)
			if pt.Running >= 0 && len(pt.Enabled) > 0 && pt.Enabled[0] == pt.Running {
				cost++ // switching away from a runnable body is a preemption
			}
			if cost > bound {
				continue
			}
			for alt := 1; alt < len(pt.Enabled); alt++ {
				if len(prefix) == 0 && mine != nil && !mine(int64(i*7+alt)) {
					continue
				}
				np := append(append([]int{}, x.Choices[:i]...), alt)
				rec(np, true)
			}
		}
	}
	rec(nil, visitRoot)
}
