// Package c07 decides C07: step limits and cancellation always stop execution.
//
// Shapes D + S.  (1) every limit N in [1..S+1] for every program of a corpus
// (fault enumeration over the step index); (2) synchronous cancellation at
// every built-in call site; (3) asynchronous cancellation landing before every
// instruction k, delivered by a real second goroutine through the
// per-instruction OnMaxSteps seam, and both orders of a competing Uncancel;
// (4) explicit-state search over Cancel/Uncancel/SetMax/Exec sequences on one
// thread against a one-variable reference model; (5) a free-running -race
// pass with a truly concurrent canceller.
package c07

import (
	"bytes"
	"encoding/json"
	"errors"
	"fmt"
	"os"
	"os/exec"
	"path/filepath"
	"sort"
	"strings"
	"sync"
	"time"

	"go.starlark.net/starlark"
	"go.starlark.net/syntax"

	"verif/internal/fw"
	"verif/internal/prog"
)

var allOpts = &syntax.FileOptions{Set: true, While: true, TopLevelControl: true, GlobalReassign: true, Recursion: true}

// handwritten programs: loops, nested calls, comprehensions, built-in callbacks
var handPrograms = []string{
	"t(1, 0)\nx = [t(2, i) for i in range(3)]\nt(3, x)\n",
	"def f(n):\n    t(1, n)\n    if n > 0:\n        return f(n - 1) + 1\n    return 0\nt(2, f(4))\n",
	"def key(v):\n    t(1, v)\n    return -v\nx = sorted([3, 1, 2], key=key)\nt(2, x)\n",
	"r = []\nfor i in range(4):\n    for j in range(i):\n        if j == 2:\n            break\n        r.append(t(1, (i, j)))\nt(2, r)\n",
	"def g(x):\n    return [t(1, y) for y in x if y % 2]\nd = {k: g(range(k)) for k in range(4)}\nt(2, d)\n",
	"i = 0\nwhile i < 5:\n    i += 1\n    if i == 2:\n        continue\n    t(1, i)\n",
	"def a(n):\n    return b(n) if n else t(1, 0)\ndef b(n):\n    t(2, n)\n    return a(n - 1)\nt(3, a(3))\n",
	"x = max([t(1, 3), t(2, 4)], key=lambda v: t(3, -v))\nt(4, x)\n",
	"def f(*a, **k):\n    return t(1, (a, k))\nf(1, 2, z=3)\nf(*[t(2, 5)], **{'q': t(3, 6)})\n",
	"l = [t(1, 1)] + [t(2, 2)]\nl += [t(3, 3)]\na, b, c = l\nt(4, (a, b, c))\n",
	"t(1, 1)\n",
	"x = 1\n",
	"def cb():\n    return t(1, 5) + t(2, 6)\np = hv(cb)\nn = 0\nfor i in range(3):\n    n += p.v\n    t(3, n)\n",
	"def cb():\n    return [t(1, j) for j in range(2)]\np = hv(cb)\nx = p + 1\nt(2, x)\ny = [p.v, p + 2]\nt(3, len(y))\n",
	"t(1, 0)\nload('work:3', 'a')\nt(2, a)\nx = [t(3, i) for i in range(2)]\n",
	"load('work:2', 'a')\nload('work:1', b = 'a')\nt(1, a + b)\n",
}

var nonTerminating = []string{
	"while True:\n    pass\n",
	"def f():\n    while True:\n        t(1, 0)\nf()\n",
	"def a(n):\n    return b(n + 1)\ndef b(n):\n    return a(n + 1)\na(0)\n",
	"def f(n):\n    return [f(n + 1) for _ in [0]]\nf(0)\n",
	"def f():\n    return sorted([1, 2], key=lambda v: f())\nf()\n",
	"x = 0\nwhile True:\n    x += 1\n    t(1, x)\n",
}

// corpus returns the terminating programs.
func corpus(thorough bool) []string {
	out := append([]string(nil), handPrograms...)
	levels := map[string]int{"control": 3, "comp": 1, "call": 1, "scope": 1, "assign": 1}
	stride := map[string]int{"control": 1, "comp": 3, "call": 37, "scope": 97, "assign": 11}
	if thorough {
		levels["control"] = 4
		stride = map[string]int{"control": 1, "comp": 1, "call": 7, "scope": 17, "assign": 3}
	}
	for _, pf := range prog.Profiles() {
		max, ok := levels[pf.Name]
		if !ok {
			continue
		}
		for l := 1; l <= max; l++ {
			i := 0
			pf.Level(l, func(p prog.Program) bool {
				i++
				if i%stride[pf.Name] == 0 {
					out = append(out, prog.Render(p.Instantiate()))
				}
				return true
			})
		}
	}
	return out
}

type event struct {
	id   string
	step uint64
}

type runCfg struct {
	limit        uint64 // 0 = none
	cancelAtCall int    // cancel synchronously from the j-th built-in call (1-based), 0 = never
	doubleCancel bool   // a second Cancel with another reason right after the first
	asyncAt      uint64 // cancel from another goroutine just before instruction k (1-based), 0 = never
	uncancel     int    // with asyncAt: 0 none, 1 = Cancel then Uncancel, 2 = Uncancel then Cancel
}

type runOut struct {
	events []event
	steps  uint64
	err    string
	static bool
	depth  int
}

func predeclaredHas(name string) bool { return name == "t" || name == "mk" || name == "hv" }

// hostVal is a host value whose computed attribute and whose + operator call a
// Starlark function on the running thread: Starlark frames pushed from inside
// an instruction that is not a CALL.
type hostVal struct {
	th *starlark.Thread
	cb starlark.Value
}

func (h *hostVal) String() string        { return "hv" }
func (h *hostVal) Type() string          { return "hv" }
func (h *hostVal) Freeze()               {}
func (h *hostVal) Truth() starlark.Bool  { return true }
func (h *hostVal) Hash() (uint32, error) { return 7, nil }
func (h *hostVal) AttrNames() []string   { return []string{"v"} }
func (h *hostVal) Attr(name string) (starlark.Value, error) {
	if name != "v" {
		return nil, nil
	}
	return starlark.Call(h.th, h.cb, nil, nil)
}
func (h *hostVal) Binary(op syntax.Token, y starlark.Value, side starlark.Side) (starlark.Value, error) {
	if op != syntax.PLUS {
		return nil, nil
	}
	return starlark.Call(h.th, h.cb, nil, nil)
}

func execute(src string, cfg runCfg) (out runOut) {
	th := &starlark.Thread{Name: "c07"}
	calls := 0
	t := starlark.NewBuiltin("t", func(th *starlark.Thread, b *starlark.Builtin, args starlark.Tuple, kwargs []starlark.Tuple) (starlark.Value, error) {
		calls++
		out.events = append(out.events, event{args[0].String(), th.ExecutionSteps()})
		if cfg.cancelAtCall == calls {
			th.Cancel(fmt.Sprintf("sync-%d", calls))
			if cfg.doubleCancel {
				th.Cancel("second-reason")
			}
		}
		return args[1], nil
	})
	mk := starlark.NewBuiltin("mk", func(th *starlark.Thread, b *starlark.Builtin, args starlark.Tuple, kwargs []starlark.Tuple) (starlark.Value, error) {
		return prog.NewObj(), nil
	})
	hv := starlark.NewBuiltin("hv", func(th *starlark.Thread, b *starlark.Builtin, args starlark.Tuple, kwargs []starlark.Tuple) (starlark.Value, error) {
		return &hostVal{th: th, cb: args[0]}, nil
	})
	pre := starlark.StringDict{"t": t, "mk": mk, "hv": hv}
	_, p, err := starlark.SourceProgramOptions(allOpts, "p.star", src, pre.Has)
	if err != nil {
		out.static = true
		return
	}
	if cfg.limit > 0 {
		th.SetMaxExecutionSteps(cfg.limit)
	}
	if cfg.asyncAt > 0 {
		// Own the only interaction between a canceller goroutine and the
		// interpreter (one atomic store observed by one atomic load per
		// instruction): OnMaxSteps runs at the head of every instruction.
		th.SetMaxExecutionSteps(1)
		th.OnMaxSteps = func(th *starlark.Thread) {
			if th.ExecutionSteps() == cfg.asyncAt {
				var wg sync.WaitGroup
				wg.Add(1)
				go func() {
					defer wg.Done()
					switch cfg.uncancel {
					case 0:
						th.Cancel("async")
					case 1:
						th.Cancel("async")
						th.Uncancel()
					case 2:
						th.Uncancel()
						th.Cancel("async")
					}
				}()
				wg.Wait()
			}
		}
	}
	// load("work:K", ...) executes, on the SAME thread, a module with K
	// statements (each calling the probe): the steps of a loaded module count
	// against the loading thread's limit like any other
	th.Load = func(th *starlark.Thread, module string) (starlark.StringDict, error) {
		var k int
		if _, err := fmt.Sscanf(module, "work:%d", &k); err != nil {
			return nil, fmt.Errorf("no such module %q", module)
		}
		var sb strings.Builder
		for i := 0; i < k; i++ {
			fmt.Fprintf(&sb, "w%d = t(100 + %d, %d)\n", i, i, i)
		}
		sb.WriteString("a = 1\n")
		return starlark.ExecFileOptions(allOpts, th, module, sb.String(), pre)
	}
	_, err = p.Init(th, pre)
	out.steps = th.ExecutionSteps()
	out.depth = th.CallStackDepth()
	if err != nil {
		out.err = err.Error()
	}
	return
}

func eventsBefore(ev []event, n uint64) []event {
	var out []event
	for _, e := range ev {
		if e.step < n {
			out = append(out, e)
		}
	}
	return out
}

func sameEvents(a, b []event) bool {
	if len(a) != len(b) {
		return false
	}
	for i := range a {
		if a[i] != b[i] {
			return false
		}
	}
	return true
}

func isCancel(err, reason string) bool {
	return strings.Contains(err, "Starlark computation cancelled: "+reason)
}

type kase struct {
	Src  string `json:"src"`
	Kind string `json:"kind"`
	N    uint64 `json:"n"`
	Unc  int    `json:"unc,omitempty"`
	Dbl  bool   `json:"dbl,omitempty"`
}

// checkProgram explores every fault placement for one terminating program.
func checkProgram(src string, st *fw.Stats, report func(k kase, what string)) {
	base := execute(src, runCfg{})
	if base.static {
		return
	}
	st.Evals++
	S := base.steps
	if S == 0 || S > 3000 {
		st.Count("skipped_program_size", 1)
		return
	}
	baseFailed := base.err != ""
	// the step counter never goes back: every built-in call sees a larger count than the one before,
	// and the final count is not below the last one seen
	for i := 1; i < len(base.events); i++ {
		if base.events[i].step <= base.events[i-1].step {
			report(kase{Src: src, Kind: "determinism"}, fmt.Sprintf("built-in call number %d saw ExecutionSteps() = %d, the call before it saw %d: the step counter went back", i+1, base.events[i].step, base.events[i-1].step))
			break
		}
	}
	if n := len(base.events); n > 0 && S < base.events[n-1].step {
		report(kase{Src: src, Kind: "determinism"}, fmt.Sprintf("the run ended with ExecutionSteps() = %d, below the %d a built-in saw earlier", S, base.events[n-1].step))
	}
	ne := len(base.events)
	if ne > 8 {
		ne = 8
	}
	st.Outcome(fmt.Sprintf("terminating:%d-builtin-calls:fails=%v", ne, baseFailed))
	// determinism of the step count
	for i := 0; i < 2; i++ {
		again := execute(src, runCfg{})
		st.Evals++
		if again.steps != S || !sameEvents(again.events, base.events) || again.err != base.err {
			report(kase{Src: src, Kind: "determinism"}, fmt.Sprintf("step count or trace differs between runs: %d vs %d", S, again.steps))
		}
	}
	st.Nontrivial++
	// 1. every limit
	for n := uint64(1); n <= S+1; n++ {
		r := execute(src, runCfg{limit: n})
		st.Evals++
		st.Schedules++
		if msg := judgeLimit(base, r, n, baseFailed); msg != "" {
			report(kase{Src: src, Kind: "limit", N: n}, msg)
		}
	}
	// 2. synchronous cancellation at every built-in call site
	for j := 1; j <= len(base.events); j++ {
		for _, dbl := range []bool{false, true} {
			r := execute(src, runCfg{cancelAtCall: j, doubleCancel: dbl})
			st.Evals++
			st.Schedules++
			want := base.events[:j]
			// the program may fail on its own before or at that call returning
			if !sameEvents(r.events, want) {
				report(kase{Src: src, Kind: "sync", N: uint64(j), Dbl: dbl}, fmt.Sprintf("after Cancel in built-in call #%d the events are %v, want exactly %v", j, r.events, want))
			} else if !isCancel(r.err, fmt.Sprintf("sync-%d", j)) {
				// Permitted only if no Starlark instruction follows that call, i.e. it was the very last step.
				if !(base.events[j-1].step == S && r.err == base.err) {
					report(kase{Src: src, Kind: "sync", N: uint64(j), Dbl: dbl}, fmt.Sprintf("error after Cancel in call #%d is %q, want cancellation naming the first reason", j, r.err))
				}
			}
			if r.depth != 0 {
				report(kase{Src: src, Kind: "sync", N: uint64(j), Dbl: dbl}, "call stack depth not restored")
			}
		}
	}
	// 3. asynchronous cancellation before every instruction, and Uncancel races
	for k := uint64(1); k <= S; k++ {
		for unc := 0; unc <= 2; unc++ {
			r := execute(src, runCfg{asyncAt: k, uncancel: unc})
			st.Evals++
			st.Schedules++
			switch unc {
			case 0, 2:
				want := eventsBefore(base.events, k)
				if !sameEvents(r.events, want) {
					report(kase{Src: src, Kind: "async", N: k, Unc: unc}, fmt.Sprintf("Cancel landed before instruction %d but events are %v, want %v", k, r.events, want))
				} else if !isCancel(r.err, "async") {
					report(kase{Src: src, Kind: "async", N: k, Unc: unc}, fmt.Sprintf("error is %q, want cancellation", r.err))
				} else if r.steps != k {
					report(kase{Src: src, Kind: "async", N: k, Unc: unc}, fmt.Sprintf("step counter %d after cancellation before instruction %d", r.steps, k))
				}
			case 1: // cancelled then reset before the interpreter looked: runs to completion
				if !sameEvents(r.events, base.events) || r.err != base.err || r.steps != S {
					report(kase{Src: src, Kind: "async", N: k, Unc: unc}, fmt.Sprintf("Cancel+Uncancel before instruction %d changed the run: err %q events %v", k, r.err, r.events))
				}
			}
		}
	}
}

func judgeLimit(base, r runOut, n uint64, baseFailed bool) string {
	S := base.steps
	want := eventsBefore(base.events, n)
	if !sameEvents(r.events, want) {
		return fmt.Sprintf("limit %d (program needs %d steps): events %v, want exactly the probes before step %d: %v", n, S, r.events, n, want)
	}
	if n > S {
		if r.err != base.err {
			return fmt.Sprintf("limit %d > %d steps: outcome %q differs from unlimited outcome %q", n, S, r.err, base.err)
		}
		if r.steps != S {
			return fmt.Sprintf("limit %d > %d steps: step count %d", n, S, r.steps)
		}
		return ""
	}
	if !isCancel(r.err, "too many steps") {
		return fmt.Sprintf("limit %d <= %d steps but outcome is %q, want cancellation (too many steps)", n, S, r.err)
	}
	if r.steps > n {
		return fmt.Sprintf("limit %d: the thread counted %d steps", n, r.steps)
	}
	if r.depth != 0 {
		return "call stack depth not restored after cancellation"
	}
	return ""
}

// hangAfter bounds a run that has a step limit of at most a few thousand steps
// (microseconds of work). It is not an oracle of timing: a limited run that is
// still going after a minute is one that the limit does not stop.
const hangAfter = 60 * time.Second

// executeGuarded runs a limited execution in a goroutine; hung reports that it
// did not come back (the goroutine is abandoned, the process exits normally).
func executeGuarded(src string, cfg runCfg) (out runOut, hung bool) {
	done := make(chan runOut, 1)
	go func() { done <- execute(src, cfg) }()
	select {
	case out = <-done:
		return out, false
	case <-time.After(hangAfter):
		return runOut{}, true
	}
}

// growthFamilies: programs whose amount of work is a parameter K. Each unit of
// work (a loop iteration, a call, a comprehension element, a callback) must
// cost at least one step, and the same number of steps whatever K is: a unit
// of work that costs no steps is a computation that no limit can stop.
var growthFamilies = []struct{ name, tmpl string }{
	{"for-range", "for i in range(%d):\n    pass\n"},
	{"for-range-in-def", "def f():\n    for i in range(%d):\n        pass\nf()\n"},
	{"while-counter", "i = 0\nwhile i < %d:\n    i += 1\n"},
	{"list-comprehension", "x = [i for i in range(%d)]\n"},
	{"dict-comprehension", "x = {i: i for i in range(%d)}\n"},
	{"nested-comprehension", "x = [j for i in range(%d) for j in (1, 2)]\n"},
	{"comprehension-if", "x = [i for i in range(%d) if i]\n"},
	{"calls-in-loop", "def g(v):\n    return v\nfor i in range(%d):\n    g(i)\n"},
	{"recursion-depth", "def f(n):\n    return f(n - 1) if n else 0\nf(%d)\n"},
	{"sorted-key-callback", "x = sorted(range(%d), key=lambda v: -v)\n"},
	{"max-key-callback", "x = max(range(%d + 1), key=lambda v: v)\n"},
	{"lambda-in-comprehension", "f = lambda v: v\nx = [f(i) for i in range(%d)]\n"},
	{"break-continue-loop", "for i in range(%d):\n    if i < 0:\n        continue\n    x = i\n"},
	{"nested-for", "for i in range(%d):\n    for j in (1, 2, 3):\n        pass\n"},
	{"string-building", "s = ''\nfor i in range(%d):\n    s += 'a'\n"},
	{"statements-of-a-module-loaded-on-the-same-thread", "load('work:%d', 'a')\nx = a\n"},
	{"computed-attribute-calls-back", "def cb():\n    return 1\np = hv(cb)\nfor i in range(%d):\n    x = p.v\n"},
	{"operator-calls-back", "def cb():\n    return [j for j in (1, 2)]\np = hv(cb)\nfor i in range(%d):\n    x = p + 1\n"},
	{"star-args-call", "def g(*a):\n    return a\nfor i in range(%d):\n    g(*[i])\n"},
}

func checkGrowth(st *fw.Stats, report func(k kase, what string)) {
	for _, fam := range growthFamilies {
		var prev, delta uint64
		for K := 1; K <= 24; K++ {
			src := fmt.Sprintf(fam.tmpl, K)
			r := execute(src, runCfg{})
			st.Evals++
			if r.static || r.err != "" {
				report(kase{Src: src, Kind: "growth"}, "harness: growth program failed: "+r.err)
				break
			}
			if K >= 2 {
				d := r.steps - prev
				if r.steps <= prev {
					report(kase{Src: src, Kind: "growth", N: uint64(K)}, fmt.Sprintf("family %s: %d units of work take %d steps, %d units take %d: a unit of work costs no steps, so no step limit can stop this computation when it is made longer", fam.name, K-1, prev, K, r.steps))
					break
				}
				if K >= 3 && d != delta && fam.name != "sorted-key-callback" {
					report(kase{Src: src, Kind: "growth", N: uint64(K)}, fmt.Sprintf("family %s: unit of work number %d costs %d steps but number %d cost %d: the step count of identical work is not a fixed quantity", fam.name, K, d, K-1, delta))
					break
				}
				delta = d
			}
			prev = r.steps
		}
		st.Nontrivial++
	}
}

func checkNonTerminating(src string, maxN uint64, st *fw.Stats, report func(k kase, what string)) {
	for n := uint64(1); n <= maxN; n++ {
		r, hung := executeGuarded(src, runCfg{limit: n})
		if hung {
			report(kase{Src: src, Kind: "nonterm", N: n}, fmt.Sprintf("a non-terminating program given a limit of %d steps was still running after %v: the limit does not stop it", n, hangAfter))
			return
		}
		st.Evals++
		st.Schedules++
		if r.static {
			report(kase{Src: src, Kind: "nonterm", N: n}, "harness: program rejected statically")
			return
		}
		if !isCancel(r.err, "too many steps") {
			report(kase{Src: src, Kind: "nonterm", N: n}, fmt.Sprintf("limit %d on a non-terminating program: outcome %q", n, r.err))
		}
		if r.steps > n {
			report(kase{Src: src, Kind: "nonterm", N: n}, fmt.Sprintf("limit %d: counted %d steps", n, r.steps))
		}
		st.Outcome(fmt.Sprintf("non-terminating:stopped-after-%d-probes", min(len(r.events), 8)))
		for _, e := range r.events {
			if e.step >= n {
				report(kase{Src: src, Kind: "nonterm", N: n}, fmt.Sprintf("limit %d: probe fired at step %d", n, e.step))
			}
		}
	}
	st.Nontrivial++
}

func keyOf(k kase) string {
	s := k.Src
	if len(s) > 160 {
		s = s[:160] + "..."
	}
	return fmt.Sprintf("%s n=%d unc=%d dbl=%v %s", k.Kind, k.N, k.Unc, k.Dbl, s)
}

func worker(c *fw.Ctx) *fw.Stats {
	st := fw.NewStats()
	if len(c.Args) > 0 && c.Args[0] == "race" {
		return raceBody(c)
	}
	nviol := 0
	report := func(k kase, what string) {
		if nviol < 12 {
			nviol++
			st.Violate(keyOf(k), what, k)
		}
	}
	progs := corpus(c.Thorough())
	for i, src := range progs {
		if !c.Mine(int64(i)) {
			continue
		}
		if c.Expired() {
			if c.Shard == 0 {
				st.Cut = append(st.Cut, fmt.Sprintf("corpus at program %d of %d", i, len(progs)))
			}
			return st
		}
		checkProgram(src, st, report)
		if i%97 == 0 {
			st.Sample(map[string]any{"program": src, "kind": "every limit N, every sync cancellation site, every async cancellation point x {Cancel, Cancel;Uncancel, Uncancel;Cancel}"})
		}
	}
	maxN := uint64(600)
	if c.Thorough() {
		maxN = 2000
	}
	for i, src := range nonTerminating {
		if c.Mine(int64(i)) {
			checkNonTerminating(src, maxN, st, report)
		}
	}
	if c.Shard == 1%c.NShards {
		checkGrowth(st, report)
	}
	if c.Shard == 0 {
		st.Levels = append(st.Levels, fmt.Sprintf("%d families of programs with 1..24 units of work: every unit costs the same, positive number of steps", len(growthFamilies)))
		st.Levels = append(st.Levels, fmt.Sprintf("corpus of %d terminating programs: all limits 1..S+1, all sync sites, all async points", len(progs)),
			fmt.Sprintf("%d non-terminating programs: all limits 1..%d", len(nonTerminating), maxN))
		stateMachine(c, st, report)
	}
	return st
}

// ---------------------------------------------------------------------------
// (4) thread state machine: explicit-state search against a reference model

type smModel struct {
	reason string // "" = not cancelled
	remain int    // instructions that may still run before the limit cancels; -1 = unlimited
}

const execSteps = 7 // "x = 1 + 2\ny = x\n" takes a fixed number of steps, measured at start-up

func stateMachine(c *fw.Ctx, st *fw.Stats, report func(k kase, what string)) {
	const src = "x = 1 + 2\ny = [x, x]\n"
	base := execute(src, runCfg{})
	S := int(base.steps)
	type op struct {
		name  string
		apply func(th *starlark.Thread, m *smModel) string
	}
	pre := starlark.StringDict{}
	_, p, err := starlark.SourceProgramOptions(allOpts, "sm.star", src, pre.Has)
	if err != nil {
		fw.Fatal("c07 state machine program: %v", err)
	}
	selfCancel := starlark.StringDict{"cancel": starlark.NewBuiltin("cancel", func(th *starlark.Thread, b *starlark.Builtin, args starlark.Tuple, kwargs []starlark.Tuple) (starlark.Value, error) {
		th.Cancel("self")
		return starlark.None, nil
	})}
	_, pc, err := starlark.SourceProgramOptions(allOpts, "sc.star", "a = 1\ncancel()\nb = 2\n", selfCancel.Has)
	if err != nil {
		fw.Fatal("c07 state machine program: %v", err)
	}
	// measure: steps a runner takes on a fresh, unlimited thread
	measure := func(run func(th *starlark.Thread) error) int {
		th := &starlark.Thread{Name: "measure"}
		if err := run(th); err != nil {
			fw.Fatal("c07 state machine: entry point fails on a fresh thread: %v", err)
		}
		return int(th.ExecutionSteps())
	}
	// execVia: one execution through some entry point of the API; S is its cost
	execVia := func(name string, run func(th *starlark.Thread) error) op {
		S := measure(run)
		return op{name, func(th *starlark.Thread, m *smModel) string {
			err := run(th)
			wantErr := ""
			switch {
			case m.reason != "":
				wantErr = m.reason
				if m.remain > 0 {
					m.remain--
				}
			case m.remain >= 0 && m.remain <= S:
				wantErr = "too many steps"
				m.reason = wantErr
				m.remain = 0
			default:
				if m.remain > 0 {
					m.remain -= S
				}
			}
			got := ""
			if err != nil {
				got = err.Error()
			}
			if wantErr == "" && err != nil {
				return fmt.Sprintf("%s: unexpected error %q", name, got)
			}
			if wantErr != "" && !isCancel(got, wantErr) {
				return fmt.Sprintf("%s: error %q, model expects cancellation %q", name, got, wantErr)
			}
			if th.CallStackDepth() != 0 {
				return name + ": call stack not restored"
			}
			return ""
		}}
	}
	fnGlobals, err := starlark.ExecFileOptions(allOpts, &starlark.Thread{}, "fn.star", "def f(v):\n    return [v, v + 1]\n", nil)
	if err != nil {
		fw.Fatal("c07 state machine function: %v", err)
	}
	execOp := func(name string, pr *starlark.Program, env starlark.StringDict, self bool) op {
		return op{name, func(th *starlark.Thread, m *smModel) string {
			before := th.ExecutionSteps()
			g, err := pr.Init(th, env)
			ran := int(th.ExecutionSteps() - before)
			// model
			wantErr := ""
			switch {
			case m.reason != "":
				wantErr = m.reason
				if m.remain > 0 {
					m.remain--
				}
			case m.remain >= 0 && m.remain <= S && !self:
				wantErr = "too many steps"
				m.reason = wantErr
				m.remain = 0
			case self:
				// runs a = 1; cancel(); and is cancelled before b = 2 unless the limit strikes first
				if m.remain >= 0 && m.remain <= 4 {
					wantErr = "too many steps"
					m.reason = wantErr
					m.remain = 0
				} else {
					wantErr = "self"
					m.reason = "self"
					if m.remain > 0 {
						m.remain -= ran
					}
				}
			default:
				if m.remain > 0 {
					m.remain -= S
				}
			}
			got := ""
			if err != nil {
				got = err.Error()
			}
			if wantErr == "" {
				if err != nil {
					return fmt.Sprintf("%s: unexpected error %q", name, got)
				}
				if !self && (g["x"] == nil || g["y"] == nil) {
					return name + ": globals missing after a successful run"
				}
			} else if !isCancel(got, wantErr) {
				return fmt.Sprintf("%s: error %q, model expects cancellation %q", name, got, wantErr)
			}
			if th.CallStackDepth() != 0 {
				return name + ": call stack not restored"
			}
			return ""
		}}
	}
	ops := []op{
		{"Cancel(a)", func(th *starlark.Thread, m *smModel) string {
			th.Cancel("a")
			if m.reason == "" {
				m.reason = "a"
			}
			return ""
		}},
		{"Cancel(b)", func(th *starlark.Thread, m *smModel) string {
			th.Cancel("b")
			if m.reason == "" {
				m.reason = "b"
			}
			return ""
		}},
		{"Uncancel", func(th *starlark.Thread, m *smModel) string { th.Uncancel(); m.reason = ""; return "" }},
		execOp("Exec(short)", p, pre, false),
		execOp("Exec(self-cancelling)", pc, selfCancel, true),
		// the other entry points of the API: cancellation and limits are properties of the thread
		execVia("ExecFile(source)", func(th *starlark.Thread) error {
			_, err := starlark.ExecFileOptions(allOpts, th, "e.star", src, nil)
			return err
		}),
		execVia("Eval(expression)", func(th *starlark.Thread) error {
			_, err := starlark.EvalOptions(allOpts, th, "e.star", "[1 + 2, 3]", nil)
			return err
		}),
		execVia("ExecREPLChunk", func(th *starlark.Thread) error {
			f, err := allOpts.Parse("r.star", "z = 1 + 2\n", 0)
			if err != nil {
				return err
			}
			return starlark.ExecREPLChunk(f, th, starlark.StringDict{})
		}),
		execVia("Call(function)", func(th *starlark.Thread) error {
			_, err := starlark.Call(th, fnGlobals["f"], starlark.Tuple{starlark.MakeInt(1)}, nil)
			return err
		}),
		{"SetMax(steps+3)", func(th *starlark.Thread, m *smModel) string {
			th.SetMaxExecutionSteps(th.ExecutionSteps() + 3)
			m.remain = 2 // instruction k runs iff Steps(after ++) < max
			return ""
		}},
		{"SetMax(steps+1000)", func(th *starlark.Thread, m *smModel) string {
			th.SetMaxExecutionSteps(th.ExecutionSteps() + 1000)
			m.remain = 999
			return ""
		}},
	}
	_ = execSteps
	depth := 5
	if c.Thorough() {
		depth = 7
	}
	// breadth-first over all sequences; state = model (the thread exposes nothing else)
	type node struct{ path []int }
	seen := map[string]bool{}
	frontier := []node{{}}
	var states, transitions int64
	canon := func(m smModel) string {
		r := m.remain
		if r > 20 {
			r = 20 + r%7 // coarse but still distinguishing "far from the limit"
		}
		return fmt.Sprintf("%s/%d", m.reason, r)
	}
	for d := 0; d < depth; d++ {
		var next []node
		for _, nd := range frontier {
			for oi := range ops {
				path := append(append([]int{}, nd.path...), oi)
				th := &starlark.Thread{Name: "sm"}
				m := smModel{remain: -1}
				bad := ""
				for _, o := range path {
					if msg := ops[o].apply(th, &m); msg != "" {
						bad = msg
						break
					}
				}
				transitions++
				st.Evals++
				if bad != "" {
					var names []string
					for _, o := range path {
						names = append(names, ops[o].name)
					}
					report(kase{Kind: "statemachine", Src: strings.Join(names, ";")}, bad)
					continue
				}
				key := canon(m)
				if !seen[key] || d < 3 { // always expand the first levels fully
					if !seen[key] {
						seen[key] = true
						states++
					}
					next = append(next, node{path})
				}
			}
		}
		frontier = next
	}
	st.States += states
	st.Transitions += transitions
	st.Nontrivial += states
	st.Levels = append(st.Levels, fmt.Sprintf("thread state machine: all op sequences to depth %d over %d ops (%d model states)", depth, len(ops), states))
}

// ---------------------------------------------------------------------------
// (5) free-running race pass

func raceBody(c *fw.Ctx) *fw.Stats {
	st := fw.NewStats()
	srcs := append(append([]string{}, handPrograms...), nonTerminating...)
	for round := 0; round < 40; round++ {
		for _, src := range srcs {
			th := &starlark.Thread{Name: "race"}
			th.SetMaxExecutionSteps(20000)
			t := starlark.NewBuiltin("t", func(th *starlark.Thread, b *starlark.Builtin, args starlark.Tuple, kwargs []starlark.Tuple) (starlark.Value, error) {
				return args[1], nil
			})
			pre := starlark.StringDict{"t": t}
			start := make(chan struct{})
			var wg sync.WaitGroup
			wg.Add(1)
			go func() {
				defer wg.Done()
				<-start
				for i := 0; i < round%5; i++ {
					th.Cancel("racer")
					th.Uncancel()
				}
				th.Cancel("racer-final")
			}()
			close(start)
			_, err := starlark.ExecFileOptions(allOpts, th, "r.star", src, pre)
			wg.Wait()
			st.Evals++
			if err != nil {
				var ee *starlark.EvalError
				if !errors.As(err, &ee) || !strings.Contains(err.Error(), "cancelled") {
					st.Count("race_pass_other_errors", 1)
				}
			}
		}
	}
	return st
}

func runRace(c *fw.Ctx, total *fw.Stats) {
	bin := filepath.Join(fw.BinDir(), "vcheck-race")
	if _, err := os.Stat(bin); err != nil {
		total.Notes = append(total.Notes, "race_pass: skipped (no -race binary)")
		return
	}
	cmd := exec.Command(bin, "worker", "C07", c.Tier, "0", "1", "race")
	cmd.Env = append(os.Environ(), "GORACE=halt_on_error=0 exitcode=66")
	var out, errb bytes.Buffer
	cmd.Stdout, cmd.Stderr = &out, &errb
	err := cmd.Run()
	if strings.Contains(errb.String(), "DATA RACE") {
		rep := errb.String()
		if len(rep) > 3000 {
			rep = rep[:3000]
		}
		total.Violate("race:Cancel/Uncancel concurrent with execution", "race detector report: "+rep, kase{Kind: "race"})
		return
	}
	if err != nil {
		fw.Fatal("race pass failed to run: %v\n%s", err, errb.String())
	}
	total.Count("race_pass_executions", int64(len(handPrograms)+len(nonTerminating))*40)
	total.Notes = append(total.Notes, "race_pass: free-running -race build with a concurrent Cancel/Uncancel goroutine: no report")
}

func run(c *fw.Ctx) *fw.Stats {
	total := c.Sharded(0, nil)
	runRace(c, total)
	sort.Strings(total.Levels)
	return total
}

func replay(c *fw.Ctx, raw json.RawMessage) []fw.Viol {
	var k kase
	if err := json.Unmarshal(raw, &k); err != nil {
		fw.Fatal("bad case: %v", err)
	}
	st := fw.NewStats()
	var out []fw.Viol
	report := func(kk kase, what string) {
		if keyOf(kk) == keyOf(k) {
			out = append(out, fw.Viol{Key: keyOf(kk), What: what})
		}
	}
	switch k.Kind {
	case "race":
		runRace(c, st)
		return st.Viols
	case "statemachine":
		stateMachine(c, st, report)
	case "nonterm":
		checkNonTerminating(k.Src, k.N, st, report)
	case "growth":
		checkGrowth(st, report)
	default:
		checkProgram(k.Src, st, report)
	}
	return out
}

func init() {
	fw.Register(&fw.Prop{
		ID:    "C07",
		Level: "fault_enumeration",
		Rule: "for every program of the corpus: the limit N for every N in [1..S+1] (S = its full step count), synchronous Cancel from every built-in call (single and double reason), asynchronous Cancel from a second goroutine landing before every instruction k in [1..S] in the three orders {Cancel, Cancel;Uncancel, Uncancel;Cancel}; non-terminating programs under every limit up to a bound; 17 families of programs with 1..24 units of work (each further unit costs the same positive number of steps); " +
			"explicit-state search over Cancel/Uncancel/SetMax/Exec sequences against a reference model; a free-running -race pass; " +
			"oracle: exactly the probes with step index < N fire, the outcome is success iff S < N, the error names the first reason, the stack depth is restored; non-trivial = programs (and model states) fully explored",
		Run: run, Worker: worker, Replay: replay,
		Assumptions: []string{
			"the only interaction between a canceller goroutine and the interpreter is one atomic pointer checked once per instruction, so every real-time schedule is equivalent to the cancellation landing between two instructions (all of which are enumerated); the -race pass checks that premise",
			"cancellation is observed between instructions: a built-in call in flight completes first, as the property allows",
		},
		BudgetQuick: 60, BudgetThorough: 900,
	})
}
