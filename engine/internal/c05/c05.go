// Package c05 decides C05: frozen values and compiled programs are safe to
// share between threads.  Three sub-checks over the same harness bodies:
//
//  1. read paths do not write: a generic deep snapshot of everything shared
//     (module globals, operation functions, Universe, the compiled program) is
//     unchanged by every (value, operation) pair;
//  2. interleavings: N Starlark threads initialising and running one shared
//     *Program on shared frozen values under a controlled scheduler that owns
//     every instruction boundary (OnMaxSteps seam); all schedules up to a
//     preemption bound are explored and every thread's transcript must equal
//     its solo transcript;
//  3. race pass: the same bodies free-running under the race detector (a
//     cooperative scheduler's hand-offs are happens-before edges, so races
//     must be looked for without it): all unordered pairs of operations per
//     value, concurrent Init and concurrent re-Freeze.
package c05

import (
	"bytes"
	"encoding/json"
	"errors"
	"fmt"
	"os"
	"os/exec"
	"path/filepath"
	"strings"
	"sync"

	"go.starlark.net/starlark"

	"verif/internal/fw"
	"verif/internal/prog"
	"verif/internal/snap"
)

// ---------------------------------------------------------------------------
// shared programs for the interleaving exploration

var sharedPrograms = []struct{ name, src string }{
	{"reads", `
load("m", "L", "D", "S", "C", "F", "BM", "K")
t(1, [x for x in L if x != 1])
t(2, sorted(S, key = K))
t(3, (C(3), F(2), BM("two")))
g1 = L
g2 = {"mine": D["k"]}
t(4, json.encode(D["k"]))
`},
	{"mutations-rejected", `
load("m", "L", "D", "X", "BA")
def m1(): L.append(1)
g = [L, D, X, BA]
t(1, L[2])
L[2].append(7)
t(2, "unreachable")
`},
	{"fails-deep", `
load("m", "L", "T", "K")
def a(x):
    return [b(y) for y in x]
def b(y):
    return sorted(y, key = c)
def c(z):
    t(2, z)
    return z.nope
t(1, len(L))
r = a([T[1][1], L])
`},
	// (last: the longest program; its level is the first to be cut when the machine is busy)
	{"calls-of-shared-functions", `
load("m", "F10", "N3")
t(0, F10(1, j = 2, zz = 3))
t(9, N3())
`},
}

type transcript struct {
	Trace   []string
	Globals string
	Err     string
	Back    string
	Steps   uint64
}

func (a transcript) equal(b transcript) bool {
	return strings.Join(a.Trace, "|") == strings.Join(b.Trace, "|") && a.Globals == b.Globals && a.Err == b.Err && a.Back == b.Back && a.Steps == b.Steps
}

// runOne initialises the shared program on a fresh thread.  hook, if set, is
// installed as the per-instruction seam.
func runOne(fx *fixture, p *starlark.Program, name string, hook func(*starlark.Thread)) (tr transcript) {
	th := &starlark.Thread{Name: name}
	th.Print = func(_ *starlark.Thread, msg string) { tr.Trace = append(tr.Trace, "print:"+msg) }
	th.Load = func(_ *starlark.Thread, module string) (starlark.StringDict, error) {
		if module == "m" {
			return fx.module, nil
		}
		return nil, fmt.Errorf("no module %s", module)
	}
	pre := predeclared()
	pre["t"] = starlark.NewBuiltin("t", func(_ *starlark.Thread, b *starlark.Builtin, args starlark.Tuple, kwargs []starlark.Tuple) (starlark.Value, error) {
		tr.Trace = append(tr.Trace, args[0].String()+":"+prog.Canon(args[1]))
		return args[1], nil
	})
	if hook != nil {
		th.SetMaxExecutionSteps(1)
		th.OnMaxSteps = hook
	}
	defer func() {
		if r := recover(); r != nil {
			tr.Err = fmt.Sprintf("PANIC: %v", r)
		}
	}()
	g, err := p.Init(th, pre)
	tr.Steps = th.ExecutionSteps()
	names := g.Keys()
	vals := make([]starlark.Value, len(names))
	for i, n := range names {
		vals[i] = g[n]
	}
	tr.Globals = prog.CanonAll(names, vals)
	if err != nil {
		tr.Err = err.Error()
		var ee *starlark.EvalError
		if errors.As(err, &ee) {
			tr.Back = ee.Backtrace()
		}
	}
	return
}

func compileShared(src string) *starlark.Program {
	pre := predeclared()
	pre["t"] = starlark.None
	_, p, err := starlark.SourceProgramOptions(fileOpts, "shared.star", src, pre.Has)
	if err != nil {
		fw.Fatal("c05 shared program: %v", err)
	}
	return p
}

// ---------------------------------------------------------------------------
// controlled scheduler: exactly one thread runs between two scheduling points

type point struct {
	enabled []int // canonical order: running thread first if still enabled, then ascending
	running int   // thread that ran the previous step (-1 at the start)
}

type execution struct {
	points      []point
	choices     []int
	transcripts []transcript
}

// runSchedule executes n threads under the schedule given by prefix (indices
// into each point's enabled list), then choice 0 everywhere.
func runSchedule(fx *fixture, p *starlark.Program, n int, prefix []int) *execution {
	type msg struct {
		id   int
		done bool
	}
	events := make(chan msg)
	grant := make([]chan struct{}, n)
	x := &execution{transcripts: make([]transcript, n)}
	for i := 0; i < n; i++ {
		grant[i] = make(chan struct{})
		go func(i int) {
			<-grant[i]
			first := true
			x.transcripts[i] = runOne(fx, p, fmt.Sprintf("T%d", i), func(*starlark.Thread) {
				if first {
					first = false // the initial grant already covers the first instruction
					return
				}
				events <- msg{i, false}
				<-grant[i]
			})
			events <- msg{i, true}
		}(i)
	}
	alive := make([]bool, n)
	for i := range alive {
		alive[i] = true
	}
	running := -1
	for step := 0; ; step++ {
		var en []int
		if running >= 0 && alive[running] {
			en = append(en, running)
		}
		for i := 0; i < n; i++ {
			if alive[i] && i != running {
				en = append(en, i)
			}
		}
		if len(en) == 0 {
			break
		}
		c := 0
		if step < len(prefix) {
			c = prefix[step]
			if c >= len(en) {
				fw.Fatal("c05 scheduler: replay diverged at step %d: choice %d of %d enabled", step, c, len(en))
			}
		}
		x.points = append(x.points, point{enabled: en, running: running})
		x.choices = append(x.choices, c)
		who := en[c]
		grant[who] <- struct{}{}
		m := <-events
		if m.id != who {
			fw.Fatal("c05 scheduler: thread %d moved while thread %d was scheduled", m.id, who)
		}
		if m.done {
			alive[who] = false
		}
		running = who
	}
	return x
}

func (x *execution) preemptionsBefore(i int) int {
	n := 0
	for j := 0; j < i; j++ {
		p := x.points[j]
		if p.running >= 0 && len(p.enabled) > 0 && p.enabled[0] == p.running && x.choices[j] != 0 {
			n++
		}
	}
	return n
}

type schedCase struct {
	Program string `json:"program"`
	Threads int    `json:"threads"`
	Prefix  []int  `json:"prefix"`
}

// explore enumerates all schedules with at most bound preemptions
// (iterative context bounding); subtrees are sharded by their first deviation.
func explore(c *fw.Ctx, fx *fixture, name string, p *starlark.Program, n, bound int, solo transcript, st *fw.Stats) (complete bool) {
	outcomes := map[string]bool{}
	nviol := 0
	cut := false
	nrun := 0
	var rec func(prefix []int, depthMine bool)
	rec = func(prefix []int, mine bool) {
		if cut {
			return
		}
		if nrun++; nrun%64 == 0 && c.Expired() {
			// out of budget: what was explored is reported, the level is not
			cut = true
			return
		}
		x := runSchedule(fx, p, n, prefix)
		if mine {
			st.Schedules++
			st.States++
			st.Evals++
			if len(prefix) > 0 {
				// at least one deviation from the default (run-to-completion) schedule
				st.Nontrivial++
			}
			st.Transitions += int64(len(x.points))
			for i, tr := range x.transcripts {
				if !tr.equal(solo) && nviol < 5 {
					nviol++
					sc := schedCase{Program: name, Threads: n, Prefix: append([]int(nil), x.choices...)}
					st.Violate(fmt.Sprintf("interleaving:%s:threads=%d:first-difference-thread=%d", name, n, i),
						fmt.Sprintf("thread %d observed %+v, alone it observes %+v (schedule %v)", i, tr, solo, compress(x.choices)), sc)
				}
			}
			outcomes[fmt.Sprint(x.transcripts[0].Err != "")] = true
		}
		pre := x.preemptionsBefore(len(prefix))
		for i := len(prefix); i < len(x.points); i++ {
			pt := x.points[i]
			if i > len(prefix) {
				// preemptions among the points before i, kept incrementally
				if q := x.points[i-1]; q.running >= 0 && len(q.enabled) > 0 && q.enabled[0] == q.running && x.choices[i-1] != 0 {
					pre++
				}
			}
			cost := pre
			if pt.running >= 0 && len(pt.enabled) > 0 && pt.enabled[0] == pt.running {
				cost++
			}
			if cost > bound {
				continue
			}
			for alt := 1; alt < len(pt.enabled); alt++ {
				childMine := mine
				if len(prefix) == 0 {
					// shard on the first deviation
					childMine = c.Mine(int64(i*7 + alt))
					if !childMine {
						continue
					}
				}
				np := append(append([]int{}, x.choices[:i]...), alt)
				rec(np, childMine)
			}
		}
	}
	rec(nil, c.Shard == 0)
	return !cut
}

func compress(ch []int) string {
	var sb strings.Builder
	for i := 0; i < len(ch); {
		j := i
		for j < len(ch) && ch[j] == ch[i] {
			j++
		}
		fmt.Fprintf(&sb, "%dx%d ", ch[i], j-i)
		i = j
	}
	return sb.String()
}

// ---------------------------------------------------------------------------
// sub-check 1: snapshot invariance

var snapOpts = snap.Options{SkipFields: map[string]bool{
	"Funcode.lntOnce": true, // lazily decoded position table, guarded by sync.Once
	"Funcode.lnt":     true,
	// the epoch in which Freeze last visited the function: an atomic mark (fix 3835061) that a
	// re-Freeze after an early-freeze event rewrites; not state a reader of the value observes
	"Function.frozenAt": true,
}}

type snapCase struct {
	Value string `json:"value"`
	Op    string `json:"op"`
	Meth  string `json:"meth,omitempty"`
	ArgI  int    `json:"argi"`
}

func snapshotCheck(c *fw.Ctx, fx *fixture, progs []*starlark.Program, st *fw.Stats) {
	roots := []any{fx.module, fx.ops, starlark.Universe}
	for _, p := range progs {
		roots = append(roots, p)
	}
	var idx int64 = -1
	for _, vn := range fx.names {
		v := fx.module[vn]
		ops := append(fx.opsFor(v), opCase{fn: "go_freeze"})
		for _, o := range ops {
			idx++
			if !c.Mine(idx) {
				continue
			}
			before := snap.Take(snapOpts, roots...)
			var sink []string
			res := fx.apply(newThread("snap", &sink), v, o)
			after := snap.Take(snapOpts, roots...)
			st.Evals++
			st.Nontrivial++
			if strings.HasPrefix(res, "error") {
				st.Outcome("rejected-or-failed")
			} else {
				st.Outcome("returned")
			}
			if d := snap.Diff(before, after); d != "" {
				st.Violate(fmt.Sprintf("snapshot:%s:%s", vn, o), "a read-only or rejected operation changed shared state: "+d+" (result: "+res+")",
					snapCase{Value: vn, Op: o.fn, Meth: o.meth, ArgI: argIndex(o.args)})
			}
			if strings.HasPrefix(res, "PANIC") {
				st.Violate(fmt.Sprintf("panic:%s:%s", vn, o), res, snapCase{Value: vn, Op: o.fn, Meth: o.meth, ArgI: argIndex(o.args)})
			}
			if idx%211 == 0 {
				st.Sample(map[string]any{"sub_check": "snapshot", "value": vn, "operation": o.String(), "result": res, "graph_nodes": before.Nodes})
			}
		}
	}
	if c.Shard == 0 {
		st.Count("snapshot_cases", idx+1)
	}
}

func argIndex(a []starlark.Value) int {
	for i, m := range methodArgs {
		if len(m) == len(a) {
			same := true
			for j := range m {
				if m[j].String() != a[j].String() {
					same = false
				}
			}
			if same {
				return i
			}
		}
	}
	return -1
}

// ---------------------------------------------------------------------------

func worker(c *fw.Ctx) *fw.Stats {
	if len(c.Args) > 0 && c.Args[0] == "race" {
		return raceBody(c)
	}
	st := fw.NewStats()
	fx := newFixture()
	var progs []*starlark.Program
	for _, sp := range sharedPrograms {
		progs = append(progs, compileShared(sp.src))
	}
	snapshotCheck(c, fx, progs, st)
	if c.Shard == 0 {
		st.Levels = append(st.Levels, "snapshot: every (shared value, operation) pair incl. every advertised method x 8 argument tuples")
	}
	// interleavings
	type cfg struct{ threads, bound int }
	cfgs := []cfg{{2, 2}}
	if c.Thorough() {
		cfgs = []cfg{{2, 3}, {3, 2}}
	}
	for pi, sp := range sharedPrograms {
		p := progs[pi]
		solo := runOne(fx, p, "solo", nil)
		again := runOne(fx, p, "solo2", func(*starlark.Thread) {})
		if !solo.equal(again) {
			st.Violate("solo-determinism:"+sp.name, fmt.Sprintf("two solo runs differ: %+v vs %+v", solo, again), schedCase{Program: sp.name, Threads: 1})
			continue
		}
		for _, cf := range cfgs {
			if c.Expired() {
				if c.Shard == 0 {
					st.Cut = append(st.Cut, fmt.Sprintf("interleavings:%s:threads=%d", sp.name, cf.threads))
				}
				continue
			}
			if !explore(c, fx, sp.name, p, cf.threads, cf.bound, solo, st) {
				st.Cut = append(st.Cut, fmt.Sprintf("interleavings:%s:threads=%d(shard %d ran out of budget inside the level)", sp.name, cf.threads, c.Shard))
				continue
			}
			if c.Shard == 0 {
				st.Levels = append(st.Levels, fmt.Sprintf("interleavings:%s: %d threads x %d steps each, all schedules with <= %d preemptions", sp.name, cf.threads, solo.Steps, cf.bound))
				st.Sample(map[string]any{"sub_check": "interleaving", "program": sp.name, "threads": cf.threads, "preemption_bound": cf.bound, "solo_transcript": solo})
			}
		}
	}
	return st
}

// ---------------------------------------------------------------------------
// sub-check 3: free-running race pass (run only in the -race binary)

func raceBody(c *fw.Ctx) *fw.Stats {
	st := fw.NewStats()
	fx := newFixture()
	reps := 2
	pairRun := func(f, g func()) {
		for r := 0; r < reps; r++ {
			start := make(chan struct{})
			var wg sync.WaitGroup
			wg.Add(2)
			go func() { defer wg.Done(); <-start; f() }()
			go func() { defer wg.Done(); <-start; g() }()
			close(start)
			wg.Wait()
			st.Evals++
		}
	}
	for _, vn := range fx.names {
		v := fx.module[vn]
		ops := append(fx.opsFor(v), opCase{fn: "go_freeze"})
		if !c.Thorough() {
			// quick: every operation paired with every generic operation and with itself
			n := len(fx.opList) + 1
			for i := range ops {
				for j := i; j < len(ops); j++ {
					if i >= n && j >= n && i != j {
						continue
					}
					oi, oj := ops[i], ops[j]
					pairRun(func() { fx.apply(newThread("a", nil), v, oi) }, func() { fx.apply(newThread("b", nil), v, oj) })
				}
			}
		} else {
			for i := range ops {
				for j := i; j < len(ops); j++ {
					oi, oj := ops[i], ops[j]
					pairRun(func() { fx.apply(newThread("a", nil), v, oi) }, func() { fx.apply(newThread("b", nil), v, oj) })
				}
			}
		}
	}
	// concurrent Init of one program (first use decodes position tables on failure)
	for _, sp := range sharedPrograms {
		for r := 0; r < 3; r++ {
			p := compileShared(sp.src)
			start := make(chan struct{})
			var wg sync.WaitGroup
			for k := 0; k < 4; k++ {
				wg.Add(1)
				go func(k int) {
					defer wg.Done()
					<-start
					runOne(fx, p, fmt.Sprintf("init%d", k), nil)
				}(k)
			}
			close(start)
			wg.Wait()
			st.Evals += 4
		}
	}
	return st
}

func runRace(c *fw.Ctx, total *fw.Stats) {
	bin := filepath.Join(fw.BinDir(), "vcheck-race")
	if _, err := os.Stat(bin); err != nil {
		total.Notes = append(total.Notes, "race_pass: skipped (no -race binary)")
		return
	}
	cmd := exec.Command(bin, "worker", "C05", c.Tier, "0", "1", "race")
	cmd.Env = append(os.Environ(), "GORACE=halt_on_error=0 exitcode=66")
	var out, errb bytes.Buffer
	cmd.Stdout, cmd.Stderr = &out, &errb
	err := cmd.Run()
	if strings.Contains(errb.String(), "DATA RACE") {
		rep := errb.String()
		n := strings.Count(rep, "WARNING: DATA RACE")
		// the first report, trimmed to its stacks
		if i := strings.Index(rep, "WARNING: DATA RACE"); i >= 0 {
			rep = rep[i:]
		}
		if j := strings.Index(rep, "=================="); j > 0 {
			rep = rep[:j]
		}
		total.Violate("race:shared-frozen-values", fmt.Sprintf("race detector: %d report(s); first: %s", n, rep), schedCase{Program: "race"})
		return
	}
	if err != nil {
		fw.Fatal("race pass failed to run: %v\n%s", err, errb.String())
	}
	for _, line := range strings.Split(out.String(), "\n") {
		if strings.HasPrefix(line, "RESULT ") {
			var s fw.Stats
			if json.Unmarshal([]byte(line[7:]), &s) == nil {
				total.Count("race_pass_pair_executions", s.Evals)
			}
		}
	}
	total.Levels = append(total.Levels, "race pass: free-running -race build, operation pairs per shared value + concurrent Init: no report")
}

func run(c *fw.Ctx) *fw.Stats {
	total := c.Sharded(0, nil)
	// a level that any shard had to cut is not a completed level
	var keep []string
	for _, l := range total.Levels {
		cutBySome := false
		for _, cu := range total.Cut {
			if i := strings.Index(cu, ":threads="); i > 0 && strings.HasPrefix(l, cu[:i]+":") {
				cutBySome = true
			}
		}
		if !cutBySome {
			keep = append(keep, l)
		}
	}
	total.Levels = keep
	if len(total.Cut) > 3 {
		total.Cut = append(total.Cut[:3:3], fmt.Sprintf("... and %d more shards", len(total.Cut)-3))
	}
	runRace(c, total)
	return total
}

func replay(c *fw.Ctx, raw json.RawMessage) []fw.Viol {
	st := fw.NewStats()
	var sc schedCase
	if json.Unmarshal(raw, &sc) == nil && sc.Program != "" {
		if sc.Program == "race" {
			runRace(c, st)
			return st.Viols
		}
		fx := newFixture()
		for _, sp := range sharedPrograms {
			if sp.name != sc.Program {
				continue
			}
			p := compileShared(sp.src)
			solo := runOne(fx, p, "solo", nil)
			x := runSchedule(fx, p, sc.Threads, sc.Prefix)
			for i, tr := range x.transcripts {
				if !tr.equal(solo) {
					return []fw.Viol{{Key: fmt.Sprintf("interleaving:%s:threads=%d:first-difference-thread=%d", sc.Program, sc.Threads, i), What: fmt.Sprintf("thread %d observed %+v", i, tr)}}
				}
			}
		}
		return nil
	}
	var k snapCase
	if err := json.Unmarshal(raw, &k); err != nil {
		fw.Fatal("bad case: %v", err)
	}
	fx := newFixture()
	v := fx.module[k.Value]
	o := opCase{fn: k.Op, meth: k.Meth}
	if k.ArgI >= 0 && k.ArgI < len(methodArgs) {
		o.args = methodArgs[k.ArgI]
	}
	var progs []any
	for _, sp := range sharedPrograms {
		progs = append(progs, compileShared(sp.src))
	}
	roots := append([]any{fx.module, fx.ops, starlark.Universe}, progs...)
	before := snap.Take(snapOpts, roots...)
	res := fx.apply(newThread("replay", nil), v, o)
	after := snap.Take(snapOpts, roots...)
	if d := snap.Diff(before, after); d != "" {
		return []fw.Viol{{Key: fmt.Sprintf("snapshot:%s:%s", k.Value, o), What: d}}
	}
	if strings.HasPrefix(res, "PANIC") {
		return []fw.Viol{{Key: fmt.Sprintf("panic:%s:%s", k.Value, o), What: res}}
	}
	return nil
}

func init() {
	fw.Register(&fw.Prop{
		ID:    "C05",
		Level: "model_checking",
		Rule: "(1) every (shared frozen value, operation) pair - generic operations, every advertised method x 8 argument tuples, rejected mutations, re-Freeze - leaves a generic deep snapshot of all shared state unchanged; " +
			"(2) stateless exploration of all schedules of N threads running one shared *Program on the shared values, one scheduling point per interpreter instruction (also inside built-in callbacks), up to a preemption bound, each thread's transcript compared with its solo transcript, replay divergence is a hard error; " +
			"(3) free-running -race pass over operation pairs and concurrent Init; states/transitions count schedules and scheduled instructions; non-trivial = snapshot cases + schedules that deviate from the default run-to-completion schedule by at least one preemption",
		Run: run, Worker: worker, Replay: replay,
		Assumptions: []string{
			"preemption inside one bytecode instruction is not a scheduling point of sub-check 2; it is covered by the snapshot invariant (no write on any read path) and by the race detector pass",
			"the race detector is happens-before based: for barrier-released, otherwise unsynchronised bodies a conflicting pair is reported whenever both accesses execute",
			"Funcode.lnt/lntOnce (position table decoded lazily under sync.Once) and Function.frozenAt (atomic freeze-epoch mark) are excluded from the snapshot; the race pass covers them; the fixture first lets one closure be frozen before its captured variable is assigned, so that every later re-Freeze of a shared closure happens in a later freeze epoch",
		},
		BudgetQuick: 240, BudgetThorough: 1200,
	})
}
