package c05

import (
	"fmt"
	"sort"
	"strings"

	"go.starlark.net/lib/json"
	"go.starlark.net/starlark"
	"go.starlark.net/starlarkstruct"
	"go.starlark.net/syntax"

	"verif/internal/fw"
	"verif/internal/prog"
)

var fileOpts = &syntax.FileOptions{Set: true, While: true, TopLevelControl: true, GlobalReassign: true, Recursion: false} // Recursion off: the default dialect, in which every call runs the dynamic recursion check

// The shared module: executed once; its globals are frozen when it finishes.
const moduleSrc = `
L = [1, "two", [3, 4], (5, [6]), "a-long-string-element-000"]
D = {"a-long-string-key-0001": 1, "k": [2, 1], "another-long-string-key-02": {"x": 1}, (1, 2): "t"}
S = set([1, "s", (2, 3), "a-long-string-element-003"])
T = (1, (2, [3, (4,)]), "x")
R = range(2, 20, 3)
ST = "hello world, hello"
B = b"bytes\x00\xffbytes"
X = struct(a = 1, b = [2, 3], c = struct(d = "e"))
E = []
ED = {}
I = 1 << 100
def make():
    captured = [1, 2]
    def clo(y = 0):
        return captured + [y]
    return clo
C = make()
def F(x, acc = [1]):
    return acc + [x]
def F10(a, b = 1, c = 2, d = 3, e = 4, f = 5, g = 6, h = 7, i = 8, j = 9, *rest, k = 10, **kw):
    return (a, j, k, rest, kw)
def N3(v = (1, 2)):
    # three iterators live at once in one frame, then a fourth in a loop statement
    r = [(a, b, c) for a in v for b in v for c in v]
    for d in v:
        for e in v:
            for f in v:
                for g in v:
                    r.append(d + e + f + g)
    return len(r)
BM = L.index
BA = [9].append
def K(e):
    return str(e)
`

// Operations applied to a shared value v; every one of them is read-only or
// a mutation that must be rejected because v is frozen.
const opsSrc = `
def op_str(v): return str(v)
def op_forward_star(v): return scribble(*v)
def op_forward_star_more(v): return scribble(0, *v)
def op_forward_starstar(v): return scribble(**v)
def op_repr(v): return repr(v)
def op_key(v): return {v: 1}
def op_member(v): return v in {1: 1, "s": 2}
def op_setelem(v): return set([v])
def op_len(v): return len(v)
def op_comp(v): return [x for x in v]
def op_for(v):
    r = []
    for x in v:
        r.append(x)
    return r
def op_nested_for(v):
    n = 0
    for x in v:
        for y in v:
            n += 1
    return n
def op_eq(v): return v == v
def op_ne(v): return v != [0]
def op_lt(v): return v < v
def op_in(v): return 1 in v
def op_index0(v): return v[0]
def op_indexk(v): return v["k"]
def op_slice(v): return v[0:2]
def op_slice_neg(v): return v[::-1]
def op_bool(v): return bool(v)
def op_type(v): return type(v)
def op_dir(v): return dir(v)
def op_list(v): return list(v)
def op_tuple(v): return tuple(v)
def op_dict(v): return dict(v)
def op_set(v): return set(v)
def op_sorted(v): return sorted(v, key = K)
def op_sorted_plain(v): return sorted(v)
def op_reversed(v): return reversed(v)
def op_enumerate(v): return enumerate(v)
def op_zip(v): return zip(v, v)
def op_any(v): return any(v)
def op_all(v): return all(v)
def op_min(v): return min(v, key = K)
def op_max(v): return max(v, key = K)
def op_add(v): return v + v
def op_mul(v): return v * 2
def op_or(v): return v | v
def op_and(v): return v & v
def op_format(v): return "%s %r" % (v, v)
def op_format2(v): return "{} {!r}".format(v, v)
def op_json(v): return json.encode(v)
def op_call0(v): return v()
def op_call1(v): return v(7)
def op_call_two(v): return v("two")
def op_call_kw(v): return v(1, j = 2, k = 3)
def op_call_kw_first(v): return v(a = 1)
def op_call_kw_unknown(v): return v(1, zz = 2)
def op_call_star_kw(v): return v(*[1, 2], **{"zz": 3})
def op_getattr(v): return [getattr(v, n) for n in dir(v)]
def op_hasattr(v): return hasattr(v, "a")
def op_field(v): return (v.a, v.b, v.c.d)
def op_star(v): return (lambda *a: a)(*v)
def op_starstar(v): return (lambda **k: k)(**v)
def op_unpack(v):
    a, b = v
    return a
def op_store_local(v):
    x = [v, v]
    d = {"k": v}
    return len(x) + len(d)
def op_print(v):
    print(v)
    return None
def mut_setindex(v):
    v[0] = 99
def mut_setkey(v):
    v["k"] = 99
def mut_setfield(v):
    v.a = 99
def mut_iadd(v):
    v += [99]
    return v
def mut_ior(v):
    v |= {"z": 1}
    return v
def mut_inner(v):
    v[2].append(99)
def mut_in_loop(v):
    for x in v:
        v.append(x)
def op_method(v, name, args): return getattr(v, name)(*args)
`

var methodArgs = [][]starlark.Value{
	{},
	{starlark.MakeInt(0)},
	{starlark.MakeInt(1), starlark.MakeInt(2)},
	{starlark.String("k")},
	{starlark.String("two")},
	{starlark.String("l"), starlark.String("L")},
	{starlark.NewList([]starlark.Value{starlark.MakeInt(1)})},
	{starlark.Tuple{starlark.String("he")}},
}

type fixture struct {
	module starlark.StringDict // frozen
	ops    starlark.StringDict // frozen
	names  []string            // value names
	opList []opCase
}

type opCase struct {
	fn   string
	meth string           // for op_method
	args []starlark.Value // for op_method
}

func (o opCase) String() string {
	if o.fn == "op_method" {
		var a []string
		for _, x := range o.args {
			a = append(a, x.String())
		}
		return fmt.Sprintf(".%s(%s)", o.meth, strings.Join(a, ","))
	}
	return o.fn
}

func predeclared() starlark.StringDict {
	return starlark.StringDict{"struct": starlark.NewBuiltin("struct", starlarkstruct.Make), "json": json.Module,
		// a built-in of the application that uses the argument arrays it is given as scratch
		// space (it owns them: the interpreter hands every built-in fresh arrays)
		"scribble": starlark.NewBuiltin("scribble", func(_ *starlark.Thread, _ *starlark.Builtin, args starlark.Tuple, kwargs []starlark.Tuple) (starlark.Value, error) {
			n := len(args) + len(kwargs)
			for i := range args {
				args[i] = starlark.None
			}
			for i := range kwargs {
				kwargs[i][0], kwargs[i][1] = starlark.String("scribbled"), starlark.None
			}
			return starlark.MakeInt(n), nil
		})}
}

func init() {
	// the argument values are shared between threads too, so they must be frozen
	for _, a := range methodArgs {
		for _, v := range a {
			v.Freeze()
		}
	}
}

func newFixture() *fixture {
	th := &starlark.Thread{Name: "fixture", Print: func(*starlark.Thread, string) {}}
	m, err := starlark.ExecFileOptions(fileOpts, th, "m.star", moduleSrc, predeclared())
	if err != nil {
		fw.Fatal("c05 module: %v", err)
	}
	pre := predeclared()
	pre["K"] = m["K"]
	o, err := starlark.ExecFileOptions(fileOpts, th, "ops.star", opsSrc, pre)
	if err != nil {
		fw.Fatal("c05 ops: %v", err)
	}
	// Some thread of the process has frozen a closure before the enclosing function
	// assigned the variable it captures (a host built-in that freezes its argument,
	// e.g. before publishing it): whatever the implementation keeps to make the later
	// Freeze reach that value is now in the state "after such an event", for every
	// value frozen before it (all of m and o).
	earlyPre := predeclared()
	earlyPre["hostfreeze"] = starlark.NewBuiltin("hostfreeze", func(_ *starlark.Thread, _ *starlark.Builtin, args starlark.Tuple, _ []starlark.Tuple) (starlark.Value, error) {
		args[0].Freeze()
		return starlark.None, nil
	})
	if _, err := starlark.ExecFileOptions(fileOpts, th, "early.star", "def mk():\n    def f():\n        return x\n    hostfreeze(f)\n    x = [1]\n    return f\nq = mk()\n", earlyPre); err != nil {
		fw.Fatal("c05 early-freeze program: %v", err)
	}
	f := &fixture{module: m, ops: o}
	for n := range m {
		if n != "make" && n != "K" {
			f.names = append(f.names, n)
		}
	}
	sort.Strings(f.names)
	var fns []string
	for n := range o {
		if n != "op_method" {
			fns = append(fns, n)
		}
	}
	sort.Strings(fns)
	for _, n := range fns {
		f.opList = append(f.opList, opCase{fn: n})
	}
	return f
}

// opsFor lists the operations applied to one value: the generic ones plus
// every method the value advertises (discovered through AttrNames) with each
// small argument tuple.
func (f *fixture) opsFor(v starlark.Value) []opCase {
	out := append([]opCase(nil), f.opList...)
	if h, ok := v.(starlark.HasAttrs); ok {
		names := h.AttrNames()
		sort.Strings(names)
		for _, n := range names {
			a, err := h.Attr(n)
			if err != nil || a == nil {
				continue
			}
			if _, ok := a.(starlark.Callable); !ok {
				continue
			}
			for _, args := range methodArgs {
				out = append(out, opCase{fn: "op_method", meth: n, args: args})
			}
		}
	}
	return out
}

// apply runs one operation on one value on the given thread and renders what
// the thread observes.
func (f *fixture) apply(th *starlark.Thread, v starlark.Value, o opCase) (res string) {
	defer func() {
		if r := recover(); r != nil {
			res = fmt.Sprintf("PANIC: %v", r)
		}
	}()
	if o.fn == "go_freeze" {
		v.Freeze()
		return "frozen"
	}
	args := starlark.Tuple{v}
	if o.fn == "op_method" {
		args = starlark.Tuple{v, starlark.String(o.meth), starlark.Tuple(o.args)}
	}
	r, err := starlark.Call(th, f.ops[o.fn], args, nil)
	if err != nil {
		return "error: " + err.Error()
	}
	return prog.Canon(r)
}

func newThread(name string, sink *[]string) *starlark.Thread {
	return &starlark.Thread{Name: name, Print: func(_ *starlark.Thread, msg string) {
		if sink != nil {
			*sink = append(*sink, msg)
		}
	}}
}
