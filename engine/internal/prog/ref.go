package prog

// Reference evaluator: a tree-walking interpreter over the private AST,
// written from doc/spec.md (scoping, closures, evaluation order,
// short-circuiting, control flow, assignment, calls; DESIGN.md Appendix A).
// Primitive value operations (arithmetic, comparison, iteration, built-in
// calls) are delegated to the exported go.starlark.net/starlark primitives,
// which are the subject of other properties.

import (
	"errors"
	"fmt"
	"sort"
	"strings"

	"go.starlark.net/starlark"
	"go.starlark.net/syntax"
)

type Options struct {
	Set, While, TopLevelControl, GlobalReassign, LoadBindsGlobally, Recursion bool
}

func (o Options) FileOptions() *syntax.FileOptions {
	return &syntax.FileOptions{Set: o.Set, While: o.While, TopLevelControl: o.TopLevelControl,
		GlobalReassign: o.GlobalReassign, LoadBindsGlobally: o.LoadBindsGlobally, Recursion: o.Recursion}
}

func (o Options) String() string {
	var s []string
	for _, x := range []struct {
		b bool
		n string
	}{{o.Set, "set"}, {o.While, "while"}, {o.TopLevelControl, "toplevel"}, {o.GlobalReassign, "reassign"}, {o.LoadBindsGlobally, "loadglobal"}, {o.Recursion, "recursion"}} {
		if x.b {
			s = append(s, x.n)
		}
	}
	return "{" + strings.Join(s, ",") + "}"
}

// RErr is a dynamic failure located at the operation that failed.
type RErr struct {
	Pos  Pos
	Msg  string
	Bind bool // the failure is an argument-binding failure of the call at Pos
	Fuel bool // the reference ran out of fuel (case is inconclusive)
}

func (e *RErr) Error() string { return fmt.Sprintf("%v: %s", e.Pos, e.Msg) }

type cell struct{ v starlark.Value }

type scope struct {
	vars   map[string]*cell
	order  []string
	parent *scope
}

func newScope(parent *scope, names []string) *scope {
	s := &scope{vars: make(map[string]*cell, len(names)), parent: parent}
	for _, n := range names {
		if _, ok := s.vars[n]; !ok {
			s.vars[n] = &cell{}
			s.order = append(s.order, n)
		}
	}
	return s
}

type Interp struct {
	Opts        Options
	Predeclared starlark.StringDict
	Thread      *starlark.Thread
	Loader      func(module string) (starlark.StringDict, error)
	Fuel        int

	globals *scope
	file    *scope // file-local bindings (load), child of globals
	active  map[*Node]int
}

type ctl uint8

const (
	ctlNone ctl = iota
	ctlBreak
	ctlContinue
	ctlReturn
)

// ---------------------------------------------------------------------------
// static analysis: which names does a block bind

func targetNames(t *Node, out *[]string) {
	switch t.Kind {
	case EName:
		*out = append(*out, t.Name)
	case ETuple, EList:
		for _, k := range t.Kids {
			targetNames(k, out)
		}
	case EParen:
		targetNames(t.Kids[0], out)
	}
}

// boundNames collects the names bound by statements (not descending into
// nested functions or comprehensions, which are blocks of their own).
func boundNames(stmts []*Node, out *[]string, loads *[]string) {
	for _, s := range stmts {
		switch s.Kind {
		case SAssign:
			targetNames(s.Kids[0], out)
		case SFor:
			targetNames(s.Kids[0], out)
			boundNames(s.Body, out, loads)
		case SIf:
			boundNames(s.Body, out, loads)
			boundNames(s.Else, out, loads)
		case SWhile:
			boundNames(s.Body, out, loads)
		case SDef:
			*out = append(*out, s.Name)
		case SLoad:
			for _, p := range s.Pairs {
				*loads = append(*loads, p[0])
			}
		}
	}
}

// ---------------------------------------------------------------------------

func (in *Interp) burn(p Pos) *RErr {
	in.Fuel--
	if in.Fuel < 0 {
		return &RErr{Pos: p, Msg: "reference fuel exhausted", Fuel: true}
	}
	return nil
}

// ExecFile runs a whole module and returns its globals in binding order.
func (in *Interp) ExecFile(stmts []*Node) (names []string, vals []starlark.Value, err *RErr) {
	var bound, loads []string
	boundNames(stmts, &bound, &loads)
	if in.Opts.LoadBindsGlobally {
		bound = append(bound, loads...)
		loads = nil
	}
	for _, l := range loads {
		for _, b := range bound {
			if l == b {
				// The spec makes this a static error; the legacy options do not define it.
				return nil, nil, &RErr{Msg: "name " + l + " bound both by load and at top level (not defined by the spec)", Fuel: true}
			}
		}
	}
	in.globals = newScope(nil, bound)
	in.file = newScope(in.globals, loads)
	in.active = map[*Node]int{}
	_, _, err = in.execBlock(stmts, in.file)
	for _, n := range in.globals.order {
		if c := in.globals.vars[n]; c.v != nil {
			names = append(names, n)
			vals = append(vals, c.v)
		}
	}
	return
}

func (in *Interp) lookup(sc *scope, n *Node) (starlark.Value, *RErr) {
	name := n.Name
	for s := sc; s != nil; s = s.parent {
		if c, ok := s.vars[name]; ok {
			if c.v == nil {
				return nil, &RErr{Pos: n.Start, Msg: "variable " + name + " referenced before assignment"}
			}
			return c.v, nil
		}
	}
	if v, ok := in.Predeclared[name]; ok {
		return v, nil
	}
	if v, ok := starlark.Universe[name]; ok {
		return v, nil
	}
	return nil, &RErr{Pos: n.Start, Msg: "undefined: " + name}
}

func (in *Interp) setVar(sc *scope, name string, v starlark.Value) {
	for s := sc; s != nil; s = s.parent {
		if c, ok := s.vars[name]; ok {
			c.v = v
			return
		}
	}
	panic("reference evaluator: assignment to undeclared name " + name)
}

func (in *Interp) execBlock(stmts []*Node, sc *scope) (ctl, starlark.Value, *RErr) {
	for _, s := range stmts {
		c, v, err := in.exec(s, sc)
		if err != nil || c != ctlNone {
			return c, v, err
		}
	}
	return ctlNone, nil, nil
}

func (in *Interp) exec(s *Node, sc *scope) (ctl, starlark.Value, *RErr) {
	if err := in.burn(s.Start); err != nil {
		return 0, nil, err
	}
	switch s.Kind {
	case SExpr:
		_, err := in.eval(s.Kids[0], sc)
		return ctlNone, nil, err
	case SPass:
		return ctlNone, nil, nil
	case SBreak:
		return ctlBreak, nil, nil
	case SContinue:
		return ctlContinue, nil, nil
	case SReturn:
		if len(s.Kids) == 0 {
			return ctlReturn, starlark.None, nil
		}
		v, err := in.eval(s.Kids[0], sc)
		return ctlReturn, v, err
	case SAssign:
		if s.Op == "=" {
			v, err := in.eval(s.Kids[1], sc)
			if err != nil {
				return 0, nil, err
			}
			return ctlNone, nil, in.assign(s.Kids[0], v, s.OpPos, sc)
		}
		return ctlNone, nil, in.augmented(s, sc)
	case SIf:
		c, err := in.eval(s.Kids[0], sc)
		if err != nil {
			return 0, nil, err
		}
		if c.Truth() {
			return in.execBlock(s.Body, sc)
		}
		return in.execBlock(s.Else, sc)
	case SWhile:
		for {
			if err := in.burn(s.Start); err != nil {
				return 0, nil, err
			}
			c, err := in.eval(s.Kids[0], sc)
			if err != nil {
				return 0, nil, err
			}
			if !c.Truth() {
				return ctlNone, nil, nil
			}
			k, v, err := in.execBlock(s.Body, sc)
			if err != nil {
				return 0, nil, err
			}
			if k == ctlBreak {
				return ctlNone, nil, nil
			}
			if k == ctlReturn {
				return k, v, nil
			}
		}
	case SFor:
		x, err := in.eval(s.Kids[1], sc)
		if err != nil {
			return 0, nil, err
		}
		it := starlark.Iterate(x)
		if it == nil {
			return 0, nil, &RErr{Pos: s.OpPos, Msg: x.Type() + " value is not iterable"}
		}
		defer it.Done()
		var elem starlark.Value
		for it.Next(&elem) {
			if err := in.burn(s.Start); err != nil {
				return 0, nil, err
			}
			if err := in.assign(s.Kids[0], elem, s.OpPos, sc); err != nil {
				return 0, nil, err
			}
			k, v, err := in.execBlock(s.Body, sc)
			if err != nil {
				return 0, nil, err
			}
			if k == ctlBreak {
				break
			}
			if k == ctlReturn {
				return k, v, nil
			}
		}
		return ctlNone, nil, nil
	case SDef:
		f, err := in.makeFunc(s, s.Name, sc)
		if err != nil {
			return 0, nil, err
		}
		in.setVar(sc, s.Name, f)
		return ctlNone, nil, nil
	case SLoad:
		if in.Loader == nil {
			return 0, nil, &RErr{Pos: s.OpPos, Msg: "load not implemented"}
		}
		d, lerr := in.Loader(s.Str)
		if lerr != nil {
			return 0, nil, &RErr{Pos: s.OpPos, Msg: "cannot load: " + lerr.Error()}
		}
		for _, p := range s.Pairs {
			if _, ok := d[p[1]]; !ok {
				return 0, nil, &RErr{Pos: s.OpPos, Msg: "load: name not found: " + p[1]}
			}
		}
		for _, p := range s.Pairs {
			in.setVar(sc, p[0], d[p[1]])
		}
		return ctlNone, nil, nil
	}
	panic(fmt.Sprintf("reference exec: kind %d", s.Kind))
}

// assign implements target = v. A count mismatch or a failing element store
// is reported at pos (the '=' of the statement or the 'for' keyword), except
// that index and field stores are reported at their own '[' or '.'.
func (in *Interp) assign(t *Node, v starlark.Value, pos Pos, sc *scope) *RErr {
	switch t.Kind {
	case EParen:
		return in.assign(t.Kids[0], v, pos, sc)
	case EName:
		in.setVar(sc, t.Name, v)
		return nil
	case ETuple, EList:
		it := starlark.Iterate(v)
		if it == nil {
			return &RErr{Pos: pos, Msg: "got " + v.Type() + " in sequence assignment"}
		}
		var elems []starlark.Value
		var x starlark.Value
		for len(elems) <= len(t.Kids) && it.Next(&x) {
			elems = append(elems, x)
		}
		it.Done()
		if len(elems) != len(t.Kids) {
			return &RErr{Pos: pos, Msg: "wrong number of values to unpack"}
		}
		for i, k := range t.Kids {
			if err := in.assign(k, elems[i], pos, sc); err != nil {
				return err
			}
		}
		return nil
	case EIndex:
		x, err := in.eval(t.Kids[0], sc)
		if err != nil {
			return err
		}
		i, err := in.eval(t.Kids[1], sc)
		if err != nil {
			return err
		}
		if e := setIndex(x, i, v); e != nil {
			return &RErr{Pos: t.OpPos, Msg: e.Error()}
		}
		return nil
	case EAttr:
		x, err := in.eval(t.Kids[0], sc)
		if err != nil {
			return err
		}
		if e := setField(x, t.Name, v); e != nil {
			return &RErr{Pos: t.OpPos, Msg: e.Error()}
		}
		return nil
	}
	panic("reference assign: bad target")
}

func setField(x starlark.Value, name string, v starlark.Value) error {
	if x, ok := x.(starlark.HasSetField); ok {
		return x.SetField(name, v)
	}
	return fmt.Errorf("can't assign to .%s field of %s", name, x.Type())
}

func getAttr(x starlark.Value, name string) (starlark.Value, error) {
	if h, ok := x.(starlark.HasAttrs); ok {
		v, err := h.Attr(name)
		if err != nil {
			return nil, err
		}
		if v != nil {
			return v, nil
		}
	}
	return nil, fmt.Errorf("%s has no .%s field or method", x.Type(), name)
}

func getIndex(x, y starlark.Value) (starlark.Value, error) {
	switch x := x.(type) {
	case starlark.Mapping:
		z, found, err := x.Get(y)
		if err != nil {
			return nil, err
		}
		if !found {
			return nil, fmt.Errorf("key not found")
		}
		return z, nil
	case starlark.Indexable:
		n := x.Len()
		i, err := starlark.AsInt32(y)
		if err != nil {
			return nil, err
		}
		if i < 0 {
			i += n
		}
		if i < 0 || i >= n {
			return nil, fmt.Errorf("index out of range")
		}
		return x.Index(i), nil
	}
	return nil, fmt.Errorf("unhandled index operation")
}

func setIndex(x, y, z starlark.Value) error {
	switch x := x.(type) {
	case starlark.HasSetKey:
		return x.SetKey(y, z)
	case starlark.HasSetIndex:
		n := x.Len()
		i, err := starlark.AsInt32(y)
		if err != nil {
			return err
		}
		if i < 0 {
			i += n
		}
		if i < 0 || i >= n {
			return fmt.Errorf("index out of range")
		}
		return x.SetIndex(i, z)
	}
	return fmt.Errorf("%s value does not support item assignment", x.Type())
}

// sliceOf implements x[lo:hi:step] per the spec (Python's slice.indices).
func sliceOf(x, lo, hi, step starlark.Value) (starlark.Value, error) {
	sl, ok := x.(starlark.Sliceable)
	if !ok {
		return nil, fmt.Errorf("invalid slice operand %s", x.Type())
	}
	n := sl.Len()
	st := 1
	if step != starlark.None {
		s, err := starlark.AsInt32(step)
		if err != nil {
			return nil, fmt.Errorf("invalid slice step: %v", err)
		}
		if s == 0 {
			return nil, fmt.Errorf("zero is not a valid slice step")
		}
		st = s
	}
	asIndex := func(v starlark.Value, dflt int) (int, error) {
		if v == starlark.None {
			return dflt, nil
		}
		i, ok := v.(starlark.Int)
		if !ok {
			return 0, fmt.Errorf("invalid slice index %s", v.Type())
		}
		// clamp big values
		if i.Sign() < 0 {
			if i64, ok := i.Int64(); ok && i64 >= -int64(1<<40) {
				return int(i64), nil
			}
			return -(1 << 40), nil
		}
		if i64, ok := i.Int64(); ok && i64 <= int64(1<<40) {
			return int(i64), nil
		}
		return 1 << 40, nil
	}
	var start, end int
	var err error
	if st > 0 {
		if start, err = asIndex(lo, 0); err != nil {
			return nil, err
		}
		if end, err = asIndex(hi, n); err != nil {
			return nil, err
		}
		if start < 0 {
			start += n
		}
		if end < 0 {
			end += n
		}
		start = clamp(start, 0, n)
		end = clamp(end, 0, n)
		if end < start {
			end = start
		}
	} else {
		if start, err = asIndex(lo, n-1); err != nil {
			return nil, err
		}
		if lo != starlark.None && start < 0 {
			start += n
		}
		if hi == starlark.None {
			end = -1
		} else {
			if end, err = asIndex(hi, 0); err != nil {
				return nil, err
			}
			if end < 0 {
				end += n
			}
			end = clamp(end, -1, n-1)
		}
		start = clamp(start, -1, n-1)
		if start < end {
			start = end
		}
	}
	return sl.Slice(start, end, st), nil
}

func clamp(x, lo, hi int) int {
	if x < lo {
		return lo
	}
	if x > hi {
		return hi
	}
	return x
}

var binTok = map[string]syntax.Token{
	"+": syntax.PLUS, "-": syntax.MINUS, "*": syntax.STAR, "/": syntax.SLASH, "//": syntax.SLASHSLASH, "%": syntax.PERCENT,
	"&": syntax.AMP, "|": syntax.PIPE, "^": syntax.CIRCUMFLEX, "<<": syntax.LTLT, ">>": syntax.GTGT,
	"in": syntax.IN, "not in": syntax.NOT_IN,
}
var cmpTok = map[string]syntax.Token{
	"==": syntax.EQL, "!=": syntax.NEQ, "<": syntax.LT, "<=": syntax.LE, ">": syntax.GT, ">=": syntax.GE,
}
var unTok = map[string]syntax.Token{"-": syntax.MINUS, "+": syntax.PLUS, "~": syntax.TILDE}

func (in *Interp) binary(op string, x, y starlark.Value) (starlark.Value, error) {
	if t, ok := cmpTok[op]; ok {
		b, err := starlark.Compare(t, x, y)
		return starlark.Bool(b), err
	}
	if op == "not in" {
		z, err := starlark.Binary(syntax.IN, x, y)
		if err != nil {
			return nil, err
		}
		return !z.Truth(), nil
	}
	return starlark.Binary(binTok[op], x, y)
}

func (in *Interp) augmented(s *Node, sc *scope) *RErr {
	op := strings.TrimSuffix(s.Op, "=")
	var cur starlark.Value
	var store func(z starlark.Value) *RErr
	t := s.Kids[0]
	for t.Kind == EParen {
		t = t.Kids[0]
	}
	switch t.Kind {
	case EName:
		v, err := in.lookup(sc, t)
		if err != nil {
			return err
		}
		cur = v
		store = func(z starlark.Value) *RErr { in.setVar(sc, t.Name, z); return nil }
	case EIndex:
		x, err := in.eval(t.Kids[0], sc)
		if err != nil {
			return err
		}
		y, err := in.eval(t.Kids[1], sc)
		if err != nil {
			return err
		}
		v, e := getIndex(x, y)
		if e != nil {
			return &RErr{Pos: t.OpPos, Msg: e.Error()}
		}
		cur = v
		store = func(z starlark.Value) *RErr {
			if e := setIndex(x, y, z); e != nil {
				return &RErr{Pos: t.OpPos, Msg: e.Error()}
			}
			return nil
		}
	case EAttr:
		x, err := in.eval(t.Kids[0], sc)
		if err != nil {
			return err
		}
		v, e := getAttr(x, t.Name)
		if e != nil {
			return &RErr{Pos: t.OpPos, Msg: e.Error()}
		}
		cur = v
		store = func(z starlark.Value) *RErr {
			if e := setField(x, t.Name, z); e != nil {
				return &RErr{Pos: t.OpPos, Msg: e.Error()}
			}
			return nil
		}
	default:
		panic("reference augmented: bad target")
	}
	rhs, err := in.eval(s.Kids[1], sc)
	if err != nil {
		return err
	}
	var z starlark.Value
	var e error
	switch {
	case op == "+" && isList(cur) && isIterable(rhs):
		// x += y on a list extends it in place and keeps its identity.
		ext, _ := cur.(*starlark.List).Attr("extend")
		_, e = starlark.Call(in.Thread, ext, starlark.Tuple{rhs}, nil)
		z = cur
	case op == "|" && isDict(cur) && isDict(rhs):
		upd, _ := cur.(*starlark.Dict).Attr("update")
		_, e = starlark.Call(in.Thread, upd, starlark.Tuple{rhs}, nil)
		z = cur
	default:
		z, e = in.binary(op, cur, rhs)
	}
	if e != nil {
		return &RErr{Pos: s.OpPos, Msg: e.Error()}
	}
	return store(z)
}

func isList(v starlark.Value) bool     { _, ok := v.(*starlark.List); return ok }
func isDict(v starlark.Value) bool     { _, ok := v.(*starlark.Dict); return ok }
func isIterable(v starlark.Value) bool { _, ok := v.(starlark.Iterable); return ok }

func (in *Interp) eval(e *Node, sc *scope) (starlark.Value, *RErr) {
	if err := in.burn(e.Start); err != nil {
		return nil, err
	}
	switch e.Kind {
	case ENum:
		return starlark.MakeInt64(e.Int), nil
	case EStr:
		return starlark.String(e.Str), nil
	case EName:
		return in.lookup(sc, e)
	case EParen:
		return in.eval(e.Kids[0], sc)
	case EProbe:
		v, err := in.eval(e.Kids[0], sc)
		if err != nil {
			return nil, err
		}
		t := in.Predeclared["t"]
		r, cerr := starlark.Call(in.Thread, t, starlark.Tuple{starlark.MakeInt64(e.Int), v}, nil)
		if cerr != nil {
			return nil, in.callErr(cerr, e.OpPos)
		}
		return r, nil
	case EUnary:
		x, err := in.eval(e.Kids[0], sc)
		if err != nil {
			return nil, err
		}
		if e.Op == "not" {
			return !x.Truth(), nil
		}
		z, uerr := starlark.Unary(unTok[e.Op], x)
		if uerr != nil {
			return nil, &RErr{Pos: e.OpPos, Msg: uerr.Error()}
		}
		return z, nil
	case EBinary:
		x, err := in.eval(e.Kids[0], sc)
		if err != nil {
			return nil, err
		}
		switch e.Op {
		case "and":
			if !x.Truth() {
				return x, nil
			}
			return in.eval(e.Kids[1], sc)
		case "or":
			if x.Truth() {
				return x, nil
			}
			return in.eval(e.Kids[1], sc)
		}
		y, err := in.eval(e.Kids[1], sc)
		if err != nil {
			return nil, err
		}
		z, berr := in.binary(e.Op, x, y)
		if berr != nil {
			return nil, &RErr{Pos: e.OpPos, Msg: berr.Error()}
		}
		return z, nil
	case ECond:
		c, err := in.eval(e.Kids[0], sc)
		if err != nil {
			return nil, err
		}
		if c.Truth() {
			return in.eval(e.Kids[1], sc)
		}
		return in.eval(e.Kids[2], sc)
	case EList, ETuple:
		elems := make([]starlark.Value, 0, len(e.Kids))
		for _, k := range e.Kids {
			v, err := in.eval(k, sc)
			if err != nil {
				return nil, err
			}
			elems = append(elems, v)
		}
		if e.Kind == ETuple {
			return starlark.Tuple(elems), nil
		}
		return starlark.NewList(elems), nil
	case EDict:
		d := new(starlark.Dict)
		for i := 0; i+1 < len(e.Kids); i += 2 {
			k, err := in.eval(e.Kids[i], sc)
			if err != nil {
				return nil, err
			}
			v, err := in.eval(e.Kids[i+1], sc)
			if err != nil {
				return nil, err
			}
			_, found, gerr := d.Get(k)
			if gerr != nil {
				return nil, &RErr{Pos: e.Kids[i].Colon(), Msg: gerr.Error()}
			}
			if found {
				return nil, &RErr{Pos: e.Kids[i].Colon(), Msg: "duplicate key"}
			}
			if serr := d.SetKey(k, v); serr != nil {
				return nil, &RErr{Pos: e.Kids[i].Colon(), Msg: serr.Error()}
			}
		}
		return d, nil
	case EIndex:
		x, err := in.eval(e.Kids[0], sc)
		if err != nil {
			return nil, err
		}
		y, err := in.eval(e.Kids[1], sc)
		if err != nil {
			return nil, err
		}
		z, ierr := getIndex(x, y)
		if ierr != nil {
			return nil, &RErr{Pos: e.OpPos, Msg: ierr.Error()}
		}
		return z, nil
	case ESlice:
		x, err := in.eval(e.Kids[0], sc)
		if err != nil {
			return nil, err
		}
		parts := [3]starlark.Value{starlark.None, starlark.None, starlark.None}
		for i := 0; i < 3; i++ {
			if e.Kids[i+1] != nil {
				v, err := in.eval(e.Kids[i+1], sc)
				if err != nil {
					return nil, err
				}
				parts[i] = v
			}
		}
		z, serr := sliceOf(x, parts[0], parts[1], parts[2])
		if serr != nil {
			return nil, &RErr{Pos: e.OpPos, Msg: serr.Error()}
		}
		return z, nil
	case EAttr:
		x, err := in.eval(e.Kids[0], sc)
		if err != nil {
			return nil, err
		}
		z, aerr := getAttr(x, e.Name)
		if aerr != nil {
			return nil, &RErr{Pos: e.OpPos, Msg: aerr.Error()}
		}
		return z, nil
	case ELambda:
		return in.makeFunc(e, "lambda", sc)
	case ECall:
		return in.call(e, sc)
	case EComp:
		return in.comprehension(e, sc)
	}
	panic(fmt.Sprintf("reference eval: kind %d", e.Kind))
}

func (in *Interp) callErr(err error, pos Pos) *RErr {
	var r *RErr
	if errors.As(err, &r) {
		return r
	}
	return &RErr{Pos: pos, Msg: err.Error()}
}

func (in *Interp) call(e *Node, sc *scope) (starlark.Value, *RErr) {
	fn, err := in.eval(e.Kids[0], sc)
	if err != nil {
		return nil, err
	}
	var pos starlark.Tuple
	for _, a := range e.Kids[1:] {
		v, err := in.eval(a, sc)
		if err != nil {
			return nil, err
		}
		pos = append(pos, v)
	}
	var kv []starlark.Tuple
	for _, a := range e.Named {
		v, err := in.eval(a.Val, sc)
		if err != nil {
			return nil, err
		}
		kv = append(kv, starlark.Tuple{starlark.String(a.Name), v})
	}
	var star, starstar starlark.Value
	if e.Star != nil {
		if star, err = in.eval(e.Star, sc); err != nil {
			return nil, err
		}
	}
	if e.StarStar != nil {
		if starstar, err = in.eval(e.StarStar, sc); err != nil {
			return nil, err
		}
	}
	if starstar != nil {
		m, ok := starstar.(starlark.IterableMapping)
		if !ok {
			return nil, &RErr{Pos: e.OpPos, Msg: "argument after ** must be a mapping"}
		}
		for _, item := range m.Items() {
			if _, ok := item[0].(starlark.String); !ok {
				return nil, &RErr{Pos: e.OpPos, Msg: "keywords must be strings"}
			}
			kv = append(kv, item)
		}
	}
	if star != nil {
		it := starlark.Iterate(star)
		if it == nil {
			return nil, &RErr{Pos: e.OpPos, Msg: "argument after * must be iterable"}
		}
		var x starlark.Value
		for it.Next(&x) {
			pos = append(pos, x)
		}
		it.Done()
	}
	z, cerr := starlark.Call(in.Thread, fn, pos, kv)
	if cerr != nil {
		r := in.callErr(cerr, e.OpPos)
		if r.Bind && r.Pos == (Pos{}) {
			r.Pos = e.OpPos
		}
		return nil, r
	}
	return z, nil
}

func (in *Interp) comprehension(e *Node, sc *scope) (starlark.Value, *RErr) {
	var names []string
	for _, c := range e.Clauses {
		if c.Kind == CFor {
			targetNames(c.Kids[0], &names)
		}
	}
	inner := newScope(sc, names)
	var list []starlark.Value
	var dict *starlark.Dict
	if e.Dict {
		dict = new(starlark.Dict)
	}
	var rec func(i int) *RErr
	rec = func(i int) *RErr {
		if i == len(e.Clauses) {
			if e.Dict {
				k, err := in.eval(e.Kids[0], inner)
				if err != nil {
					return err
				}
				v, err := in.eval(e.Kids[1], inner)
				if err != nil {
					return err
				}
				if serr := dict.SetKey(k, v); serr != nil {
					return &RErr{Pos: e.OpPos, Msg: serr.Error()}
				}
			} else {
				v, err := in.eval(e.Kids[0], inner)
				if err != nil {
					return err
				}
				list = append(list, v)
			}
			return nil
		}
		c := e.Clauses[i]
		if c.Kind == CIf {
			v, err := in.eval(c.Kids[0], inner)
			if err != nil {
				return err
			}
			if v.Truth() {
				return rec(i + 1)
			}
			return nil
		}
		// the first for clause's operand is evaluated in the enclosing block
		esc := inner
		if i == 0 {
			esc = sc
		}
		x, err := in.eval(c.Kids[1], esc)
		if err != nil {
			return err
		}
		it := starlark.Iterate(x)
		if it == nil {
			return &RErr{Pos: c.OpPos, Msg: x.Type() + " value is not iterable"}
		}
		defer it.Done()
		var elem starlark.Value
		for it.Next(&elem) {
			if err := in.burn(c.Start); err != nil {
				return err
			}
			if err := in.assign(c.Kids[0], elem, c.OpPos, inner); err != nil {
				return err
			}
			if err := rec(i + 1); err != nil {
				return err
			}
		}
		return nil
	}
	if err := rec(0); err != nil {
		return nil, err
	}
	if e.Dict {
		return dict, nil
	}
	return starlark.NewList(list), nil
}

// ---------------------------------------------------------------------------
// functions

// RFunc is a function value of the reference evaluator.
type RFunc struct {
	in       *Interp
	node     *Node // SDef or ELambda
	name     string
	defaults []starlark.Value // parallel to node.Params; nil = none
	closure  *scope
}

var _ starlark.Callable = (*RFunc)(nil)

func (f *RFunc) String() string        { return "<function " + f.name + ">" }
func (f *RFunc) Type() string          { return "function" }
func (f *RFunc) Freeze()               {}
func (f *RFunc) Truth() starlark.Bool  { return true }
func (f *RFunc) Hash() (uint32, error) { return 7, nil }
func (f *RFunc) Name() string          { return f.name }

func (in *Interp) makeFunc(n *Node, name string, sc *scope) (starlark.Value, *RErr) {
	f := &RFunc{in: in, node: n, name: name, closure: sc, defaults: make([]starlark.Value, len(n.Params))}
	for i, p := range n.Params {
		if p.Default != nil {
			v, err := in.eval(p.Default, sc)
			if err != nil {
				return nil, err
			}
			f.defaults[i] = v
		}
	}
	return f, nil
}

// Bind is the reference binder (doc/spec.md, Functions): it returns the value
// of every parameter in declaration order, or an error.
func Bind(params []*Param, defaults []starlark.Value, args starlark.Tuple, kwargs []starlark.Tuple) ([]starlark.Value, error) {
	vals := make([]starlark.Value, len(params))
	npos := 0
	starIdx, kwIdx := -1, -1
	for i, p := range params {
		switch p.Star {
		case 1:
			starIdx = i
		case 2:
			kwIdx = i
		default:
			if starIdx < 0 {
				npos++
			}
		}
	}
	// positional arguments
	if len(args) > npos && (starIdx < 0 || params[starIdx].Name == "") {
		return nil, fmt.Errorf("too many positional arguments")
	}
	pi := 0
	for i, p := range params {
		if p.Star != 0 || (starIdx >= 0 && i > starIdx) {
			continue
		}
		if pi < len(args) {
			vals[i] = args[pi]
			pi++
		}
	}
	if starIdx >= 0 && params[starIdx].Name != "" {
		var rest starlark.Tuple
		if len(args) > npos {
			rest = append(rest, args[npos:]...)
		}
		if rest == nil {
			rest = starlark.Tuple{}
		}
		vals[starIdx] = rest
	}
	var kwdict *starlark.Dict
	if kwIdx >= 0 {
		kwdict = new(starlark.Dict)
		vals[kwIdx] = kwdict
	}
	for _, kv := range kwargs {
		name := string(kv[0].(starlark.String))
		found := false
		for i, p := range params {
			if p.Star == 0 && p.Name == name {
				if vals[i] != nil {
					return nil, fmt.Errorf("multiple values for parameter %s", name)
				}
				vals[i] = kv[1]
				found = true
				break
			}
		}
		if found {
			continue
		}
		if kwdict == nil {
			return nil, fmt.Errorf("unexpected keyword argument %s", name)
		}
		if _, dup, _ := kwdict.Get(kv[0]); dup {
			return nil, fmt.Errorf("multiple values for keyword argument %s", name)
		}
		kwdict.SetKey(kv[0], kv[1])
	}
	for i, p := range params {
		if p.Star == 0 && vals[i] == nil {
			if defaults[i] == nil {
				return nil, fmt.Errorf("missing argument for %s", p.Name)
			}
			vals[i] = defaults[i]
		}
	}
	return vals, nil
}

func (f *RFunc) CallInternal(thread *starlark.Thread, args starlark.Tuple, kwargs []starlark.Tuple) (starlark.Value, error) {
	in := f.in
	if !in.Opts.Recursion && in.active[f.node] > 0 {
		return nil, &RErr{Msg: "function " + f.name + " called recursively", Bind: true}
	}
	vals, berr := Bind(f.node.Params, f.defaults, args, kwargs)
	if berr != nil {
		return nil, &RErr{Msg: berr.Error(), Bind: true}
	}
	var names, loads []string
	for _, p := range f.node.Params {
		if p.Name != "" {
			names = append(names, p.Name)
		}
	}
	if f.node.Kind == SDef {
		boundNames(f.node.Body, &names, &loads)
	}
	sc := newScope(f.closure, names)
	for i, p := range f.node.Params {
		if p.Name != "" {
			sc.vars[p.Name].v = vals[i]
		}
	}
	in.active[f.node]++
	defer func() { in.active[f.node]-- }()
	if f.node.Kind == ELambda {
		v, err := in.eval(f.node.Kids[0], sc)
		if err != nil {
			return nil, err
		}
		return v, nil
	}
	k, v, err := in.execBlock(f.node.Body, sc)
	if err != nil {
		return nil, err
	}
	if k == ctlReturn {
		return v, nil
	}
	return starlark.None, nil
}

// ---------------------------------------------------------------------------
// canonical serialisation shared by both sides of a comparison

// Canon writes a type-tagged, alias-aware rendering of v: mutable containers
// are numbered at first visit (#n) and referred to (@n) afterwards, so that
// sharing and cycles are part of the comparison.
func Canon(v starlark.Value) string {
	var sb strings.Builder
	c := &canon{ids: map[any]int{}}
	c.write(&sb, v, 0)
	return sb.String()
}

// CanonAll renders several named values with one alias numbering.
func CanonAll(names []string, vals []starlark.Value) string {
	idx := make([]int, len(names))
	for i := range idx {
		idx[i] = i
	}
	sort.Slice(idx, func(a, b int) bool { return names[idx[a]] < names[idx[b]] })
	var sb strings.Builder
	c := &canon{ids: map[any]int{}}
	for _, i := range idx {
		sb.WriteString(names[i])
		sb.WriteByte('=')
		c.write(&sb, vals[i], 0)
		sb.WriteByte(';')
	}
	return sb.String()
}

type canon struct{ ids map[any]int }

func (c *canon) write(sb *strings.Builder, v starlark.Value, depth int) {
	if depth > 50 {
		sb.WriteString("<deep>")
		return
	}
	switch v := v.(type) {
	case nil:
		sb.WriteString("<nil>")
	case *starlark.List:
		if id, ok := c.ids[v]; ok {
			fmt.Fprintf(sb, "@%d", id)
			return
		}
		c.ids[v] = len(c.ids)
		fmt.Fprintf(sb, "#%d[", c.ids[v])
		for i := 0; i < v.Len(); i++ {
			c.write(sb, v.Index(i), depth+1)
			sb.WriteByte(',')
		}
		sb.WriteByte(']')
	case *starlark.Dict:
		if id, ok := c.ids[v]; ok {
			fmt.Fprintf(sb, "@%d", id)
			return
		}
		c.ids[v] = len(c.ids)
		fmt.Fprintf(sb, "#%d{", c.ids[v])
		for _, it := range v.Items() {
			c.write(sb, it[0], depth+1)
			sb.WriteByte(':')
			c.write(sb, it[1], depth+1)
			sb.WriteByte(',')
		}
		sb.WriteByte('}')
	case *starlark.Set:
		if id, ok := c.ids[v]; ok {
			fmt.Fprintf(sb, "@%d", id)
			return
		}
		c.ids[v] = len(c.ids)
		fmt.Fprintf(sb, "#%dset(", c.ids[v])
		it := v.Iterate()
		var x starlark.Value
		for it.Next(&x) {
			c.write(sb, x, depth+1)
			sb.WriteByte(',')
		}
		it.Done()
		sb.WriteByte(')')
	case starlark.Tuple:
		sb.WriteByte('(')
		for _, x := range v {
			c.write(sb, x, depth+1)
			sb.WriteByte(',')
		}
		sb.WriteByte(')')
	case *starlark.Function:
		sb.WriteString("fn:" + v.Name())
	case *RFunc:
		sb.WriteString("fn:" + v.name)
	case *starlark.Builtin:
		sb.WriteString("builtin:" + v.Name())
		if r := v.Receiver(); r != nil {
			sb.WriteString("<-")
			c.write(sb, r, depth+1)
		}
	case starlark.String:
		sb.WriteString("s" + quote(string(v)))
	case starlark.Int:
		sb.WriteString("i" + v.String())
	case starlark.Float:
		sb.WriteString("f" + v.String())
	case starlark.Bool, starlark.NoneType:
		sb.WriteString(v.String())
	default:
		sb.WriteString(v.Type() + ":" + v.String())
	}
}
