package prog

// Running one program through the production pipeline and through the
// reference evaluator under the same host environment, and comparing what the
// host can observe.

import (
	"bytes"
	"errors"
	"fmt"
	"strings"

	"go.starlark.net/starlark"
	"go.starlark.net/syntax"
)

// Outcome is everything the host observes from one execution.
type Outcome struct {
	Static   bool     // rejected before execution (parse/resolve/compile)
	StaticAt Pos      // position of the first static error
	Trace    []string // probe events "id:value"
	Globals  string   // canonical final globals
	Failed   bool
	ErrMsg   string
	ErrPos   Pos // position of the failing operation (innermost non-builtin frame)
	CallPos  Pos // for binding failures: position of the innermost non-builtin caller
	Frames   []string
	Steps    uint64
	Inconcl  string // non-empty: the run is inconclusive (step budget, fuel)
	Panic    string
}

// Obj is a mutable record with settable fields, so that field assignment and
// augmented field assignment can be exercised (starlarkstruct is immutable).
type Obj struct {
	fields map[string]starlark.Value
	order  []string
	frozen bool
}

func NewObj() *Obj {
	return &Obj{fields: map[string]starlark.Value{"f": starlark.MakeInt(0), "g": starlark.NewList(nil)}, order: []string{"f", "g"}}
}
func (o *Obj) String() string {
	var sb strings.Builder
	sb.WriteString("obj(")
	for _, k := range o.order {
		sb.WriteString(k + "=" + Canon(o.fields[k]) + ",")
	}
	sb.WriteString(")")
	return sb.String()
}
func (o *Obj) Type() string          { return "obj" }
func (o *Obj) Freeze()               { o.frozen = true }
func (o *Obj) Truth() starlark.Bool  { return true }
func (o *Obj) Hash() (uint32, error) { return 0, fmt.Errorf("unhashable: obj") }
func (o *Obj) Attr(name string) (starlark.Value, error) {
	if v, ok := o.fields[name]; ok {
		return v, nil
	}
	return nil, nil
}
func (o *Obj) AttrNames() []string { return append([]string(nil), o.order...) }
func (o *Obj) SetField(name string, v starlark.Value) error {
	if o.frozen {
		return fmt.Errorf("frozen obj")
	}
	if _, ok := o.fields[name]; !ok {
		return starlark.NoSuchAttrError("obj has no field " + name)
	}
	o.fields[name] = v
	return nil
}

// Env is one host environment instance (each execution gets a fresh one).
type Env struct {
	Trace       []string
	Predeclared starlark.StringDict
	Thread      *starlark.Thread
	Modules     func(name string) (starlark.StringDict, error)
}

// NewEnv builds the predeclared environment: t(id, v) records and returns v,
// boom() panics in the host, mk() returns a fresh mutable record, and the
// loader serves two fixed modules.
func NewEnv() *Env {
	e := &Env{}
	e.Predeclared = starlark.StringDict{
		"t": starlark.NewBuiltin("t", func(th *starlark.Thread, b *starlark.Builtin, args starlark.Tuple, kwargs []starlark.Tuple) (starlark.Value, error) {
			if len(args) != 2 || len(kwargs) != 0 {
				return nil, fmt.Errorf("t: want (id, value)")
			}
			e.Trace = append(e.Trace, args[0].String()+":"+Canon(args[1]))
			return args[1], nil
		}),
		// pack(*args, **kwargs) keeps what it is given: it returns the very tuple of
		// positional arguments the interpreter handed it (and the keyword pairs as a dict).
		"pack": starlark.NewBuiltin("pack", func(th *starlark.Thread, b *starlark.Builtin, args starlark.Tuple, kwargs []starlark.Tuple) (starlark.Value, error) {
			if len(kwargs) == 0 {
				return args, nil
			}
			d := starlark.NewDict(len(kwargs))
			for _, kv := range kwargs {
				d.SetKey(kv[0], kv[1])
			}
			return starlark.Tuple{args, d}, nil
		}),
		"mk": starlark.NewBuiltin("mk", func(th *starlark.Thread, b *starlark.Builtin, args starlark.Tuple, kwargs []starlark.Tuple) (starlark.Value, error) {
			return NewObj(), nil
		}),
	}
	e.Thread = &starlark.Thread{Name: "env", Print: func(_ *starlark.Thread, msg string) { e.Trace = append(e.Trace, "print:"+msg) }}
	mods := map[string]starlark.StringDict{}
	e.Modules = func(name string) (starlark.StringDict, error) {
		if d, ok := mods[name]; ok {
			return d, nil
		}
		var d starlark.StringDict
		switch name {
		case "m":
			d = starlark.StringDict{"a": starlark.MakeInt(11), "b": starlark.NewList([]starlark.Value{starlark.MakeInt(12)}), "c": starlark.String("cc")}
		case "n":
			d = starlark.StringDict{"a": starlark.MakeInt(21), "z": starlark.Tuple{starlark.MakeInt(22)}}
		default:
			return nil, fmt.Errorf("no such module %q", name)
		}
		d.Freeze()
		mods[name] = d
		return d, nil
	}
	e.Thread.Load = func(_ *starlark.Thread, module string) (starlark.StringDict, error) { return e.Modules(module) }
	return e
}

var stepBudget uint64 = 50000
var refFuel = 200000

// SetBudgetScale multiplies the step budget and the reference fuel (1 = the default).
func SetBudgetScale(k int) {
	if k < 1 {
		k = 1
	}
	stepBudget = 50000 * uint64(k)
	refFuel = 200000 * k
}

func posOf(p syntax.Position) Pos { return Pos{p.Line, p.Col} }

func isBuiltinFrame(fr starlark.CallFrame) bool {
	return fr.Pos.Filename() == "<builtin>" || fr.Pos.Line == 0
}

// RunProd executes src through the production pipeline.
func RunProd(src string, opts Options) (out Outcome) {
	out, _ = runProd(src, opts, false)
	return
}

// RunProdTwice also initialises the same compiled program a second time on
// the same thread (the way a host re-runs a cached program) and returns what
// that second execution observes; nil if the program is statically invalid.
func RunProdTwice(src string, opts Options) (first Outcome, second *Outcome) {
	return runProd(src, opts, true)
}

func runProd(src string, opts Options, twice bool) (out Outcome, second *Outcome) {
	env := NewEnv()
	defer func() {
		if r := recover(); r != nil {
			out.Panic = fmt.Sprint(r)
			out.Trace = env.Trace
		}
	}()
	fo := opts.FileOptions()
	_, prog, err := starlark.SourceProgramOptions(fo, "p.star", src, env.Predeclared.Has)
	if err != nil {
		out.Static = true
		out.ErrMsg = err.Error()
		var se syntax.Error
		var rl interface{ Error() string }
		_ = rl
		if errors.As(err, &se) {
			out.StaticAt = posOf(se.Pos)
		} else {
			out.StaticAt = staticPos(err)
		}
		return
	}
	env.Thread.SetMaxExecutionSteps(stepBudget)
	g, err := prog.Init(env.Thread, env.Predeclared)
	out.Trace = env.Trace
	out.Steps = env.Thread.ExecutionSteps()
	if twice {
		defer func() {
			if out.Panic != "" {
				return
			}
			// same program, same thread, once more
			s2 := Outcome{}
			func() {
				defer func() {
					if r := recover(); r != nil {
						s2.Panic = fmt.Sprint(r)
					}
				}()
				env.Trace = nil
				before := env.Thread.ExecutionSteps()
				env.Thread.Uncancel()
				env.Thread.SetMaxExecutionSteps(before + stepBudget)
				g2, err2 := prog.Init(env.Thread, env.Predeclared)
				fillOutcome(&s2, env, g2, err2)
				s2.Steps = env.Thread.ExecutionSteps() - before
			}()
			second = &s2
		}()
	}
	fillOutcome(&out, env, g, err)
	return
}

// RunProdReloaded compiles src, writes the program, reads it back with
// CompiledProgram and executes that program in a fresh environment; nil if
// src is statically invalid.
func RunProdReloaded(src string, opts Options) (out *Outcome) {
	env := NewEnv()
	out = &Outcome{}
	defer func() {
		if r := recover(); r != nil {
			out.Panic = fmt.Sprint(r)
			out.Trace = env.Trace
		}
	}()
	_, p, err := starlark.SourceProgramOptions(opts.FileOptions(), "p.star", src, env.Predeclared.Has)
	if err != nil {
		return nil
	}
	var buf bytes.Buffer
	if err := p.Write(&buf); err != nil {
		out.Panic = "Program.Write failed: " + err.Error()
		return
	}
	p2, err := starlark.CompiledProgram(&buf)
	if err != nil {
		out.Panic = "CompiledProgram failed on the bytes just written: " + err.Error()
		return
	}
	env.Thread.SetMaxExecutionSteps(stepBudget)
	g, err := p2.Init(env.Thread, env.Predeclared)
	fillOutcome(out, env, g, err)
	out.Steps = env.Thread.ExecutionSteps()
	return
}

// fillOutcome records globals, error and positions of one execution.
func fillOutcome(out *Outcome, env *Env, g starlark.StringDict, err error) {
	out.Trace = env.Trace
	names := g.Keys()
	vals := make([]starlark.Value, len(names))
	for i, n := range names {
		vals[i] = g[n]
	}
	out.Globals = CanonAll(names, vals)
	if err != nil {
		out.Failed = true
		out.ErrMsg = err.Error()
		var ee *starlark.EvalError
		if errors.As(err, &ee) {
			if strings.Contains(ee.Msg, "too many steps") {
				out.Inconcl = "production step budget"
			}
			st := ee.CallStack
			for _, fr := range st {
				out.Frames = append(out.Frames, fmt.Sprintf("%s@%d:%d", fr.Name, fr.Pos.Line, fr.Pos.Col))
			}
			i := len(st) - 1
			for i >= 0 && isBuiltinFrame(st[i]) {
				i--
			}
			if i >= 0 {
				out.ErrPos = posOf(st[i].Pos)
				j := i - 1
				for j >= 0 && isBuiltinFrame(st[j]) {
					j--
				}
				if j >= 0 {
					out.CallPos = posOf(st[j].Pos)
				}
			}
		}
	}
}

func staticPos(err error) Pos {
	// resolve.ErrorList and syntax.Error print as "file:line:col: msg"
	s := err.Error()
	var file string
	var l, c int32
	if i := strings.Index(s, ".star:"); i >= 0 {
		file = s[:i+5]
		fmt.Sscanf(s[i+6:], "%d:%d", &l, &c)
	}
	_ = file
	return Pos{l, c}
}

// RunRef executes the tree with the reference evaluator. The tree must have
// been rendered (positions filled in).
func RunRef(stmts []*Node, opts Options) (out Outcome) {
	env := NewEnv()
	in := &Interp{Opts: opts, Predeclared: env.Predeclared, Thread: env.Thread, Loader: env.Modules, Fuel: refFuel}
	defer func() {
		if r := recover(); r != nil {
			out.Panic = fmt.Sprint(r)
			out.Trace = env.Trace
		}
	}()
	names, vals, err := in.ExecFile(stmts)
	out.Trace = env.Trace
	out.Globals = CanonAll(names, vals)
	if err != nil {
		out.Failed = true
		out.ErrMsg = err.Msg
		if err.Fuel {
			out.Inconcl = "reference fuel"
		}
		if err.Bind {
			out.CallPos = err.Pos
		} else {
			out.ErrPos = err.Pos
		}
	}
	return
}

// Compare returns "" if the two outcomes are observably the same, else a
// description of the first difference.  Error wording is not compared.
func Compare(prod, ref Outcome) string {
	if prod.Panic != "" {
		return "production panicked: " + prod.Panic
	}
	if ref.Panic != "" {
		return "HARNESS: reference panicked: " + ref.Panic
	}
	if len(prod.Trace) != len(ref.Trace) {
		return fmt.Sprintf("side-effect traces differ in length: production %v, reference %v", prod.Trace, ref.Trace)
	}
	for i := range prod.Trace {
		if prod.Trace[i] != ref.Trace[i] {
			return fmt.Sprintf("side effect #%d differs: production %s, reference %s (production %v, reference %v)", i, prod.Trace[i], ref.Trace[i], prod.Trace, ref.Trace)
		}
	}
	if prod.Failed != ref.Failed {
		return fmt.Sprintf("outcome differs: production failed=%v (%s), reference failed=%v (%s)", prod.Failed, prod.ErrMsg, ref.Failed, ref.ErrMsg)
	}
	if prod.Failed {
		if ref.CallPos != (Pos{}) {
			// binding failure: the caller's position identifies the operation
			if prod.CallPos != ref.CallPos {
				return fmt.Sprintf("failing call differs: production %v (frames %v, %s), reference call at %v (%s)", prod.CallPos, prod.Frames, prod.ErrMsg, ref.CallPos, ref.ErrMsg)
			}
		} else if prod.ErrPos != ref.ErrPos {
			return fmt.Sprintf("failing operation differs: production at %v (frames %v, %s), reference at %v (%s)", prod.ErrPos, prod.Frames, prod.ErrMsg, ref.ErrPos, ref.ErrMsg)
		}
	}
	if prod.Globals != ref.Globals {
		return fmt.Sprintf("final globals differ: production %s, reference %s", prod.Globals, ref.Globals)
	}
	return ""
}
