package prog

import "fmt"

// Profile "scale": programs in which one table of the compiled form is wide.
// Operand encodings, table indices and jump offsets change width at 2^7, 2^8,
// 2^14, 2^16: every template is instantiated with a count n on both sides of
// those boundaries (level 1: up to 257; level 2: 16383..16385; level 3:
// 65535..65537).  The reference evaluator walks the same tree; nothing in it
// depends on n.  Probes sit at the first and the last member, so that an
// index that wraps or is truncated reads or writes the wrong one.

// ScaleBudget is the factor by which the step budget and the reference fuel
// are multiplied while a scale program runs.
func (p Program) ScaleBudget() int {
	if p.Scale <= 0 {
		return 1
	}
	return 1 + p.Scale/2000
}

var scaleLadder = [][]int{
	1: {2, 127, 128, 129, 254, 255, 256, 257},
	2: {16383, 16384, 16385},
	3: {65535, 65536, 65537},
}

type scaleTemplate struct {
	name  string
	maxN  int // 0: no limit
	build func(n int) []*Node
}

func nm(prefix string, i int) string { return fmt.Sprintf("%s%d", prefix, i) }

func scaleTemplates() []scaleTemplate {
	sum := func(a, b *Node) *Node { return Bin("+", a, b) }
	return []scaleTemplate{
		{"globals", 0, func(n int) []*Node {
			var s []*Node
			for i := 0; i < n; i++ {
				s = append(s, Assign("=", Name(nm("g", i)), Num(int64(i)+1000)))
			}
			return append(s, ExprS(Probe(0, Tuple(Name("g0"), Name(nm("g", n/2)), Name(nm("g", n-1))))))
		}},
		{"locals", 0, func(n int) []*Node {
			var b []*Node
			for i := 0; i < n; i++ {
				b = append(b, Assign("=", Name(nm("a", i)), Num(int64(i)+1000)))
			}
			b = append(b, Return(Probe(0, Tuple(Name("a0"), Name(nm("a", n/2)), Name(nm("a", n-1))))))
			return []*Node{Def("f", nil, b), Assign("=", Name("r"), Call(Name("f")))}
		}},
		{"int-constants", 0, func(n int) []*Node {
			var es []*Node
			for i := 0; i < n; i++ {
				es = append(es, Num(int64(i)*3+100000))
			}
			return []*Node{Assign("=", Name("x"), List(es...)),
				ExprS(Probe(0, Tuple(Index(Name("x"), Num(0)), Index(Name("x"), Num(int64(n/2))), Index(Name("x"), Num(int64(n-1))))))}
		}},
		{"string-constants", 0, func(n int) []*Node {
			var b []*Node
			for i := 0; i < n; i++ {
				b = append(b, Assign("=", Name("s"), Str(nm("k", i))))
				if i == 0 || i == n/2 {
					b = append(b, ExprS(Probe(0, Name("s"))))
				}
			}
			b = append(b, Return(Probe(0, Name("s"))))
			return []*Node{Def("f", nil, b), Assign("=", Name("r"), Call(Name("f")))}
		}},
		{"branch-over", 0, func(n int) []*Node {
			// forward jumps over n statements, taken and not taken
			mk := func(v int64) []*Node {
				var b []*Node
				for i := 0; i < n; i++ {
					b = append(b, Assign("=", Name("y"), Num(v+int64(i))))
				}
				return b
			}
			body := []*Node{
				Assign("=", Name("y"), Un("-", Num(1))),
				If(Probe(0, Name("c")), mk(100), mk(500000)),
				ExprS(Probe(0, Name("y"))),
				Return(Cond(Name("c"), Probe(0, Num(1)), Probe(0, Num(2)))),
			}
			return []*Node{Def("f", []*Param{P("c")}, body),
				Assign("=", Name("r"), Tuple(Call(Name("f"), Num(0)), Call(Name("f"), Num(1))))}
		}},
		{"loop-body", 0, func(n int) []*Node {
			// a backward jump over n statements; break and continue across them
			var b []*Node
			b = append(b, If(Bin("==", Name("i"), Num(1)), []*Node{Continue()}, nil))
			for i := 0; i < n; i++ {
				b = append(b, Assign("=", Name("y"), sum(Name("i"), Num(int64(i)))))
			}
			b = append(b, ExprS(Probe(0, Name("y"))), If(Bin("==", Name("i"), Num(2)), []*Node{Break()}, nil))
			body := []*Node{Assign("=", Name("y"), Un("-", Num(1))), For(Name("i"), List(Num(0), Num(1), Num(2), Num(3)), b), Return(Probe(0, Name("y")))}
			return []*Node{Def("f", nil, body), Assign("=", Name("r"), Call(Name("f")))}
		}},
		{"free-variables", 0, func(n int) []*Node {
			var b, es []*Node
			for i := 0; i < n; i++ {
				b = append(b, Assign("=", Name(nm("v", i)), Num(int64(i)+7)))
				es = append(es, Name(nm("v", i)))
			}
			inner := Def("inner", nil, []*Node{Assign("=", Name("all"), List(es...)),
				Return(Probe(0, Tuple(Name("v0"), Name(nm("v", n/2)), Name(nm("v", n-1)), Call(Name("len"), Name("all")))))})
			b = append(b, inner, Assign("=", Name(nm("v", n-1)), Un("-", Num(5))), Return(Name("inner")))
			return []*Node{Def("outer", nil, b), Assign("=", Name("r"), Call(Call(Name("outer"))))}
		}},
		{"functions", 0, func(n int) []*Node {
			var s []*Node
			for i := 0; i < n; i++ {
				s = append(s, Def(nm("f", i), nil, []*Node{Return(Num(int64(i) + 40))}))
			}
			return append(s, ExprS(Probe(0, Tuple(Call(Name("f0")), Call(Name(nm("f", n/2))), Call(Name(nm("f", n-1)))))))
		}},
		{"lambdas", 0, func(n int) []*Node {
			var es []*Node
			for i := 0; i < n; i++ {
				es = append(es, Lambda(nil, Num(int64(i)+40)))
			}
			return []*Node{Assign("=", Name("x"), List(es...)),
				ExprS(Probe(0, Tuple(Call(Index(Name("x"), Num(0))), Call(Index(Name("x"), Num(int64(n/2)))), Call(Index(Name("x"), Num(int64(n-1)))))))}
		}},
		{"defaults", 0, func(n int) []*Node {
			var ps []*Param
			for i := 0; i < n; i++ {
				d := Num(int64(i) + 9)
				if i == 0 || i == n-1 {
					d = Probe(0, d)
				}
				ps = append(ps, PD(nm("p", i), d))
			}
			body := []*Node{Return(Tuple(Name("p0"), Name(nm("p", n/2)), Name(nm("p", n-1))))}
			c := Call(Name("f"), Un("-", Num(1)))
			c.Named = []NamedArg{{nm("p", n-1), Un("-", Num(2))}}
			return []*Node{Def("f", ps, body), ExprS(Probe(0, Call(Name("f")))), ExprS(Probe(0, c))}
		}},
		{"unpack", 0, func(n int) []*Node {
			var ts, es []*Node
			for i := 0; i < n; i++ {
				ts = append(ts, Name(nm("u", i)))
				es = append(es, Num(int64(i)+3))
			}
			body := []*Node{Assign("=", Tuple(ts...), List(es...)), Return(Probe(0, Tuple(Name("u0"), Name(nm("u", n/2)), Name(nm("u", n-1)))))}
			return []*Node{Def("f", nil, body), Assign("=", Name("r"), Call(Name("f")))}
		}},
		{"displays", 0, func(n int) []*Node {
			var es, kv []*Node
			for i := 0; i < n; i++ {
				e := Num(int64(i))
				if i == 0 || i == n-1 {
					e = Probe(0, e)
				}
				es = append(es, e)
				kv = append(kv, Num(int64(i)), Num(int64(i)*2))
			}
			return []*Node{Assign("=", Name("l"), List(es...)), Assign("=", Name("d"), DictE(kv...)),
				ExprS(Probe(0, Tuple(Call(Name("len"), Name("l")), Call(Name("len"), Name("d")), Index(Name("l"), Num(int64(n-1))), Index(Name("d"), Num(int64(n-1))))))}
		}},
		{"positional-arguments", 257, func(n int) []*Node {
			var as []*Node
			for i := 0; i < n; i++ {
				a := Num(int64(i) + 1)
				if i == 0 || i == n-1 {
					a = Probe(0, a)
				}
				as = append(as, a)
			}
			body := []*Node{Return(Tuple(Call(Name("len"), Name("a")), Index(Name("a"), Num(0)), Index(Name("a"), Num(int64(n-1)))))}
			return []*Node{Def("f", []*Param{PStar("a")}, body), ExprS(Probe(0, Call(Name("f"), as...)))}
		}},
		{"keyword-arguments", 257, func(n int) []*Node {
			c := Call(Name("f"))
			for i := 0; i < n; i++ {
				a := Num(int64(i) + 1)
				if i == 0 || i == n-1 {
					a = Probe(0, a)
				}
				c.Named = append(c.Named, NamedArg{nm("k", i), a})
			}
			body := []*Node{Return(Tuple(Call(Name("len"), Name("kw")), Index(Name("kw"), Str("k0")), Index(Name("kw"), Str(nm("k", n-1)))))}
			return []*Node{Def("f", []*Param{PStarStar("kw")}, body), ExprS(Probe(0, c))}
		}},
		{"elif-chain", 0, func(n int) []*Node {
			// n arms: the jump out of arm k skips the n-k arms that follow
			var top, cur *Node
			for i := 0; i < n; i++ {
				arm := If(Bin("==", Name("c"), Num(int64(i))), []*Node{Assign("=", Name("y"), Num(int64(i)+10))}, nil)
				if top == nil {
					top = arm
				} else {
					cur.Else = []*Node{arm}
				}
				cur = arm
			}
			cur.Else = []*Node{Assign("=", Name("y"), Un("-", Num(7)))}
			body := []*Node{top, Return(Probe(0, Name("y")))}
			return []*Node{Def("f", []*Param{P("c")}, body),
				Assign("=", Name("r"), Tuple(Call(Name("f"), Num(0)), Call(Name("f"), Num(int64(n/2))), Call(Name("f"), Num(int64(n-1))), Call(Name("f"), Num(int64(n)))))}
		}},
	}
}

// ScaleProfile is not part of Profiles(): only checks whose cost is linear
// in the program use it.
func ScaleProfile() Profile {
	return Profile{Name: "scale", MaxLevel: 3, Level: func(level int, yield func(Program) bool) {
		if level < 1 || level >= len(scaleLadder) {
			return
		}
		for _, n := range scaleLadder[level] {
			for _, t := range scaleTemplates() {
				if t.maxN > 0 && n > t.maxN {
					continue
				}
				if t.name == "elif-chain" && n > 1000 {
					continue // the parser and compiler recurse once per arm; depth is the subject of C02's nesting family
				}
				if !yield(Program{Profile: "scale", Stmts: t.build(n), Scale: n}) {
					return
				}
			}
		}
	}}
}

// Profile "siblings": two or three comprehensions, one after the other in the
// same function or at top level, that use the same variable names; closures
// made by an earlier one are called after a later one has run, and a later one
// may read its variable before assigning it.  (Each comprehension has its own
// block: nothing of one is visible in another.)
func SiblingsProfile() Profile {
	type form struct {
		mk      func(lits [2]int64) *Node
		closure bool // the elements are functions
	}
	l := func(a, b int64) *Node { return List(Num(a), Num(b)) }
	forms := []form{
		{func(v [2]int64) *Node { return ListComp(Name("x"), ForC(Name("x"), l(v[0], v[1]))) }, false},
		{func(v [2]int64) *Node { return ListComp(Lambda(nil, Name("x")), ForC(Name("x"), l(v[0], v[1]))) }, true},
		{func(v [2]int64) *Node {
			return ListComp(Lambda(nil, Tuple(Name("x"), Name("y"))), ForC(Tuple(Name("x"), Name("y")), List(Tuple(Num(v[0]), Num(v[1])), Tuple(Num(v[1]), Num(v[0])))))
		}, true},
		{func(v [2]int64) *Node { // reads x before the clause that binds it has run
			return ListComp(Name("x"), ForC(Name("y"), List(Num(0))), ForC(Name("x"), List(Name("x"))))
		}, false},
		{func(v [2]int64) *Node {
			return ListComp(Lambda(nil, Bin("+", Name("x"), Name("y"))), ForC(Name("y"), l(v[0], v[1])), ForC(Name("x"), List(Name("y"))))
		}, true},
		{func(v [2]int64) *Node {
			return ListComp(Lambda([]*Param{PD("d", Name("x"))}, Tuple(Name("d"), Name("x"))), ForC(Name("x"), l(v[0], v[1])), IfC(Name("x")))
		}, true},
	}
	lits := [][2]int64{{1, 2}, {7, 8}, {0, 5}}
	callAll := func(name string) *Node { return ListComp(Call(Name("q")), ForC(Name("q"), Name(name))) }
	return Profile{Name: "siblings", MaxLevel: 2, Level: func(n int, yield func(Program) bool) {
		k := n + 1 // number of comprehensions
		idx := make([]int, k)
		var rec func(i int) bool
		rec = func(i int) bool {
			if i == k {
				for scope := 0; scope < 2; scope++ {
					var body []*Node
					names := []string{"ca", "cb", "cc"}
					for j := 0; j < k; j++ {
						body = append(body, Assign("=", Name(names[j]), forms[idx[j]].mk(lits[j])))
					}
					for j := 0; j < k; j++ {
						if forms[idx[j]].closure {
							body = append(body, ExprS(Probe(0, callAll(names[j]))))
						} else {
							body = append(body, ExprS(Probe(0, Name(names[j]))))
						}
					}
					var st []*Node
					if scope == 0 {
						st = body
					} else {
						st = []*Node{Def("f", nil, append(body, Return(Num(0)))), Assign("=", Name("r"), Call(Name("f")))}
					}
					if !yield(Program{Profile: "siblings", Stmts: st}) {
						return false
					}
				}
				return true
			}
			for f := range forms {
				idx[i] = f
				if !rec(i + 1) {
					return false
				}
			}
			return true
		}
		rec(0)
	}}
}
