package prog

// Size-ordered exhaustive program generators ("profiles").  Each profile is a
// restricted grammar over one feature area; Level(n) yields every program of
// the profile of size exactly n, in a fixed order.  Sub-expressions are
// probes t(id, value) so evaluation order and short-circuiting are
// observable.  Trees may share sub-trees: Instantiate clones and numbers the
// probes before rendering.

import "fmt"

// Program is one generated case.
type Program struct {
	Profile string
	Stmts   []*Node
	Need    Options // the options the program needs to be statically valid
	Scale   int     // profile scale: the width n of the program (see ScaleBudget)
}

// Instantiate deep-copies the program and numbers its probes 1..k in
// rendering order.
func (p Program) Instantiate() []*Node {
	out := cloneList(p.Stmts)
	id := 0
	var walk func(n *Node)
	walkList := func(l []*Node) {
		for _, x := range l {
			walk(x)
		}
	}
	walk = func(n *Node) {
		if n == nil {
			return
		}
		if n.Kind == EProbe {
			id++
			n.Int = int64(id)
		}
		for _, p := range n.Params {
			walk(p.Default)
		}
		switch n.Kind {
		case ECond: // rendered as T if C else F
			walk(n.Kids[1])
			walk(n.Kids[0])
			walk(n.Kids[2])
		case EComp:
			walkList(n.Kids)
			walkList(n.Clauses)
		case ECall:
			walkList(n.Kids)
			for _, a := range n.Named {
				walk(a.Val)
			}
			walk(n.Star)
			walk(n.StarStar)
		default:
			walkList(n.Kids)
		}
		walkList(n.Body)
		walkList(n.Else)
	}
	walkList(out)
	return out
}

// Profile is a size-indexed family of programs.
type Profile struct {
	Name     string
	MaxLevel int
	Level    func(n int, yield func(Program) bool)
}

// ---------------------------------------------------------------------------
// generic size-indexed expression enumeration

type exprGram struct {
	atoms  []*Node
	unary  []string
	binary []string
	cond   bool
	list   bool // [E, E] and (E, E) displays
	index  bool // E[E]
	memo   map[int][]*Node
}

func (g *exprGram) size(n int) []*Node {
	if g.memo == nil {
		g.memo = map[int][]*Node{}
	}
	if r, ok := g.memo[n]; ok {
		return r
	}
	var out []*Node
	if n == 1 {
		out = append(out, g.atoms...)
	}
	if n >= 2 {
		for _, op := range g.unary {
			for _, x := range g.size(n - 1) {
				out = append(out, Un(op, x))
			}
		}
	}
	if n >= 3 {
		for a := 1; a <= n-2; a++ {
			b := n - 1 - a
			for _, x := range g.size(a) {
				for _, y := range g.size(b) {
					for _, op := range g.binary {
						out = append(out, Bin(op, x, y))
					}
					if g.list {
						out = append(out, List(x, y), Tuple(x, y))
					}
					if g.index {
						out = append(out, Index(x, y))
					}
				}
			}
		}
	}
	if n >= 4 && g.cond {
		for a := 1; a <= n-3; a++ {
			for b := 1; a+b <= n-2; b++ {
				c := n - 1 - a - b
				for _, x := range g.size(a) {
					for _, y := range g.size(b) {
						for _, z := range g.size(c) {
							out = append(out, Cond(x, y, z))
						}
					}
				}
			}
		}
	}
	g.memo[n] = out
	return out
}

func lit(s string) *Node {
	switch s {
	case "True", "False", "None":
		return Name(s)
	case "[]":
		return List()
	case "[1]":
		return List(Num(1))
	case "()":
		return Tuple()
	case "{}":
		return DictE()
	}
	if s[0] == '"' {
		return Str(s[1 : len(s)-1])
	}
	var v int64
	fmt.Sscan(s, &v)
	return Num(v)
}

func pr(s string) *Node { return Probe(0, lit(s)) }

// ---------------------------------------------------------------------------
// profile "expr": boolean/conditional/comparison expressions in every
// syntactic context that compiles conditions specially.

func exprProfile() Profile {
	g := &exprGram{
		atoms:  []*Node{pr("True"), pr("False"), pr("0"), pr("1"), pr("[]"), pr("[1]")},
		unary:  []string{"not", "-"},
		binary: []string{"and", "or", "==", "<", "+", "in", "not in"},
		cond:   true,
	}
	contexts := []func(e *Node) ([]*Node, Options){
		func(e *Node) ([]*Node, Options) { return []*Node{Assign("=", Name("x"), e)}, Options{} },
		func(e *Node) ([]*Node, Options) {
			return []*Node{If(e, []*Node{ExprS(pr("1"))}, []*Node{ExprS(pr("0"))})}, Options{TopLevelControl: true}
		},
		func(e *Node) ([]*Node, Options) {
			return []*Node{Assign("=", Name("x"), Cond(e, pr("1"), pr("0")))}, Options{}
		},
		func(e *Node) ([]*Node, Options) {
			return []*Node{Assign("=", Name("x"), ListComp(pr("1"), ForC(Name("v"), List(Num(0))), IfC(e)))}, Options{}
		},
		func(e *Node) ([]*Node, Options) {
			return []*Node{While(e, []*Node{ExprS(pr("1")), Break()})}, Options{While: true, TopLevelControl: true}
		},
		func(e *Node) ([]*Node, Options) {
			return []*Node{Def("f", nil, []*Node{If(Un("not", e), []*Node{Return(pr("1"))}, nil), Return(pr("0"))}),
				Assign("=", Name("x"), Call(Name("f")))}, Options{}
		},
	}
	return Profile{Name: "expr", MaxLevel: 7, Level: func(n int, yield func(Program) bool) {
		for _, e := range g.size(n) {
			for ci, c := range contexts {
				if ci > 0 && n > 5 {
					break // the largest level only in the plain context
				}
				st, need := c(e)
				if !yield(Program{Profile: "expr", Stmts: st, Need: need}) {
					return
				}
			}
		}
	}}
}

// ---------------------------------------------------------------------------
// profile "plus": + chains over literal, list, tuple, parenthesised and
// variable operands in every association (the constant-folding cases).

func plusProfile() Profile {
	leaves := []func() *Node{
		func() *Node { return Str("a") }, func() *Node { return Str("b") },
		func() *Node { return List(pr("1")) }, func() *Node { return List() },
		func() *Node { return Tuple(pr("2")) }, func() *Node { return Tuple() },
		func() *Node { return Name("s") }, func() *Node { return Name("l") }, func() *Node { return Name("u") },
		func() *Node { return Paren(Str("c")) }, func() *Node { return Paren(List(pr("3"))) },
		func() *Node { return pr("1") },
	}
	var trees func(n int) []*Node
	memo := map[int][]*Node{}
	trees = func(n int) []*Node {
		if r, ok := memo[n]; ok {
			return r
		}
		var out []*Node
		if n == 1 {
			for _, l := range leaves {
				out = append(out, l())
			}
		} else {
			for a := 1; a < n; a++ {
				for _, x := range trees(a) {
					for _, y := range trees(n - a) {
						out = append(out, Bin("+", x, y))
					}
				}
			}
		}
		memo[n] = out
		return out
	}
	prefix := func() []*Node {
		return []*Node{Assign("=", Name("s"), Str("S")), Assign("=", Name("l"), List(Num(7))), Assign("=", Name("u"), Tuple(Num(8)))}
	}
	return Profile{Name: "plus", MaxLevel: 4, Level: func(n int, yield func(Program) bool) {
		for _, e := range trees(n) {
			st := append(prefix(), Assign("=", Name("x"), e))
			if !yield(Program{Profile: "plus", Stmts: st}) {
				return
			}
		}
	}}
}

// ---------------------------------------------------------------------------
// profile "assign": every target shape x value shape x operator.

func assignProfile() Profile {
	prefix := func() []*Node {
		return []*Node{
			Assign("=", Name("a"), List(Num(10), Num(20), Num(30))),
			Assign("=", Name("d"), DictE(Num(0), Num(5), Num(1), List(Num(6)))),
			Assign("=", Name("o"), Call(Name("mk"))),
			Assign("=", Name("n"), Num(3)),
		}
	}
	// simple targets with observable sub-expressions
	simple := func() []*Node {
		return []*Node{
			Name("x"), Name("n"),
			Index(Probe(0, Name("a")), pr("1")),
			Index(Probe(0, Name("a")), pr("5")), // out of range
			Index(Probe(0, Name("d")), pr("1")),
			Index(Probe(0, Name("d")), pr("9")), // new key / missing key
			Index(Probe(0, Name("n")), pr("0")), // not indexable
			Attr(Probe(0, Name("o")), "f"),
			Attr(Probe(0, Name("o")), "g"),
			Attr(Probe(0, Name("o")), "nope"),
			Attr(Probe(0, Name("a")), "f"),
			Index(Index(Probe(0, Name("d")), pr("1")), pr("0")),
		}
	}
	values := func() []*Node {
		return []*Node{pr("1"), pr("[1]"), Probe(0, List(Num(1), Num(2))), Probe(0, Tuple(Num(1), Num(2), Num(3))),
			Probe(0, Tuple(Tuple(Num(1), Num(2)), Num(3))), pr("None"), Probe(0, Str("ab")), Probe(0, DictE(Num(1), Num(2))),
			// displays written out on the right-hand side (what a compiler may assign element by element)
			Tuple(pr("1"), pr("2")), List(pr("1"), pr("2")), Tuple(pr("1"), pr("2"), pr("3"))}
	}
	augOps := []string{"+=", "-=", "*=", "|=", "//=", "%=", "&=", "^=", "<<=", ">>="}
	sS, vS := simple(), values()
	return Profile{Name: "assign", MaxLevel: 3, Level: func(n int, yield func(Program) bool) {
		emit := func(s ...*Node) bool {
			return yield(Program{Profile: "assign", Stmts: append(prefix(), s...), Need: Options{GlobalReassign: true}})
		}
		switch n {
		case 1: // simple target, = and augmented
			for ti := range sS {
				for vi := range vS {
					if !emit(Assign("=", sS[ti], vS[vi])) {
						return
					}
					for _, op := range augOps {
						if !emit(Assign(op, sS[ti], vS[vi])) {
							return
						}
					}
				}
			}
		case 2: // sequence targets of two simple targets, tuple and list form, paren
			for ti := range sS {
				for tj := range sS {
					for vi := range vS {
						if !emit(Assign("=", Tuple(sS[ti], sS[tj]), vS[vi])) {
							return
						}
						if ti < 4 && tj < 4 {
							if !emit(Assign("=", List(sS[ti], sS[tj]), vS[vi])) {
								return
							}
							if !emit(Assign("=", Paren(Tuple(sS[ti], sS[tj])), vS[vi])) {
								return
							}
						}
					}
				}
			}
		case 3: // nested sequence targets, 1-tuples, for-loop targets, in functions
			for ti := range sS {
				if ti > 7 {
					break
				}
				for tj := range sS {
					if tj > 7 {
						break
					}
					for vi := range vS {
						if !emit(Assign("=", Tuple(Tuple(sS[ti], sS[tj]), Name("z")), vS[vi])) {
							return
						}
						if !emit(Assign("=", Tuple(Name("z"), List(sS[ti], sS[tj])), vS[vi])) {
							return
						}
						if !emit(For(Tuple(sS[ti], sS[tj]), List(vS[vi], pr("[1]")), []*Node{ExprS(pr("0"))})) {
							return
						}
						if !emit(Def("f", nil, []*Node{
							Assign("=", Name("x"), Num(0)),
							Assign("=", Tuple(sS[ti], sS[tj]), vS[vi]),
							Return(Name("x"))}), Assign("=", Name("r"), Call(Name("f")))) {
							return
						}
					}
				}
				for vi := range vS {
					if !emit(Assign("=", Tuple(sS[ti]), vS[vi])) {
						return
					}
				}
			}
		}
	}}
}

// ---------------------------------------------------------------------------
// profile "control": nested loops, conditionals, break/continue/return.

func controlProfile() Profile {
	// statement trees by size; loop depth and function context are tracked
	type key struct {
		n      int
		inLoop bool
	}
	memo := map[key][][]*Node{}
	var blocks func(n int, inLoop bool) [][]*Node // all statement lists of total size n
	var stmts func(n int, inLoop bool) []*Node    // all single statements of size n
	stmts = func(n int, inLoop bool) []*Node {
		var out []*Node
		if n == 1 {
			out = append(out, ExprS(pr("1")), Return(pr("2")), Assign("+=", Name("c"), Num(1)), Pass())
			if inLoop {
				out = append(out, Break(), Continue())
			}
			return out
		}
		// if with then-block of size a and else-block of size b (b may be 0)
		for a := 1; a <= n-1; a++ {
			b := n - 1 - a
			for _, th := range blocks(a, inLoop) {
				if b == 0 {
					out = append(out, If(pr("True"), th, nil), If(pr("False"), th, nil), If(Bin("<", Name("v"), Num(2)), th, nil))
				} else {
					for _, el := range blocks(b, inLoop) {
						out = append(out, If(Bin("==", Name("v"), Num(1)), th, el))
					}
				}
			}
		}
		for _, body := range blocks(n-1, true) {
			out = append(out, For(Name("v"), Probe(0, List(Num(1), Num(2), Num(3))), body))
			out = append(out, For(Name("w"), Tuple(Num(1), Num(2)), body))
		}
		if n >= 3 {
			for _, body := range blocks(n-2, true) {
				// bounded while: the counter is advanced first so that continue cannot spin
				wb := append([]*Node{Assign("+=", Name("k"), Num(1))}, body...)
				out = append(out, While(Bin("<", Name("k"), Probe(0, Num(3))), wb))
			}
		}
		return out
	}
	blocks = func(n int, inLoop bool) [][]*Node {
		k := key{n, inLoop}
		if r, ok := memo[k]; ok {
			return r
		}
		var out [][]*Node
		for _, s := range stmts(n, inLoop) {
			out = append(out, []*Node{s})
		}
		for a := 1; a < n; a++ {
			for _, s := range stmts(a, inLoop) {
				if s.Kind == SReturn || s.Kind == SBreak || s.Kind == SContinue {
					continue // nothing after an unconditional exit (keeps sizes meaningful)
				}
				for _, rest := range blocks(n-a, inLoop) {
					out = append(out, append([]*Node{s}, rest...))
				}
			}
		}
		memo[k] = out
		return out
	}
	return Profile{Name: "control", MaxLevel: 6, Level: func(n int, yield func(Program) bool) {
		for _, b := range blocks(n, false) {
			body := append([]*Node{Assign("=", Name("c"), Num(0)), Assign("=", Name("k"), Num(0)), Assign("=", Name("v"), Num(1))}, b...)
			body = append(body, Return(Tuple(Name("c"), Name("k"), Name("v"))))
			st := []*Node{Def("f", nil, body), Assign("=", Name("r"), Call(Name("f")))}
			if !yield(Program{Profile: "control", Stmts: st, Need: Options{While: true}}) {
				return
			}
		}
		// the same blocks at top level (top-level control flow), without return
		if n <= 4 {
			for _, b := range blocks(n, false) {
				if hasReturn(b) {
					continue
				}
				st := append([]*Node{Assign("=", Name("c"), Num(0)), Assign("=", Name("k"), Num(0)), Assign("=", Name("v"), Num(1))}, b...)
				if !yield(Program{Profile: "control", Stmts: st, Need: Options{While: true, TopLevelControl: true, GlobalReassign: true}}) {
					return
				}
			}
		}
	}}
}

func hasReturn(b []*Node) bool {
	for _, s := range b {
		if s.Kind == SReturn || hasReturn(s.Body) || hasReturn(s.Else) {
			return true
		}
	}
	return false
}

// ---------------------------------------------------------------------------
// profile "scope": name resolution, closures, cells, comprehension scopes.

func scopeProfile() Profile {
	// Pools of statements over the names x, y and the functions f, g.
	// body statements of f (may define g)
	gBodies := func() [][]*Node {
		return [][]*Node{
			{Return(Probe(0, Name("x")))},
			{Assign("=", Name("x"), pr("7")), Return(Probe(0, Name("x")))},
			{ExprS(Probe(0, Name("x"))), Assign("=", Name("x"), pr("7")), Return(Name("x"))},
			{Return(Probe(0, Bin("+", Name("x"), Name("y"))))},
			{Assign("+=", Name("x"), Num(1)), Return(Name("x"))},
			{Return(ListComp(Probe(0, Name("x")), ForC(Name("x"), List(Name("y"), Num(9)))))},
			{Return(ListComp(Probe(0, Bin("+", Name("x"), Name("y"))), ForC(Name("y"), List(Name("x")))))},
			{Return(Lambda(nil, Probe(0, Name("x"))))},
		}
	}
	fStmts := func() []*Node {
		out := []*Node{
			Assign("=", Name("x"), pr("1")),
			Assign("=", Name("y"), pr("2")),
			Assign("+=", Name("x"), Num(10)),
			ExprS(Probe(0, Name("x"))),
			ExprS(Probe(0, Name("y"))),
			Assign("=", Name("h"), Lambda(nil, Probe(0, Name("x")))),
			Assign("=", Name("h"), Lambda([]*Param{PD("x", Name("x"))}, Probe(0, Name("x")))),
			ExprS(Probe(0, Call(Name("g")))),
			ExprS(Probe(0, Call(Name("h")))),
			ExprS(Probe(0, Call(Call(Name("g"))))),
			For(Name("x"), List(Num(3), Num(4)), []*Node{Assign("=", Name("h"), Lambda(nil, Probe(0, Name("x"))))}),
			Assign("=", Name("z"), ListComp(Lambda(nil, Probe(0, Name("q"))), ForC(Name("q"), List(Num(5), Num(6))))),
			ExprS(ListComp(Probe(0, Call(Name("k"))), ForC(Name("k"), Name("z")))),
			Return(Name("g")),
			Return(Name("h")),
		}
		for _, gb := range gBodies() {
			out = append(out, Def("g", nil, gb))
		}
		return out
	}
	top := func() []*Node {
		return []*Node{
			Assign("=", Name("x"), pr("100")),
			Assign("=", Name("y"), pr("200")),
			ExprS(Probe(0, Call(Name("f")))),
			ExprS(Probe(0, Call(Call(Name("f"))))),
			Assign("=", Name("r"), Call(Name("f"))),
			ExprS(Probe(0, Call(Name("r")))),
			ExprS(Probe(0, Name("x"))),
			Assign("=", Name("w"), ListComp(Probe(0, Bin("+", Name("x"), Name("y"))), ForC(Name("x"), List(Num(1), Num(2))))),
		}
	}
	fS, tS := fStmts(), top()
	nf := len(fS)
	nt := len(tS)
	return Profile{Name: "scope", MaxLevel: 3, Level: func(n int, yield func(Program) bool) {
		// level n: f has n body statements (all sequences), surrounded by every
		// choice of one top-level statement before and two after the def
		idx := make([]int, n)
		var rec func(i int) bool
		rec = func(i int) bool {
			if i == n {
				for before := 0; before < nt; before++ {
					for a1 := 0; a1 < nt; a1++ {
						for a2 := 0; a2 < nt; a2++ {
							if n == 3 && (a2 != 2 && a2 != 5) {
								continue // keep the largest level affordable
							}
							var body []*Node
							for _, k := range idx {
								body = append(body, fS[k])
							}
							st := []*Node{tS[before], Def("f", nil, body), tS[a1], tS[a2]}
							if !yield(Program{Profile: "scope", Stmts: st, Need: Options{GlobalReassign: true}}) {
								return false
							}
						}
					}
				}
				return true
			}
			for k := 0; k < nf; k++ {
				idx[i] = k
				if !rec(i + 1) {
					return false
				}
			}
			return true
		}
		rec(0)
	}}
}

// ---------------------------------------------------------------------------
// profile "call": the four call forms, evaluation order of arguments, and
// failures of the call machinery itself.

func callProfile() Profile {
	callees := func() []*Node {
		return []*Node{
			Def("f", []*Param{P("a"), PD("b", pr("5"))}, []*Node{Return(Tuple(Name("a"), Name("b")))}),
			Def("f", []*Param{P("a"), PStar("r"), PD("k", pr("6")), PStarStar("kw")}, []*Node{Return(Tuple(Name("a"), Name("r"), Name("k"), Name("kw")))}),
			Def("f", []*Param{PStar(""), P("k")}, []*Node{Return(Name("k"))}),
			Def("f", []*Param{P("a"), PD("b", pr("5")), PStarStar("kw")}, []*Node{Return(Tuple(Name("a"), Name("b"), Name("kw")))}),
			Def("f", []*Param{P("a"), P("b"), PStarStar("kw")}, []*Node{ExprS(pr("4")), Return(Tuple(Name("a"), Name("b"), Name("kw")))}),
			Assign("=", Name("f"), Lambda([]*Param{P("a"), PD("b", pr("5"))}, Tuple(Name("a"), Name("b")))),
			Assign("=", Name("f"), Name("len")),
			Assign("=", Name("f"), Num(3)),
		}
	}
	posArgs := func() [][]*Node {
		return [][]*Node{{}, {pr("1")}, {pr("1"), pr("2")}, {pr("1"), pr("2"), pr("3")}}
	}
	named := func() [][]NamedArg {
		return [][]NamedArg{nil, {{"b", pr("7")}}, {{"k", pr("8")}}, {{"a", pr("9")}, {"zz", pr("10")}}, {{"k", pr("8")}, {"b", pr("7")}},
			{{"zz", pr("10")}}, {{"zz", pr("10")}, {"yy", pr("11")}}}
	}
	stars := func() []*Node {
		return []*Node{nil, Probe(0, List(Num(21))), Probe(0, Tuple()), Probe(0, Num(4)), Probe(0, Str("xy"))}
	}
	starstars := func() []*Node {
		return []*Node{nil, Probe(0, DictE(Str("k"), Num(31))), Probe(0, DictE()), Probe(0, DictE(Num(1), Num(2))), Probe(0, List()), Probe(0, DictE(Str("b"), Num(32), Str("zz"), Num(33)))}
	}
	cS, pS, nS, sS, kS := callees(), posArgs(), named(), stars(), starstars()
	return Profile{Name: "call", MaxLevel: 1, Level: func(n int, yield func(Program) bool) {
		for ci := range cS {
			for pi := range pS {
				for ni := range nS {
					for si := range sS {
						for ki := range kS {
							c := Call(Probe(0, Name("f")), pS[pi]...)
							c.Named = nS[ni]
							c.Star = sS[si]
							c.StarStar = kS[ki]
							st := []*Node{cS[ci], Assign("=", Name("r"), c)}
							if !yield(Program{Profile: "call", Stmts: st}) {
								return
							}
						}
					}
				}
			}
		}
	}}
}

// ---------------------------------------------------------------------------
// profile "load"

func loadProfile() Profile {
	loads := func() []*Node {
		return []*Node{
			Load("m", [2]string{"a", "a"}),
			Load("m", [2]string{"a", "a"}, [2]string{"b", "b"}),
			Load("m", [2]string{"q", "a"}, [2]string{"a", "b"}),
			Load("m", [2]string{"a", "b"}, [2]string{"b", "a"}),
			Load("n", [2]string{"a", "a"}, [2]string{"z", "z"}),
			Load("m", [2]string{"a", "nope"}),
			Load("m", [2]string{"a", "a"}, [2]string{"b", "nope"}, [2]string{"c", "c"}),
			Load("zz", [2]string{"a", "a"}),
			Load("m", [2]string{"b", "b"}, [2]string{"b2", "b"}),
		}
	}
	uses := func() []*Node {
		return []*Node{
			ExprS(Probe(0, Name("a"))),
			ExprS(Probe(0, Name("b"))),
			Assign("=", Name("g1"), Probe(0, Tuple(Name("a")))),
			Def("f", nil, []*Node{Return(Probe(0, Name("a")))}),
			ExprS(Probe(0, Call(Name("f")))),
			Assign("=", Name("a"), pr("1")),
			Assign("=", Name("z"), pr("2")),
			ExprS(Probe(0, Call(Attr(Name("b"), "append"), Num(1)))),
			ExprS(Probe(0, Name("q"))),
		}
	}
	return Profile{Name: "load", MaxLevel: 3, Level: func(n int, yield func(Program) bool) {
		lS, uS := loads(), uses()
		nl, nu := len(lS), len(uS)
		switch n {
		case 1:
			for l := 0; l < nl; l++ {
				for u := 0; u < nu; u++ {
					if !yield(Program{Profile: "load", Stmts: []*Node{lS[l], uS[u]}}) {
						return
					}
				}
			}
		case 2:
			for l := 0; l < nl; l++ {
				for u := 0; u < nu; u++ {
					for v := 0; v < nu; v++ {
						if !yield(Program{Profile: "load", Stmts: []*Node{uS[u], lS[l], uS[v]}}) {
							return
						}
						if !yield(Program{Profile: "load", Stmts: []*Node{lS[l], uS[u], uS[v]}}) {
							return
						}
					}
				}
			}
		case 3:
			for l := 0; l < nl; l++ {
				for l2 := 0; l2 < nl; l2++ {
					for u := 0; u < nu; u++ {
						for v := 0; v < nu; v++ {
							if !yield(Program{Profile: "load", Stmts: []*Node{lS[l], uS[u], lS[l2], uS[v]}}) {
								return
							}
						}
					}
				}
			}
		}
	}}
}

// ---------------------------------------------------------------------------
// profile "comp": comprehension clause structures.

func compProfile() Profile {
	iters := func() []*Node {
		return []*Node{
			Probe(0, List(Num(1), Num(2))),
			Probe(0, List(Tuple(Num(1), Num(2)), Tuple(Num(3), Num(4)))),
			Probe(0, Name("v")),
			Probe(0, Name("x")),
			Probe(0, Num(5)),
			Probe(0, List(Num(1), Tuple(Num(2), Num(3)))),
		}
	}
	targets := func() []*Node {
		return []*Node{Name("x"), Name("v"), Tuple(Name("x"), Name("y")), Tuple(Name("y"), Name("x"))}
	}
	conds := func() []*Node {
		return []*Node{Probe(0, Bin("<", Name("x"), Num(2))), Probe(0, Name("y")), pr("False"), Probe(0, Bin("==", Name("v"), Name("x")))}
	}
	bodies := func() []*Node {
		return []*Node{Probe(0, Name("x")), Probe(0, Tuple(Name("x"), Name("y"))), Probe(0, Bin("+", Name("x"), Name("v"))),
			ListComp(Probe(0, Name("x")), ForC(Name("x"), List(Name("x"), Num(8))))}
	}
	tgS, itS, cdS, bdS := targets(), iters(), conds(), bodies()
	clause := func(kind, a, b int) *Node {
		if kind == 0 {
			return ForC(tgS[a%len(tgS)], itS[b%len(itS)])
		}
		return IfC(cdS[a%len(cdS)])
	}
	return Profile{Name: "comp", MaxLevel: 3, Level: func(n int, yield func(Program) bool) {
		// n clauses; the first is a for clause
		type ch struct{ kind, a, b int }
		var all [][]ch
		var rec func(cur []ch)
		rec = func(cur []ch) {
			if len(cur) == n {
				all = append(all, append([]ch(nil), cur...))
				return
			}
			for a := range tgS {
				for b := range itS {
					if n == 3 && (a > 1 && b > 2) {
						continue
					}
					rec(append(cur, ch{0, a, b}))
				}
			}
			if len(cur) > 0 {
				for a := range cdS {
					rec(append(cur, ch{1, a, 0}))
				}
			}
		}
		rec(nil)
		for _, cs := range all {
			for bi := range bdS {
				for form := 0; form < 3; form++ {
					var cl []*Node
					for _, c := range cs {
						cl = append(cl, clause(c.kind, c.a, c.b))
					}
					var e *Node
					switch form {
					case 0:
						e = ListComp(bdS[bi], cl...)
					case 1:
						e = DictComp(bdS[bi], Probe(0, Name("v")), cl...)
					case 2:
						if n == 3 {
							continue
						}
						e = ListComp(bdS[bi], cl...)
					}
					var st []*Node
					if form == 2 {
						st = []*Node{Assign("=", Name("v"), List(Num(1), Num(2))),
							Def("f", []*Param{P("x")}, []*Node{Assign("=", Name("r"), e), Return(Tuple(Name("r"), Name("x")))}),
							Assign("=", Name("w"), Call(Name("f"), List(Num(1))))}
					} else {
						st = []*Node{Assign("=", Name("v"), List(Num(1), Num(2))), Assign("=", Name("y"), Num(1)), Assign("=", Name("x"), List(Num(3))), Assign("=", Name("w"), e)}
					}
					if !yield(Program{Profile: "comp", Stmts: st}) {
						return
					}
				}
			}
		}
	}}
}

// ---------------------------------------------------------------------------
// profile "fold": operator expressions all of whose operands are literals
// (what a compiler may evaluate ahead of time), with integer literals at the
// int64 boundaries, in every association of up to three operands.

func foldProfile() Profile {
	lits := func() []*Node {
		return []*Node{Num(0), Num(1), Num(2), Num(63), Num(9223372036854775807), Num(4611686018427387904), Num(4611686018427387903),
			Str("a"), Str(""), List(Num(1)), Tuple(Num(2)), Paren(Num(1)), Un("-", Num(1)), Un("-", Num(9223372036854775807))}
	}
	ops := []string{"+", "-", "*", "//", "%", "&", "|", "^", "<<", ">>", "==", "<"}
	return Profile{Name: "fold", MaxLevel: 2, Level: func(n int, yield func(Program) bool) {
		emit := func(e *Node) bool {
			return yield(Program{Profile: "fold", Stmts: []*Node{Assign("=", Name("x"), e)}})
		}
		L := lits()
		switch n {
		case 1:
			for _, a := range L {
				for _, b := range L {
					for _, op := range ops {
						if !emit(Bin(op, a, b)) {
							return
						}
					}
				}
			}
		case 2:
			L = L[:11] // without the parenthesised and negated forms
			for _, a := range L {
				for _, b := range L {
					for _, c := range L {
						for _, o1 := range ops[:10] {
							for _, o2 := range ops[:10] {
								if !emit(Bin(o2, Bin(o1, a, b), c)) || !emit(Bin(o1, a, Paren(Bin(o2, b, c)))) {
									return
								}
							}
						}
					}
				}
			}
		}
	}}
}

// ---------------------------------------------------------------------------
// profile "escape": values that the call machinery builds for a callee (the
// *args tuple, the **kwargs dict, default values, closure cells) escape from
// the call and are looked at after the caller has evaluated further
// expressions, made further calls and returned.

func escapeProfile() Profile {
	callees := func() []*Node {
		return []*Node{
			Def("f", []*Param{PStar("a")}, []*Node{Return(Name("a"))}),
			Def("f", []*Param{P("p"), PStar("a")}, []*Node{Return(Name("a"))}),
			Def("f", []*Param{PStar("a"), PStarStar("k")}, []*Node{Return(Tuple(Name("a"), Name("k")))}),
			Def("f", []*Param{PStar("a")}, []*Node{Return(Lambda(nil, Name("a")))}),
			Def("f", []*Param{PStar("a")}, []*Node{ExprS(Call(Attr(Name("keep"), "append"), Name("a"))), Return(Num(0))}),
			Def("f", []*Param{PStarStar("k")}, []*Node{Return(Name("k"))}),
			Def("f", []*Param{PD("p", List()), PStar("a")}, []*Node{ExprS(Call(Attr(Name("p"), "append"), Name("a"))), Return(Name("p"))}),
			Def("f", []*Param{P("p"), P("q")}, []*Node{Return(Lambda(nil, Tuple(Name("p"), Name("q"))))}),
			// a built-in of the application that keeps the argument tuple it is given
			Assign("=", Name("f"), Name("pack")),
		}
	}
	calls := func() []*Node {
		mk := func(pos []*Node, named []NamedArg, star, starstar *Node) *Node {
			c := Call(Name("f"), pos...)
			c.Named, c.Star, c.StarStar = named, star, starstar
			return c
		}
		return []*Node{
			mk([]*Node{pr("1"), pr("2")}, nil, nil, nil),
			mk([]*Node{pr("1"), pr("2"), pr("3")}, nil, nil, nil),
			mk([]*Node{pr("1")}, nil, Probe(0, List(Num(2), Num(3))), nil),
			mk(nil, nil, Probe(0, Tuple(Num(1), Num(2))), nil),
			mk([]*Node{pr("1"), pr("2")}, []NamedArg{{"z", pr("3")}}, nil, nil),
			mk(nil, []NamedArg{{"y", pr("1")}, {"z", pr("2")}}, nil, nil),
			mk(nil, nil, nil, Probe(0, DictE(Str("y"), Num(1), Str("z"), Num(2)))),
		}
	}
	after := func() [][]*Node {
		return [][]*Node{
			{Assign("=", Name("y"), List(pr("3"), pr("4"), pr("5")))},
			{Assign("=", Name("y"), Bin("+", Bin("*", pr("3"), pr("4")), pr("5")))},
			{Assign("=", Name("y"), Call(Name("f"), pr("6"), pr("7")))},
			{Assign("=", Name("y"), DictE(pr("3"), pr("4"), pr("5"), pr("6")))},
			{Assign("=", Name("y"), Call(Name("len"), List(pr("3"), pr("4"), pr("5"), pr("6"))))},
			{Assign("=", Name("y"), ListComp(Tuple(Name("i"), pr("8"), pr("9")), ForC(Name("i"), List(Num(1), Num(2)))))},
		}
	}
	cS, kS, aS := callees(), calls(), after()
	return Profile{Name: "escape", MaxLevel: 2, Level: func(n int, yield func(Program) bool) {
		for ci := range cS {
			for ki := range kS {
				for ai := range aS {
					// what escaped is looked at (and, for the closure forms, called) at the end
					look := []*Node{Assign("=", Name("z"), Probe(0, Name("x")))}
					if ci == 3 || ci == 7 {
						look = []*Node{Assign("=", Name("z"), Probe(0, Call(Name("x"))))}
					}
					var st []*Node
					switch n {
					case 1: // at top level: the operand stack of the module's frame
						st = []*Node{Assign("=", Name("keep"), List()), cS[ci], Assign("=", Name("x"), kS[ki])}
						st = append(st, aS[ai]...)
						st = append(st, look...)
					case 2: // inside a function that returns afterwards
						body := []*Node{Assign("=", Name("x"), kS[ki])}
						body = append(body, aS[ai]...)
						body = append(body, look...)
						body = append(body, Return(Tuple(Name("x"), Name("y"), Name("z"))))
						st = []*Node{Assign("=", Name("keep"), List()), cS[ci], Def("main", nil, body),
							Assign("=", Name("r"), Call(Name("main"))), Assign("=", Name("r2"), Call(Name("main"))),
							Assign("=", Name("w"), Probe(0, Name("r")))}
					}
					if !yield(Program{Profile: "escape", Stmts: st}) {
						return
					}
				}
			}
		}
	}}
}

// ---------------------------------------------------------------------------
// profile "alias": two variables, one operation that copies or shares (x = y,
// x += y, x = x + y, x.extend(y), slices, list(), dict(), |, |=, update ...),
// then one in-place change through either variable, then both are observed:
// which operations share storage and which copy is part of the semantics.

func aliasProfile() Profile {
	type fam struct {
		ys, xs []func() *Node // initial values of y and x
		share  []func() *Node // statements over x, y
		mutate []func() *Node
	}
	call := func(recv, m string, args ...*Node) *Node { return ExprS(Call(Attr(Name(recv), m), args...)) }
	lists := fam{
		ys: []func() *Node{func() *Node { return List(Num(1), Num(2)) }, func() *Node { return List(List(Num(1)), Num(2)) }},
		xs: []func() *Node{func() *Node { return List() }, func() *Node { return List(Num(0)) }},
		share: []func() *Node{
			func() *Node { return Assign("+=", Name("x"), Name("y")) },
			func() *Node { return Assign("=", Name("x"), Bin("+", Name("x"), Name("y"))) },
			func() *Node { return call("x", "extend", Name("y")) },
			func() *Node { return Assign("=", Name("x"), Name("y")) },
			func() *Node { return Assign("=", Name("x"), Slice(Name("y"), nil, nil, nil)) },
			func() *Node { return Assign("=", Name("x"), Slice(Name("y"), Num(0), Num(2), nil)) },
			func() *Node { return Assign("=", Name("x"), Call(Name("list"), Name("y"))) },
			func() *Node { return Assign("=", Name("x"), Bin("*", Name("y"), Num(1))) },
			func() *Node { return Assign("=", Name("x"), Bin("+", List(), Name("y"))) },
			func() *Node { return Assign("=", Name("x"), Bin("+", Name("y"), List())) },
			func() *Node { return Assign("=", Name("x"), Bin("or", Name("x"), Name("y"))) },
			func() *Node { return Assign("=", Name("x"), ListComp(Name("e"), ForC(Name("e"), Name("y")))) },
			func() *Node { return Assign("=", Name("x"), Call(Name("sorted"), Name("y"))) },
			func() *Node { return Assign("=", Tuple(Name("x"), Name("w")), Tuple(Name("y"), Name("x"))) },
		},
		mutate: []func() *Node{
			func() *Node { return Assign("=", Index(Name("x"), Num(0)), Num(9)) },
			func() *Node { return Assign("=", Index(Name("y"), Num(0)), Num(9)) },
			func() *Node { return call("x", "append", Num(9)) },
			func() *Node { return call("y", "append", Num(9)) },
			func() *Node { return call("x", "pop") },
			func() *Node { return call("y", "clear") },
			func() *Node { return Assign("+=", Index(Name("x"), Num(0)), Num(5)) },
			func() *Node { return Assign("+=", Name("y"), List(Num(7))) },
		},
	}
	dicts := fam{
		ys: []func() *Node{func() *Node { return DictE(Num(1), Num(2)) }, func() *Node { return DictE(Num(1), List(Num(2)), Num(3), Num(4)) }},
		xs: []func() *Node{func() *Node { return DictE() }, func() *Node { return DictE(Num(0), Num(0)) }},
		share: []func() *Node{
			func() *Node { return Assign("|=", Name("x"), Name("y")) },
			func() *Node { return Assign("=", Name("x"), Bin("|", Name("x"), Name("y"))) },
			func() *Node { return call("x", "update", Name("y")) },
			func() *Node { return Assign("=", Name("x"), Name("y")) },
			func() *Node { return Assign("=", Name("x"), Call(Name("dict"), Name("y"))) },
			func() *Node { return Assign("=", Name("x"), Bin("|", DictE(), Name("y"))) },
			func() *Node { return Assign("=", Name("x"), Bin("|", Name("y"), DictE())) },
			func() *Node {
				return Assign("=", Name("x"), DictComp(Name("k"), Index(Name("y"), Name("k")), ForC(Name("k"), Name("y"))))
			},
		},
		mutate: []func() *Node{
			func() *Node { return Assign("=", Index(Name("x"), Num(1)), Num(9)) },
			func() *Node { return Assign("=", Index(Name("y"), Num(1)), Num(9)) },
			func() *Node { return Assign("=", Index(Name("x"), Num(8)), Num(9)) },
			func() *Node { return call("x", "pop", Num(1)) },
			func() *Node { return call("y", "clear") },
			func() *Node { return Assign("|=", Name("y"), DictE(Num(7), Num(7))) },
		},
	}
	return Profile{Name: "alias", MaxLevel: 2, Level: func(n int, yield func(Program) bool) {
		for _, f := range []fam{lists, dicts} {
			for _, y0 := range f.ys {
				for _, x0 := range f.xs {
					for _, sh := range f.share {
						for _, mu := range f.mutate {
							core := []*Node{Assign("=", Name("y"), y0()), Assign("=", Name("x"), x0()), Assign("=", Name("w"), Num(0)), sh(), mu(),
								Assign("=", Name("z"), Probe(0, Tuple(Name("x"), Name("y"))))}
							var st []*Node
							if n == 1 {
								st = core
							} else {
								body := append(core, Return(Tuple(Name("x"), Name("y"))))
								st = []*Node{Def("main", nil, body), Assign("=", Name("r"), Call(Name("main")))}
							}
							if !yield(Program{Profile: "alias", Stmts: st, Need: Options{GlobalReassign: true}}) {
								return
							}
						}
					}
				}
			}
		}
	}}
}

// ---------------------------------------------------------------------------
// profile "chains": a + chain of three or four operands one of whose operands
// contains another + chain of three operands (in parentheses, as a call
// argument, as a subscript), in every position, over int, string-literal and
// list operands: chains are compiled specially (operand spilling, literal
// folding) and a nested chain must not disturb the outer one.

func chainsProfile() Profile {
	type flavour struct{ mk func(i int) *Node }
	flavours := []flavour{
		{func(i int) *Node { return Probe(0, Num(int64(i))) }},
		{func(i int) *Node { return Str(string(rune('a' + i))) }},
		{func(i int) *Node { return List(Probe(0, Num(int64(i)))) }},
		{func(i int) *Node { return Name([]string{"s", "l2", "s", "l2", "s", "l2", "s", "l2"}[i%8]) }}, // mixed str/list: failures
	}
	wrap := []func(e *Node) *Node{
		func(e *Node) *Node { return Paren(e) },
		func(e *Node) *Node { return Call(Name("idf"), e) },
		func(e *Node) *Node { return Index(List(e), Num(0)) },
		func(e *Node) *Node { return Cond(Num(1), e, Num(0)) },
	}
	chain := func(ops []*Node) *Node {
		e := ops[0]
		for _, o := range ops[1:] {
			e = Bin("+", e, o)
		}
		return e
	}
	return Profile{Name: "chains", MaxLevel: 1, Level: func(n int, yield func(Program) bool) {
		for _, fl := range flavours {
			for outer := 3; outer <= 4; outer++ {
				for pos := 0; pos < outer; pos++ {
					for wi, w := range wrap {
						k := 0
						next := func() *Node { k++; return fl.mk(k) }
						var ops []*Node
						for i := 0; i < outer; i++ {
							if i == pos {
								ops = append(ops, w(chain([]*Node{next(), next(), next()})))
							} else {
								ops = append(ops, next())
							}
						}
						st := []*Node{
							Def("idf", []*Param{P("v")}, []*Node{Return(Name("v"))}),
							Assign("=", Name("s"), Str("S")), Assign("=", Name("l2"), List(Num(7))),
							Assign("=", Name("x"), chain(ops)),
						}
						if wi == 3 { // also two nested chains in one outer chain
							ops2 := append([]*Node{}, ops...)
							ops2[(pos+1)%outer] = Paren(chain([]*Node{next(), next(), next()}))
							st = append(st, Assign("=", Name("y"), chain(ops2)))
						}
						if !yield(Program{Profile: "chains", Stmts: st}) {
							return
						}
					}
				}
			}
		}
	}}
}

// Profiles returns every profile in a fixed order.
func Profiles() []Profile {
	return []Profile{exprProfile(), plusProfile(), assignProfile(), controlProfile(), scopeProfile(), callProfile(), loadProfile(), compProfile(), foldProfile(), escapeProfile(), aliasProfile(), chainsProfile()}
}
