// Package prog is the shared program machinery of the engine: a private
// syntax tree (independent of go.starlark.net/syntax), a renderer that
// records the exact position of every token that matters, size-ordered
// exhaustive generators, and a reference evaluator written from doc/spec.md
// (see DESIGN.md Appendix A).
package prog

import (
	"fmt"
	"strings"
)

type Kind uint8

const (
	// expressions
	ENum Kind = iota + 1
	EStr
	EName
	EProbe // t(id, value): host-visible side effect returning value
	EUnary
	EBinary
	ECond
	EList
	ETuple
	EDict // Kids alternate key, value
	EIndex
	ESlice // Kids: x, lo, hi, step (nil when omitted)
	EAttr
	ECall // Kids[0]=fn, Kids[1:]=positional; Named; Star; StarStar
	ELambda
	EComp  // Dict; Kids = body (1) or key,value (2); Clauses
	EParen // explicit parentheses
	// comprehension clauses
	CFor // Kids[0]=target, Kids[1]=iterable
	CIf  // Kids[0]=cond
	// statements
	SExpr
	SAssign // Op; Kids[0]=target, Kids[1]=value
	SIf     // Kids[0]=cond; Body; Else
	SFor    // Kids[0]=target, Kids[1]=iterable; Body
	SWhile  // Kids[0]=cond; Body
	SDef    // Name; Params; Body
	SReturn // Kids[0] optional
	SBreak
	SContinue
	SPass
	SLoad // Str=module; Pairs
)

type Pos struct{ Line, Col int32 }

func (p Pos) String() string { return fmt.Sprintf("%d:%d", p.Line, p.Col) }

type Param struct {
	Name    string
	Default *Node // nil if none
	Star    int   // 0 ordinary, 1 *args (or bare * if Name==""), 2 **kwargs
	NamePos Pos
}

type NamedArg struct {
	Name string
	Val  *Node
}

type Node struct {
	Kind     Kind
	Op       string
	Name     string
	Int      int64
	Str      string
	Dict     bool
	Raw      bool // EStr: written between quotes as it is (valid UTF-8 without quotes, backslashes or line breaks)
	Kids     []*Node
	Body     []*Node
	Else     []*Node
	Params   []*Param
	Named    []NamedArg
	Star     *Node
	StarStar *Node
	Clauses  []*Node
	Pairs    [][2]string // load: (local name, exported name)

	// layout requests honoured by the renderer
	PadLines int // blank lines before a statement
	PadCols  int // extra spaces before the node's first token
	NL       int // line breaks before the node's first token (only legal inside brackets)
	OpPad    int // extra spaces before the node's operator token (binary op, '(', '[', '.')
	OpNL     int // line breaks before the operator token (only legal inside brackets)

	// set by the renderer
	Start Pos // first token of the node
	OpPos Pos // token at which a failure of this node's own operation is reported
	colon Pos // for a dict-display key: the ':' after it
}

// constructors ---------------------------------------------------------------

func Num(v int64) *Node   { return &Node{Kind: ENum, Int: v} }
func Str(s string) *Node  { return &Node{Kind: EStr, Str: s} }
func Name(n string) *Node { return &Node{Kind: EName, Name: n} }
func Probe(id int, v *Node) *Node {
	return &Node{Kind: EProbe, Int: int64(id), Kids: []*Node{v}}
}
func Un(op string, x *Node) *Node       { return &Node{Kind: EUnary, Op: op, Kids: []*Node{x}} }
func Bin(op string, x, y *Node) *Node   { return &Node{Kind: EBinary, Op: op, Kids: []*Node{x, y}} }
func Cond(c, t, f *Node) *Node          { return &Node{Kind: ECond, Kids: []*Node{c, t, f}} }
func List(e ...*Node) *Node             { return &Node{Kind: EList, Kids: e} }
func Tuple(e ...*Node) *Node            { return &Node{Kind: ETuple, Kids: e} }
func DictE(kv ...*Node) *Node           { return &Node{Kind: EDict, Kids: kv} }
func Index(x, i *Node) *Node            { return &Node{Kind: EIndex, Kids: []*Node{x, i}} }
func Slice(x, lo, hi, st *Node) *Node   { return &Node{Kind: ESlice, Kids: []*Node{x, lo, hi, st}} }
func Attr(x *Node, name string) *Node   { return &Node{Kind: EAttr, Name: name, Kids: []*Node{x}} }
func Call(fn *Node, pos ...*Node) *Node { return &Node{Kind: ECall, Kids: append([]*Node{fn}, pos...)} }
func Paren(x *Node) *Node               { return &Node{Kind: EParen, Kids: []*Node{x}} }
func Lambda(ps []*Param, body *Node) *Node {
	return &Node{Kind: ELambda, Params: ps, Kids: []*Node{body}}
}
func ListComp(body *Node, clauses ...*Node) *Node {
	return &Node{Kind: EComp, Kids: []*Node{body}, Clauses: clauses}
}
func DictComp(k, v *Node, clauses ...*Node) *Node {
	return &Node{Kind: EComp, Dict: true, Kids: []*Node{k, v}, Clauses: clauses}
}
func ForC(target, iter *Node) *Node { return &Node{Kind: CFor, Kids: []*Node{target, iter}} }
func IfC(c *Node) *Node             { return &Node{Kind: CIf, Kids: []*Node{c}} }

func ExprS(e *Node) *Node { return &Node{Kind: SExpr, Kids: []*Node{e}} }
func Assign(op string, target, val *Node) *Node {
	return &Node{Kind: SAssign, Op: op, Kids: []*Node{target, val}}
}
func If(c *Node, then, els []*Node) *Node {
	return &Node{Kind: SIf, Kids: []*Node{c}, Body: then, Else: els}
}
func For(target, iter *Node, body []*Node) *Node {
	return &Node{Kind: SFor, Kids: []*Node{target, iter}, Body: body}
}
func While(c *Node, body []*Node) *Node { return &Node{Kind: SWhile, Kids: []*Node{c}, Body: body} }
func Def(name string, ps []*Param, body []*Node) *Node {
	return &Node{Kind: SDef, Name: name, Params: ps, Body: body}
}
func Return(e *Node) *Node {
	if e == nil {
		return &Node{Kind: SReturn}
	}
	return &Node{Kind: SReturn, Kids: []*Node{e}}
}
func Break() *Node    { return &Node{Kind: SBreak} }
func Continue() *Node { return &Node{Kind: SContinue} }
func Pass() *Node     { return &Node{Kind: SPass} }
func Load(module string, pairs ...[2]string) *Node {
	return &Node{Kind: SLoad, Str: module, Pairs: pairs}
}
func P(name string) *Param           { return &Param{Name: name} }
func PD(name string, d *Node) *Param { return &Param{Name: name, Default: d} }
func PStar(name string) *Param       { return &Param{Name: name, Star: 1} }
func PStarStar(name string) *Param   { return &Param{Name: name, Star: 2} }

// Clone deep-copies a tree (positions are not copied).
func (n *Node) Clone() *Node {
	if n == nil {
		return nil
	}
	c := *n
	c.Start, c.OpPos = Pos{}, Pos{}
	c.Kids = cloneList(n.Kids)
	c.Body = cloneList(n.Body)
	c.Else = cloneList(n.Else)
	c.Clauses = cloneList(n.Clauses)
	c.Star = n.Star.Clone()
	c.StarStar = n.StarStar.Clone()
	if n.Params != nil {
		c.Params = make([]*Param, len(n.Params))
		for i, p := range n.Params {
			q := *p
			q.Default = p.Default.Clone()
			c.Params[i] = &q
		}
	}
	if n.Named != nil {
		c.Named = make([]NamedArg, len(n.Named))
		for i, a := range n.Named {
			c.Named[i] = NamedArg{a.Name, a.Val.Clone()}
		}
	}
	return &c
}

func cloneList(l []*Node) []*Node {
	if l == nil {
		return nil
	}
	out := make([]*Node, len(l))
	for i, x := range l {
		out[i] = x.Clone()
	}
	return out
}

// ---------------------------------------------------------------------------
// renderer: canonical layout, exact positions

type renderer struct {
	sb        strings.Builder
	line, col int32
}

func (r *renderer) w(s string) {
	for i := 0; i < len(s); i++ {
		if s[i] == '\n' {
			r.line++
			r.col = 1
		} else if s[i]&0xC0 != 0x80 { // count runes, not bytes
			r.col++
		}
	}
	r.sb.WriteString(s)
}
func (r *renderer) pos() Pos { return Pos{r.line, r.col} }

// Render prints a file and fills in Start/OpPos of every node.
func Render(stmts []*Node) string {
	r := &renderer{line: 1, col: 1}
	r.block(stmts, 0)
	return r.sb.String()
}

// RenderExpr prints one expression (positions relative to line 1, col 1).
func RenderExpr(e *Node) string {
	r := &renderer{line: 1, col: 1}
	r.expr(e, 0)
	return r.sb.String()
}

func (r *renderer) block(stmts []*Node, indent int) {
	for _, s := range stmts {
		r.stmt(s, indent)
	}
}

func (r *renderer) stmt(s *Node, indent int) {
	for i := 0; i < s.PadLines; i++ {
		r.w("\n")
	}
	r.w(strings.Repeat(" ", indent*4))
	s.Start = r.pos()
	switch s.Kind {
	case SExpr:
		r.expr(s.Kids[0], 0)
		r.w("\n")
	case SAssign:
		r.target(s.Kids[0])
		r.w(" ")
		s.OpPos = r.pos()
		r.w(s.Op)
		r.w(" ")
		r.expr(s.Kids[1], 0)
		r.w("\n")
	case SIf:
		r.w("if ")
		r.expr(s.Kids[0], 0)
		r.w(":\n")
		r.block(s.Body, indent+1)
		if len(s.Else) > 0 {
			r.w(strings.Repeat(" ", indent*4))
			r.w("else:\n")
			r.block(s.Else, indent+1)
		}
	case SFor:
		s.OpPos = r.pos()
		r.w("for ")
		r.target(s.Kids[0])
		r.w(" in ")
		r.expr(s.Kids[1], 0)
		r.w(":\n")
		r.block(s.Body, indent+1)
	case SWhile:
		r.w("while ")
		r.expr(s.Kids[0], 0)
		r.w(":\n")
		r.block(s.Body, indent+1)
	case SDef:
		s.OpPos = r.pos()
		r.w("def ")
		r.w(s.Name)
		r.w("(")
		r.params(s.Params)
		r.w("):\n")
		r.block(s.Body, indent+1)
	case SReturn:
		r.w("return")
		if len(s.Kids) > 0 {
			r.w(" ")
			r.expr(s.Kids[0], 0)
		}
		r.w("\n")
	case SBreak:
		r.w("break\n")
	case SContinue:
		r.w("continue\n")
	case SPass:
		r.w("pass\n")
	case SLoad:
		s.OpPos = r.pos()
		r.w("load(")
		r.w(quote(s.Str))
		for _, p := range s.Pairs {
			r.w(", ")
			if p[0] != p[1] {
				r.w(p[0])
				r.w("=")
			}
			r.w(quote(p[1]))
		}
		r.w(")\n")
	default:
		panic(fmt.Sprintf("render stmt kind %d", s.Kind))
	}
}

func (r *renderer) params(ps []*Param) {
	for i, p := range ps {
		if i > 0 {
			r.w(", ")
		}
		switch p.Star {
		case 1:
			r.w("*")
		case 2:
			r.w("**")
		}
		p.NamePos = r.pos()
		r.w(p.Name)
		if p.Default != nil {
			r.w("=")
			r.expr(p.Default, precTest)
		}
	}
}

// target renders an assignment target: a tuple target is written without
// parentheses at top level.
func (r *renderer) target(t *Node) {
	if t.Kind == ETuple && len(t.Kids) > 1 {
		t.Start = r.pos()
		for i, k := range t.Kids {
			if i > 0 {
				r.w(", ")
			}
			r.expr(k, precTest)
		}
		if len(t.Kids) == 1 {
			r.w(",")
		}
		return
	}
	r.expr(t, 0)
}

// precedence levels (higher binds tighter); from doc/spec.md's operator table.
const (
	precLowest     = iota
	precLambdaCond // lambda, x if c else y
	precTest       // an argument / element position: excludes unparenthesised tuples
	precOr
	precAnd
	precNot
	precCmp
	precPipe
	precCaret
	precAmp
	precShift
	precAdd
	precMul
	precUnary
	precPrimary
)

func binPrec(op string) int {
	switch op {
	case "or":
		return precOr
	case "and":
		return precAnd
	case "==", "!=", "<", ">", "<=", ">=", "in", "not in":
		return precCmp
	case "|":
		return precPipe
	case "^":
		return precCaret
	case "&":
		return precAmp
	case "<<", ">>":
		return precShift
	case "+", "-":
		return precAdd
	case "*", "/", "//", "%":
		return precMul
	}
	panic("binPrec " + op)
}

func nodePrec(e *Node) int {
	switch e.Kind {
	case ELambda, ECond:
		return precLambdaCond
	case EBinary:
		return binPrec(e.Op)
	case EUnary:
		if e.Op == "not" {
			return precNot
		}
		return precUnary
	case ETuple:
		if len(e.Kids) == 0 {
			return precPrimary // ()
		}
		return precLowest
	}
	return precPrimary
}

func quote(s string) string {
	var sb strings.Builder
	sb.WriteByte('"')
	for i := 0; i < len(s); i++ {
		c := s[i]
		switch {
		case c == '"' || c == '\\':
			sb.WriteByte('\\')
			sb.WriteByte(c)
		case c == '\n':
			sb.WriteString("\\n")
		case c < 0x20 || c >= 0x7f:
			fmt.Fprintf(&sb, "\\x%02x", c)
		default:
			sb.WriteByte(c)
		}
	}
	sb.WriteByte('"')
	return sb.String()
}

// expr renders e in a context that requires precedence >= min; parentheses
// are added when e binds less tightly.  The positions recorded for a
// parenthesised node are those of the node itself, not of the parenthesis.
func (r *renderer) expr(e *Node, min int) {
	if e.NL > 0 {
		r.w(strings.Repeat("\n", e.NL))
	}
	if e.PadCols > 0 {
		r.w(strings.Repeat(" ", e.PadCols))
	}
	if nodePrec(e) < min || (e.Kind == ETuple && len(e.Kids) == 1) {
		// (a 1-tuple must always be parenthesised: "x," is rejected)
		r.w("(")
		r.expr1(e)
		r.w(")")
		return
	}
	r.expr1(e)
}

// oppad emits the requested layout before a node's operator token.
func (r *renderer) oppad(e *Node) {
	if e.OpNL > 0 {
		r.w(strings.Repeat("\n", e.OpNL))
	}
	if e.OpPad > 0 {
		r.w(strings.Repeat(" ", e.OpPad))
	}
}

func (r *renderer) expr1(e *Node) {
	e.Start = r.pos()
	switch e.Kind {
	case ENum:
		if e.Int < 0 {
			panic("negative literal: use Un(\"-\", ...)")
		}
		r.w(fmt.Sprint(e.Int))
	case EStr:
		if e.Raw {
			r.w("\"" + e.Str + "\"")
		} else {
			r.w(quote(e.Str))
		}
	case EName:
		e.OpPos = e.Start
		r.w(e.Name)
	case EProbe:
		r.w("t")
		e.OpPos = r.pos()
		r.w("(")
		r.w(fmt.Sprint(e.Int))
		r.w(", ")
		r.expr(e.Kids[0], precTest)
		r.w(")")
	case EUnary:
		e.OpPos = r.pos()
		if e.Op == "not" {
			r.w("not ")
			r.expr(e.Kids[0], precNot)
		} else {
			r.w(e.Op)
			r.expr(e.Kids[0], precUnary)
		}
	case EBinary:
		p := binPrec(e.Op)
		lp, rp := p, p+1 // left-associative
		if p == precCmp {
			lp = p + 1 // comparisons are non-associative
		}
		r.expr(e.Kids[0], lp)
		r.w(" ")
		r.oppad(e)
		e.OpPos = r.pos()
		if e.Op == "not in" {
			// the two-word operator is reported at its second word
			// (syntax.BinaryExpr.OpPos is the position of "in")
			e.OpPos.Col += 4
		}
		r.w(e.Op)
		r.w(" ")
		r.expr(e.Kids[1], rp)
	case ECond:
		r.expr(e.Kids[1], precOr)
		r.w(" if ")
		r.expr(e.Kids[0], precOr)
		r.w(" else ")
		r.expr(e.Kids[2], precLambdaCond)
	case EList:
		r.w("[")
		for i, k := range e.Kids {
			if i > 0 {
				r.w(", ")
			}
			r.expr(k, precTest)
		}
		r.w("]")
	case ETuple:
		// a non-empty tuple reaching here is always parenthesised by expr()
		// unless min == precLowest
		for i, k := range e.Kids {
			if i > 0 {
				r.w(", ")
			}
			r.expr(k, precTest)
		}
		if len(e.Kids) == 1 {
			r.w(",")
		}
		if len(e.Kids) == 0 {
			r.w("()")
		}
	case EDict:
		r.w("{")
		for i := 0; i+1 < len(e.Kids); i += 2 {
			if i > 0 {
				r.w(", ")
			}
			r.expr(e.Kids[i], precTest)
			// position of the colon is where a duplicate key is reported
			if i == 0 {
				e.OpPos = r.pos()
			}
			e.Kids[i].OpPosColon(r.pos())
			r.w(": ")
			r.expr(e.Kids[i+1], precTest)
		}
		r.w("}")
	case EIndex:
		r.expr(e.Kids[0], precPrimary)
		r.oppad(e)
		e.OpPos = r.pos()
		r.w("[")
		r.expr(e.Kids[1], precLowest)
		r.w("]")
	case ESlice:
		r.expr(e.Kids[0], precPrimary)
		r.oppad(e)
		e.OpPos = r.pos()
		r.w("[")
		if e.Kids[1] != nil {
			r.expr(e.Kids[1], precTest)
		}
		r.w(":")
		if e.Kids[2] != nil {
			r.expr(e.Kids[2], precTest)
		}
		if e.Kids[3] != nil {
			r.w(":")
			r.expr(e.Kids[3], precTest)
		}
		r.w("]")
	case EAttr:
		r.expr(e.Kids[0], precPrimary)
		r.oppad(e)
		e.OpPos = r.pos()
		r.w(".")
		r.w(e.Name)
	case ECall:
		r.expr(e.Kids[0], precPrimary)
		r.oppad(e)
		e.OpPos = r.pos()
		r.w("(")
		first := true
		sep := func() {
			if !first {
				r.w(", ")
			}
			first = false
		}
		for _, a := range e.Kids[1:] {
			sep()
			r.expr(a, precTest)
		}
		for _, a := range e.Named {
			sep()
			r.w(a.Name)
			r.w("=")
			r.expr(a.Val, precTest)
		}
		if e.Star != nil {
			sep()
			r.w("*")
			r.expr(e.Star, precTest)
		}
		if e.StarStar != nil {
			sep()
			r.w("**")
			r.expr(e.StarStar, precTest)
		}
		r.w(")")
	case ELambda:
		e.OpPos = r.pos()
		r.w("lambda")
		if len(e.Params) > 0 {
			r.w(" ")
		}
		r.params(e.Params)
		r.w(": ")
		r.expr(e.Kids[0], precLambdaCond)
	case EComp:
		if e.Dict {
			r.w("{")
			r.expr(e.Kids[0], precTest)
			e.OpPos = r.pos()
			r.w(": ")
			r.expr(e.Kids[1], precTest)
		} else {
			r.w("[")
			r.expr(e.Kids[0], precTest)
		}
		for _, c := range e.Clauses {
			r.w(" ")
			c.Start = r.pos()
			c.OpPos = c.Start
			if c.Kind == CFor {
				r.w("for ")
				r.target(c.Kids[0])
				r.w(" in ")
				r.expr(c.Kids[1], precOr)
			} else {
				r.w("if ")
				r.expr(c.Kids[0], precOr)
			}
		}
		if e.Dict {
			r.w("}")
		} else {
			r.w("]")
		}
	case EParen:
		r.w("(")
		r.expr(e.Kids[0], precLowest)
		r.w(")")
	default:
		panic(fmt.Sprintf("render expr kind %d", e.Kind))
	}
}

// OpPosColon records, on a dict key node, the position of the ':' that
// follows it (a duplicate key in a dict display is reported there).
func (n *Node) OpPosColon(p Pos) { n.colon = p }

// Colon returns the position recorded by OpPosColon.
func (n *Node) Colon() Pos { return n.colon }
