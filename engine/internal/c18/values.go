package c18

// Value side of C18: value trees (the harness's own description of a Starlark
// value), their enumeration by node count, construction of fresh real
// Starlark objects, comparison of real values / reference values with a tree,
// and the sharing level (same object twice, tuple slices, real cycles) whose
// cases are built by executing a generated Starlark program.

import (
	"encoding/hex"
	"fmt"
	"math"
	"math/big"
	"sort"
	"strings"
	"unicode/utf8"

	"go.starlark.net/starlark"
	"go.starlark.net/starlarkstruct"
)

// VNode is one node of a value tree. It is JSON-marshalable (replay files).
type VNode struct {
	K    string   `json:"k"` // none bool int float str list tuple dict struct | nonstrkey builtin (not representable)
	B    bool     `json:"b,omitempty"`
	Int  string   `json:"int,omitempty"`  // decimal
	Bits string   `json:"bits,omitempty"` // float64 bits, hex
	Hex  string   `json:"hex,omitempty"`  // string bytes, hex
	Kids []*VNode `json:"kids,omitempty"`
	Keys []string `json:"keys,omitempty"` // hex-encoded member names of dict/struct, parallel to Kids
	// sharing (only in the sharing level): this node is not a fresh object but
	Alias string `json:"alias,omitempty"` // "same": the object of node To; "slice": tuple To sliced [A:B]; "cycle": reference back to ancestor To
	To    int    `json:"to,omitempty"`    // preorder index of the target node
	A     int    `json:"a,omitempty"`
	Bx    int    `json:"bx,omitempty"`
}

func (n *VNode) isContainer() bool {
	switch n.K {
	case "list", "tuple", "dict", "struct":
		return true
	}
	return false
}

func vInt(s string) *VNode { return &VNode{K: "int", Int: s} }
func vFloat(f float64) *VNode {
	return &VNode{K: "float", Bits: fmt.Sprintf("%016x", math.Float64bits(f))}
}
func vStr(s string) *VNode { return &VNode{K: "str", Hex: hex.EncodeToString([]byte(s))} }

func (n *VNode) str() string { b, _ := hex.DecodeString(n.Hex); return string(b) }
func (n *VNode) f64() float64 {
	var u uint64
	fmt.Sscanf(n.Bits, "%x", &u)
	return math.Float64frombits(u)
}
func (n *VNode) big() *big.Int { x, _ := new(big.Int).SetString(n.Int, 10); return x }
func (n *VNode) key(i int) string {
	b, _ := hex.DecodeString(n.Keys[i])
	return string(b)
}

// ---------------------------------------------------------------------------
// leaf pools

func pow2(k int) *big.Int { return new(big.Int).Lsh(big.NewInt(1), uint(k)) }

func intPool() []*VNode {
	var out []*VNode
	add := func(x *big.Int) { out = append(out, vInt(x.String())) }
	for _, s := range []string{"0", "1", "-1", "7", "10", "-123", "2147483648", "9007199254740993", "-9007199254740993"} {
		out = append(out, vInt(s))
	}
	one := big.NewInt(1)
	for _, k := range []int{63, 64, 200} {
		p := pow2(k)
		add(new(big.Int).Sub(p, one))
		add(p)
		add(new(big.Int).Add(p, one))
		add(new(big.Int).Neg(p))
		add(new(big.Int).Neg(new(big.Int).Add(p, one)))
	}
	return out
}

func floatPool() []*VNode {
	var out []*VNode
	for _, f := range []float64{
		0, math.Copysign(0, -1), 1, -1, 2, 0.5, -0.5, 0.1, 1.0 / 3, 1e-7, 1e15, 1e16, 1e20, 1e21, 1e22, -1e21,
		123456789, 1e308, math.MaxFloat64, -math.MaxFloat64, math.SmallestNonzeroFloat64, -math.SmallestNonzeroFloat64,
		2.2250738585072014e-308, 2.225073858507201e-308, 9007199254740992, 9007199254740994, 5e-7, 1.7976931348623157e308 / 3,
		float64(float32(0.1)), 4.35, 2.675, 1e23,
	} {
		out = append(out, vFloat(f))
	}
	return out
}

// stringPool: class representatives (DESIGN C15/C18): every control character,
// quote, backslash, slash, DEL, HTML-sensitive ASCII, first/last code points of
// each UTF-8 length, U+2028/2029, U+FFFD, BOM, non-characters, astral, mixtures
// that take each of the two quoting paths of json.go, text that looks like an
// escape, and a string longer than the 128-byte quote buffer.  All valid UTF-8
// and free of surrogates (which UTF-8 cannot encode).
func stringPool() []*VNode {
	ss := []string{"", "a", "abc", "key", " ", "\"", "\\", "/", "\x7f", "a\x7fb", "<>&", "'", "a\"b\\c/d",
		"\u0080", "\u00e9", "\u00ff", "\u07ff", "\u0800", "\u2028", "\u2029", "\ufffd", "\ufeff", "\ufffe", "\uffff", "\ud7ff", "\ue000",
		"\U00010000", "\U0001F600", "\U000E0001", "\U0010FFFF",
		"\u00e9\n", "\x7f\u00e9", "<\u00e9>", "a\u2028b", "\"\u00e9\\", "\U0001F600\U0001F600", "e\u0301",
		"\\u0041", "\\n", "\\ud800", "\\x41", "\\\"", "null", "1.0", "[1]", "{}",
		strings.Repeat("x", 130), strings.Repeat("\u00e9", 70), strings.Repeat("\"", 70),
	}
	for c := 0; c < 0x20; c++ {
		ss = append(ss, string(rune(c)))
	}
	ss = append(ss, "a\tb", "\x00\x00", "a\x00", "\x1fé")
	var out []*VNode
	for _, s := range ss {
		if !utf8.ValidString(s) {
			panic("stringPool: not UTF-8: " + fmt.Sprintf("%q", s))
		}
		out = append(out, vStr(s))
	}
	return out
}

func fullLeaves() []*VNode {
	out := []*VNode{{K: "none"}, {K: "bool", B: true}, {K: "bool", B: false}}
	out = append(out, intPool()...)
	out = append(out, floatPool()...)
	out = append(out, stringPool()...)
	return out
}

// smallLeaves: one or two representatives of each leaf class, for the larger shapes.
func smallLeaves() []*VNode {
	return []*VNode{{K: "none"}, {K: "bool", B: true}, vInt("0"), vInt("-1"), vInt(pow2(64).String()), vInt(new(big.Int).Neg(pow2(200)).String()),
		vFloat(1), vFloat(math.Copysign(0, -1)), vFloat(0.1), vFloat(1e21), vFloat(math.SmallestNonzeroFloat64),
		vStr(""), vStr("a"), vStr("\""), vStr("\n"), vStr("\u00e9"), vStr("\u2028"), vStr("\U0001F600"), vStr("\x7f")}
}

func tinyLeaves() []*VNode {
	return []*VNode{{K: "none"}, vInt("1"), vFloat(1.5), vStr("aé\n")}
}

// shareLeaves: leaves of the sharing level (rendered as Starlark literals).
func shareLeaves() []*VNode { return []*VNode{vInt("1"), vStr("a")} }

func emptyContainers() []*VNode {
	return []*VNode{{K: "list"}, {K: "tuple"}, {K: "dict"}, {K: "struct"}}
}

var containerKinds = []string{"list", "tuple", "dict", "struct"}

// member names by position for dict/struct nodes of the shape levels: the
// sort order differs from the insertion order, one needs escaping, one is not ASCII.
var posKeys = []string{"z", "a\"", "é", "b", "y", "c"}

func hexKeys(ks []string) []string {
	out := make([]string, len(ks))
	for i, k := range ks {
		out[i] = hex.EncodeToString([]byte(k))
	}
	return out
}

// enumTrees yields every tree with exactly n nodes and depth <= maxDepth whose
// leaves are taken from leaves (plus the four empty containers) and whose
// inner nodes are each of the four container kinds.  The yielded tree is only
// valid during the callback.
func enumTrees(n, maxDepth int, leaves []*VNode, yield func(*VNode)) {
	if n < 1 || maxDepth < 1 {
		return
	}
	if n == 1 {
		for _, l := range leaves {
			yield(l)
		}
		for _, e := range emptyContainers() {
			yield(e)
		}
		return
	}
	if maxDepth < 2 {
		return
	}
	// compositions of n-1 into k >= 1 ordered parts
	var sizes []int
	var comp func(rest int)
	comp = func(rest int) {
		if rest == 0 {
			kids := make([]*VNode, len(sizes))
			var fill func(i int)
			fill = func(i int) {
				if i == len(sizes) {
					for _, ck := range containerKinds {
						nd := &VNode{K: ck, Kids: kids}
						if ck == "dict" || ck == "struct" {
							nd.Keys = hexKeys(posKeys[:len(kids)])
						}
						yield(nd)
					}
					return
				}
				enumTrees(sizes[i], maxDepth-1, leaves, func(t *VNode) {
					kids[i] = t
					fill(i + 1)
				})
			}
			fill(0)
			return
		}
		for s := 1; s <= rest; s++ {
			sizes = append(sizes, s)
			comp(rest - s)
			sizes = sizes[:len(sizes)-1]
		}
	}
	comp(n - 1)
}

// clone makes the tree independent of the enumerator's scratch slices.
func (n *VNode) clone() *VNode {
	c := *n
	c.Kids = nil
	for _, k := range n.Kids {
		c.Kids = append(c.Kids, k.clone())
	}
	c.Keys = append([]string(nil), n.Keys...)
	return &c
}

// ---------------------------------------------------------------------------
// construction of real values (fresh objects on every call)

func build(n *VNode) starlark.Value {
	switch n.K {
	case "none":
		return starlark.None
	case "bool":
		return starlark.Bool(n.B)
	case "int":
		return starlark.MakeBigInt(n.big())
	case "float":
		return starlark.Float(n.f64())
	case "str":
		return starlark.String(n.str())
	case "list":
		elems := make([]starlark.Value, len(n.Kids))
		for i, k := range n.Kids {
			elems[i] = build(k)
		}
		return starlark.NewList(elems)
	case "tuple":
		elems := make(starlark.Tuple, len(n.Kids))
		for i, k := range n.Kids {
			elems[i] = build(k)
		}
		return elems
	case "dict":
		d := starlark.NewDict(len(n.Kids))
		for i, k := range n.Kids {
			if err := d.SetKey(starlark.String(n.key(i)), build(k)); err != nil {
				panic(err)
			}
		}
		return d
	case "struct":
		sd := starlark.StringDict{}
		for i, k := range n.Kids {
			sd[n.key(i)] = build(k)
		}
		return starlarkstruct.FromStringDict(starlarkstruct.Default, sd)
	case "nonstrkey": // dict with one int key: not JSON-representable
		d := starlark.NewDict(1)
		d.SetKey(starlark.MakeInt(1), starlark.MakeInt(2))
		return d
	case "builtin":
		return starlark.NewBuiltin("f", func(*starlark.Thread, *starlark.Builtin, starlark.Tuple, []starlark.Tuple) (starlark.Value, error) {
			return starlark.None, nil
		})
	}
	panic("build: kind " + n.K)
}

// representable: does JSON have a text for this value (DESIGN section 9)?
func (n *VNode) representable() bool {
	switch n.K {
	case "float":
		f := n.f64()
		return !math.IsNaN(f) && !math.IsInf(f, 0)
	case "str":
		return utf8.ValidString(n.str())
	case "nonstrkey", "builtin":
		return false
	}
	if n.Alias == "cycle" {
		return false
	}
	for i, k := range n.Kids {
		if n.Keys != nil && !utf8.ValidString(n.key(i)) {
			return false
		}
		if !k.representable() {
			return false
		}
	}
	return true
}

// mustFail: the module documentation says encoding this is an error.
func (n *VNode) mustFail() bool {
	switch n.K {
	case "float":
		f := n.f64()
		return math.IsNaN(f) || math.IsInf(f, 0)
	case "nonstrkey", "builtin":
		return true
	}
	if n.Alias == "cycle" {
		return true
	}
	for _, k := range n.Kids {
		if k.mustFail() {
			return true
		}
	}
	return false
}

// ---------------------------------------------------------------------------
// comparisons

// eqReal compares the real value v (a json.decode result) with the tree:
// tuples come back as lists, structs as dicts, everything else exactly.
func eqReal(v starlark.Value, n *VNode, path string) string {
	switch n.K {
	case "none":
		if v != starlark.None {
			return path + ": want None, got " + v.Type()
		}
	case "bool":
		if b, ok := v.(starlark.Bool); !ok || bool(b) != n.B {
			return path + ": want bool " + boolStr(n.B) + ", got " + short(v)
		}
	case "int":
		i, ok := v.(starlark.Int)
		if !ok || i.BigInt().Cmp(n.big()) != 0 {
			return path + ": want int " + n.Int + ", got " + short(v)
		}
	case "float":
		f, ok := v.(starlark.Float)
		if !ok || math.Float64bits(float64(f)) != math.Float64bits(n.f64()) {
			return fmt.Sprintf("%s: want float bits %s (%v), got %s", path, n.Bits, n.f64(), short(v))
		}
	case "str":
		s, ok := v.(starlark.String)
		if !ok || string(s) != n.str() {
			return fmt.Sprintf("%s: want string %q, got %s", path, n.str(), short(v))
		}
	case "list", "tuple":
		l, ok := v.(*starlark.List)
		if !ok || l.Len() != len(n.Kids) {
			return fmt.Sprintf("%s: want list of %d, got %s", path, len(n.Kids), short(v))
		}
		for i, k := range n.Kids {
			if m := eqReal(l.Index(i), k, fmt.Sprintf("%s[%d]", path, i)); m != "" {
				return m
			}
		}
	case "dict", "struct":
		d, ok := v.(*starlark.Dict)
		if !ok || d.Len() != len(n.Kids) {
			return fmt.Sprintf("%s: want dict of %d, got %s", path, len(n.Kids), short(v))
		}
		for i, k := range n.Kids {
			x, found, _ := d.Get(starlark.String(n.key(i)))
			if !found {
				return fmt.Sprintf("%s: key %q missing", path, n.key(i))
			}
			if m := eqReal(x, k, fmt.Sprintf("%s[%q]", path, n.key(i))); m != "" {
				return m
			}
		}
	default:
		return path + ": tree kind " + n.K
	}
	return ""
}

func short(v starlark.Value) string {
	s := v.Type() + " " + v.String()
	if len(s) > 120 {
		s = s[:120] + "..."
	}
	return s
}

// eqRefTree compares what a JSON text denotes (by the reference) with the tree.
func eqRefTree(r *Ref, n *VNode, path string) string {
	switch n.K {
	case "none":
		if r.K != rNull {
			return path + ": text denotes " + rkindName[r.K] + ", value is None"
		}
	case "bool":
		if r.K != rBool || r.B != n.B {
			return path + ": text denotes " + rkindName[r.K] + ", value is bool " + boolStr(n.B)
		}
	case "int":
		if r.K != rInt || r.I.Cmp(n.big()) != 0 {
			return path + ": text " + r.Num + " does not denote int " + n.Int
		}
	case "float":
		// "encoded using decimal point notation, even if the value is an integer":
		// the text must read back as a float, bit-identically.
		if r.K != rFloat {
			return fmt.Sprintf("%s: float %v written as %s %s, which reads back as a different type", path, n.f64(), rkindName[r.K], r.Num)
		}
		if r.Q == nil || math.Float64bits(r.F) != math.Float64bits(n.f64()) {
			return fmt.Sprintf("%s: float %v (bits %s) written as %s, which reads back as %v", path, n.f64(), n.Bits, r.Num, r.F)
		}
	case "str":
		if r.K != rStr || r.S != n.str() {
			return fmt.Sprintf("%s: text denotes %s %q, value is string %q", path, rkindName[r.K], r.S, n.str())
		}
	case "list", "tuple":
		if r.K != rArr || len(r.A) != len(n.Kids) {
			return fmt.Sprintf("%s: text denotes %s of %d, value is %s of %d", path, rkindName[r.K], len(r.A), n.K, len(n.Kids))
		}
		for i, k := range n.Kids {
			if m := eqRefTree(r.A[i], k, fmt.Sprintf("%s[%d]", path, i)); m != "" {
				return m
			}
		}
	case "dict", "struct":
		if r.K != rObj || len(r.Keys) != len(n.Kids) {
			return fmt.Sprintf("%s: text denotes %s of %d, value is %s of %d", path, rkindName[r.K], len(r.Keys), n.K, len(n.Kids))
		}
		for i, k := range n.Kids {
			j := -1
			for jj, rk := range r.Keys {
				if rk == n.key(i) {
					j = jj
				}
			}
			if j < 0 {
				return fmt.Sprintf("%s: member %q missing from the text", path, n.key(i))
			}
			if m := eqRefTree(r.Vals[j], k, fmt.Sprintf("%s[%q]", path, n.key(i))); m != "" {
				return m
			}
		}
	default:
		return path + ": tree kind " + n.K
	}
	return ""
}

// eqRefReal compares a json.decode result with the reference value of the text.
func eqRefReal(v starlark.Value, r *Ref, path string) (kind, msg string) {
	switch r.K {
	case rNull:
		if v != starlark.None {
			return "null", path + ": want None, got " + short(v)
		}
	case rBool:
		if b, ok := v.(starlark.Bool); !ok || bool(b) != r.B {
			return "bool", path + ": want " + boolStr(r.B) + ", got " + short(v)
		}
	case rInt:
		i, ok := v.(starlark.Int)
		if !ok || i.BigInt().Cmp(r.I) != 0 {
			return "int", path + ": want int " + r.Num + ", got " + short(v)
		}
	case rFloat:
		switch x := v.(type) {
		case starlark.Float:
			if math.Float64bits(float64(x)) != math.Float64bits(r.F) {
				return "float", fmt.Sprintf("%s: %s is nearest to binary64 %v (bits %016x), got %v (bits %016x)", path, r.Num, r.F, math.Float64bits(r.F), float64(x), math.Float64bits(float64(x)))
			}
		case starlark.Int:
			// "int or float depending on whether they contain a decimal point":
			// for 1e5 (exponent, no point) either kind is accepted, the number is not.
			if !r.ExpOnly || !r.Q.IsInt() || x.BigInt().Cmp(r.Q.Num()) != 0 {
				return "float", path + ": want float " + r.Num + ", got " + short(v)
			}
		default:
			return "float", path + ": want float " + r.Num + ", got " + short(v)
		}
	case rStr:
		s, ok := v.(starlark.String)
		if !ok || string(s) != r.S {
			return "string", fmt.Sprintf("%s: want string %q, got %s", path, r.S, short(v))
		}
	case rArr:
		l, ok := v.(*starlark.List)
		if !ok || l.Len() != len(r.A) {
			return "array", fmt.Sprintf("%s: want list of %d, got %s", path, len(r.A), short(v))
		}
		for i, e := range r.A {
			if k, m := eqRefReal(l.Index(i), e, fmt.Sprintf("%s[%d]", path, i)); m != "" {
				return k, m
			}
		}
	case rObj:
		d, ok := v.(*starlark.Dict)
		if !ok || d.Len() != len(r.Keys) {
			return "object", fmt.Sprintf("%s: want dict of %d, got %s", path, len(r.Keys), short(v))
		}
		for i, k := range r.Keys {
			x, found, _ := d.Get(starlark.String(k))
			if !found {
				return "object", fmt.Sprintf("%s: key %q missing", path, k)
			}
			if kk, m := eqRefReal(x, r.Vals[i], fmt.Sprintf("%s[%q]", path, k)); m != "" {
				return kk, m
			}
		}
	}
	return "", ""
}

// ---------------------------------------------------------------------------
// descriptors (violation keys)

func strClass(s string) string {
	set := map[string]bool{}
	for _, r := range s {
		switch {
		case r < 0x20:
			set["ctrl"] = true
		case r == '"':
			set["quote"] = true
		case r == '\\':
			set["backslash"] = true
		case r == 0x7f:
			set["DEL"] = true
		case r == '<' || r == '>' || r == '&':
			set["html"] = true
		case r < 0x80:
			set["ascii"] = true
		case r == 0x2028 || r == 0x2029:
			set["linesep"] = true
		case r == 0xfffd:
			set["FFFD"] = true
		case r < 0x10000:
			set["bmp"] = true
		default:
			set["astral"] = true
		}
	}
	if !utf8.ValidString(s) {
		set["notutf8"] = true
	}
	if len(s) > 128 {
		set["long"] = true
	}
	if len(set) == 0 {
		return "empty"
	}
	var ks []string
	for k := range set {
		ks = append(ks, k)
	}
	sort.Strings(ks)
	return strings.Join(ks, "+")
}

// describe: leaf values by class, composite values by their kinds only.
func (n *VNode) describe(top bool) string {
	switch n.K {
	case "str":
		if top {
			return "str[" + strClass(n.str()) + "]"
		}
		return "str"
	case "int":
		if top {
			x := n.big()
			switch {
			case x.IsInt64():
				return "int[int64]"
			default:
				return fmt.Sprintf("int[%dbit]", x.BitLen())
			}
		}
		return "int"
	case "float":
		if top {
			f := n.f64()
			switch {
			case f == 0:
				return "float[zero]"
			case math.IsNaN(f) || math.IsInf(f, 0):
				return "float[nonfinite]"
			case math.Abs(f) < 2.2250738585072014e-308:
				return "float[subnormal]"
			case math.Abs(f) >= 1e21 || math.Abs(f) < 1e-6:
				return "float[exp-notation]"
			case f == math.Trunc(f):
				return "float[integral]"
			}
			return "float[frac]"
		}
		return "float"
	case "none", "bool", "nonstrkey", "builtin":
		return n.K
	}
	var sb strings.Builder
	sb.WriteString(n.K)
	if n.Alias != "" {
		sb.WriteString("@" + n.Alias)
	}
	sb.WriteByte('(')
	for i, k := range n.Kids {
		if i > 0 {
			sb.WriteByte(',')
		}
		sb.WriteString(k.describe(false))
	}
	sb.WriteByte(')')
	return sb.String()
}

// ---------------------------------------------------------------------------
// sharing level: one alias per case, value built by a generated Starlark program

func preorder(root *VNode) (nodes []*VNode, parent []int) {
	var walk func(n *VNode, p int)
	walk = func(n *VNode, p int) {
		idx := len(nodes)
		nodes = append(nodes, n)
		parent = append(parent, p)
		for _, k := range n.Kids {
			walk(k, idx)
		}
	}
	walk(root, -1)
	return
}

func structEq(a, b *VNode) bool {
	if a.K != b.K || a.B != b.B || a.Int != b.Int || a.Bits != b.Bits || a.Hex != b.Hex || len(a.Kids) != len(b.Kids) {
		return false
	}
	for i := range a.Kids {
		if a.Keys != nil && a.Keys[i] != b.Keys[i] {
			return false
		}
		if !structEq(a.Kids[i], b.Kids[i]) {
			return false
		}
	}
	return true
}

// AliasCase is one case of the sharing level.
type AliasCase struct {
	Tree  *VNode `json:"tree"`
	Node  int    `json:"node"` // preorder index of the aliased node
	Kind  string `json:"kind"` // same | slice | cycle
	To    int    `json:"to"`   // preorder index of the target
	A     int    `json:"a"`    // slice bounds
	B     int    `json:"b"`
	Where string `json:"where"` // ancestor | elsewhere
}

// enumAliases yields every way of making exactly one node of the tree an
// alias: the same object as a structurally equal earlier container (a DAG),
// a slice t[a:b] of a tuple whose elements a..b are structurally equal to the
// node's (sharing the tuple's storage, as Tuple.Slice does), or - for an empty
// container leaf - a reference to an ancestor of the same kind (a real cycle).
// An alias of an ancestor is only generated if a mutable container lies on the
// path, because otherwise no Starlark program can construct it.
func enumAliases(root *VNode, yield func(AliasCase)) {
	nodes, parent := preorder(root)
	isAnc := func(a, b int) bool { // a is a proper ancestor of b
		for p := parent[b]; p >= 0; p = parent[p] {
			if p == a {
				return true
			}
		}
		return false
	}
	mutableBetween := func(a, b int, inclusiveA bool) bool {
		for p := parent[b]; p >= 0; p = parent[p] {
			if p == a && !inclusiveA {
				return false
			}
			if nodes[p].K == "list" || nodes[p].K == "dict" {
				return true
			}
			if p == a {
				return false
			}
		}
		return false
	}
	for b, nb := range nodes {
		if !nb.isContainer() {
			continue
		}
		for a, na := range nodes {
			if a == b || isAnc(b, a) {
				continue
			}
			anc := isAnc(a, b)
			where := "elsewhere"
			if anc {
				where = "ancestor"
			}
			// same object
			if a < b && !anc && structEq(na, nb) {
				yield(AliasCase{Tree: root, Node: b, Kind: "same", To: a, Where: where})
			}
			// tuple slice
			if na.K == "tuple" && nb.K == "tuple" && (!anc || mutableBetween(a, b, false)) {
				for lo := 0; lo <= len(na.Kids); lo++ {
					for hi := lo; hi <= len(na.Kids); hi++ {
						if hi-lo != len(nb.Kids) || (lo == 0 && hi == len(na.Kids)) {
							continue
						}
						ok := true
						for i := lo; i < hi; i++ {
							if !structEq(na.Kids[i], nb.Kids[i-lo]) {
								ok = false
							}
						}
						if ok && (!anc || !sliceCovers(nodes, parent, a, b, lo, hi)) {
							yield(AliasCase{Tree: root, Node: b, Kind: "slice", To: a, A: lo, B: hi, Where: where})
						}
					}
				}
			}
			// real cycle: empty container leaf replaced by a reference to an ancestor of its kind
			if anc && len(nb.Kids) == 0 && na.K == nb.K && mutableBetween(a, b, true) {
				yield(AliasCase{Tree: root, Node: b, Kind: "cycle", To: a, Where: where})
			}
		}
	}
}

// sliceCovers: is descendant b inside one of the elements lo..hi-1 of tuple a
// (then the slice would contain itself; cannot happen for structurally equal
// finite trees, kept as a guard).
func sliceCovers(nodes []*VNode, parent []int, a, b, lo, hi int) bool {
	c := b
	for parent[c] != a {
		c = parent[c]
	}
	for i := lo; i < hi; i++ {
		if nodes[a].Kids[i] == nodes[c] {
			return true
		}
	}
	return false
}

// literal renders a leaf as Starlark source. The sharing level only uses
// leaves for which this is trivially faithful.
func literal(n *VNode) string {
	switch n.K {
	case "none":
		return "None"
	case "bool":
		if n.B {
			return "True"
		}
		return "False"
	case "int":
		return n.Int
	case "str":
		s := n.str()
		for _, c := range []byte(s) {
			if c < 0x20 || c >= 0x7f || c == '"' || c == '\\' {
				panic("literal: string not plain")
			}
		}
		return `"` + s + `"`
	}
	panic("literal: " + n.K)
}

// program renders a Starlark program whose global `root` is the value of the
// case. Mutable containers are created empty first and filled last, immutable
// ones are created in dependency order.
func (ac AliasCase) program() string {
	nodes, _ := preorder(ac.Tree)
	var sb strings.Builder
	name := func(i int) string { return fmt.Sprintf("v%d", i) }
	emitted := map[int]bool{}
	var ref func(i int) string
	var emit func(i int)
	ref = func(i int) string {
		n := nodes[i]
		if i == ac.Node {
			switch ac.Kind {
			case "same", "cycle":
				return ref(ac.To)
			}
			return name(i)
		}
		if !n.isContainer() {
			return literal(n)
		}
		return name(i)
	}
	index := map[*VNode]int{}
	for i, n := range nodes {
		index[n] = i
	}
	// the aliased node's own subtree is never built: the alias stands for it
	skip := map[int]bool{}
	var mark func(n *VNode)
	mark = func(n *VNode) {
		for _, k := range n.Kids {
			skip[index[k]] = true
			mark(k)
		}
	}
	mark(nodes[ac.Node])
	emit = func(i int) {
		if emitted[i] || skip[i] {
			return
		}
		n := nodes[i]
		if i == ac.Node {
			emitted[i] = true
			emit(ac.To)
			if ac.Kind == "slice" {
				fmt.Fprintf(&sb, "%s = %s[%d:%d]\n", name(i), name(ac.To), ac.A, ac.B)
			}
			return
		}
		if !n.isContainer() || n.K == "list" || n.K == "dict" {
			return // leaves are literals; mutable containers already exist
		}
		emitted[i] = true
		var parts []string
		for j, k := range n.Kids {
			ki := index[k]
			emit(ki)
			if n.K == "struct" {
				parts = append(parts, fmt.Sprintf("%q: %s", n.key(j), ref(ki)))
			} else {
				parts = append(parts, ref(ki))
			}
		}
		if n.K == "struct" {
			fmt.Fprintf(&sb, "%s = struct(**{%s})\n", name(i), strings.Join(parts, ", "))
		} else {
			trail := ""
			if len(parts) == 1 {
				trail = ","
			}
			fmt.Fprintf(&sb, "%s = (%s%s)\n", name(i), strings.Join(parts, ", "), trail)
		}
	}
	for i, n := range nodes {
		if i == ac.Node || skip[i] {
			continue
		}
		switch n.K {
		case "list":
			fmt.Fprintf(&sb, "%s = []\n", name(i))
		case "dict":
			fmt.Fprintf(&sb, "%s = {}\n", name(i))
		}
	}
	for i := range nodes {
		emit(i)
	}
	for i, n := range nodes {
		if i == ac.Node || skip[i] {
			continue
		}
		for j, k := range n.Kids {
			switch n.K {
			case "list":
				fmt.Fprintf(&sb, "%s.append(%s)\n", name(i), ref(index[k]))
			case "dict":
				fmt.Fprintf(&sb, "%s[%q] = %s\n", name(i), n.key(j), ref(index[k]))
			}
		}
	}
	fmt.Fprintf(&sb, "root = %s\n", ref(0))
	return sb.String()
}
