package c18

// The specification of record for C18: an RFC 8259 recogniser and value
// builder written from the grammar in the RFC (sections 2-7), independent of
// both lib/json/json.go and encoding/json.  encoding/json is only used as a
// cross-check of this file (see stdAgrees): wherever the two disagree the
// harness stops with a harness error instead of judging starlark-go.

import (
	"bytes"
	"encoding/json"
	"io"
	"math"
	"math/big"
	"strings"
	"unicode/utf8"
)

type rkind uint8

const (
	rNull rkind = iota
	rBool
	rInt
	rFloat
	rStr
	rArr
	rObj
)

var rkindName = [...]string{"null", "bool", "int", "float", "string", "array", "object"}

// Ref is the value a JSON text denotes.
type Ref struct {
	K       rkind
	B       bool
	Num     string   // number token as written
	I       *big.Int // rInt: exact
	F       float64  // rFloat: the binary64 nearest to the exact decimal value
	Q       *big.Rat // rFloat: exact value
	ExpOnly bool     // number has an exponent but no '.', so "int or float" is not fixed by the module doc
	S       string   // rStr (lone surrogate escapes are replaced by U+FFFD and flagged)
	A       []*Ref
	Keys    []string
	Vals    []*Ref
}

// Flags mark the parts of a grammatical text whose *meaning* the RFC leaves
// to the implementation (DESIGN section 9).
type Flags struct {
	LoneSurr bool // \uD800-style escape without its partner (RFC 8259 section 8.2)
	Range    bool // number whose exact value is outside the binary64 range (section 6 / 9)
	DupKey   bool // object with a repeated member name (section 4)
	BadUTF8  bool // a string contains bytes that are not UTF-8 (section 8.1)
}

func (f Flags) any() bool { return f.LoneSurr || f.Range || f.DupKey || f.BadUTF8 }

// SynErr is the first place where the text leaves the grammar.
type SynErr struct {
	Pos  int
	Kind string
}

type rparser struct {
	s  string
	i  int
	fl Flags
}

// Recognise decides membership of s in the JSON-text grammar and builds the value.
func Recognise(s string) (*Ref, Flags, *SynErr) {
	p := &rparser{s: s}
	p.ws()
	if p.i == len(s) {
		return nil, p.fl, &SynErr{p.i, "empty"}
	}
	v, e := p.value(0)
	if e != nil {
		return nil, p.fl, e
	}
	p.ws()
	if p.i != len(s) {
		return nil, p.fl, &SynErr{p.i, "trailing"}
	}
	return v, p.fl, nil
}

// ws = *( %x20 / %x09 / %x0A / %x0D )
func (p *rparser) ws() {
	for p.i < len(p.s) {
		switch p.s[p.i] {
		case ' ', '\t', '\n', '\r':
			p.i++
		default:
			return
		}
	}
}

func (p *rparser) value(depth int) (*Ref, *SynErr) {
	if p.i >= len(p.s) {
		return nil, &SynErr{p.i, "eof"}
	}
	c := p.s[p.i]
	switch {
	case c == '{':
		return p.object(depth)
	case c == '[':
		return p.array(depth)
	case c == '"':
		s, e := p.str()
		if e != nil {
			return nil, e
		}
		return &Ref{K: rStr, S: s}, nil
	case c == '-' || (c >= '0' && c <= '9'):
		return p.number()
	case c == 't' || c == 'f' || c == 'n':
		for _, lit := range [...]string{"true", "false", "null"} {
			if strings.HasPrefix(p.s[p.i:], lit) {
				p.i += len(lit)
				switch lit {
				case "null":
					return &Ref{K: rNull}, nil
				default:
					return &Ref{K: rBool, B: lit == "true"}, nil
				}
			}
		}
		return nil, &SynErr{p.i, "literal"}
	}
	return nil, &SynErr{p.i, "unexpected-char"}
}

// array = begin-array [ value *( value-separator value ) ] end-array
func (p *rparser) array(depth int) (*Ref, *SynErr) {
	p.i++
	r := &Ref{K: rArr}
	p.ws()
	if p.i < len(p.s) && p.s[p.i] == ']' {
		p.i++
		return r, nil
	}
	for {
		p.ws()
		v, e := p.value(depth + 1)
		if e != nil {
			return nil, e
		}
		r.A = append(r.A, v)
		p.ws()
		if p.i >= len(p.s) {
			return nil, &SynErr{p.i, "eof"}
		}
		switch p.s[p.i] {
		case ',':
			p.i++
		case ']':
			p.i++
			return r, nil
		default:
			return nil, &SynErr{p.i, p.tailKind("array:separator")}
		}
	}
}

// object = begin-object [ member *( value-separator member ) ] end-object
func (p *rparser) object(depth int) (*Ref, *SynErr) {
	p.i++
	r := &Ref{K: rObj}
	p.ws()
	if p.i < len(p.s) && p.s[p.i] == '}' {
		p.i++
		return r, nil
	}
	for {
		p.ws()
		if p.i >= len(p.s) {
			return nil, &SynErr{p.i, "eof"}
		}
		if p.s[p.i] != '"' {
			return nil, &SynErr{p.i, "object:key-not-string"}
		}
		k, e := p.str()
		if e != nil {
			return nil, e
		}
		p.ws()
		if p.i >= len(p.s) {
			return nil, &SynErr{p.i, "eof"}
		}
		if p.s[p.i] != ':' {
			return nil, &SynErr{p.i, "object:missing-colon"}
		}
		p.i++
		p.ws()
		v, e := p.value(depth + 1)
		if e != nil {
			return nil, e
		}
		for _, k0 := range r.Keys {
			if k0 == k {
				p.fl.DupKey = true
			}
		}
		r.Keys = append(r.Keys, k)
		r.Vals = append(r.Vals, v)
		p.ws()
		if p.i >= len(p.s) {
			return nil, &SynErr{p.i, "eof"}
		}
		switch p.s[p.i] {
		case ',':
			p.i++
		case '}':
			p.i++
			return r, nil
		default:
			return nil, &SynErr{p.i, p.tailKind("object:separator")}
		}
	}
}

// tailKind refines "something follows a complete value" when the preceding
// value was a number: the finer class names the number rule that was broken.
func (p *rparser) tailKind(dflt string) string {
	if p.i == 0 || p.i >= len(p.s) {
		return dflt
	}
	prev, c := p.s[p.i-1], p.s[p.i]
	isNumCh := func(b byte) bool {
		return b >= '0' && b <= '9' || b == '.' || b == 'e' || b == 'E' || b == '+' || b == '-'
	}
	if prev >= '0' && prev <= '9' && isNumCh(c) {
		// walk back to the start of the number token
		j := p.i - 1
		for j > 0 && isNumCh(p.s[j-1]) {
			j--
		}
		tok := p.s[j:p.i]
		if (tok == "0" || tok == "-0") && c >= '0' && c <= '9' {
			return "number:leading-zero"
		}
		if c == '.' && !strings.ContainsAny(tok, ".eE") {
			return "number:frac-without-digits"
		}
		if (c == 'e' || c == 'E') && !strings.ContainsAny(tok, "eE") {
			return "number:exp-without-digits"
		}
		return "number:malformed-tail"
	}
	return dflt
}

func isDigit(b byte) bool { return b >= '0' && b <= '9' }

// number = [ minus ] int [ frac ] [ exp ]
func (p *rparser) number() (*Ref, *SynErr) {
	start := p.i
	if p.s[p.i] == '-' {
		p.i++
	}
	if p.i >= len(p.s) || !isDigit(p.s[p.i]) {
		return nil, &SynErr{p.i, "number:int-without-digits"}
	}
	if p.s[p.i] == '0' {
		p.i++ // int = zero / ( digit1-9 *DIGIT )
	} else {
		for p.i < len(p.s) && isDigit(p.s[p.i]) {
			p.i++
		}
	}
	frac, exp := false, false
	if p.i+1 < len(p.s) && p.s[p.i] == '.' && isDigit(p.s[p.i+1]) {
		frac = true
		p.i++
		for p.i < len(p.s) && isDigit(p.s[p.i]) {
			p.i++
		}
	}
	if p.i < len(p.s) && (p.s[p.i] == 'e' || p.s[p.i] == 'E') {
		j := p.i + 1
		if j < len(p.s) && (p.s[j] == '+' || p.s[j] == '-') {
			j++
		}
		if j < len(p.s) && isDigit(p.s[j]) {
			exp = true
			for j < len(p.s) && isDigit(p.s[j]) {
				j++
			}
			p.i = j
		}
	}
	tok := p.s[start:p.i]
	// A number token ends here.  If what follows could only be meant as part of
	// the number, the caller reports it through tailKind; at top level:
	if p.i < len(p.s) {
		c := p.s[p.i]
		if isDigit(c) || c == '.' || c == 'e' || c == 'E' || c == '+' || c == '-' {
			return nil, &SynErr{p.i, p.tailKind("number:malformed-tail")}
		}
	}
	if !frac && !exp {
		n, ok := new(big.Int).SetString(tok, 10)
		if !ok {
			panic("ref: integer token " + tok)
		}
		return &Ref{K: rInt, Num: tok, I: n}, nil
	}
	r := &Ref{K: rFloat, Num: tok, ExpOnly: exp && !frac}
	// exact value; exponents beyond any binary64 are not expanded
	if e := strings.IndexAny(tok, "eE"); e >= 0 && len(strings.TrimLeft(tok[e+1:], "+-0")) > 4 {
		p.fl.Range = true
		return r, nil
	}
	q, ok := new(big.Rat).SetString(tok)
	if !ok {
		panic("ref: number token " + tok)
	}
	r.Q = q
	f, _ := q.Float64()
	if math.IsInf(f, 0) || (f == 0 && q.Sign() != 0) {
		p.fl.Range = true
	}
	if q.Sign() == 0 && tok[0] == '-' {
		f = math.Copysign(0, -1)
	}
	r.F = f
	return r, nil
}

// string = quotation-mark *char quotation-mark
// char = unescaped / escape ( " \ / b f n r t / uXXXX );  unescaped = %x20-21 / %x23-5B / %x5D-10FFFF
func (p *rparser) str() (string, *SynErr) {
	p.i++
	var b []byte
	for {
		if p.i >= len(p.s) {
			return "", &SynErr{p.i, "string:unterminated"}
		}
		c := p.s[p.i]
		switch {
		case c == '"':
			p.i++
			return string(b), nil
		case c < 0x20:
			return "", &SynErr{p.i, "string:raw-control-char"}
		case c == '\\':
			if p.i+1 >= len(p.s) {
				return "", &SynErr{p.i, "string:unterminated"}
			}
			e := p.s[p.i+1]
			switch e {
			case '"', '\\', '/':
				b = append(b, e)
			case 'b':
				b = append(b, 8)
			case 'f':
				b = append(b, 12)
			case 'n':
				b = append(b, 10)
			case 'r':
				b = append(b, 13)
			case 't':
				b = append(b, 9)
			case 'u':
				u, ok := hex4(p.s, p.i+2)
				if !ok {
					return "", &SynErr{p.i, "string:bad-u-escape"}
				}
				p.i += 6
				switch {
				case u >= 0xD800 && u < 0xDC00:
					if p.i+1 < len(p.s) && p.s[p.i] == '\\' && p.s[p.i+1] == 'u' {
						if lo, ok := hex4(p.s, p.i+2); ok && lo >= 0xDC00 && lo < 0xE000 {
							b = utf8.AppendRune(b, 0x10000+(rune(u)-0xD800)<<10+(rune(lo)-0xDC00))
							p.i += 6
							continue
						}
					}
					p.fl.LoneSurr = true
					b = utf8.AppendRune(b, 0xFFFD)
				case u >= 0xDC00 && u < 0xE000:
					p.fl.LoneSurr = true
					b = utf8.AppendRune(b, 0xFFFD)
				default:
					b = utf8.AppendRune(b, rune(u))
				}
				continue
			default:
				return "", &SynErr{p.i, "string:bad-escape"}
			}
			p.i += 2
		case c < 0x80:
			b = append(b, c)
			p.i++
		default:
			r, n := utf8.DecodeRuneInString(p.s[p.i:])
			if r == utf8.RuneError && n <= 1 {
				p.fl.BadUTF8 = true
				n = 1
			}
			b = append(b, p.s[p.i:p.i+n]...)
			p.i += n
		}
	}
}

func hex4(s string, i int) (uint32, bool) {
	if i+4 > len(s) {
		return 0, false
	}
	var u uint32
	for _, c := range []byte(s[i : i+4]) {
		switch {
		case c >= '0' && c <= '9':
			u = u<<4 | uint32(c-'0')
		case c >= 'a' && c <= 'f':
			u = u<<4 | uint32(c-'a'+10)
		case c >= 'A' && c <= 'F':
			u = u<<4 | uint32(c-'A'+10)
		default:
			return 0, false
		}
	}
	return u, true
}

// ---------------------------------------------------------------------------
// cross-check against encoding/json (never decides anything about starlark-go)

// stdAgrees reports "" if encoding/json's verdict on doc is the one this file
// gives, where the two are meant to agree: membership always; the value
// unless a flag marks it implementation-defined.
func stdAgrees(doc string, r *Ref, fl Flags, e *SynErr) string {
	valid := json.Valid([]byte(doc))
	if valid != (e == nil) {
		return "membership: encoding/json.Valid=" + boolStr(valid) + " reference=" + boolStr(e == nil)
	}
	if !valid || fl.DupKey || fl.BadUTF8 {
		return ""
	}
	dec := json.NewDecoder(strings.NewReader(doc))
	dec.UseNumber()
	var v any
	if err := dec.Decode(&v); err != nil {
		return "encoding/json.Decode failed on a text it calls valid: " + err.Error()
	}
	if _, err := dec.Token(); err != io.EOF {
		return "encoding/json.Decode left input behind"
	}
	return stdEq(v, r)
}

func boolStr(b bool) string {
	if b {
		return "true"
	}
	return "false"
}

func stdEq(v any, r *Ref) string {
	switch x := v.(type) {
	case nil:
		if r.K != rNull {
			return "std null vs " + rkindName[r.K]
		}
	case bool:
		if r.K != rBool || r.B != x {
			return "std bool mismatch"
		}
	case json.Number:
		if (r.K != rInt && r.K != rFloat) || string(x) != r.Num {
			return "std number " + string(x) + " vs " + r.Num
		}
	case string:
		if r.K != rStr || !bytes.Equal([]byte(x), []byte(r.S)) {
			return "std string mismatch"
		}
	case []any:
		if r.K != rArr || len(x) != len(r.A) {
			return "std array mismatch"
		}
		for i := range x {
			if m := stdEq(x[i], r.A[i]); m != "" {
				return m
			}
		}
	case map[string]any:
		if r.K != rObj || len(x) != len(r.Keys) {
			return "std object mismatch"
		}
		for i, k := range r.Keys {
			y, ok := x[k]
			if !ok {
				return "std object lacks key"
			}
			if m := stdEq(y, r.Vals[i]); m != "" {
				return m
			}
		}
	default:
		return "std: unexpected Go type"
	}
	return ""
}
