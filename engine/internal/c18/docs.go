package c18

// Document side of C18: sentences of the JSON grammar by token count, lexical
// deviations (whitespace kinds at gaps, alternative spellings of scalars), and
// single-token mutations.  Nothing here decides validity: every generated
// text, whatever its origin, is judged by the reference recogniser.

import (
	"strconv"
	"strings"
)

// token kinds of a sentence shape
const (
	tS = "\x00S" // scalar site
	tK = "\x00K" // member-name site
)

// shapes returns every sentence of  value = S | [ ] | [ value (, value)* ] |
// { } | { K : value (, K : value)* }  with exactly n tokens.
func shapes(n int) [][]string {
	memoV := map[int][][]string{}
	var val, elems, members func(n int) [][]string
	cat := func(parts ...[]string) []string {
		var out []string
		for _, p := range parts {
			out = append(out, p...)
		}
		return out
	}
	val = func(n int) [][]string {
		if n < 1 {
			return nil
		}
		if r, ok := memoV[n]; ok {
			return r
		}
		var out [][]string
		if n == 1 {
			out = append(out, []string{tS})
		}
		if n == 2 {
			out = append(out, []string{"[", "]"}, []string{"{", "}"})
		}
		if n > 2 {
			for _, e := range elems(n - 2) {
				out = append(out, cat([]string{"["}, e, []string{"]"}))
			}
			for _, m := range members(n - 2) {
				out = append(out, cat([]string{"{"}, m, []string{"}"}))
			}
		}
		memoV[n] = out
		return out
	}
	elems = func(m int) [][]string {
		var out [][]string
		out = append(out, val(m)...)
		for a := 1; a <= m-2; a++ {
			for _, first := range val(a) {
				for _, rest := range elems(m - a - 1) {
					out = append(out, cat(first, []string{","}, rest))
				}
			}
		}
		return out
	}
	members = func(m int) [][]string {
		var out [][]string
		for _, v := range val(m - 2) {
			out = append(out, cat([]string{tK, ":"}, v))
		}
		for a := 3; a <= m-4; a++ {
			for _, v := range val(a - 2) {
				for _, rest := range members(m - a - 1) {
					out = append(out, cat([]string{tK, ":"}, v, []string{","}, rest))
				}
			}
		}
		return out
	}
	return val(n)
}

// whitespace kinds: the four of the grammar and six that are not.
var wsKinds = []string{" ", "\t", "\n", "\r", "\f", "\v", "\u00a0", "\u2028", "\ufeff", "\x00"}

// numberForms: every number form of the property text and their neighbours.
var numberForms = []string{
	// grammatical
	"0", "-0", "1", "-1", "10", "123", "9007199254740993", "9223372036854775807", "9223372036854775808", "-9223372036854775809",
	"18446744073709551616", "1606938044258990275541962092341162602522202993782792835301376", "-1606938044258990275541962092341162602522202993782792835301376",
	"0.5", "-0.5", "0.0", "-0.0", "1.0", "12.50", "0.1", "1e5", "1E5", "1e+5", "1E+5", "1e-5", "1E-5", "0e0", "0e+1", "-0e0", "0E-0", "1.5e3", "-1.5e3", "1.5E+3", "1e05", "1e-07",
	"1e21", "1e22", "1e23", "1e308", "1.7976931348623157e308", "5e-324", "2.2250738585072014e-308", "4.9e-324", "2.5e-324",
	"0.1000000000000000055511151231257827021181583404541015625", "9007199254740993.0", "123456789012345678901234567890.0", "0.30000000000000004",
	// grammatical, value outside binary64 (not judged)
	"1e309", "1e400", "-1e400", "1e-400", "2e-324", "1.7976931348623159e308", "1e99999",
	// not grammatical
	"01", "-01", "00", "-00", "007", "0123", "1.", "-1.", "0.", "1.e5", "1.E5", "0.e1", ".5", "-.5", ".", "-.", "-", "+1", "+0", "+", "1e", "1E", "1e+", "1e-", "1E+", "-e5", "e5",
	"1.5.", "1..5", "1.2.3", "1e5.5", "1e5e5", "1e1e1", "--1", "-+1", "+-1", "1-", "1+", "1-2", "0x10", "0X1F", "1_0", "1,0", "1 2", "- 1", "1 .5", "1e 5",
	"Infinity", "-Infinity", "NaN", "inf", "nan", "1f", "1L", "1n", "0b1", "0o7", "1/2", "²", "١", "１",
}

// stringForms: the spellings of a JSON string, grammatical and not.
var stringForms = func() []string {
	f := []string{
		// grammatical
		`""`, `"a"`, `"abc"`, `" "`, `"\""`, `"\\"`, `"\/"`, `"/"`, `"\b"`, `"\f"`, `"\n"`, `"\r"`, `"\t"`,
		`"\u0041"`, `"\u00e9"`, `"\u00E9"`, `"\u00eF"`, `"\u0000"`, `"\u001f"`, `"\u001F"`, `"\u007f"`, `"\u0080"`, `"\u2028"`, `"\u2029"`, `"\ufffd"`, `"\uFFFF"`, `"\ufeff"`,
		`"\ud83d\ude00"`, `"\uD83D\uDE00"`, `"\ud800\udc00"`, `"\udbff\udfff"`, `"a\ud83d\ude00b"`, `"\u0022"`, `"\u005c"`, `"\u005C\u0022"`,
		`"\\u0041"`, `"\\\""`, `"\\n"`, `"a\\"`, `"\"\""`, `"\/\/"`, `"\u00e9\n"`, `"'"`, `"a'b"`, `"<>&"`, `"null"`, `"1"`, `"[]"`, `"//"`, `"/**/"`,
		"\"\x7f\"", "\"a\x7fb\"", "\"\u00e9\"", "\"\u0080\"", "\"\u07ff\"", "\"\u0800\"", "\"\u2028\"", "\"\u2029\"", "\"\ufffd\"", "\"\uffff\"", "\"\ufeff\"", "\"\U00010000\"", "\"\U0001F600\"", "\"\U0010FFFF\"",
		"\"\u00e9\\n\"", "\"\\n\u00e9\"", "\"\x7f\u00e9\"", "\"\x7f\\\\\"",
		// grammatical, value implementation-defined (lone surrogates): acceptance only
		`"\ud800"`, `"\udc00"`, `"\uD800"`, `"\udfff"`, `"\ud800a"`, `"\ud800\u0041"`, `"\ud800\ud800"`, `"\udc00\ud800"`, `"\ud800\n"`, `"a\udbffb"`, `"\ud83d\u00e9"`, `"\ud83d\\ude00"`,
		// not grammatical: raw control characters
		"\"\t\"", "\"\n\"", "\"\r\"", "\"\x00\"", "\"\x01\"", "\"\x08\"", "\"\x0c\"", "\"\x1b\"", "\"\x1f\"", "\"a\tb\"", "\"\t\t\"", "\" \n\"",
		"\"\u00e9\t\"", "\"\t\u00e9\"", "\"\\n\t\"", "\"\t\\n\"", "\"\\\\\x01\"", "\"\x7f\t\"",
		// not grammatical: escapes
		`"\a"`, `"\v"`, `"\x41"`, `"\'"`, `"\0"`, `"\e"`, `"\U0001F600"`, `"\N"`, `"\ "`, `"\u"`, `"\u1"`, `"\u12"`, `"\u123"`, `"\u12G4"`, `"\u 123"`, `"\u+123"`, `"\u-123"`, `"\uD83D\"`, `"\ud83d\u"`, `"\ud83d\ude0"`,
		`"\u00e9\a"`, "\"\\\n\"", "\"\\\t\"", "\"\\\u00e9\"",
		// not grammatical: delimiters
		`"`, `"a`, `"a\"`, `"\`, `"\\\"`, `'a'`, `''`, `a`, `"a"b"`, `"a""`, `""a"`, `"a" "b"`, "`a`", `“a”`, `"a"'`,
	}
	// raw control characters, exhaustively
	for c := 0; c < 0x20; c++ {
		f = append(f, "\""+string(rune(c))+"\"")
	}
	// not UTF-8 inside a string (RFC 8259 section 8.1; left unjudged, see DESIGN section 9)
	f = append(f, "\"\xff\"", "\"\xc3\"", "\"a\xc3\"", "\"\xc0\x80\"", "\"\xed\xa0\x80\"", "\"\xf0\x9f\x98\"", "\"\x80\"", "\"\xf8\x88\x80\x80\x80\"", "\"\xff\\n\"", "\"\xff\t\"", "\"\xc3\xa9\xff\"")
	return dedupe(f)
}()

var literalForms = []string{"null", "true", "false",
	"nul", "nulll", "Null", "NULL", "n", "none", "None", "nil", "tru", "True", "TRUE", "truee", "t", "fals", "False", "falsee", "f", "undefined", "nullnull", "truefalse", "null0", "0null", "true\"a\"",
	"\xff", "\xc3\xa9", "\xef\xbb\xbf", "#", "//", "/**/", "$", "@", "\\", "\\n", "?", "=", ";", "(", ")", "<", "*"}

func dedupe(xs []string) []string {
	seen := map[string]bool{}
	var out []string
	for _, x := range xs {
		if !seen[x] {
			seen[x] = true
			out = append(out, x)
		}
	}
	return out
}

func allForms() []string {
	var f []string
	f = append(f, numberForms...)
	f = append(f, stringForms...)
	f = append(f, literalForms...)
	return dedupe(f)
}

// reducedForms: one representative per lexical rule, used where the full
// pool squared would not fit the quick tier.
func reducedForms() []string {
	return dedupe([]string{
		"-0", "10", "18446744073709551616", "0.5", "-0.0", "1e5", "1E+5", "1e-5", "-1.5e3", "1e400",
		"01", "-01", "1.", "1.e5", ".5", "-.5", "-", "+1", "1e", "1e+", "1.2.3", "0x10", "NaN",
		`""`, `"a"`, `"\""`, `"\\"`, `"\/"`, `"\n"`, `"\u00e9"`, `"\u0000"`, `"\ud83d\ude00"`, `"\ud800"`, `"\udc00\ud800"`,
		"\"\x7f\"", "\"\u00e9\"", "\"\u2028\"", "\"\U0001F600\"",
		"\"\t\"", "\"\n\"", "\"\x00\"", "\"\x1f\"", "\"\u00e9\t\"", `"\a"`, `"\x41"`, `"\u12"`, `"\u12G4"`, `"`, `"a`, `"\`, `'a'`, "\"\xff\"", "\"\xc3\"",
		"null", "true", "false", "nul", "Null", "truee", "\xef\xbb\xbf", "//", "\\",
	})
}

// baseScalar/baseKey fill the sites that carry no deviation.
const baseScalar = "0"

func baseKey(i int) string { return `"k` + string(rune('0'+i)) + `"` }

// instantiate renders a shape with the given site texts and per-gap insertions.
func render(toks []string, gaps []string) string {
	var sb strings.Builder
	for i, t := range toks {
		if gaps != nil {
			sb.WriteString(gaps[i])
		}
		sb.WriteString(t)
	}
	if gaps != nil {
		sb.WriteString(gaps[len(toks)])
	}
	return sb.String()
}

// enumDeviations yields the base document of the shape and every document
// with one or two lexical deviations: a whitespace kind inserted at a gap, or
// a scalar/key site respelled with a form.  forms2 is the pool used when two
// sites are respelled at once.
func enumDeviations(shape []string, forms1, forms2 []string, yield func(doc string)) {
	n := len(shape)
	base := make([]string, n)
	var sites []int
	nk := 0
	for i, t := range shape {
		switch t {
		case tS:
			base[i] = baseScalar
			sites = append(sites, i)
		case tK:
			base[i] = baseKey(nk)
			nk++
			sites = append(sites, i)
		default:
			base[i] = t
		}
	}
	toks := make([]string, n)
	gaps := make([]string, n+1)
	reset := func() {
		copy(toks, base)
		for i := range gaps {
			gaps[i] = ""
		}
	}
	// 0 deviations
	reset()
	yield(render(toks, gaps))
	// 1 deviation
	for g := 0; g <= n; g++ {
		for _, w := range wsKinds {
			reset()
			gaps[g] = w
			yield(render(toks, gaps))
		}
	}
	for _, s := range sites {
		for _, f := range forms1 {
			reset()
			toks[s] = f
			yield(render(toks, gaps))
		}
	}
	// 2 deviations: ws+ws (two gaps, or both orders at one gap)
	for g1 := 0; g1 <= n; g1++ {
		for _, w1 := range wsKinds {
			for g2 := g1; g2 <= n; g2++ {
				for _, w2 := range wsKinds {
					reset()
					gaps[g1] = w1
					gaps[g2] += w2
					yield(render(toks, gaps))
				}
			}
		}
	}
	// ws + form
	for g := 0; g <= n; g++ {
		for _, w := range wsKinds {
			for _, s := range sites {
				for _, f := range forms1 {
					reset()
					gaps[g] = w
					toks[s] = f
					yield(render(toks, gaps))
				}
			}
		}
	}
	// form + form at two different sites
	for a := 0; a < len(sites); a++ {
		for b := a + 1; b < len(sites); b++ {
			for _, f1 := range forms2 {
				for _, f2 := range forms2 {
					reset()
					toks[sites[a]] = f1
					toks[sites[b]] = f2
					yield(render(toks, gaps))
				}
			}
		}
	}
}

// mutation alphabets
var mutScalars = []string{"null", "true", "false", "0", "-1.5e3", `"a"`, `"\u00e9\n"`}
var mutKeys = []string{`"a"`, `"b\""`}
var mutReplacements = []string{"{", "}", "[", "]", ",", ":", "null", "true", "0", "1.5", `"a"`, `'a'`, "nul", "/**/", " ", `"`, `\`, "-", ".", "e", "\t", "\x00"}

// enumValidDocs yields the token sequence of every sentence with exactly n
// tokens over the mutation alphabets.
func enumValidDocs(n int, yield func(toks []string)) {
	for _, sh := range shapes(n) {
		toks := make([]string, len(sh))
		var rec func(i, nk int)
		rec = func(i, nk int) {
			if i == len(sh) {
				yield(toks)
				return
			}
			switch sh[i] {
			case tS:
				for _, s := range mutScalars {
					toks[i] = s
					rec(i+1, nk)
				}
			case tK:
				for _, k := range mutKeys {
					toks[i] = k
					rec(i+1, nk+1)
				}
			default:
				toks[i] = sh[i]
				rec(i+1, nk)
			}
		}
		rec(0, 0)
	}
}

// enumMutations yields every single-token deletion, duplication and
// replacement of the sentence, joined without and with a separating space.
func enumMutations(toks []string, yield func(doc string)) {
	for _, sep := range []string{"", " "} {
		yield(strings.Join(toks, sep))
		buf := make([]string, 0, len(toks)+1)
		for i := range toks {
			// deletion
			buf = append(append(buf[:0], toks[:i]...), toks[i+1:]...)
			yield(strings.Join(buf, sep))
			// duplication
			buf = append(append(append(buf[:0], toks[:i+1]...), toks[i]), toks[i+1:]...)
			yield(strings.Join(buf, sep))
			// replacement
			for _, r := range mutReplacements {
				if r == toks[i] {
					continue
				}
				buf = append(append(append(buf[:0], toks[:i]...), r), toks[i+1:]...)
				yield(strings.Join(buf, sep))
			}
		}
	}
}

// specials: documents outside the token-count scheme.
func specialDocs() []string {
	deep := func(open, close string, n int, inner string) string {
		return strings.Repeat(open, n) + inner + strings.Repeat(close, n)
	}
	return []string{
		"", " ", "\n", "\t\r\n ", "\ufeff", "\ufeff0", "\ufeff[]", "0\ufeff",
		`{"a":1,"a":2}`, `{"a":1,"\u0061":2}`, `{"a":1,"b":2,"a":3}`, `{"a":{"a":1}}`, `{"":0}`, `{"":0,"":1}`,
		`{"a":1,"b":2}`, `{"b":1,"a":2}`, `[1,2,3]`, `[[1,2],[3,4]]`, `{"a":[1,{"b":null}],"c":"d"}`,
		`{"a":1,}`, `[1,]`, `[,1]`, `[1,,2]`, `{,}`, `{"a"}`, `{"a":}`, `{:1}`, `{"a":1 "b":2}`, `{"a":1,"b"}`, `[1 2]`, `{1:2}`, `{null:1}`, `{[]:1}`, `{"a":1:2}`,
		`[1}`, `{"a":1]`, `[`, `]`, `{`, `}`, `[[`, `[]]`, `{}}`, `[]{}`, `[] []`, `0 0`, `null null`, `,`, `:`, `[:]`, `{[]}`, `[{]}`,
		deep("[", "]", 30, ""), deep("[", "]", 30, "0"), deep(`{"a":`, "}", 30, "null"), deep("[", "]", 200, `"x"`), deep("[", "", 30, ""), deep("", "]", 30, ""),
		`"` + strings.Repeat("a", 300) + `"`, `"` + strings.Repeat(`\n`, 150) + `"`, `"` + strings.Repeat("\u00e9", 150) + `"`, strings.Repeat("1", 400), "0." + strings.Repeat("0", 400) + "1", "1" + strings.Repeat("0", 400) + ".0",
		"[" + strings.Repeat("0,", 200) + "0]", " [ 1 , 2 ] ", "\n{\n\t\"a\" : [ ] ,\r\n \"b\" : { }\n}\n",
		`/* c */ 1`, `1 // c`, `[1, /* c */ 2]`, `# c` + "\n1", `{a:1}`, `{'a':1}`, `[1;2]`, `(1)`, `[1,2)`, `<1>`, `[true,false,null]`, `[True]`, `[nul]`,
	}
}

// wideDocs: flat documents with very many members.  A decoder keeps state
// from one member to the next (position, nesting depth, scratch buffers), so
// every kind of member is also read as the k-th of n equal neighbours, with n
// on both sides of the documented nesting limit (10000) and of powers of two.
func wideDocs(thorough bool, yield func(string)) {
	elems := []string{"[]", "{}", "0", `""`, "[0]", `{"a":0}`, "[[]]", "null", `{"a":[]}`, "-1.5e3", `"\u00e9"`, `[{}]`, `{"a":{}}`, "true"}
	widths := []int{100, 1000, 9999, 10000, 10001, 20001, 65537}
	if thorough {
		widths = append(widths, 100000, 300001)
	}
	for _, n := range widths {
		for _, e := range elems {
			var sb strings.Builder
			// array of n
			sb.WriteByte('[')
			for i := 0; i < n; i++ {
				if i > 0 {
					sb.WriteByte(',')
				}
				sb.WriteString(e)
			}
			sb.WriteByte(']')
			yield(sb.String())
			// the same with white space and line ends between the members
			sb.Reset()
			sb.WriteString("[\n")
			for i := 0; i < n; i++ {
				if i > 0 {
					sb.WriteString(" ,\r\n\t")
				}
				sb.WriteString(e)
			}
			sb.WriteString("\n]")
			yield(sb.String())
			// object of n distinct members
			sb.Reset()
			sb.WriteByte('{')
			for i := 0; i < n; i++ {
				if i > 0 {
					sb.WriteByte(',')
				}
				sb.WriteString(`"k`)
				sb.WriteString(strconv.Itoa(i))
				sb.WriteString(`":`)
				sb.WriteString(e)
			}
			sb.WriteByte('}')
			yield(sb.String())
			// n/2 pairs, each in its own array
			sb.Reset()
			sb.WriteByte('[')
			for i := 0; i < n/2; i++ {
				if i > 0 {
					sb.WriteByte(',')
				}
				sb.WriteString("[" + e + "," + e + "]")
			}
			sb.WriteByte(']')
			yield(sb.String())
		}
	}
}
