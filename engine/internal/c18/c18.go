// Package c18 decides C18: JSON encoding and decoding are faithful.
//
// Shape E: bounded exhaustive enumeration of (a) Starlark values by node
// count, including shared sub-objects, tuple slices and real cycles, (b) JSON
// texts: every sentence of the RFC 8259 grammar by token count with 0-2
// lexical deviations, (c) every single-token deletion, duplication and
// replacement of valid sentences.  The real lib/json module is run on every
// one; the oracle is the RFC 8259 recogniser + value builder in ref.go.
package c18

import (
	"bytes"
	"encoding/hex"
	"encoding/json"
	"fmt"
	"hash/fnv"
	"math"
	"runtime"
	"sort"
	"strings"

	sjson "go.starlark.net/lib/json"
	"go.starlark.net/starlark"
	"go.starlark.net/starlarkstruct"
	"go.starlark.net/syntax"

	"verif/internal/fw"
)

// ---------------------------------------------------------------------------
// the implementation under test

type sentinelT struct{}

func (sentinelT) String() string        { return "<default>" }
func (sentinelT) Type() string          { return "sentinel" }
func (sentinelT) Freeze()               {}
func (sentinelT) Truth() starlark.Bool  { return true }
func (sentinelT) Hash() (uint32, error) { return 0, fmt.Errorf("unhashable") }

type env struct {
	th       *starlark.Thread
	encode   starlark.Value
	decode   starlark.Value
	sentinel starlark.Value
	pre      starlark.StringDict
}

func newEnv() *env {
	return &env{
		th:       &starlark.Thread{Name: "c18"},
		encode:   sjson.Module.Members["encode"],
		decode:   sjson.Module.Members["decode"],
		sentinel: &sentinelT{},
		pre: starlark.StringDict{
			"json":   sjson.Module,
			"struct": starlark.NewBuiltin("struct", starlarkstruct.Make),
		},
	}
}

func (e *env) enc(v starlark.Value) (out string, err error, panicked string) {
	defer func() {
		if r := recover(); r != nil {
			panicked = fmt.Sprint(r)
		}
	}()
	r, err := starlark.Call(e.th, e.encode, starlark.Tuple{v}, nil)
	if err != nil {
		return "", err, ""
	}
	s, ok := r.(starlark.String)
	if !ok {
		return "", nil, "json.encode returned " + r.Type()
	}
	return string(s), nil, ""
}

func (e *env) dec(doc string, withDefault bool) (v starlark.Value, err error, panicked string) {
	defer func() {
		if r := recover(); r != nil {
			panicked = fmt.Sprint(r)
		}
	}()
	var kw []starlark.Tuple
	if withDefault {
		kw = []starlark.Tuple{{starlark.String("default"), e.sentinel}}
	}
	v, err = starlark.Call(e.th, e.decode, starlark.Tuple{starlark.String(doc)}, kw)
	return v, err, ""
}

// ---------------------------------------------------------------------------
// judgements

type finding struct{ key, what string }

func q(s string) string {
	if len(s) > 200 {
		return fmt.Sprintf("%q...(%d bytes)", s[:200], len(s))
	}
	return fmt.Sprintf("%q", s)
}

func features(doc string) string {
	var fs []string
	add := func(c bool, f string) {
		if c {
			fs = append(fs, f)
		}
	}
	add(strings.Contains(doc, "["), "array")
	add(strings.Contains(doc, "{"), "object")
	add(strings.Contains(doc, `\u`), "uescape")
	add(strings.Contains(strings.ReplaceAll(doc, `\u`, ""), `\`), "escape")
	add(strings.ContainsAny(doc, " \t\r\n"), "ws")
	add(strings.Contains(doc, "\x7f"), "DEL")
	add(strings.IndexFunc(doc, func(r rune) bool { return r >= 0x80 }) >= 0, "nonascii")
	add(strings.Contains(doc, "."), "frac")
	add(strings.ContainsAny(doc, "eE") && strings.ContainsAny(doc, "0123456789"), "e")
	add(strings.Contains(doc, "-"), "minus")
	if len(fs) == 0 {
		return "plain"
	}
	return strings.Join(fs, "+")
}

// judgeDoc runs json.decode (with and without default=) on doc and compares
// with the reference.  class is the outcome class for the vacuity guard;
// judged is false when DESIGN section 9 leaves the text's meaning open.
func (e *env) judgeDoc(doc string) (fs []finding, class string, judged bool) {
	r, fl, se := Recognise(doc)
	if m := stdAgrees(doc, r, fl, se); m != "" {
		fw.Fatal("C18 oracle self-check: reference and encoding/json disagree on %q: %s", doc, m)
	}
	v, err, pan := e.dec(doc, false)
	v2, err2, pan2 := e.dec(doc, true)
	if pan != "" || pan2 != "" {
		return []finding{{"decode:panic", fmt.Sprintf("json.decode(%s) panicked: %s %s", q(doc), pan, pan2)}}, "panic", true
	}
	accepted := err == nil
	// the two call forms must tell the same story
	if err2 != nil {
		fs = append(fs, finding{"decode:default-variant-fails", fmt.Sprintf("json.decode(%s, default=D) failed: %v", q(doc), err2)})
	} else if accepted == (v2 == e.sentinel) {
		fs = append(fs, finding{"decode:default-inconsistent", fmt.Sprintf("json.decode(%s) accepted=%v but with default=D the default was returned=%v", q(doc), accepted, v2 == e.sentinel)})
	}
	switch {
	case se != nil:
		class = "invalid:" + se.Kind
		if accepted {
			fs = append(fs, finding{"decode:accepts-invalid:" + se.Kind,
				fmt.Sprintf("json.decode(%s) returned %s, but the text is not JSON (RFC 8259: %s at byte %d); it must fail, and with default=D return D (returned default: %v)", q(doc), short(v), se.Kind, se.Pos, err2 == nil && v2 == e.sentinel)})
			class += ":ACCEPTED"
		}
		return fs, class, true
	case fl.BadUTF8 || fl.DupKey || fl.Range:
		// meaning (and for BadUTF8/Range also acceptance) left to the implementation
		class = "unjudged:"
		switch {
		case fl.BadUTF8:
			class += "not-utf8"
		case fl.DupKey:
			class += "duplicate-member-name"
		default:
			class += "number-outside-binary64"
		}
		if accepted {
			class += ":accepted"
		} else {
			class += ":rejected"
		}
		return fs, class, false
	}
	// grammatical
	class = "valid"
	if fl.LoneSurr {
		class = "valid:lone-surrogate(acceptance only)"
	}
	if !accepted {
		fs = append(fs, finding{"decode:rejects-valid:" + features(doc), fmt.Sprintf("json.decode(%s) failed (%v), but the text is valid JSON", q(doc), err)})
		return fs, class + ":REJECTED", true
	}
	if !fl.LoneSurr {
		if k, m := eqRefReal(v, r, "x"); m != "" {
			fs = append(fs, finding{"decode:wrong-value:" + k, fmt.Sprintf("json.decode(%s): %s", q(doc), m)})
			class += ":WRONG"
		} else if err2 == nil && v2 != e.sentinel {
			if k, m := eqRefReal(v2, r, "x"); m != "" {
				fs = append(fs, finding{"decode:wrong-value-with-default:" + k, fmt.Sprintf("json.decode(%s, default=D): %s", q(doc), m)})
			}
		}
	}
	return fs, class, true
}

// judgeValue runs json.encode on the real value v, which the tree n describes.
func (e *env) judgeValue(n *VNode, v starlark.Value) (kind, what, class string) {
	out, err, pan := e.enc(v)
	if pan != "" {
		return "encode:panic", "json.encode panicked: " + pan, "panic"
	}
	if n.mustFail() {
		if err == nil {
			return "encode:accepts-unrepresentable", fmt.Sprintf("json.encode returned %s for a value the module documentation says is an error (non-finite float, non-string key, cycle, or unencodable type)", q(out)), "must-fail:ACCEPTED"
		}
		return "", "", "must-fail:error"
	}
	if !n.representable() {
		// not UTF-8: JSON has no text for it; only "valid JSON or error" is demanded
		if err != nil {
			return "", "", "not-utf8:error"
		}
		if _, _, se := Recognise(out); se != nil {
			return "encode:not-valid-json", fmt.Sprintf("json.encode returned %s, which is not JSON (%s at byte %d)", q(out), se.Kind, se.Pos), "not-utf8:BAD"
		}
		return "", "", "not-utf8:some-json"
	}
	if err != nil {
		return "encode:error-on-representable", fmt.Sprintf("json.encode failed (%v) on a finite, acyclic value with string keys", err), "ERROR"
	}
	r, fl, se := Recognise(out)
	if m := stdAgrees(out, r, fl, se); m != "" {
		fw.Fatal("C18 oracle self-check: reference and encoding/json disagree on %q: %s", out, m)
	}
	if se != nil {
		return "encode:not-valid-json", fmt.Sprintf("json.encode returned %s, which is not JSON (RFC 8259: %s at byte %d)", q(out), se.Kind, se.Pos), "NOT-JSON"
	}
	if fl.any() {
		return "encode:implementation-defined-json", fmt.Sprintf("json.encode returned %s, whose meaning RFC 8259 leaves open (%+v)", q(out), fl), "OPEN-JSON"
	}
	if m := eqRefTree(r, n, "x"); m != "" {
		return "encode:denotes-different-value", fmt.Sprintf("json.encode returned %s: %s", q(out), m), "DIFFERENT"
	}
	dv, derr, pan := e.dec(out, false)
	if pan != "" {
		return "decode:panic", "json.decode panicked on " + q(out) + ": " + pan, "panic"
	}
	if derr != nil {
		return "roundtrip:decode-rejects-encode-output", fmt.Sprintf("json.decode(json.encode(x)) failed: encode gave %s, decode said %v", q(out), derr), "RT-REJECT"
	}
	if m := eqReal(dv, n, "x"); m != "" {
		return "roundtrip:value-differs", fmt.Sprintf("json.decode(json.encode(x)) != x: encode gave %s; %s", q(out), m), "RT-DIFF"
	}
	dv2, derr2, _ := e.dec(out, true)
	if derr2 != nil || dv2 == e.sentinel {
		return "roundtrip:default-returned-for-valid", fmt.Sprintf("json.decode(%s, default=D) returned D / failed (%v)", q(out), derr2), "RT-DEFAULT"
	}
	if m := eqReal(dv2, n, "x"); m != "" {
		return "roundtrip:value-differs-with-default", fmt.Sprintf("json.decode(%s, default=D): %s", q(out), m), "RT-DIFF"
	}
	return "", "", "ok:" + rkindName[r.K]
}

// ---------------------------------------------------------------------------
// cases (replay files)

type Case struct {
	Type    string     `json:"type"`              // doc | value | share
	Doc     string     `json:"doc,omitempty"`     // quoted, for the reader
	DocHex  string     `json:"doc_hex,omitempty"` // exact bytes
	Tree    *VNode     `json:"tree,omitempty"`
	Share   *AliasCase `json:"share,omitempty"`
	Program string     `json:"program,omitempty"` // Starlark source that builds `root` (share cases)
	Level   string     `json:"level,omitempty"`
}

func docCase(doc, level string) Case {
	return Case{Type: "doc", Doc: fmt.Sprintf("%q", doc), DocHex: hex.EncodeToString([]byte(doc)), Level: level}
}

// shareValue executes the generated program and returns its `root`.
func (e *env) shareValue(ac AliasCase) (starlark.Value, *VNode, string, error) {
	prog := ac.program()
	g, err := starlark.ExecFileOptions(&syntax.FileOptions{}, e.th, "share.star", prog, e.pre)
	if err != nil {
		return nil, nil, prog, err
	}
	// expectation: the tree itself; for a cycle the aliased leaf is marked
	exp := ac.Tree
	if ac.Kind == "cycle" {
		exp = ac.Tree.clone()
		nodes, _ := preorder(exp)
		nodes[ac.Node].Alias = "cycle"
	}
	return g["root"], exp, prog, nil
}

func shareKey(kind string, ac AliasCase) string {
	return fmt.Sprintf("%s:alias=%s-of-%s", kind, ac.Kind, ac.Where)
}

// ---------------------------------------------------------------------------
// worker

type worker struct {
	c    *fw.Ctx
	e    *env
	st   *fw.Stats
	n    int64 // running case index (value cases are sharded by index)
	seen map[uint64]struct{}
	cut  bool
	lvl  string
	tick int
	best map[string]fw.Viol // smallest case per violation key
}

// violate keeps, per key, the smallest case (shortest replay record, then
// bytewise least), so that the reported case does not depend on sharding.
func (w *worker) violate(key, what string, cs Case) {
	raw, _ := json.Marshal(cs)
	b, ok := w.best[key]
	if !ok || len(raw) < len(b.Case) || (len(raw) == len(b.Case) && bytes.Compare(raw, b.Case) < 0) {
		w.best[key] = fw.Viol{Key: key, What: what, Case: raw}
	}
	w.st.Count("violating_cases", 1)
}

func (w *worker) expired() bool {
	if w.cut {
		return true
	}
	w.tick++
	if w.tick&1023 == 0 && w.c.Expired() {
		w.cut = true
	}
	return w.cut
}

// doc judges one text; texts are sharded by content hash so that each distinct
// text is judged exactly once over all shards.
func (w *worker) doc(doc string) {
	if w.expired() {
		return
	}
	h := fnv.New64a()
	h.Write([]byte(doc))
	hv := h.Sum64()
	if w.c.NShards > 1 && int(hv%uint64(w.c.NShards)) != w.c.Shard {
		return
	}
	if _, dup := w.seen[hv]; dup {
		w.st.Count("duplicate_texts_skipped", 1)
		return
	}
	w.seen[hv] = struct{}{}
	fs, class, judged := w.e.judgeDoc(doc)
	w.st.Evals += 2
	w.st.Count("documents", 1)
	if judged {
		w.st.Nontrivial++
	} else {
		w.st.Count("documents_unjudged(section 9)", 1)
	}
	w.st.Outcome("decode " + class)
	for _, f := range fs {
		w.violate(f.key, f.what, docCase(doc, w.lvl))
	}
	if len(w.st.Samples) < 3 && judged && len(doc) > 6 && hv%97 == 0 {
		w.st.Sample(map[string]any{"level": w.lvl, "doc": doc, "class": class})
	}
}

// value judges one unshared value tree.
func (w *worker) value(n *VNode) {
	if w.expired() {
		return
	}
	w.n++
	if !w.c.Mine(w.n) {
		return
	}
	kind, what, class := w.e.judgeValue(n, build(n))
	w.st.Evals += 3
	w.st.Count("values", 1)
	w.st.Nontrivial++
	w.st.Outcome("encode " + class)
	if kind != "" {
		// a composite value whose failing part also fails on its own adds nothing
		masked := false
		for i, k := range n.Kids {
			if k2, _, _ := w.e.judgeValue(k, build(k)); k2 != "" {
				masked = true
			}
			if n.Keys != nil {
				ks := vStr(n.key(i))
				if k2, _, _ := w.e.judgeValue(ks, build(ks)); k2 != "" {
					masked = true
				}
			}
		}
		if masked {
			w.st.Count("values_failing_only_through_a_failing_subvalue", 1)
		} else {
			// a string that fails because of one of its characters is reported as that character
			if n.K == "str" {
				for _, r := range n.str() {
					one := vStr(string(r))
					if string(r) == n.str() {
						break
					}
					if k1, w1, _ := w.e.judgeValue(one, build(one)); k1 != "" {
						n, kind, what = one, k1, w1
						break
					}
				}
			}
			w.violate(kind+":"+n.describe(true), what+"  [value: "+short(build(n))+"]", Case{Type: "value", Tree: n.clone(), Level: w.lvl})
		}
	}
	if len(w.st.Samples) < 6 && w.n%7919 == 0 {
		out, _, _ := w.e.enc(build(n))
		w.st.Sample(map[string]any{"level": w.lvl, "value": short(build(n)), "encoded": out, "class": class})
	}
}

func (w *worker) share(ac AliasCase) {
	if w.expired() {
		return
	}
	w.n++
	if !w.c.Mine(w.n) {
		return
	}
	prog := ac.program()
	if ac.Kind == "cycle" && !w.c.Risky("cycle\x00"+prog) {
		return
	}
	v, exp, _, err := w.e.shareValue(ac)
	if err != nil {
		fw.Fatal("C18 sharing level: generated program does not run: %v\n%s", err, prog)
	}
	kind, what, class := w.e.judgeValue(exp, v)
	w.st.Evals += 3
	w.st.Count("shared_values", 1)
	w.st.Count("shared_values:"+ac.Kind+"-of-"+ac.Where, 1)
	w.st.Nontrivial++
	w.st.Outcome("encode shared " + ac.Kind + " " + class)
	if kind != "" {
		cc := ac
		cc.Tree = ac.Tree.clone()
		w.violate(shareKey(kind, ac), what+"  [program: "+strings.ReplaceAll(prog, "\n", "; ")+"json.encode(root)]", Case{Type: "share", Share: &cc, Program: prog, Level: w.lvl})
	}
	if ac.Kind == "slice" && ac.Where == "ancestor" && w.n%5 == 0 {
		w.st.Sample(map[string]any{"level": w.lvl, "program": prog, "class": class})
	}
}

func (w *worker) level(name string, f func()) {
	if w.cut || w.c.Expired() {
		w.cut = true
		w.st.Cut = append(w.st.Cut, name)
		return
	}
	w.lvl = name
	f()
	if w.cut {
		w.st.Cut = append(w.st.Cut, name)
	} else {
		w.st.Levels = append(w.st.Levels, name)
	}
}

func notRepresentable() []*VNode {
	wrap := func(n *VNode) []*VNode {
		return []*VNode{n,
			{K: "list", Kids: []*VNode{n}}, {K: "tuple", Kids: []*VNode{vInt("1"), n}},
			{K: "dict", Kids: []*VNode{n}, Keys: hexKeys([]string{"k"})}, {K: "struct", Kids: []*VNode{n}, Keys: hexKeys([]string{"k"})}}
	}
	var out []*VNode
	for _, n := range []*VNode{vFloat(math.NaN()), vFloat(math.Inf(1)), vFloat(math.Inf(-1)), {K: "nonstrkey"}, {K: "builtin"},
		vStr("\xff"), vStr("a\xc3"), vStr("\xed\xa0\x80"), vStr("\xc0\x80"), vStr("\xf0\x9f\x98"), vStr("é\xff\n")} {
		out = append(out, wrap(n)...)
	}
	// not-UTF-8 member names
	out = append(out, &VNode{K: "dict", Kids: []*VNode{vInt("1")}, Keys: hexKeys([]string{"\xff"})},
		&VNode{K: "struct", Kids: []*VNode{vInt("1")}, Keys: hexKeys([]string{"a\xc3"})})
	return out
}

func runWorker(c *fw.Ctx) *fw.Stats {
	runtime.GOMAXPROCS(2) // one enumeration thread per shard process; leave the cores to the other shards
	w := &worker{c: c, e: newEnv(), st: fw.NewStats(), seen: map[uint64]struct{}{}, best: map[string]fw.Viol{}}
	defer func() {
		keys := make([]string, 0, len(w.best))
		for k := range w.best {
			keys = append(keys, k)
		}
		sort.Strings(keys)
		for _, k := range keys {
			w.st.Viols = append(w.st.Viols, w.best[k])
		}
	}()
	thorough := c.Thorough()
	full, small, tiny := fullLeaves(), smallLeaves(), tinyLeaves()
	maxTok := 6
	if thorough {
		maxTok = 8
	}
	forms, reduced := allForms(), reducedForms()

	for n := 1; n <= 3; n++ {
		n := n
		w.level(fmt.Sprintf("values:%d-node trees over the full leaf pool (%d leaves)", n, len(full)), func() {
			enumTrees(n, 6, full, w.value)
		})
	}
	w.level("values:every pool string as dict key and struct field name", func() {
		strs := stringPool()
		for _, ck := range []string{"dict", "struct"} {
			for _, k := range strs {
				w.value(&VNode{K: ck, Kids: []*VNode{vInt("1")}, Keys: []string{k.Hex}})
			}
			for i, k1 := range strs {
				for j, k2 := range strs {
					if i != j && i%3 == 0 && j%3 == 1 {
						w.value(&VNode{K: ck, Kids: []*VNode{vInt("1"), vStr("v")}, Keys: []string{k1.Hex, k2.Hex}})
					}
				}
			}
		}
	})
	w.level("values:not JSON-representable (non-finite floats, non-string key, builtin, non-UTF-8)", func() {
		for _, n := range notRepresentable() {
			w.value(n)
		}
	})
	w.level("documents:specials", func() {
		for _, d := range specialDocs() {
			w.doc(d)
		}
	})
	w.level("documents:wide (14 member kinds as n equal neighbours in an array, a spaced array, an object, an array of pairs; n = 100 ... 65537 incl. 9999, 10000, 10001)", func() {
		wideDocs(thorough, w.doc)
	})
	for n := 1; n <= maxTok; n++ {
		n := n
		f2 := forms
		if thorough && n >= 8 {
			f2 = reduced
		}
		w.level(fmt.Sprintf("documents:%d-token sentences x 0-2 deviations (%d forms, %d forms when two sites are respelled)", n, len(forms), len(f2)), func() {
			for _, sh := range shapes(n) {
				enumDeviations(sh, forms, f2, w.doc)
			}
		})
	}
	for n := 1; n <= maxTok; n++ {
		n := n
		w.level(fmt.Sprintf("mutations:%d-token sentences, every single-token deletion/duplication/replacement", n), func() {
			enumValidDocs(n, func(toks []string) { enumMutations(toks, w.doc) })
		})
	}
	if thorough {
		w.level(fmt.Sprintf("values:4-node trees over the full leaf pool (%d leaves)", len(full)), func() { enumTrees(4, 6, full, w.value) })
		w.level(fmt.Sprintf("values:5-node trees over the small leaf pool (%d leaves)", len(small)), func() { enumTrees(5, 6, small, w.value) })
		w.level(fmt.Sprintf("values:6-node trees (depth<=6) over the tiny leaf pool (%d leaves)", len(tiny)), func() { enumTrees(6, 6, tiny, w.value) })
	} else {
		w.level(fmt.Sprintf("values:4-node trees over the small leaf pool (%d leaves)", len(small)), func() { enumTrees(4, 4, small, w.value) })
	}
	maxShare := 5
	if thorough {
		maxShare = 6
	}
	for n := 2; n <= maxShare; n++ {
		n := n
		w.level(fmt.Sprintf("sharing:%d-node trees x one alias (same object | tuple slice | real cycle), built by a Starlark program", n), func() {
			enumTrees(n, 6, shareLeaves(), func(t *VNode) {
				if w.cut {
					return
				}
				enumAliases(t, w.share)
			})
		})
	}
	return w.st
}

// ---------------------------------------------------------------------------
// coordinator

func run(c *fw.Ctx) *fw.Stats {
	onCrash := func(ci fw.CrashInfo, s *fw.Stats) {
		prog := strings.TrimPrefix(ci.Key, "cycle\x00")
		s.Violate("encode:process-death-on-cycle", "process death in json.encode of a cyclic value; program: "+prog+" stderr: "+ci.Stderr, nil)
	}
	st := c.Sharded(0, onCrash)
	n := 16
	// a level is complete when every shard completed it
	cnt := map[string]int{}
	var order []string
	for _, l := range st.Levels {
		if cnt[l] == 0 {
			order = append(order, l)
		}
		cnt[l]++
	}
	max := 0
	for _, k := range cnt {
		if k > max {
			max = k
		}
	}
	n = max
	st.Levels = nil
	cutSet := map[string]bool{}
	for _, l := range st.Cut {
		cutSet[l] = true
	}
	for _, l := range order {
		if cnt[l] == n && !cutSet[l] {
			st.Levels = append(st.Levels, l)
		}
	}
	st.Cut = nil
	for l := range cutSet {
		st.Cut = append(st.Cut, l)
	}
	sort.Strings(st.Cut)
	// one violation per key: the smallest case, so that reports are stable
	best := map[string]fw.Viol{}
	for _, v := range st.Viols {
		b, ok := best[v.Key]
		if !ok || len(v.Case) < len(b.Case) || (len(v.Case) == len(b.Case) && bytes.Compare(v.Case, b.Case) < 0) {
			best[v.Key] = v
		}
	}
	st.Viols = nil
	for _, v := range best {
		st.Viols = append(st.Viols, v)
	}
	sort.Slice(st.Viols, func(i, j int) bool { return st.Viols[i].Key < st.Viols[j].Key })
	return st
}

func replay(c *fw.Ctx, raw json.RawMessage) []fw.Viol {
	var cs Case
	if err := json.Unmarshal(raw, &cs); err != nil {
		fw.Fatal("bad case: %v", err)
	}
	e := newEnv()
	var out []fw.Viol
	switch cs.Type {
	case "doc":
		b, err := hex.DecodeString(cs.DocHex)
		if err != nil {
			fw.Fatal("bad doc_hex: %v", err)
		}
		fs, _, _ := e.judgeDoc(string(b))
		for _, f := range fs {
			out = append(out, fw.Viol{Key: f.key, What: f.what})
		}
	case "value":
		if kind, what, _ := e.judgeValue(cs.Tree, build(cs.Tree)); kind != "" {
			out = append(out, fw.Viol{Key: kind + ":" + cs.Tree.describe(true), What: what})
		}
	case "share":
		v, exp, prog, err := e.shareValue(*cs.Share)
		if err != nil {
			fw.Fatal("share program: %v\n%s", err, prog)
		}
		if kind, what, _ := e.judgeValue(exp, v); kind != "" {
			out = append(out, fw.Viol{Key: shareKey(kind, *cs.Share), What: what})
		}
	}
	return out
}

func init() {
	fw.Register(&fw.Prop{
		ID:    "C18",
		Level: "exploration",
		Rule: "exhaustive by size, simplest first: (a) every value tree with <=4 nodes (quick; <=6 thorough, depth<=6) over containers {list,tuple,dict,struct} and a leaf pool of None/bools/ints to +-2^200/finite floats incl. -0.0, subnormals, 1e21, 1e-7, MaxFloat64/strings for every control character, quote, backslash, DEL, U+0080, U+2028/9, U+FFFD, BOM, non-characters, astral; every pool string as member name; plus every way of making one node of a <=5-node tree the same object as another node, a storage-sharing tuple slice of another tuple, or a real cycle (built by executing a generated Starlark program); " +
			"(b) every sentence of the RFC 8259 grammar with <=6 tokens (8 thorough) with 0, 1 or 2 lexical deviations (10 whitespace kinds at every gap; ~300 spellings of numbers, strings and literals at every scalar/key site); (c) every single-token deletion, duplication and replacement (22 replacement tokens, joined with and without spaces) of every sentence over 7 scalars and 2 keys. " +
			"Oracle: RFC 8259 recogniser+value builder (ref.go), self-checked against encoding/json on every text. " +
			"non-trivial = a distinct text whose acceptance (and value, if valid) was compared, or a value whose encoding was parsed by the reference, compared with the value, decoded back by json.decode and compared again; texts whose meaning RFC 8259 leaves open (non-UTF-8 strings, duplicate member names, numbers outside binary64) are executed but counted separately as unjudged",
		Run:    run,
		Worker: runWorker,
		Replay: replay,
		Assumptions: []string{
			"RFC 8259 section 9 lets a parser limit number range; texts like 1e400 (and underflowing 1e-400) are neither required to be accepted nor rejected; lone surrogate escapes must be accepted but their value is not compared",
			"non-UTF-8 bytes inside a JSON string and duplicate member names: neither acceptance nor value is judged (RFC 8259 sections 8.1, 4; lib/json documents nothing)",
			"a number written with an exponent but no decimal point (1e5) may decode to int or float (the module doc ties the kind to the decimal point only); its numeric value is compared exactly",
			"the order of members in json.encode output is not judged (JSON objects are unordered)",
			"a composite value is reported only if none of its direct sub-values (or member names as strings) fails on its own; those are reported by their own smaller case",
		},
		BudgetQuick: 60, BudgetThorough: 900,
	})
}
