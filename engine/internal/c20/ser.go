package c20

import (
	"fmt"
	"sort"
	"strconv"
	"strings"

	"google.golang.org/protobuf/reflect/protoreflect"
)

// serializer writes the content of message/list/map storages. With ids != nil
// every mutable container (message, list, map) is numbered at its first visit
// and later visits are written as back references, so that the text also
// captures which storages are shared (aliasing), which plain text
// marshalling does not show.
type serializer struct {
	sb     strings.Builder
	ids    map[any]int
	marks  map[any]string // extra per-container annotation (e.g. "!" = under a freeze obligation)
	onPath map[any]bool   // messages being serialised (cycle guard)
}

func (s *serializer) ref(x any) bool {
	if s.ids == nil {
		return false
	}
	if id, ok := s.ids[x]; ok {
		fmt.Fprintf(&s.sb, "^%d", id)
		return true
	}
	id := len(s.ids)
	s.ids[x] = id
	fmt.Fprintf(&s.sb, "#%d%s", id, s.marks[x])
	return false
}

func (s *serializer) scalar(fd protoreflect.FieldDescriptor, v protoreflect.Value) {
	switch x := v.Interface().(type) {
	case protoreflect.Message:
		s.message(x)
	case string:
		s.sb.WriteString(strconv.Quote(x))
	case []byte:
		s.sb.WriteString("b" + strconv.Quote(string(x)))
	case protoreflect.EnumNumber:
		fmt.Fprintf(&s.sb, "e%d", x)
	default:
		fmt.Fprintf(&s.sb, "%v", x)
	}
}

func (s *serializer) message(m protoreflect.Message) {
	if s.ref(m) {
		return
	}
	// Messages are trees; if aliasing has made one contain itself, say so once
	// instead of descending for ever (only reachable when ids are not tracked).
	if s.onPath == nil {
		s.onPath = map[any]bool{}
	}
	if s.onPath[m] {
		s.sb.WriteString("<contains itself>")
		return
	}
	s.onPath[m] = true
	defer delete(s.onPath, m)
	type fv struct {
		fd protoreflect.FieldDescriptor
		v  protoreflect.Value
	}
	var fs []fv
	m.Range(func(fd protoreflect.FieldDescriptor, v protoreflect.Value) bool {
		fs = append(fs, fv{fd, v})
		return true
	})
	sort.Slice(fs, func(i, j int) bool { return fs[i].fd.Number() < fs[j].fd.Number() })
	s.sb.WriteByte('{')
	for _, f := range fs {
		s.sb.WriteString(string(f.fd.Name()))
		s.sb.WriteByte('=')
		switch {
		case f.fd.IsList():
			s.list(f.fd, f.v.List())
		case f.fd.IsMap():
			s.mapp(f.fd, f.v.Map())
		default:
			s.scalar(f.fd, f.v)
		}
		s.sb.WriteByte(' ')
	}
	s.sb.WriteByte('}')
}

func (s *serializer) list(fd protoreflect.FieldDescriptor, l protoreflect.List) {
	if s.ref(l) {
		return
	}
	s.sb.WriteByte('[')
	for i := 0; i < l.Len(); i++ {
		s.scalar(fd, l.Get(i))
		s.sb.WriteByte(',')
	}
	s.sb.WriteByte(']')
}

func (s *serializer) mapp(fd protoreflect.FieldDescriptor, mp protoreflect.Map) {
	if s.ref(mp) {
		return
	}
	type kv struct {
		k string
		v protoreflect.Value
	}
	var es []kv
	mp.Range(func(k protoreflect.MapKey, v protoreflect.Value) bool {
		es = append(es, kv{fmt.Sprintf("%T:%v", k.Interface(), k.Interface()), v})
		return true
	})
	sort.Slice(es, func(i, j int) bool { return es[i].k < es[j].k })
	s.sb.WriteByte('<')
	for _, e := range es {
		s.sb.WriteString(e.k)
		s.sb.WriteByte(':')
		s.scalar(fd.MapValue(), e.v)
		s.sb.WriteByte(',')
	}
	s.sb.WriteByte('>')
}

// storage is a message, list or map together with the field descriptor that
// gives its element type.
type storage struct {
	msg  protoreflect.Message
	list protoreflect.List
	mp   protoreflect.Map
	fd   protoreflect.FieldDescriptor // for list/map
}

func (st storage) id() any {
	switch {
	case st.msg != nil:
		return st.msg
	case st.list != nil:
		return st.list
	case st.mp != nil:
		return st.mp
	}
	return nil
}

func (st storage) valid() bool { return st.id() != nil }

func (s *serializer) storage(st storage) {
	switch {
	case st.msg != nil:
		s.message(st.msg)
	case st.list != nil:
		s.list(st.fd, st.list)
	case st.mp != nil:
		s.mapp(st.fd, st.mp)
	default:
		s.sb.WriteString("nil")
	}
}

// contentOf is the pure content (no identities) of a message.
func contentOf(m protoreflect.Message) string {
	var s serializer
	s.message(m)
	return s.sb.String()
}

func contentOfStorage(st storage) string {
	var s serializer
	s.storage(st)
	return s.sb.String()
}

// children calls f for every container directly contained in st.
func children(st storage, f func(storage)) {
	each := func(fd protoreflect.FieldDescriptor, v protoreflect.Value) {
		if fd.Message() != nil && !fd.IsMap() && !fd.IsList() {
			f(storage{msg: v.Message()})
		}
	}
	switch {
	case st.msg != nil:
		type fv struct {
			fd protoreflect.FieldDescriptor
			v  protoreflect.Value
		}
		var fs []fv
		st.msg.Range(func(fd protoreflect.FieldDescriptor, v protoreflect.Value) bool {
			fs = append(fs, fv{fd, v})
			return true
		})
		sort.Slice(fs, func(i, j int) bool { return fs[i].fd.Number() < fs[j].fd.Number() })
		for _, x := range fs {
			switch {
			case x.fd.IsList():
				f(storage{list: x.v.List(), fd: x.fd})
			case x.fd.IsMap():
				f(storage{mp: x.v.Map(), fd: x.fd})
			default:
				each(x.fd, x.v)
			}
		}
	case st.list != nil:
		if st.fd.Message() != nil {
			for i := 0; i < st.list.Len(); i++ {
				f(storage{msg: st.list.Get(i).Message()})
			}
		}
	case st.mp != nil:
		if st.fd.MapValue().Message() != nil {
			st.mp.Range(func(k protoreflect.MapKey, v protoreflect.Value) bool {
				f(storage{msg: v.Message()})
				return true
			})
		}
	}
}

// hasCycle reports whether the object graph below st contains a cycle
// (lib/proto lists "defend against cycles in object graph" as a TODO; cyclic
// messages cannot be marshalled or printed and are outside this property).
func hasCycle(st storage) bool {
	onStack := map[any]bool{}
	done := map[any]bool{}
	var visit func(storage) bool
	visit = func(x storage) bool {
		id := x.id()
		if onStack[id] {
			return true
		}
		if done[id] {
			return false
		}
		onStack[id] = true
		cyc := false
		children(x, func(c storage) {
			if !cyc && visit(c) {
				cyc = true
			}
		})
		onStack[id] = false
		done[id] = true
		return cyc
	}
	return visit(st)
}
