package c20

import (
	"crypto/sha256"
	"fmt"
	"os"
	"reflect"
	"runtime"
	"sort"
	"strconv"
	"strings"
	"sync"

	"google.golang.org/protobuf/reflect/protoreflect"

	starlarkproto "go.starlark.net/lib/proto"
	"go.starlark.net/starlark"

	"verif/internal/fw"
)

// Every operation of the S exploration is executed by calling one of these
// compiled Starlark functions, so it takes the interpreter's own SETFIELD /
// SETINDEX / CALL paths into lib/proto.
const helperSrc = `
def new():   return T(f_int32=1, f_msg=T(f_int32=2), r_int32=[3], r_msg=[T(f_int32=4)], mv_int32={"a": 5}, mm={6: T(f_int32=7)})
def empty(): return T()
def copy(m): return T(m)
def set_scalar(h): h.f_int32 = 9
def set_field(h): proto.set_field(h, T.f_int32, 8)
def clear_scalar(h): h.f_int32 = None
def clear_sub(h): h.f_msg = None
def clear_rep(h): h.r_int32 = None
def clear_by_set_field(h): proto.set_field(h, T.f_int32, None)
def setsub(o, m): o.f_msg = m.f_msg
def asg_r_int32(o, m): o.r_int32 = m.r_int32
def asg_r_msg(o, m): o.r_msg = m.r_msg
def asg_mv_int32(o, m): o.mv_int32 = m.mv_int32
def asg_mm(o, m): o.mm = m.mm
def take_f_msg(m): return m.f_msg
def take_r_int32(m): return m.r_int32
def take_r_msg(m): return m.r_msg
def take_mv_int32(m): return m.mv_int32
def take_mm(m): return m.mm
def elem0(v): return v[0]
def val6(v): return v[6]
def idx_int(v): v[0] = 9
def app_int(v): v.append(8)
def idx_msg(v): v[0] = T(f_int32=9)
def app_msg(v): v.append(T(f_int32=8))
def key_a(v): v["a"] = 9
def key_b(v): v["b"] = 8
def mkey6(v): v[6] = T(f_int32=9)
def mkey7(v): v[7] = T(f_int32=8)
def d_sub(h): h.f_msg.f_int32 = 9
def d_rint_app(h): h.r_int32.append(8)
def d_rint_idx(h): h.r_int32[0] = 9
def d_rmsg_elem(h): h.r_msg[0].f_int32 = 9
def d_rmsg_app(h): h.r_msg.append(T(f_int32=8))
def d_mv_a(h): h.mv_int32["a"] = 9
def d_mm_val(h): h.mm[6].f_int32 = 9
def d_mm_new(h): h.mm[7] = T(f_int32=8)
`

type htype int

const (
	hNone htype = iota
	hMsg
	hListInt
	hListMsg
	hMapSI
	hMapIM
)

var htypeName = [...]string{"-", "msg", "list<int32>", "list<T>", "map<string,int32>", "map<int64,T>"}

type slot struct {
	val   starlark.Value
	typ   htype
	st    storage // the storage the handle wraps (invalid for frozen default views)
	group int     // model: the root whose frozen flag this wrapper shares; -1 = immutable default value
}

// frozenOb is a freeze obligation: the content of st was snap when a handle
// wrapping it was frozen, and must stay so.
type frozenOb struct {
	st   storage
	snap string
}

type world struct {
	e           *env
	th          *starlark.Thread
	slots       []slot
	groupFrozen []bool
	obs         []frozenOb
	roots       []storage               // every root message ever created (attribution of sharing only)
	labels      map[any]map[string]bool // storage -> alias-creating operation kinds that shared it
}

func newWorld(e *env, th *starlark.Thread, nslots int) *world {
	w := &world{e: e, th: th, slots: make([]slot, nslots), labels: map[any]map[string]bool{}}
	v, err := w.call("new")
	if err != nil {
		fw.Fatal("c20: new(): %v", err)
	}
	w.setRoot(0, v)
	return w
}

func (w *world) call(fn string, args ...starlark.Value) (starlark.Value, error) {
	return starlark.Call(w.th, w.e.help[fn], starlark.Tuple(args), nil)
}

func (w *world) setRoot(i int, v starlark.Value) {
	m := v.(*starlarkproto.Message)
	w.groupFrozen = append(w.groupFrozen, false)
	w.slots[i] = slot{val: v, typ: hMsg, st: storage{msg: m.Message().ProtoReflect()}, group: len(w.groupFrozen) - 1}
	w.roots = append(w.roots, w.slots[i].st)
}

func (w *world) label(st storage, l string) {
	id := st.id()
	if id == nil {
		return
	}
	if w.labels[id] == nil {
		w.labels[id] = map[string]bool{}
	}
	w.labels[id][l] = true
}

// fieldStorage returns the storage of field name of message m, and whether it is populated.
func (w *world) fieldStorage(m protoreflect.Message, name string) (storage, bool) {
	fd := w.e.fd(name)
	v := m.Get(fd)
	var st storage
	switch {
	case fd.IsList():
		st = storage{list: v.List(), fd: fd}
	case fd.IsMap():
		st = storage{mp: v.Map(), fd: fd}
	default:
		st = storage{msg: v.Message()}
	}
	return st, m.Has(fd)
}

var fieldType = map[string]htype{"f_msg": hMsg, "r_int32": hListInt, "r_msg": hListMsg, "mv_int32": hMapSI, "mm": hMapIM}

// ---------------------------------------------------------------------------
// operations

type sop struct {
	name string // with slot numbers: identity inside a history
	kind string // without slot numbers: granularity of counters
	src  string // Starlark text, for people
	i, j int
	app  func(w *world) bool
	// target is the storage that the operation writes to directly (evaluated before exec).
	target func(w *world) storage
	exec   func(w *world) error
	asg    string // field name for "h_i.F = h_j.F" operations
	freeze bool
}

type sconfig struct {
	name     string
	nslots   int
	fields   []string // fields used by take / asg
	deep     []string // enabled d_* helpers
	maxDepth int
}

func slotIs(i int, t htype) func(*world) bool {
	return func(w *world) bool { return w.slots[i].typ == t }
}

func (cfg *sconfig) ops() []sop {
	var ops []sop
	n := cfg.nslots
	self := func(i int) func(*world) storage { return func(w *world) storage { return w.slots[i].st } }
	none := func(*world) storage { return storage{} }
	for i := 0; i < n; i++ {
		i := i
		h := fmt.Sprintf("h%d", i)
		ops = append(ops, sop{name: "new" + fmt.Sprint(i), kind: "new", src: h + " = T(<populated>)", i: i, target: none,
			exec: func(w *world) error {
				v, err := w.call("new")
				if err == nil {
					w.setRoot(i, v)
				}
				return err
			}})
		ops = append(ops, sop{name: "empty" + fmt.Sprint(i), kind: "empty", src: h + " = T()", i: i, target: none,
			exec: func(w *world) error {
				v, err := w.call("empty")
				if err == nil {
					w.setRoot(i, v)
				}
				return err
			}})
		ops = append(ops, sop{name: "freeze" + fmt.Sprint(i), kind: "freeze", src: "freeze(" + h + ")", i: i, target: none, freeze: true,
			app: func(w *world) bool { return w.slots[i].typ != hNone },
			exec: func(w *world) error {
				s := w.slots[i]
				s.val.Freeze()
				if s.group >= 0 {
					w.groupFrozen[s.group] = true
				}
				if s.st.valid() {
					for _, ob := range w.obs {
						if ob.st.id() == s.st.id() {
							return nil
						}
					}
					w.obs = append(w.obs, frozenOb{st: s.st, snap: contentOfStorage(s.st)})
				}
				return nil
			}})
		// mutation through the handle itself, by handle type
		type mut struct {
			t       htype
			fn, src string
		}
		for _, ab := range [][]mut{
			{{hMsg, "set_scalar", h + ".f_int32 = 9"}, {hListInt, "idx_int", h + "[0] = 9"}, {hListMsg, "idx_msg", h + "[0] = T(f_int32=9)"}, {hMapSI, "key_a", h + `["a"] = 9`}, {hMapIM, "mkey6", h + "[6] = T(f_int32=9)"}},
			{{hMsg, "set_field", "proto.set_field(" + h + ", T.f_int32, 8)"}, {hListInt, "app_int", h + ".append(8)"}, {hListMsg, "app_msg", h + ".append(T(f_int32=8))"}, {hMapSI, "key_b", h + `["b"] = 8`}, {hMapIM, "mkey7", h + "[7] = T(f_int32=8)"}},
			// assigning None clears a field: a mutation like any other
			{{hMsg, "clear_scalar", h + ".f_int32 = None"}, {hMsg, "clear_sub", h + ".f_msg = None"}, {hMsg, "clear_rep", h + ".r_int32 = None"}, {hMsg, "clear_by_set_field", "proto.set_field(" + h + ", T.f_int32, None)"}},
		} {
			for _, m := range ab {
				m := m
				ops = append(ops, sop{name: fmt.Sprintf("%s(%d)", m.fn, i), kind: m.fn, src: m.src, i: i, app: slotIs(i, m.t), target: self(i),
					exec: func(w *world) error { _, err := w.call(m.fn, w.slots[i].val); return err }})
			}
		}
		// mutation through a path starting at a message handle
		deepTarget := map[string]func(w *world, m protoreflect.Message) storage{
			"d_sub": func(w *world, m protoreflect.Message) storage {
				st, has := w.fieldStorage(m, "f_msg")
				if !has {
					return storage{}
				}
				return st
			},
			"d_rint_app": func(w *world, m protoreflect.Message) storage { st, _ := w.fieldStorage(m, "r_int32"); return st },
			"d_rint_idx": func(w *world, m protoreflect.Message) storage { st, _ := w.fieldStorage(m, "r_int32"); return st },
			"d_rmsg_app": func(w *world, m protoreflect.Message) storage { st, _ := w.fieldStorage(m, "r_msg"); return st },
			"d_rmsg_elem": func(w *world, m protoreflect.Message) storage {
				st, _ := w.fieldStorage(m, "r_msg")
				if st.list.Len() == 0 {
					return storage{}
				}
				return storage{msg: st.list.Get(0).Message()}
			},
			"d_mv_a":   func(w *world, m protoreflect.Message) storage { st, _ := w.fieldStorage(m, "mv_int32"); return st },
			"d_mm_new": func(w *world, m protoreflect.Message) storage { st, _ := w.fieldStorage(m, "mm"); return st },
			"d_mm_val": func(w *world, m protoreflect.Message) storage {
				st, has := w.fieldStorage(m, "mm")
				if !has {
					return storage{}
				}
				v := st.mp.Get(protoreflect.ValueOfInt64(6).MapKey())
				if !v.IsValid() {
					return storage{}
				}
				return storage{msg: v.Message()}
			},
		}
		deepSrc := map[string]string{"d_sub": ".f_msg.f_int32 = 9", "d_rint_app": ".r_int32.append(8)", "d_rint_idx": ".r_int32[0] = 9",
			"d_rmsg_elem": ".r_msg[0].f_int32 = 9", "d_rmsg_app": ".r_msg.append(T(f_int32=8))", "d_mv_a": `.mv_int32["a"] = 9`,
			"d_mm_val": ".mm[6].f_int32 = 9", "d_mm_new": ".mm[7] = T(f_int32=8)"}
		for _, d := range cfg.deep {
			d := d
			tf := deepTarget[d]
			ops = append(ops, sop{name: fmt.Sprintf("%s(%d)", d, i), kind: d, src: h + deepSrc[d], i: i, app: slotIs(i, hMsg),
				target: func(w *world) storage { return tf(w, w.slots[i].st.msg) },
				exec:   func(w *world) error { _, err := w.call(d, w.slots[i].val); return err }})
		}
		for j := 0; j < n; j++ {
			j := j
			g := fmt.Sprintf("h%d", j)
			both := func(w *world) bool { return w.slots[i].typ == hMsg && w.slots[j].typ == hMsg }
			ops = append(ops, sop{name: fmt.Sprintf("copy(%d<-%d)", i, j), kind: "copy", src: fmt.Sprintf("%s = T(%s)", h, g), i: i, j: j, app: slotIs(j, hMsg), target: none,
				exec: func(w *world) error {
					src := w.slots[j].st
					v, err := w.call("copy", w.slots[j].val)
					if err == nil {
						children(src, func(c storage) { w.label(c, "copy") })
						w.setRoot(i, v)
					}
					return err
				}})
			ops = append(ops, sop{name: fmt.Sprintf("setsub(%d<-%d)", i, j), kind: "setsub", src: fmt.Sprintf("%s.f_msg = %s.f_msg", h, g), i: i, j: j, app: both, target: self(i),
				exec: func(w *world) error {
					x, has := w.fieldStorage(w.slots[j].st.msg, "f_msg")
					_, err := w.call("setsub", w.slots[i].val, w.slots[j].val)
					if err == nil && has {
						w.label(x, "setsub")
					}
					return err
				}})
			for _, f := range cfg.fields {
				f := f
				if f != "f_msg" {
					ops = append(ops, sop{name: fmt.Sprintf("asg_%s(%d<-%d)", f, i, j), kind: "asg_" + f, src: fmt.Sprintf("%s.%s = %s.%s", h, f, g, f), i: i, j: j, app: both, asg: f,
						target: func(w *world) storage {
							if fieldType[f] == hListInt || fieldType[f] == hListMsg {
								st, _ := w.fieldStorage(w.slots[i].st.msg, f)
								return st
							}
							return w.slots[i].st
						},
						exec: func(w *world) error {
							var elems []storage
							if src, _ := w.fieldStorage(w.slots[j].st.msg, f); f == "r_msg" || f == "mm" {
								children(src, func(c storage) { elems = append(elems, c) })
							}
							_, err := w.call("asg_"+f, w.slots[i].val, w.slots[j].val)
							if err == nil {
								for _, c := range elems {
									w.label(c, "asg_"+f)
								}
							}
							return err
						}})
				}
				ops = append(ops, sop{name: fmt.Sprintf("take_%s(%d<-%d)", f, i, j), kind: "take_" + f, src: fmt.Sprintf("%s = %s.%s", h, g, f), i: i, j: j, app: slotIs(j, hMsg), target: none,
					exec: func(w *world) error {
						from := w.slots[j]
						st, has := w.fieldStorage(from.st.msg, f)
						v, err := w.call("take_"+f, from.val)
						if err != nil {
							return err
						}
						s := slot{val: v, typ: fieldType[f], st: st, group: from.group}
						if !has {
							// unset field: lib/proto hands out an immutable default value
							s.group = -1
							s.st = storage{}
							if m, ok := v.(*starlarkproto.Message); ok {
								s.st = storage{msg: m.Message().ProtoReflect()}
							}
						}
						w.slots[i] = s
						return nil
					}})
			}
			ops = append(ops, sop{name: fmt.Sprintf("elem(%d<-%d)", i, j), kind: "elem", src: fmt.Sprintf("%s = %s[0] (or %s[6])", h, g, g), i: i, j: j, target: none,
				app: func(w *world) bool { return w.slots[j].typ == hListMsg || w.slots[j].typ == hMapIM },
				exec: func(w *world) error {
					from := w.slots[j]
					fn := "elem0"
					if from.typ == hMapIM {
						fn = "val6"
					}
					v, err := w.call(fn, from.val)
					if err != nil {
						return err
					}
					m, ok := v.(*starlarkproto.Message)
					if !ok {
						return fmt.Errorf("harness: element is %s", v.Type())
					}
					w.slots[i] = slot{val: v, typ: hMsg, st: storage{msg: m.Message().ProtoReflect()}, group: from.group}
					return nil
				}})
		}
	}
	return ops
}

var allDeep = []string{"d_sub", "d_rint_app", "d_rint_idx", "d_rmsg_elem", "d_rmsg_app", "d_mv_a", "d_mm_val", "d_mm_new"}
var allFields = []string{"f_msg", "r_int32", "r_msg", "mv_int32", "mm"}

func sconfigs(tier string) []*sconfig {
	if tier == "thorough" {
		return []*sconfig{
			{name: "S2", nslots: 2, fields: allFields, deep: allDeep, maxDepth: 6},
			{name: "S3", nslots: 3, fields: allFields, deep: allDeep, maxDepth: 6},
		}
	}
	return []*sconfig{
		{name: "S2", nslots: 2, fields: allFields, deep: allDeep, maxDepth: 4},
		{name: "S3", nslots: 3, fields: allFields, deep: allDeep, maxDepth: 4},
	}
}

// ---------------------------------------------------------------------------
// one transition with all invariants

type sviol struct {
	key, what string
}

// live returns the storages that matter: those behind handles and those
// under a freeze obligation.
func (w *world) live() []storage {
	var out []storage
	for _, s := range w.slots {
		if s.st.valid() {
			out = append(out, s.st)
		}
	}
	for _, ob := range w.obs {
		out = append(out, ob.st)
	}
	return out
}

// pathLabels returns the alias labels found on any path from a root message
// ever created (or from top) down to one of the targets. The graph is acyclic
// here (cyclic states are pruned before anything is judged).
func (w *world) pathLabels(top storage, targets ...any) []string {
	isTarget := func(id any) bool {
		for _, t := range targets {
			if t != nil && t == id {
				return true
			}
		}
		return false
	}
	found := map[string]bool{}
	var stack []any
	var visit func(storage)
	visit = func(x storage) {
		id := x.id()
		if len(stack) > 64 {
			return
		}
		stack = append(stack, id)
		if isTarget(id) {
			for _, s := range stack {
				for l := range w.labels[s] {
					found[l] = true
				}
			}
		}
		children(x, visit)
		stack = stack[:len(stack)-1]
	}
	visit(top)
	for _, r := range w.roots {
		visit(r)
	}
	// a list that the operation emptied is no longer populated, hence not on any path
	for l := range w.labels[targets[0]] {
		found[l] = true
	}
	var ls []string
	for l := range found {
		ls = append(ls, l)
	}
	sort.Strings(ls)
	return ls
}

// step applies op; with check it evaluates every invariant afterwards.
// pruned != "" means the resulting state is outside the property (cyclic
// message graph) and is neither judged nor expanded.
func (w *world) step(op *sop, check bool) (v *sviol, pruned string, opErr error) {
	var srcBefore string
	var allBefore string
	if check {
		if op.asg != "" {
			st, _ := w.fieldStorage(w.slots[op.j].st.msg, op.asg)
			srcBefore = contentOfStorage(st)
		}
		if op.freeze {
			allBefore = w.contentAll()
		}
	}
	target := op.target(w)
	handle := w.slots[op.i]
	handleFrozen := handle.group >= 0 && w.groupFrozen[handle.group] || handle.group < 0
	err, pan := func() (err error, pan string) {
		defer func() {
			if r := recover(); r != nil {
				pan = fmt.Sprint(r)
			}
		}()
		return op.exec(w), ""
	}()
	if pan != "" {
		return &sviol{"S:panic:" + op.kind, "Go panic in " + op.src + ": " + pan}, "", nil
	}
	if !check {
		return nil, "", err
	}
	// Only operations that store an existing message can close a cycle; every
	// prefix of a searched history has been checked already.
	if op.kind == "setsub" || op.kind == "asg_r_msg" || op.kind == "asg_mm" {
		for _, st := range w.live() {
			if hasCycle(st) {
				return nil, "cyclic", err
			}
		}
	}
	// 1. freeze obligations
	for _, ob := range w.obs {
		now := contentOfStorage(ob.st)
		if now == ob.snap {
			continue
		}
		if handleFrozen {
			return &sviol{"S:frozen-handle-mutated:" + op.kind,
				fmt.Sprintf("%s succeeded (err=%v) through a handle of a frozen message and changed frozen content: %s -> %s", op.src, err, ob.snap, now)}, "", err
		}
		ls := w.pathLabels(ob.st, target.id(), handle.st.id())
		l := "unknown"
		if len(ls) > 0 {
			l = ls[0]
		}
		return &sviol{"S:frozen-changed:shared-by=" + l,
			fmt.Sprintf("%s (via=%s, err=%v) changed the content of a frozen message/view through another message that shares its storage (sharing created by: %s): %s -> %s", op.src, op.kind, err, strings.Join(ls, ","), ob.snap, now)}, "", err
	}
	if op.freeze && w.contentAll() != allBefore {
		return &sviol{"S:freeze-changed-content", "freezing changed content"}, "", err
	}
	// 2. assignment of a repeated/map field from a (possibly the same) message keeps the data
	if op.asg != "" && err == nil {
		dst, _ := w.fieldStorage(w.slots[op.i].st.msg, op.asg)
		src, _ := w.fieldStorage(w.slots[op.j].st.msg, op.asg)
		d, s := contentOfStorage(dst), contentOfStorage(src)
		// If the destination message lies inside the source field (h = g.r_msg[0];
		// h.r_msg = g.r_msg), the assignment necessarily changes its own source
		// while copying it: what the result should be is not defined; not judged.
		if reaches(src, w.slots[op.i].st.id()) {
			d, s = srcBefore, srcBefore
		}
		if d != srcBefore || s != srcBefore {
			how := "other"
			if op.i == op.j {
				how = "self"
			}
			return &sviol{"S:assign-lost:" + op.asg,
				fmt.Sprintf("%s (%s): source was %s; afterwards destination is %s and source is %s", op.src, how, srcBefore, d, s)}, "", err
		}
	}
	// 3. well-typedness
	for _, st := range w.live() {
		if st.msg != nil {
			if bad := checkTyped(st.msg); bad != "" {
				return &sviol{"S:illtyped:" + op.kind, "after " + op.src + ": " + bad}, "", err
			}
		}
	}
	// 4. a newly constructed message is empty and its unset fields read as defaults, whatever
	// happened to other messages before (nothing written through one message may reach the
	// values that unset fields of other messages present)
	if bad := w.freshIsPristine(); bad != "" {
		return &sviol{"S:fresh-message-not-pristine", "after " + op.src + ": " + bad}, "", err
	}
	return nil, "", err
}

// freshIsPristine constructs T() and reads its unset composite fields.
func (w *world) freshIsPristine() string {
	v, err := starlark.Call(w.th, w.e.T, nil, nil)
	if err != nil {
		return ""
	}
	m := v.(*starlarkproto.Message)
	if c := contentOf(m.Message().ProtoReflect()); c != "{}" {
		return "T() is not empty: " + c
	}
	for _, f := range []string{"f_msg", "f_msg2", "r_msg", "mm", "r_int32", "mv_int32"} {
		x, err := m.Attr(f)
		if err != nil || x == nil {
			continue
		}
		switch y := x.(type) {
		case *starlarkproto.Message:
			if c := contentOf(y.Message().ProtoReflect()); c != "{}" {
				return fmt.Sprintf("T().%s (an unset field) reads as %s", f, c)
			}
		case starlark.Sequence:
			if y.Len() != 0 {
				return fmt.Sprintf("T().%s (an unset field) has %d elements", f, y.Len())
			}
		}
	}
	if c := contentOf(m.Message().ProtoReflect()); c != "{}" {
		return "reading the unset fields of T() populated it: " + c
	}
	return ""
}

// reaches reports whether the container target is top or lies below it.
func reaches(top storage, target any) bool {
	visited := map[any]bool{}
	found := false
	var visit func(storage)
	visit = func(x storage) {
		id := x.id()
		if found || visited[id] {
			return
		}
		visited[id] = true
		if id == target {
			found = true
			return
		}
		children(x, visit)
	}
	visit(top)
	return found
}

func (w *world) contentAll() string {
	var sb strings.Builder
	for _, s := range w.slots {
		sb.WriteString(contentOfStorage(s.st))
		sb.WriteByte('|')
	}
	return sb.String()
}

// actualFrozen reads the wrapper's private shared flag (read-only reflection).
func actualFrozen(v starlark.Value) (bool, uintptr) {
	rv := reflect.ValueOf(v)
	if rv.Kind() != reflect.Ptr {
		return false, 0
	}
	f := rv.Elem().FieldByName("frozen")
	if !f.IsValid() || f.IsNil() {
		return false, 0
	}
	return f.Elem().Bool(), f.Pointer()
}

// key is the canonical state: per handle its type, model group (renumbered by
// first use), model and actual frozen flag, actual flag sharing; and the
// object graph with storage identities (aliasing) and freeze obligations.
//
// The operation alphabet is closed under renaming of handles, so states that
// differ only by a permutation of the handles are the same state: the key is
// the smallest serialization over all handle orders.
func (w *world) key() string {
	best := ""
	for _, perm := range perms[len(w.slots)] {
		if k := w.keyInOrder(perm); best == "" || k < best {
			best = k
		}
	}
	return best
}

var perms = map[int][][]int{
	1: {{0}},
	2: {{0, 1}, {1, 0}},
	3: {{0, 1, 2}, {0, 2, 1}, {1, 0, 2}, {1, 2, 0}, {2, 0, 1}, {2, 1, 0}},
}

func (w *world) keyInOrder(order []int) string {
	s := serializer{ids: map[any]int{}, marks: map[any]string{}}
	for _, ob := range w.obs {
		s.marks[ob.st.id()] = "!"
	}
	groups := map[int]int{}
	flags := map[uintptr]int{}
	for i, si := range order {
		sl := w.slots[si]
		fmt.Fprintf(&s.sb, "h%d:%s", i, htypeName[sl.typ])
		if sl.typ == hNone {
			s.sb.WriteByte(';')
			continue
		}
		g := -1
		mf := true
		if sl.group >= 0 {
			if _, ok := groups[sl.group]; !ok {
				groups[sl.group] = len(groups)
			}
			g = groups[sl.group]
			mf = w.groupFrozen[sl.group]
		}
		af, p := actualFrozen(sl.val)
		if _, ok := flags[p]; !ok {
			flags[p] = len(flags)
		}
		fmt.Fprintf(&s.sb, " g%d mf=%v af=%v p%d ", g, mf, af, flags[p])
		if sl.group < 0 {
			s.sb.WriteString("default")
		} else {
			s.storage(sl.st)
		}
		s.sb.WriteByte(';')
	}
	// frozen storages that no handle reaches any more (order-independent: as a sorted set)
	var dead []string
	for _, ob := range w.obs {
		if _, ok := s.ids[ob.st.id()]; !ok {
			d := serializer{ids: s.ids, marks: s.marks}
			d.storage(ob.st)
			dead = append(dead, d.sb.String())
		}
	}
	sort.Strings(dead)
	for _, d := range dead {
		s.sb.WriteString("dead:" + d + ";")
	}
	return s.sb.String()
}

// ---------------------------------------------------------------------------
// search

type sCase struct {
	Config  string   `json:"config"`
	Ops     []string `json:"ops"`
	Program []string `json:"program,omitempty"`
}

func sconfigByName(name string) *sconfig {
	for _, tier := range []string{"quick", "thorough"} {
		for _, c := range sconfigs(tier) {
			if c.name == name {
				return c
			}
		}
	}
	return nil
}

// replayHistory runs path on a fresh world. checkAll: judge every step (replay
// mode); otherwise only the last one (the search has judged all prefixes).
func replayHistory(e *env, th *starlark.Thread, cfg *sconfig, ops []sop, path []uint16, checkAll bool) (w *world, v *sviol, pruned string) {
	w = newWorld(e, th, cfg.nslots)
	for n, oi := range path {
		op := &ops[oi]
		if op.app != nil && !op.app(w) {
			continue
		}
		v, pruned, _ = w.step(op, checkAll || n == len(path)-1)
		if v != nil || pruned != "" {
			return
		}
	}
	return
}

type ssucc struct {
	parent int
	opi    uint16
	hash   [16]byte
	v      *sviol
	pruned string
	failed bool
}

func searchS(c *fw.Ctx, cfg *sconfig, total *fw.Stats, firstViol map[string]bool) {
	e := getEnv()
	ops := cfg.ops()
	// One goroutine: the implementation under test may keep process-wide state
	// behind its API (a cache of default messages, say); with parallel workers
	// such state makes results depend on scheduling, which no replay can
	// reproduce. (VERIF_C20_WORKERS overrides, for timing experiments.)
	nw := 1
	if v, err := strconv.Atoi(os.Getenv("VERIF_C20_WORKERS")); err == nil && v > 0 {
		nw = v
	}
	_ = runtime.NumCPU
	seen := map[[16]byte]struct{}{}
	hashOf := func(k string) (h [16]byte) {
		s := sha256.Sum256([]byte(k))
		copy(h[:], s[:16])
		return
	}
	w0 := newWorld(e, e.thread("c20-S"), cfg.nslots)
	seen[hashOf(w0.key())] = struct{}{}
	frontier := [][]uint16{{}}
	var states, transitions, pruned, viols, opErrors int64 = 1, 0, 0, 0, 0
	depth := 0
	fixpoint := false
	cut := false
	var samplePath []uint16
	for len(frontier) > 0 && depth < cfg.maxDepth {
		if c.Expired() {
			total.Cut = append(total.Cut, fmt.Sprintf("%s:depth%d(frontier %d)", cfg.name, depth+1, len(frontier)))
			cut = true
			break
		}
		var next [][]uint16
		var lastLevel int64
		// The level is processed in chunks of parents (bounded memory); chunk
		// and in-chunk order are fixed, so the result does not depend on scheduling.
		const chunk = 16384
		for lo := 0; lo < len(frontier) && !cut; lo += chunk {
			if lo > 0 && c.Expired() {
				total.Cut = append(total.Cut, fmt.Sprintf("%s:depth%d(after %d of %d states of depth %d)", cfg.name, depth+1, lo, len(frontier), depth))
				cut = true
				break
			}
			hi := min(lo+chunk, len(frontier))
			results := make([][]ssucc, nw)
			var wg sync.WaitGroup
			for wk := 0; wk < nw; wk++ {
				wg.Add(1)
				go func(wk int) {
					defer wg.Done()
					th := e.thread(fmt.Sprintf("c20-S-%d", wk))
					var out []ssucc
					for pi := lo + wk; pi < hi; pi += nw {
						base := frontier[pi]
						pw, _, _ := replayHistory(e, th, cfg, ops, base, false)
						for oi := range ops {
							if ops[oi].app != nil && !ops[oi].app(pw) {
								continue
							}
							// replay on fresh objects: the parent world is never mutated
							w := newWorld(e, th, cfg.nslots)
							var v *sviol
							var pr string
							var opErr error
							for _, o := range base {
								w.step(&ops[o], false)
							}
							v, pr, opErr = w.step(&ops[oi], true)
							s := ssucc{parent: pi, opi: uint16(oi), v: v, pruned: pr, failed: opErr != nil}
							if v == nil && pr == "" {
								s.hash = hashOf(w.key())
							}
							out = append(out, s)
						}
					}
					results[wk] = out
				}(wk)
			}
			wg.Wait()
			var all []ssucc
			for _, r := range results {
				all = append(all, r...)
			}
			sort.Slice(all, func(i, j int) bool {
				if all[i].parent != all[j].parent {
					return all[i].parent < all[j].parent
				}
				return all[i].opi < all[j].opi
			})
			for _, s := range all {
				transitions++
				path := append(append(make([]uint16, 0, len(frontier[s.parent])+1), frontier[s.parent]...), s.opi)
				if s.failed {
					opErrors++
				}
				if s.pruned != "" {
					pruned++
					continue
				}
				if s.v != nil {
					viols++
					total.Count("S.violating_transitions["+s.v.key+"|via="+ops[s.opi].kind+"]", 1)
					if !firstViol[s.v.key] {
						// breadth-first order: this is a shortest history for the key
						firstViol[s.v.key] = true
						sc := sCase{Config: cfg.name}
						for _, o := range path {
							sc.Ops = append(sc.Ops, ops[o].name)
							sc.Program = append(sc.Program, ops[o].src)
						}
						total.Violate(s.v.key, s.v.what+"  [history: h0 = T(<populated>); "+strings.Join(sc.Program, "; ")+"]", sc)
					}
					continue // do not explore beyond a violating state
				}
				if _, ok := seen[s.hash]; !ok {
					seen[s.hash] = struct{}{}
					states++
					lastLevel++
					if depth+1 < cfg.maxDepth {
						next = append(next, path) // states of the last level are judged and counted, not stored
					} else if lastLevel == 1 || lastLevel%50021 == 0 {
						samplePath = path
					}
				}
			}
		}
		if cut {
			break
		}
		depth++
		total.Count(fmt.Sprintf("%s.states_at_depth_%d", cfg.name, depth), lastLevel)
		if depth == cfg.maxDepth {
			break
		}
		frontier = next
		if len(frontier) == 0 {
			fixpoint = true
		}
	}
	total.States += states
	total.Transitions += transitions
	total.Evals += transitions
	total.Nontrivial += states - 1
	total.Count(cfg.name+".states", states)
	total.Count(cfg.name+".transitions", transitions)
	total.Count(cfg.name+".alphabet", int64(len(ops)))
	total.Count(cfg.name+".pruned_cyclic_graph", pruned)
	total.Count(cfg.name+".violating_transitions", viols)
	total.Count(cfg.name+".transitions_where_op_returned_error", opErrors)
	total.Outcome(fmt.Sprintf("%s:states=%d", cfg.name, states))
	switch {
	case fixpoint:
		total.Levels = append(total.Levels, fmt.Sprintf("%s:fixpoint@depth%d", cfg.name, depth))
	case depth > 0:
		total.Levels = append(total.Levels, fmt.Sprintf("%s:%d handles, all histories of length<=%d", cfg.name, cfg.nslots, depth))
	}
	if len(frontier) > 0 {
		p := frontier[len(frontier)/2]
		if samplePath != nil {
			p = samplePath
		}
		var prog []string
		for _, o := range p {
			prog = append(prog, ops[o].src)
		}
		w, _, _ := replayHistory(e, e.thread("c20-sample"), cfg, ops, p, false)
		total.Sample(map[string]any{"exploration": "S", "config": cfg.name, "history": prog, "state": w.key()})
	}
}

func replayS(sc sCase) []fw.Viol {
	cfg := sconfigByName(sc.Config)
	if cfg == nil {
		fw.Fatal("c20: unknown config %q", sc.Config)
	}
	ops := cfg.ops()
	idx := map[string]uint16{}
	for i, o := range ops {
		idx[o.name] = uint16(i)
	}
	var path []uint16
	for _, n := range sc.Ops {
		i, ok := idx[n]
		if !ok {
			fw.Fatal("c20: unknown op %q", n)
		}
		path = append(path, i)
	}
	e := getEnv()
	_, v, _ := replayHistory(e, e.thread("c20-replay"), cfg, ops, path, true)
	if v == nil {
		return nil
	}
	return []fw.Viol{{Key: v.key, What: v.what}}
}
