// Package c20 decides C20: protocol messages (lib/proto) stay well-typed,
// lossless and respect freezing.
//
// Two bounded exhaustive explorations of the real lib/proto implementation:
//
//	E  every field kind x boundary value x assignment position, judged by an
//	   acceptance table written from the documented conversion rules, exact
//	   read-back, binary and text round trip, and "no host panic";
//	S  explicit-state breadth-first search over histories of construct /
//	   assign / alias / copy / take-view / freeze / mutate operations on up to
//	   three handles; after every transition every storage that was reachable
//	   from a frozen handle must be unchanged, self/cross assignment of
//	   repeated and map fields must not lose data, and every stored value
//	   must have its field's Go type and range.
package c20

import (
	"fmt"
	"math/big"
	"strings"
	"sync"

	"google.golang.org/protobuf/proto"
	"google.golang.org/protobuf/reflect/protodesc"
	"google.golang.org/protobuf/reflect/protoreflect"
	"google.golang.org/protobuf/reflect/protoregistry"
	"google.golang.org/protobuf/types/descriptorpb"

	starlarkproto "go.starlark.net/lib/proto"
	"go.starlark.net/starlark"
	"go.starlark.net/syntax"

	"verif/internal/fw"
)

// kindInfo describes one field kind of the harness message.
type kindInfo struct {
	name  string
	typ   descriptorpb.FieldDescriptorProto_Type
	class string // int | bool | string | bytes | float | double | enum | msg
	min   *big.Int
	max   *big.Int
	keyOK bool // may be a map key
}

func pow2(n uint) *big.Int       { return new(big.Int).Lsh(big.NewInt(1), n) }
func neg(x *big.Int) *big.Int    { return new(big.Int).Neg(x) }
func minus1(x *big.Int) *big.Int { return new(big.Int).Sub(x, big.NewInt(1)) }

var (
	i32min, i32max = neg(pow2(31)), minus1(pow2(31))
	i64min, i64max = neg(pow2(63)), minus1(pow2(63))
	u32max, u64max = minus1(pow2(32)), minus1(pow2(64))
	zero           = big.NewInt(0)
)

const (
	tDouble   = descriptorpb.FieldDescriptorProto_TYPE_DOUBLE
	tFloat    = descriptorpb.FieldDescriptorProto_TYPE_FLOAT
	tInt64    = descriptorpb.FieldDescriptorProto_TYPE_INT64
	tUint64   = descriptorpb.FieldDescriptorProto_TYPE_UINT64
	tInt32    = descriptorpb.FieldDescriptorProto_TYPE_INT32
	tFixed64  = descriptorpb.FieldDescriptorProto_TYPE_FIXED64
	tFixed32  = descriptorpb.FieldDescriptorProto_TYPE_FIXED32
	tBool     = descriptorpb.FieldDescriptorProto_TYPE_BOOL
	tString   = descriptorpb.FieldDescriptorProto_TYPE_STRING
	tMessage  = descriptorpb.FieldDescriptorProto_TYPE_MESSAGE
	tBytes    = descriptorpb.FieldDescriptorProto_TYPE_BYTES
	tUint32   = descriptorpb.FieldDescriptorProto_TYPE_UINT32
	tEnum     = descriptorpb.FieldDescriptorProto_TYPE_ENUM
	tSfixed32 = descriptorpb.FieldDescriptorProto_TYPE_SFIXED32
	tSfixed64 = descriptorpb.FieldDescriptorProto_TYPE_SFIXED64
	tSint32   = descriptorpb.FieldDescriptorProto_TYPE_SINT32
	tSint64   = descriptorpb.FieldDescriptorProto_TYPE_SINT64
)

// kinds: the 15 scalar kinds, then enum and message.
var kinds = []kindInfo{
	{"int32", tInt32, "int", i32min, i32max, true},
	{"sint32", tSint32, "int", i32min, i32max, true},
	{"sfixed32", tSfixed32, "int", i32min, i32max, true},
	{"uint32", tUint32, "int", zero, u32max, true},
	{"fixed32", tFixed32, "int", zero, u32max, true},
	{"int64", tInt64, "int", i64min, i64max, true},
	{"sint64", tSint64, "int", i64min, i64max, true},
	{"sfixed64", tSfixed64, "int", i64min, i64max, true},
	{"uint64", tUint64, "int", zero, u64max, true},
	{"fixed64", tFixed64, "int", zero, u64max, true},
	{"bool", tBool, "bool", nil, nil, true},
	{"string", tString, "string", nil, nil, true},
	{"bytes", tBytes, "bytes", nil, nil, false},
	{"double", tDouble, "double", nil, nil, false},
	{"float", tFloat, "float", nil, nil, false},
	{"enum", tEnum, "enum", nil, nil, false},
	{"msg", tMessage, "msg", nil, nil, false},
}

func kindByName(n string) *kindInfo {
	for i := range kinds {
		if kinds[i].name == n {
			return &kinds[i]
		}
	}
	return nil
}

func camel(s string) string {
	var sb strings.Builder
	up := true
	for _, r := range s {
		if r == '_' {
			up = true
			continue
		}
		if up {
			sb.WriteString(strings.ToUpper(string(r)))
			up = false
		} else {
			sb.WriteRune(r)
		}
	}
	return sb.String()
}

// buildFile builds c20.proto (proto2: explicit presence):
//
//	enum E { E0=0; E1=1; E5=5; }   enum Other { O0=0; O7=7; }
//	message T {
//	  optional <K> f_<K>; repeated <K> r_<K>; map<string,K> mv_<K>;   for the 17 kinds
//	  map<K,int32> mk_<K>;                                           for the 12 key kinds
//	  map<int64,T> mm;
//	}
func buildFile() *descriptorpb.FileDescriptorProto {
	opt := descriptorpb.FieldDescriptorProto_LABEL_OPTIONAL.Enum()
	rep := descriptorpb.FieldDescriptorProto_LABEL_REPEATED.Enum()
	T := &descriptorpb.DescriptorProto{Name: proto.String("T")}
	num := int32(0)
	typeName := func(k *kindInfo) *string {
		switch k.class {
		case "enum":
			return proto.String(".c20.E")
		case "msg":
			return proto.String(".c20.T")
		}
		return nil
	}
	field := func(name string, label *descriptorpb.FieldDescriptorProto_Label, k *kindInfo) {
		num++
		T.Field = append(T.Field, &descriptorpb.FieldDescriptorProto{
			Name: proto.String(name), JsonName: nil, Number: proto.Int32(num), Label: label, Type: k.typ.Enum(), TypeName: typeName(k)})
	}
	mapField := func(name string, key, val *kindInfo) {
		entry := camel(name) + "Entry"
		T.NestedType = append(T.NestedType, &descriptorpb.DescriptorProto{
			Name: proto.String(entry),
			Field: []*descriptorpb.FieldDescriptorProto{
				{Name: proto.String("key"), Number: proto.Int32(1), Label: opt, Type: key.typ.Enum()},
				{Name: proto.String("value"), Number: proto.Int32(2), Label: opt, Type: val.typ.Enum(), TypeName: typeName(val)},
			},
			Options: &descriptorpb.MessageOptions{MapEntry: proto.Bool(true)},
		})
		num++
		T.Field = append(T.Field, &descriptorpb.FieldDescriptorProto{
			Name: proto.String(name), Number: proto.Int32(num), Label: rep, Type: tMessage.Enum(), TypeName: proto.String(".c20.T." + entry)})
	}
	str, i32, i64 := kindByName("string"), kindByName("int32"), kindByName("int64")
	for i := range kinds {
		k := &kinds[i]
		field("f_"+k.name, opt, k)
		field("r_"+k.name, rep, k)
		mapField("mv_"+k.name, str, k)
		if k.keyOK {
			mapField("mk_"+k.name, k, i32)
		}
	}
	mapField("mm", i64, kindByName("msg"))
	// a second enum type and a second message type in every cardinality, so
	// that values of the same kind but another type can meet (cross-field
	// assignment of views)
	U := &descriptorpb.DescriptorProto{Name: proto.String("U"), Field: []*descriptorpb.FieldDescriptorProto{
		{Name: proto.String("a"), Number: proto.Int32(1), Label: opt, Type: tInt32.Enum()}}}
	other := func(name string, label *descriptorpb.FieldDescriptorProto_Label, typ descriptorpb.FieldDescriptorProto_Type, tn string) {
		num++
		T.Field = append(T.Field, &descriptorpb.FieldDescriptorProto{Name: proto.String(name), Number: proto.Int32(num), Label: label, Type: typ.Enum(), TypeName: proto.String(tn)})
	}
	other("f_enum2", opt, tEnum, ".c20.Other")
	other("r_enum2", rep, tEnum, ".c20.Other")
	other("f_msg2", opt, tMessage, ".c20.U")
	other("r_msg2", rep, tMessage, ".c20.U")
	mapOther := func(name string, typ descriptorpb.FieldDescriptorProto_Type, tn string) {
		entry := camel(name) + "Entry"
		T.NestedType = append(T.NestedType, &descriptorpb.DescriptorProto{
			Name: proto.String(entry),
			Field: []*descriptorpb.FieldDescriptorProto{
				{Name: proto.String("key"), Number: proto.Int32(1), Label: opt, Type: str.typ.Enum()},
				{Name: proto.String("value"), Number: proto.Int32(2), Label: opt, Type: typ.Enum(), TypeName: proto.String(tn)},
			},
			Options: &descriptorpb.MessageOptions{MapEntry: proto.Bool(true)},
		})
		num++
		T.Field = append(T.Field, &descriptorpb.FieldDescriptorProto{
			Name: proto.String(name), Number: proto.Int32(num), Label: rep, Type: tMessage.Enum(), TypeName: proto.String(".c20.T." + entry)})
	}
	mapOther("mv_enum2", tEnum, ".c20.Other")
	mapOther("mv_msg2", tMessage, ".c20.U")
	// extensions of T: one optional and one repeated extension per kind
	T.ExtensionRange = []*descriptorpb.DescriptorProto_ExtensionRange{{Start: proto.Int32(1000), End: proto.Int32(2000)}}
	var exts []*descriptorpb.FieldDescriptorProto
	xnum := int32(1000)
	for i := range kinds {
		k := &kinds[i]
		for _, c := range []struct {
			prefix string
			label  *descriptorpb.FieldDescriptorProto_Label
		}{{"x_", opt}, {"xr_", rep}} {
			exts = append(exts, &descriptorpb.FieldDescriptorProto{Name: proto.String(c.prefix + k.name), Number: proto.Int32(xnum), Label: c.label,
				Type: k.typ.Enum(), TypeName: typeName(k), Extendee: proto.String(".c20.T")})
			xnum++
		}
	}
	enum := func(name string, vals ...any) *descriptorpb.EnumDescriptorProto {
		e := &descriptorpb.EnumDescriptorProto{Name: proto.String(name)}
		for i := 0; i < len(vals); i += 2 {
			e.Value = append(e.Value, &descriptorpb.EnumValueDescriptorProto{Name: proto.String(vals[i].(string)), Number: proto.Int32(int32(vals[i+1].(int)))})
		}
		return e
	}
	return &descriptorpb.FileDescriptorProto{
		Name:        proto.String("c20.proto"),
		Package:     proto.String("c20"),
		Syntax:      proto.String("proto2"),
		MessageType: []*descriptorpb.DescriptorProto{T, U},
		Extension:   exts,
		EnumType:    []*descriptorpb.EnumDescriptorProto{enum("E", "E0", 0, "E1", 1, "E5", 5), enum("Other", "O0", 0, "O7", 7)},
	}
}

// env is the immutable shared harness environment.
type env struct {
	pool  *protoregistry.Files
	tdesc protoreflect.MessageDescriptor
	T     starlarkproto.MessageDescriptor
	E     starlarkproto.EnumDescriptor
	Other starlarkproto.EnumDescriptor
	U     starlarkproto.MessageDescriptor
	S     starlarkproto.FileDescriptor // the file: its attributes are the extension fields
	pre   starlark.StringDict          // predeclared names of every case program
	help  starlark.StringDict          // compiled helper functions for S
	fopts *syntax.FileOptions
}

var (
	envOnce sync.Once
	theEnv  *env
)

func getEnv() *env {
	envOnce.Do(func() {
		pool, err := protodesc.NewFiles(&descriptorpb.FileDescriptorSet{File: []*descriptorpb.FileDescriptorProto{buildFile()}})
		if err != nil {
			fw.Fatal("c20: descriptor: %v", err)
		}
		d, err := pool.FindDescriptorByName("c20.T")
		if err != nil {
			fw.Fatal("c20: %v", err)
		}
		ed, _ := pool.FindDescriptorByName("c20.E")
		od, _ := pool.FindDescriptorByName("c20.Other")
		e := &env{pool: pool, tdesc: d.(protoreflect.MessageDescriptor)}
		e.T = starlarkproto.MessageDescriptor{Desc: e.tdesc}
		e.E = starlarkproto.EnumDescriptor{Desc: ed.(protoreflect.EnumDescriptor)}
		e.Other = starlarkproto.EnumDescriptor{Desc: od.(protoreflect.EnumDescriptor)}
		ud, _ := pool.FindDescriptorByName("c20.U")
		e.U = starlarkproto.MessageDescriptor{Desc: ud.(protoreflect.MessageDescriptor)}
		e.S = starlarkproto.FileDescriptor{Desc: e.tdesc.ParentFile()}
		e.pre = starlark.StringDict{"proto": starlarkproto.Module, "T": e.T, "E": e.E, "Other": e.Other, "U": e.U, "S": e.S}
		// TF: a message type of another descriptor pool with the same full name
		// as T (c20.T) and another layout: f_int32 is a string there (a second
		// revision of the schema, a module run with another pool).  It is not T.
		n32 := int32(e.tdesc.Fields().ByName("f_int32").Number())
		fpool, err := protodesc.NewFiles(&descriptorpb.FileDescriptorSet{File: []*descriptorpb.FileDescriptorProto{{
			Name: proto.String("c20.proto"), Package: proto.String("c20"), Syntax: proto.String("proto2"),
			MessageType: []*descriptorpb.DescriptorProto{{Name: proto.String("T"), Field: []*descriptorpb.FieldDescriptorProto{
				{Name: proto.String("f_int32"), Number: proto.Int32(n32), Label: descriptorpb.FieldDescriptorProto_LABEL_OPTIONAL.Enum(), Type: descriptorpb.FieldDescriptorProto_TYPE_STRING.Enum()}}}},
			// EF: c20.E of the other pool declares a value that E does not have
			EnumType: []*descriptorpb.EnumDescriptorProto{{Name: proto.String("E"), Value: []*descriptorpb.EnumValueDescriptorProto{
				{Name: proto.String("E0"), Number: proto.Int32(0)}, {Name: proto.String("E1"), Number: proto.Int32(1)}, {Name: proto.String("E7"), Number: proto.Int32(7)}}}},
		}}})
		if err != nil {
			fw.Fatal("c20: foreign descriptor: %v", err)
		}
		fd, _ := fpool.FindDescriptorByName("c20.T")
		e.pre["TF"] = starlarkproto.MessageDescriptor{Desc: fd.(protoreflect.MessageDescriptor)}
		fe, _ := fpool.FindDescriptorByName("c20.E")
		e.pre["EF"] = starlarkproto.EnumDescriptor{Desc: fe.(protoreflect.EnumDescriptor)}
		e.fopts = &syntax.FileOptions{Set: true, GlobalReassign: true, TopLevelControl: true, While: true}
		th := e.thread("c20-helpers")
		g, err := starlark.ExecFileOptions(e.fopts, th, "c20helpers.star", helperSrc, e.pre)
		if err != nil {
			fw.Fatal("c20 helpers: %v", err)
		}
		e.help = g
		theEnv = e
	})
	return theEnv
}

func (e *env) thread(name string) *starlark.Thread {
	th := &starlark.Thread{Name: name}
	starlarkproto.SetPool(th, e.pool)
	return th
}

func (e *env) fd(name string) protoreflect.FieldDescriptor {
	f := e.tdesc.Fields().ByName(protoreflect.Name(name))
	if f == nil {
		fw.Fatal("c20: no field %s", name)
	}
	return f
}

// ---------------------------------------------------------------------------
// well-typedness of everything stored in a message (both explorations)

// checkTyped walks every populated field of m (recursively, cycle-safe) and
// reports the first value whose Go representation or range is not the one of
// its declared kind.
func checkTyped(m protoreflect.Message) string {
	seen := map[any]bool{}
	var bad string
	var scalar func(fd protoreflect.FieldDescriptor, v protoreflect.Value) bool
	var walk func(m protoreflect.Message) bool
	scalar = func(fd protoreflect.FieldDescriptor, v protoreflect.Value) bool {
		x := v.Interface()
		ok := false
		switch fd.Kind() {
		case protoreflect.BoolKind:
			_, ok = x.(bool)
		case protoreflect.Int32Kind, protoreflect.Sint32Kind, protoreflect.Sfixed32Kind:
			_, ok = x.(int32)
		case protoreflect.Uint32Kind, protoreflect.Fixed32Kind:
			_, ok = x.(uint32)
		case protoreflect.Int64Kind, protoreflect.Sint64Kind, protoreflect.Sfixed64Kind:
			_, ok = x.(int64)
		case protoreflect.Uint64Kind, protoreflect.Fixed64Kind:
			_, ok = x.(uint64)
		case protoreflect.FloatKind:
			_, ok = x.(float32)
		case protoreflect.DoubleKind:
			_, ok = x.(float64)
		case protoreflect.StringKind:
			_, ok = x.(string)
		case protoreflect.BytesKind:
			_, ok = x.([]byte)
		case protoreflect.EnumKind:
			var n protoreflect.EnumNumber
			n, ok = x.(protoreflect.EnumNumber)
			if ok && fd.Enum().Values().ByNumber(n) == nil {
				bad = fmt.Sprintf("field %s holds enum number %d which %s does not define", fd.FullName(), n, fd.Enum().FullName())
				return false
			}
		case protoreflect.MessageKind, protoreflect.GroupKind:
			sub, isMsg := x.(protoreflect.Message)
			if !isMsg {
				break
			}
			if sub.Descriptor() != fd.Message() {
				bad = fmt.Sprintf("field %s holds a %s", fd.FullName(), sub.Descriptor().FullName())
				return false
			}
			return walk(sub)
		}
		if !ok {
			bad = fmt.Sprintf("field %s (%s) holds Go value of type %T", fd.FullName(), fd.Kind(), x)
		}
		return ok
	}
	walk = func(m protoreflect.Message) bool {
		if seen[m] {
			return true
		}
		seen[m] = true
		good := true
		m.Range(func(fd protoreflect.FieldDescriptor, v protoreflect.Value) bool {
			switch {
			case fd.IsList():
				l := v.List()
				for i := 0; i < l.Len() && good; i++ {
					good = scalar(fd, l.Get(i))
				}
			case fd.IsMap():
				v.Map().Range(func(k protoreflect.MapKey, mv protoreflect.Value) bool {
					good = scalar(fd.MapKey(), k.Value()) && scalar(fd.MapValue(), mv)
					return good
				})
			default:
				good = scalar(fd, v)
			}
			return good
		})
		return good
	}
	walk(m)
	return bad
}
