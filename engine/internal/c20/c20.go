package c20

import (
	"encoding/json"
	"os"
	"runtime/debug"
	"runtime/pprof"

	"verif/internal/fw"
)

func run(c *fw.Ctx) *fw.Stats {
	total := fw.NewStats()
	debug.SetGCPercent(400)
	if pf := os.Getenv("C20_CPUPROFILE"); pf != "" {
		if f, err := os.Create(pf); err == nil {
			pprof.StartCPUProfile(f)
			defer pprof.StopCPUProfile()
		}
	}
	runE(c, total)
	runX(c, total)
	first := map[string]bool{}
	for _, cfg := range sconfigs(c.Tier) {
		searchS(c, cfg, total, first)
	}
	return total
}

func replay(c *fw.Ctx, raw json.RawMessage) []fw.Viol {
	var probe struct {
		Kind   string `json:"kind"`
		Config string `json:"config"`
	}
	if err := json.Unmarshal(raw, &probe); err != nil {
		fw.Fatal("c20: bad case: %v", err)
	}
	if probe.Config == "X" {
		var xc xCase
		json.Unmarshal(raw, &xc)
		return replayX(xc)
	}
	if probe.Config != "" {
		var sc sCase
		json.Unmarshal(raw, &sc)
		return replayS(sc)
	}
	var ec eCase
	json.Unmarshal(raw, &ec)
	return replayE(ec)
}

func init() {
	fw.Register(&fw.Prop{
		ID:    "C20",
		Level: "model_checking",
		Rule: "E: every field kind (15 scalar kinds, enum, message) x every boundary value (int32/int64/uint32/uint64 limits and limit+-1, 2^64, floats incl. NaN/-0/inf, bools, str, bytes, None, enum values of the right and of another enum, undefined enum number/name, message, dict, list) x every position " +
			"(attribute, constructor keyword, dict constructor, set_field, nested dict, repeated: list assignment/constructor/set_field/append/x[i]=, map value: m[k]=/overwrite/dict assignment/constructor, map key: m[k]=/dict assignment/constructor/in/index) on a fresh message built from a programmatic descriptor; " +
			"oracle = acceptance table from the documented conversions (accept/reject/open), exact read-back, binary and text marshal->unmarshal equality, Go-type walk of every stored value, any recovered Go panic is a violation; every case is non-trivial. " +
			"X: every ordered pair (source field, destination field) over all fields of the message (17 kinds in singular/repeated/map position, second enum and message types, one optional and one repeated extension per kind) x write form (attribute, set_field, constructor, extend, update, as one element) x {mutable, frozen destination}: the value read from the populated source (scalar, message, RepeatedField view, MapField view) is written to the destination; no panic, source unchanged, both messages well-typed after either outcome, same-field writes succeed and reproduce the content, frozen destinations refuse and stay unchanged; non-trivial = accepted writes. " +
			"S: explicit-state BFS, successor = replay of the history on fresh objects + one operation of {new, empty, copy T(h), h.f_msg=g.f_msg, h.F=g.F (repeated/map, also g=h), take view/sub-message/element handle, freeze handle, mutate through handle (scalar, x[0]=, append, m[k]=), mutate through a path from a message handle}; " +
			"state = object graph of all handles and frozen storages with storage identities (aliasing), content, per-handle model and actual frozen flag; invariants per transition: content of every storage whose handle was frozen is unchanged, h.F=g.F leaves destination equal to the source's previous content and the source unchanged, every stored value has its kind's Go type and range, no panic; cyclic message graphs are pruned; non-trivial = distinct states other than the initial one",
		Run:    run,
		Replay: replay,
		Assumptions: []string{
			"messages are dynamicpb messages of a proto2 file built with descriptorpb/protodesc (explicit presence; lib/proto uses dynamicpb for every non-builtin message type)",
			"extension fields (one optional and one repeated extension per kind, reached through set_field/get_field/has): acceptance, read-back, typing, freezing and panic-freedom are judged; their marshal->unmarshal round trip is not, because proto.unmarshal cannot see the thread's descriptor pool and returns them as unknown fields",
			"conversions that the documentation leaves open (str->bytes field, bytes->string field, int->float/double, float not representable in binary32) are not judged for acceptance, only for panic-freedom and read-back",
			"a violating state is not expanded further; per violation key only the first (shortest, BFS order) history is reported, all violating transitions are counted in counters",
			"storage identity and the private frozen flag of wrappers are read by reflection for the state key only; no oracle depends on them",
		},
		BudgetQuick: 60, BudgetThorough: 900,
	})
}
