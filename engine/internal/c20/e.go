package c20

import (
	"fmt"
	"math"
	"math/big"
	"strings"

	"google.golang.org/protobuf/proto"

	starlarkproto "go.starlark.net/lib/proto"
	"go.starlark.net/starlark"

	"verif/internal/fw"
)

// ---------------------------------------------------------------------------
// values

type tval struct {
	name string // unique name (replay identity)
	key  string // coarse class used in violation keys
	src  string // Starlark source
	typ  string // int float bool str bytes none enumval otherenum msg dict baddict list
	i    *big.Int
	f    float64
	s    string
	b    bool
}

func intVal(name string, i *big.Int) tval {
	return tval{name: "int:" + name, key: "int:" + name, src: i.String(), typ: "int", i: i}
}

var values = func() []tval {
	vs := []tval{
		intVal("-2^63-1", minus1(i64min)),
		intVal("-2^63", i64min),
		intVal("-2^31-1", minus1(i32min)),
		intVal("-2^31", i32min),
		intVal("-1", big.NewInt(-1)),
		intVal("0", big.NewInt(0)),
		intVal("1", big.NewInt(1)),
		intVal("5", big.NewInt(5)), // a defined enum number
		intVal("7", big.NewInt(7)), // an undefined enum number
		intVal("2^31-1", i32max),
		intVal("2^31", pow2(31)),
		intVal("2^32-1", u32max),
		intVal("2^32", pow2(32)),
		intVal("2^63-1", i64max),
		intVal("2^63", pow2(63)),
		intVal("2^64-1", u64max),
		intVal("2^64", pow2(64)),
		{name: "float:1.5", key: "float", src: "1.5", typ: "float", f: 1.5},
		{name: "float:2.0", key: "float", src: "2.0", typ: "float", f: 2},
		{name: "float:-0.0", key: "float", src: "-0.0", typ: "float", f: math.Copysign(0, -1)},
		{name: "float:0.1", key: "float", src: "0.1", typ: "float", f: 0.1},
		{name: "float:1e300", key: "float", src: "1e300", typ: "float", f: 1e300},
		{name: "float:-inf", key: "float", src: `float("-inf")`, typ: "float", f: math.Inf(-1)},
		{name: "float:nan", key: "float", src: `float("nan")`, typ: "float", f: math.NaN()},
		{name: "bool:True", key: "bool", src: "True", typ: "bool", b: true},
		{name: "bool:False", key: "bool", src: "False", typ: "bool", b: false},
		{name: "str:empty", key: "str", src: `""`, typ: "str", s: ""},
		{name: "str:E1", key: "str", src: `"E1"`, typ: "str", s: "E1"}, // a defined enum name
		{name: "str:NOPE", key: "str", src: `"NOPE"`, typ: "str", s: "NOPE"},
		{name: "str:utf8", key: "str", src: `"héllo世"`, typ: "str", s: "héllo世"},
		{name: "bytes:empty", key: "bytes", src: `b""`, typ: "bytes", s: ""},
		{name: "bytes:x", key: "bytes", src: `b"x"`, typ: "bytes", s: "x"},
		{name: "bytes:ff00", key: "bytes", src: `b"\xff\x00"`, typ: "bytes", s: "\xff\x00"},
		{name: "none", key: "None", src: "None", typ: "none"},
		{name: "enum:E.E1", key: "enumvalue", src: "E.E1", typ: "enumval", i: big.NewInt(1)},
		{name: "enum:Other.O7", key: "other-enum", src: "Other.O7", typ: "otherenum"},
		{name: "msg", key: "message", src: "T(f_int32=1)", typ: "msg", i: big.NewInt(1)},
		{name: "enum:same-name-other-pool:E7", key: "value-of-a-same-named-enum-of-another-pool", src: "EF.E7", typ: "foreignenum"},
		{name: "enum:same-name-other-pool:E1", key: "value-of-a-same-named-enum-of-another-pool", src: "EF.E1", typ: "foreignenum"},
		{name: "msg:other-type", key: "message-of-another-type", src: "U(a=1)", typ: "othermsg"},
		{name: "msg:same-name-other-pool", key: "message-of-a-same-named-type-of-another-pool", src: `TF(f_int32="seven")`, typ: "foreignmsg"},
		{name: "dict:empty", key: "dict", src: "{}", typ: "dict", i: nil},
		{name: "dict:ok", key: "dict", src: `{"f_int32": 1}`, typ: "dict", i: big.NewInt(1)},
		{name: "dict:badvalue", key: "dict", src: `{"f_int32": "x"}`, typ: "baddict"},
		{name: "dict:badfield", key: "dict", src: `{"nope": 1}`, typ: "baddict"},
		{name: "list", key: "list", src: "[1]", typ: "list"},
	}
	return vs
}()

func valByName(n string) *tval {
	for i := range values {
		if values[i].name == n {
			return &values[i]
		}
	}
	return nil
}

// ---------------------------------------------------------------------------
// acceptance table (from the package doc, the comments of toProto/setField,
// and the property statement)

const (
	mustAccept = "accept"
	mustReject = "reject"
	either     = "either" // the documentation leaves it open; if accepted the read-back below is demanded
)

type want struct {
	typ    string // int str bytes bool float enum msg cleared
	i      *big.Int
	f      float64
	s      string
	b      bool
	hasF32 bool // msg: whether f_int32 is expected to be set
}

var enumNumbers = map[int64]bool{0: true, 1: true, 5: true}
var enumNames = map[string]int64{"E0": 0, "E1": 1, "E5": 5}

func bigToFloat(i *big.Int) float64 {
	f, _ := new(big.Float).SetInt(i).Float64() // round to nearest even
	return f
}

// expect is the oracle for one (kind, value) pair. element: the value is an
// element / map key / map value (None cannot clear anything there).
func expect(k *kindInfo, v *tval, element bool) (string, want) {
	if v.typ == "none" {
		if element {
			return mustReject, want{}
		}
		// setField: "If value is None, the field is unset."
		return mustAccept, want{typ: "cleared"}
	}
	switch k.class {
	case "int":
		if v.typ == "int" && v.i.Cmp(k.min) >= 0 && v.i.Cmp(k.max) <= 0 {
			return mustAccept, want{typ: "int", i: v.i}
		}
	case "bool":
		if v.typ == "bool" {
			return mustAccept, want{typ: "bool", b: v.b}
		}
	case "string":
		switch v.typ {
		case "str":
			return mustAccept, want{typ: "str", s: v.s}
		case "bytes":
			// toProto: "TODO: allow bytes for string?" -- open; never a panic.
			return either, want{typ: "str", s: v.s}
		}
	case "bytes":
		switch v.typ {
		case "bytes":
			return mustAccept, want{typ: "bytes", s: v.s}
		case "str":
			// toProto accepts str for bytes fields and says it should not: open.
			return either, want{typ: "bytes", s: v.s}
		}
	case "double":
		switch v.typ {
		case "float":
			return mustAccept, want{typ: "float", f: v.f}
		case "int":
			// int -> float conversion is implemented and may round: open.
			return either, want{typ: "float", f: bigToFloat(v.i)}
		}
	case "float":
		switch v.typ {
		case "float":
			r := float64(float32(v.f))
			if r == v.f || v.f != v.f {
				return mustAccept, want{typ: "float", f: r}
			}
			return either, want{typ: "float", f: r} // not representable in binary32
		case "int":
			return either, want{typ: "float", f: float64(float32(bigToFloat(v.i)))}
		}
	case "enum":
		switch v.typ {
		case "int":
			if v.i.IsInt64() && enumNumbers[v.i.Int64()] {
				return mustAccept, want{typ: "enum", i: v.i}
			}
		case "str":
			if n, ok := enumNames[v.s]; ok {
				return mustAccept, want{typ: "enum", i: big.NewInt(n)}
			}
		case "enumval":
			return mustAccept, want{typ: "enum", i: v.i}
		}
	case "msg":
		switch v.typ {
		case "msg", "dict":
			return mustAccept, want{typ: "msg", i: v.i, hasF32: v.i != nil}
		}
	}
	return mustReject, want{}
}

func matches(got starlark.Value, w want) bool {
	switch w.typ {
	case "int":
		x, ok := got.(starlark.Int)
		return ok && x.BigInt().Cmp(w.i) == 0
	case "bool":
		x, ok := got.(starlark.Bool)
		return ok && bool(x) == w.b
	case "str":
		x, ok := got.(starlark.String)
		return ok && string(x) == w.s
	case "bytes":
		x, ok := got.(starlark.Bytes)
		return ok && string(x) == w.s
	case "float":
		x, ok := got.(starlark.Float)
		if !ok {
			return false
		}
		if w.f != w.f {
			return float64(x) != float64(x)
		}
		return math.Float64bits(float64(x)) == math.Float64bits(w.f)
	case "enum":
		x, ok := got.(starlarkproto.EnumValueDescriptor)
		return ok && x.Desc != nil && string(x.Desc.Parent().FullName()) == "c20.E" && int64(x.Desc.Number()) == w.i.Int64()
	case "msg":
		x, ok := got.(*starlarkproto.Message)
		if !ok || string(x.Message().ProtoReflect().Descriptor().FullName()) != "c20.T" {
			return false
		}
		pr := x.Message().ProtoReflect()
		fd := pr.Descriptor().Fields().ByName("f_int32")
		if !w.hasF32 {
			return !pr.Has(fd)
		}
		return pr.Has(fd) && pr.Get(fd).Int() == w.i.Int64()
	}
	return false
}

// ---------------------------------------------------------------------------
// positions

type position struct {
	name    string
	group   string // key granularity: singular repeated map_value map_key
	element bool
	mapKey  bool
	lookup  bool // read-only operation: only "no panic, nothing changes" is judged
	setup   func(k *kindInfo) string
	op      func(k *kindInfo, v string) string
	read    func(k *kindInfo, v string) string // expression over X (the written message)
	target  string                             // "m" (pre-existing message) or "r" (constructed by op)
	has     func(k *kindInfo) string           // presence test over X (default: proto.has(X, "f_<kind>"))
	ext     bool                               // extension field: the text round trip is not judged (see Assumptions)
}

func okSrc(k *kindInfo) string {
	switch k.class {
	case "int":
		return "3"
	case "bool":
		return "True"
	case "string":
		return `"ok"`
	case "bytes":
		return `b"ok"`
	case "double", "float":
		return "2.5"
	case "enum":
		return "E.E5"
	}
	return "T(f_int32=3)"
}

var positions = []position{
	{name: "attr", group: "singular", target: "m",
		op:   func(k *kindInfo, v string) string { return fmt.Sprintf("m.f_%s = %s", k.name, v) },
		read: func(k *kindInfo, v string) string { return "X.f_" + k.name }},
	{name: "ctor_kw", group: "singular", target: "r",
		op:   func(k *kindInfo, v string) string { return fmt.Sprintf("r = T(f_%s = %s)", k.name, v) },
		read: func(k *kindInfo, v string) string { return "X.f_" + k.name }},
	{name: "ctor_dict", group: "singular", target: "r",
		op:   func(k *kindInfo, v string) string { return fmt.Sprintf(`r = T({"f_%s": %s})`, k.name, v) },
		read: func(k *kindInfo, v string) string { return "X.f_" + k.name }},
	{name: "set_field", group: "singular", target: "m",
		op:   func(k *kindInfo, v string) string { return fmt.Sprintf("proto.set_field(m, T.f_%s, %s)", k.name, v) },
		read: func(k *kindInfo, v string) string { return "X.f_" + k.name }},
	{name: "nested_dict", group: "singular", target: "m",
		op:   func(k *kindInfo, v string) string { return fmt.Sprintf(`m.f_msg = {"f_%s": %s}`, k.name, v) },
		read: func(k *kindInfo, v string) string { return "X.f_msg.f_" + k.name }},
	{name: "rep_assign", group: "repeated", element: true, target: "m",
		op:   func(k *kindInfo, v string) string { return fmt.Sprintf("m.r_%s = [%s, %s]", k.name, okSrc(k), v) },
		read: func(k *kindInfo, v string) string { return fmt.Sprintf("X.r_%s[1]", k.name) }},
	{name: "rep_ctor", group: "repeated", element: true, target: "r",
		op:   func(k *kindInfo, v string) string { return fmt.Sprintf("r = T(r_%s = [%s])", k.name, v) },
		read: func(k *kindInfo, v string) string { return fmt.Sprintf("X.r_%s[0]", k.name) }},
	{name: "rep_set_field", group: "repeated", element: true, target: "m",
		op:   func(k *kindInfo, v string) string { return fmt.Sprintf("proto.set_field(m, T.r_%s, (%s,))", k.name, v) },
		read: func(k *kindInfo, v string) string { return fmt.Sprintf("X.r_%s[0]", k.name) }},
	{name: "rep_append", group: "repeated", element: true, target: "m",
		setup: func(k *kindInfo) string { return fmt.Sprintf("r_%s = [%s]", k.name, okSrc(k)) },
		op:    func(k *kindInfo, v string) string { return fmt.Sprintf("m.r_%s.append(%s)", k.name, v) },
		read:  func(k *kindInfo, v string) string { return fmt.Sprintf("X.r_%s[1]", k.name) }},
	{name: "rep_setindex", group: "repeated", element: true, target: "m",
		setup: func(k *kindInfo) string { return fmt.Sprintf("r_%s = [%s]", k.name, okSrc(k)) },
		op:    func(k *kindInfo, v string) string { return fmt.Sprintf("m.r_%s[0] = %s", k.name, v) },
		read:  func(k *kindInfo, v string) string { return fmt.Sprintf("X.r_%s[0]", k.name) }},
	{name: "map_setvalue", group: "map_value", element: true, target: "m",
		setup: func(k *kindInfo) string { return fmt.Sprintf(`mv_%s = {"a": %s}`, k.name, okSrc(k)) },
		op:    func(k *kindInfo, v string) string { return fmt.Sprintf(`m.mv_%s["b"] = %s`, k.name, v) },
		read:  func(k *kindInfo, v string) string { return fmt.Sprintf(`X.mv_%s["b"]`, k.name) }},
	{name: "map_overwritevalue", group: "map_value", element: true, target: "m",
		setup: func(k *kindInfo) string { return fmt.Sprintf(`mv_%s = {"a": %s}`, k.name, okSrc(k)) },
		op:    func(k *kindInfo, v string) string { return fmt.Sprintf(`m.mv_%s["a"] = %s`, k.name, v) },
		read:  func(k *kindInfo, v string) string { return fmt.Sprintf(`X.mv_%s["a"]`, k.name) }},
	{name: "map_assign_value", group: "map_value", element: true, target: "m",
		op:   func(k *kindInfo, v string) string { return fmt.Sprintf(`m.mv_%s = {"a": %s}`, k.name, v) },
		read: func(k *kindInfo, v string) string { return fmt.Sprintf(`X.mv_%s["a"]`, k.name) }},
	{name: "map_ctor_value", group: "map_value", element: true, target: "r",
		op:   func(k *kindInfo, v string) string { return fmt.Sprintf(`r = T(mv_%s = {"a": %s})`, k.name, v) },
		read: func(k *kindInfo, v string) string { return fmt.Sprintf(`X.mv_%s["a"]`, k.name) }},
	{name: "map_setkey", group: "map_key", element: true, mapKey: true, target: "m",
		setup: func(k *kindInfo) string { return fmt.Sprintf(`mk_%s = {%s: 0}`, k.name, okSrc(k)) },
		op:    func(k *kindInfo, v string) string { return fmt.Sprintf(`m.mk_%s[%s] = 1`, k.name, v) },
		read: func(k *kindInfo, v string) string {
			return fmt.Sprintf(`[k for k in X.mk_%s if X.mk_%s[k] == 1]`, k.name, k.name)
		}},
	{name: "map_assign_key", group: "map_key", element: true, mapKey: true, target: "m",
		op: func(k *kindInfo, v string) string { return fmt.Sprintf(`m.mk_%s = {%s: 1}`, k.name, v) },
		read: func(k *kindInfo, v string) string {
			return fmt.Sprintf(`[k for k in X.mk_%s if X.mk_%s[k] == 1]`, k.name, k.name)
		}},
	{name: "map_ctor_key", group: "map_key", element: true, mapKey: true, target: "r",
		op: func(k *kindInfo, v string) string { return fmt.Sprintf(`r = T(mk_%s = {%s: 1})`, k.name, v) },
		read: func(k *kindInfo, v string) string {
			return fmt.Sprintf(`[k for k in X.mk_%s if X.mk_%s[k] == 1]`, k.name, k.name)
		}},
	// extension fields of every kind (reached only through set_field / get_field)
	{name: "ext_set_field", group: "extension", target: "m", ext: true,
		op:   func(k *kindInfo, v string) string { return fmt.Sprintf("proto.set_field(m, S.x_%s, %s)", k.name, v) },
		read: func(k *kindInfo, v string) string { return fmt.Sprintf("proto.get_field(X, S.x_%s)", k.name) },
		has:  func(k *kindInfo) string { return fmt.Sprintf("proto.has(X, S.x_%s)", k.name) }},
	{name: "ext_overwrite", group: "extension", target: "m", ext: true,
		op: func(k *kindInfo, v string) string {
			return fmt.Sprintf("proto.set_field(m, S.x_%s, %s)\nproto.set_field(m, S.x_%s, %s)", k.name, okSrc(k), k.name, v)
		},
		read: func(k *kindInfo, v string) string { return fmt.Sprintf("proto.get_field(X, S.x_%s)", k.name) },
		has:  func(k *kindInfo) string { return fmt.Sprintf("proto.has(X, S.x_%s)", k.name) }},
	{name: "ext_rep_set_field", group: "repeated_extension", element: true, target: "m", ext: true,
		op: func(k *kindInfo, v string) string {
			return fmt.Sprintf("proto.set_field(m, S.xr_%s, [%s, %s])", k.name, okSrc(k), v)
		},
		read: func(k *kindInfo, v string) string { return fmt.Sprintf("proto.get_field(X, S.xr_%s)[1]", k.name) }},
	{name: "ext_rep_append", group: "repeated_extension", element: true, target: "m", ext: true,
		op: func(k *kindInfo, v string) string {
			return fmt.Sprintf("proto.set_field(m, S.xr_%s, [%s])\nproto.get_field(m, S.xr_%s).append(%s)", k.name, okSrc(k), k.name, v)
		},
		read: func(k *kindInfo, v string) string { return fmt.Sprintf("proto.get_field(X, S.xr_%s)[1]", k.name) }},
	{name: "map_in", group: "map_key", element: true, mapKey: true, lookup: true, target: "m",
		setup: func(k *kindInfo) string { return fmt.Sprintf(`mk_%s = {%s: 0}`, k.name, okSrc(k)) },
		op:    func(k *kindInfo, v string) string { return fmt.Sprintf(`r = %s in m.mk_%s`, v, k.name) }},
	{name: "map_index", group: "map_key", element: true, mapKey: true, lookup: true, target: "m",
		setup: func(k *kindInfo) string { return fmt.Sprintf(`mk_%s = {%s: 0}`, k.name, okSrc(k)) },
		op:    func(k *kindInfo, v string) string { return fmt.Sprintf(`r = m.mk_%s[%s]`, k.name, v) }},
}

func posByName(n string) *position {
	for i := range positions {
		if positions[i].name == n {
			return &positions[i]
		}
	}
	return nil
}

// ---------------------------------------------------------------------------
// one case

type eCase struct {
	Kind    string `json:"kind"`
	Val     string `json:"value"`
	Pos     string `json:"position"`
	Program string `json:"program,omitempty"` // informational
}

type eResult struct {
	class    string // violation class, "" if none
	what     string
	verdict  string
	accepted bool
	trivial  bool
}

func (c eCase) applicable() bool {
	k, p := kindByName(c.Kind), posByName(c.Pos)
	if k == nil || p == nil || valByName(c.Val) == nil {
		return false
	}
	if p.mapKey && !k.keyOK {
		return false
	}
	if p.name == "nested_dict" && k.class == "msg" {
		return true
	}
	return true
}

func (c eCase) program() (setup, op string) {
	k, p, v := kindByName(c.Kind), posByName(c.Pos), valByName(c.Val)
	if p.setup != nil {
		setup = p.setup(k)
	}
	return "m = T(" + setup + ")", p.op(k, v.src)
}

func eKey(class string, c eCase) string {
	return fmt.Sprintf("E:%s:%s=%s@%s", class, c.Kind, valByName(c.Val).key, posByName(c.Pos).group)
}

// execProg runs src; a Go panic is returned as panicked.
func execProg(e *env, th *starlark.Thread, src string, pre starlark.StringDict) (g starlark.StringDict, err error, panicked string) {
	defer func() {
		if r := recover(); r != nil {
			panicked = fmt.Sprint(r)
		}
	}()
	g, err = starlark.ExecFileOptions(e.fopts, th, "case.star", src, pre)
	return
}

func evalExpr(e *env, th *starlark.Thread, src string, pre starlark.StringDict) (v starlark.Value, err error, panicked string) {
	defer func() {
		if r := recover(); r != nil {
			panicked = fmt.Sprint(r)
		}
	}()
	v, err = starlark.EvalOptions(e.fopts, th, "read.star", src, pre)
	return
}

func withVars(e *env, kv ...any) starlark.StringDict {
	d := starlark.StringDict{}
	for k, v := range e.pre {
		d[k] = v
	}
	for i := 0; i < len(kv); i += 2 {
		if kv[i+1] != nil {
			d[kv[i].(string)] = kv[i+1].(starlark.Value)
		}
	}
	return d
}

func runECase(e *env, th *starlark.Thread, c eCase) eResult {
	k, p, v := kindByName(c.Kind), posByName(c.Pos), valByName(c.Val)
	verdict, w := expect(k, v, p.element)
	res := eResult{verdict: verdict}
	fail := func(class, f string, a ...any) eResult {
		res.class, res.what = class, fmt.Sprintf(f, a...)
		return res
	}
	setupSrc, opSrc := c.program()
	prog := setupSrc + "\n" + opSrc

	// fresh message per case
	mv, err, pan := evalExpr(e, th, strings.TrimPrefix(setupSrc, "m = "), e.pre)
	if pan != "" || err != nil {
		fw.Fatal("c20: setup %q failed: %v %s", setupSrc, err, pan)
	}
	m := mv.(*starlarkproto.Message)
	before := contentOf(m.Message().ProtoReflect())

	g, err, pan := execProg(e, th, opSrc, withVars(e, "m", m))
	if pan != "" {
		return fail("panic", "Go panic (host crash) instead of an error: %s  [program: %s]", pan, strings.ReplaceAll(prog, "\n", "; "))
	}
	res.accepted = err == nil

	// the message that the operation wrote to
	var x *starlarkproto.Message
	if p.target == "m" {
		x = m
	} else if err == nil {
		x, _ = g["r"].(*starlarkproto.Message)
		if x == nil {
			return fail("harness", "constructor returned %v", g["r"])
		}
	}

	if p.lookup {
		if after := contentOf(m.Message().ProtoReflect()); after != before {
			return fail("lookup-mutated", "a read-only map lookup changed the message: %s -> %s [%s]", before, after, prog)
		}
		if err == nil && verdict == mustAccept && p.name == "map_in" {
			// a well-typed key: membership must be decided correctly
			present := v.src == okSrc(k)
			if g["r"] != starlark.Value(starlark.Bool(present)) {
				return fail("lookup-wrong", "%s evaluated to %v, want %v", opSrc, g["r"], present)
			}
		}
		if verdict == mustAccept && err != nil && p.name == "map_in" {
			return fail("rejected-valid", "lookup of a well-typed key failed: %v [%s]", err, prog)
		}
		return res
	}

	switch {
	case err == nil && verdict == mustReject:
		fail("accepted-invalid", "value %s is not a valid %s but was accepted [%s]", v.src, k.name, strings.ReplaceAll(prog, "\n", "; "))
	case err != nil && verdict == mustAccept:
		fail("rejected-valid", "value %s is a valid %s but was rejected: %v [%s]", v.src, k.name, err, strings.ReplaceAll(prog, "\n", "; "))
	}

	// After either outcome: every field holds values of its type and range.
	msgs := []*starlarkproto.Message{m}
	if x != nil && x != m {
		msgs = append(msgs, x)
	}
	for _, mm := range msgs {
		if bad := checkTyped(mm.Message().ProtoReflect()); bad != "" && res.class == "" {
			fail("illtyped", "after %s: %s", strings.ReplaceAll(prog, "\n", "; "), bad)
		}
	}
	if res.class != "" {
		return res
	}
	if err != nil || x == nil {
		return res // rejected as allowed
	}

	// accepted: exact read-back, then binary and text round trips.
	readSrc := p.read(k, v.src)
	check := func(stage string, msg *starlarkproto.Message) string {
		if w.typ == "cleared" {
			hasSrc := fmt.Sprintf(`proto.has(X, "f_%s")`, k.name)
			if p.has != nil {
				hasSrc = p.has(k)
			}
			has, err, pan := evalExpr(e, th, hasSrc, withVars(e, "X", msg))
			if p.name == "nested_dict" {
				has, err, pan = evalExpr(e, th, fmt.Sprintf(`proto.has(X.f_msg, "f_%s")`, k.name), withVars(e, "X", msg))
			}
			if pan != "" || err != nil || has != starlark.Value(starlark.False) {
				return fmt.Sprintf("%s: field assigned None is still present (%v %v %s)", stage, has, err, pan)
			}
			return ""
		}
		got, err, pan := evalExpr(e, th, readSrc, withVars(e, "X", msg))
		if pan != "" {
			return fmt.Sprintf("%s: reading back panicked: %s", stage, pan)
		}
		if err != nil {
			return fmt.Sprintf("%s: reading back %s failed: %v", stage, readSrc, err)
		}
		if p.mapKey {
			l, ok := got.(*starlark.List)
			if !ok || l.Len() != 1 || !matches(l.Index(0), w) {
				return fmt.Sprintf("%s: map keys with value 1 are %v, want exactly the written key %s", stage, got, v.src)
			}
			return ""
		}
		if !matches(got, w) {
			return fmt.Sprintf("%s: wrote %s, read back %s (%s)", stage, v.src, got.String(), got.Type())
		}
		return ""
	}
	if bad := check("direct", x); bad != "" {
		return fail("readback", "%s [%s]", bad, strings.ReplaceAll(prog, "\n", "; "))
	}
	for _, form := range []string{"binary", "text"} {
		if p.ext {
			// proto.unmarshal has no access to the thread's descriptor pool, so
			// extensions of dynamically loaded files come back as unknown fields
			// (binary) or are refused (text); only that marshalling does not
			// panic is judged for them
			src := "proto.marshal(X)"
			if form == "text" {
				src = "proto.marshal_text(X)"
			}
			if _, _, pan := evalExpr(e, th, src, withVars(e, "X", x)); pan != "" {
				return fail("panic", "%s marshalling panicked: %s [%s]", form, pan, prog)
			}
			continue
		}
		src := "proto.unmarshal(T, proto.marshal(X))"
		if form == "text" {
			src = "proto.unmarshal_text(T, proto.marshal_text(X))"
		}
		y, err, pan := evalExpr(e, th, src, withVars(e, "X", x))
		if pan != "" {
			return fail("panic", "%s round trip panicked: %s [%s]", form, pan, prog)
		}
		if err != nil {
			return fail("roundtrip", "%s marshal/unmarshal failed: %v [%s]", form, err, strings.ReplaceAll(prog, "\n", "; "))
		}
		ym := y.(*starlarkproto.Message)
		if !proto.Equal(x.Message(), ym.Message()) {
			return fail("roundtrip", "%s round trip is not equal: %s vs %s [%s]", form, contentOf(x.Message().ProtoReflect()), contentOf(ym.Message().ProtoReflect()), prog)
		}
		if bad := check(form+" round trip", ym); bad != "" {
			return fail("roundtrip", "%s [%s]", bad, strings.ReplaceAll(prog, "\n", "; "))
		}
	}
	return res
}

// runE enumerates every applicable (kind, value, position).
func runE(c *fw.Ctx, st *fw.Stats) {
	e := getEnv()
	th := e.thread("c20-E")
	var n, nontrivial int64
	classes := map[string]int64{}
	reported := map[string]bool{}
	for pi := range positions {
		p := &positions[pi]
		for ki := range kinds {
			for vi := range values {
				ec := eCase{Kind: kinds[ki].name, Val: values[vi].name, Pos: p.name}
				if !ec.applicable() {
					continue
				}
				s, o := ec.program()
				ec.Program = s + "; " + o
				r := runECase(e, th, ec)
				n++
				nontrivial++
				out := "rejected"
				if r.accepted {
					out = "accepted"
				}
				classes[p.group+":"+r.verdict+":"+out]++
				st.Outcome("E:" + p.group + ":" + kinds[ki].class + ":" + r.verdict + ":" + out)
				if r.class != "" {
					// one report per key (the first case in enumeration order); all are counted
					if key := eKey(r.class, ec); !reported[key] {
						reported[key] = true
						st.Violate(key, r.what, ec)
					}
					st.Count("E.violating_cases", 1)
				}
				if n%4999 == 1 {
					st.Sample(map[string]any{"exploration": "E", "program": ec.Program, "oracle": r.verdict, "accepted": r.accepted})
				}
			}
		}
	}
	st.Evals += n
	st.Nontrivial += nontrivial
	st.Count("E.cases", n)
	st.Count("E.kinds", int64(len(kinds)))
	st.Count("E.values", int64(len(values)))
	st.Count("E.positions", int64(len(positions)))
	st.Levels = append(st.Levels, fmt.Sprintf("E:%d kinds x %d values x %d positions (%d applicable cases)", len(kinds), len(values), len(positions), n))
}

func replayE(ec eCase) []fw.Viol {
	if !ec.applicable() {
		fw.Fatal("c20: bad E case %+v", ec)
	}
	e := getEnv()
	r := runECase(e, e.thread("c20-replay"), ec)
	if r.class == "" {
		return nil
	}
	return []fw.Viol{{Key: eKey(r.class, ec), What: r.what}}
}
