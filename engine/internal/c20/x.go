package c20

// X: cross-field exploration. For every ordered pair (source field,
// destination field) over ALL fields of the harness message (every kind in
// singular, repeated and map position, the fields of a second enum and a
// second message type, and the extensions), the value read from a populated
// source field (a scalar, a message, a RepeatedField view or a MapField view)
// is written to the destination field of another message through each
// writing form. Whatever the outcome: no host panic, the source is unchanged,
// and every field of both messages still holds only values of its declared
// type and range; writing a field's own value back to the same field of a
// fresh message must succeed and reproduce the content. A frozen destination
// must refuse every form and stay unchanged.

import (
	"fmt"
	"sort"
	"strings"

	"google.golang.org/protobuf/reflect/protoreflect"

	starlarkproto "go.starlark.net/lib/proto"
	"go.starlark.net/starlark"

	"verif/internal/fw"
)

type xField struct {
	name string
	fd   protoreflect.FieldDescriptor
	ext  bool
}

func (e *env) xFields() []xField {
	var out []xField
	fs := e.tdesc.Fields()
	for i := 0; i < fs.Len(); i++ {
		out = append(out, xField{name: string(fs.Get(i).Name()), fd: fs.Get(i)})
	}
	xs := e.tdesc.ParentFile().Extensions()
	for i := 0; i < xs.Len(); i++ {
		out = append(out, xField{name: string(xs.Get(i).Name()), fd: xs.Get(i), ext: true})
	}
	sort.Slice(out, func(i, j int) bool { return out[i].fd.Number() < out[j].fd.Number() })
	return out
}

// elemSrc: Starlark source of the n-th valid element value of a field's element type.
func elemSrc(fd protoreflect.FieldDescriptor, n int) string {
	switch fd.Kind() {
	case protoreflect.BoolKind:
		return []string{"True", "False"}[n%2]
	case protoreflect.StringKind:
		return []string{`"ok"`, `"zz"`}[n%2]
	case protoreflect.BytesKind:
		return []string{`b"ok"`, `b"\xff"`}[n%2]
	case protoreflect.FloatKind, protoreflect.DoubleKind:
		return []string{"2.5", "-0.5"}[n%2]
	case protoreflect.EnumKind:
		if fd.Enum().Name() == "Other" {
			return []string{"Other.O7", "Other.O0"}[n%2]
		}
		return []string{"E.E5", "E.E1"}[n%2]
	case protoreflect.MessageKind:
		if fd.Message().Name() == "U" {
			return []string{"U(a = 3)", "U(a = 4)"}[n%2]
		}
		return []string{"T(f_int32 = 3)", "T(f_string = \"s\")"}[n%2]
	}
	return []string{"3", "7"}[n%2]
}

// valueSrc: Starlark source of a valid value for the whole field.
func valueSrc(fd protoreflect.FieldDescriptor) string {
	switch {
	case fd.IsMap():
		return fmt.Sprintf("{%s: %s, %s: %s}", elemSrc(fd.MapKey(), 0), elemSrc(fd.MapValue(), 0), elemSrc(fd.MapKey(), 1), elemSrc(fd.MapValue(), 1))
	case fd.IsList():
		return fmt.Sprintf("[%s, %s]", elemSrc(fd, 0), elemSrc(fd, 1))
	}
	return elemSrc(fd, 0)
}

func (f xField) ref() string {
	if f.ext {
		return "S." + f.name
	}
	return "T." + f.name
}

// readSrc: expression reading field f of message variable v.
func (f xField) readSrc(v string) string {
	if f.ext {
		return fmt.Sprintf("proto.get_field(%s, %s)", v, f.ref())
	}
	return v + "." + f.name
}

// write forms; each returns "" if the form does not apply to the destination.
var xForms = []struct {
	name string
	src  func(dst xField, val string) string
}{
	{"attr", func(d xField, val string) string {
		if d.ext {
			return ""
		}
		return fmt.Sprintf("dst.%s = %s", d.name, val)
	}},
	{"set_field", func(d xField, val string) string { return fmt.Sprintf("proto.set_field(dst, %s, %s)", d.ref(), val) }},
	{"ctor", func(d xField, val string) string {
		if d.ext {
			return ""
		}
		return fmt.Sprintf("dst2 = T(%s = %s)", d.name, val)
	}},
	{"extend", func(d xField, val string) string {
		if !d.fd.IsList() {
			return ""
		}
		return fmt.Sprintf("%s.extend(%s)", d.readSrc("dst"), val)
	}},
	{"update", func(d xField, val string) string {
		if !d.fd.IsMap() {
			return ""
		}
		return fmt.Sprintf("%s.update(%s)", d.readSrc("dst"), val)
	}},
	{"element", func(d xField, val string) string {
		// the source value as ONE element / map value of the destination
		switch {
		case d.fd.IsMap():
			return fmt.Sprintf("%s[%s] = %s", d.readSrc("dst"), elemSrc(d.fd.MapKey(), 0), val)
		case d.fd.IsList():
			return fmt.Sprintf("%s.append(%s)", d.readSrc("dst"), val)
		}
		return ""
	}},
}

type xCase struct {
	Config string `json:"config"` // "X"
	Src    string `json:"src"`
	Dst    string `json:"dst"`
	Form   string `json:"form"`
	Frozen bool   `json:"frozen_destination"`
	Prog   string `json:"program,omitempty"`
}

func xKey(class string, c xCase, s, d xField) string {
	shape := func(f xField) string {
		k := f.fd.Kind().String()
		switch {
		case f.fd.IsMap():
			k = "map<" + f.fd.MapKey().Kind().String() + "," + f.fd.MapValue().Kind().String() + ">"
		case f.fd.IsList():
			k = "repeated " + k
		}
		if f.ext {
			k = "ext " + k
		}
		return k
	}
	fr := ""
	if c.Frozen {
		fr = ":frozen"
	}
	return fmt.Sprintf("X:%s:%s:%s->%s%s", class, c.Form, shape(s), shape(d), fr)
}

func runXCase(e *env, th *starlark.Thread, fields map[string]xField, c xCase) (class, what string, accepted bool) {
	s, d := fields[c.Src], fields[c.Dst]
	var form func(dst xField, val string) string
	for _, f := range xForms {
		if f.name == c.Form {
			form = f.src
		}
	}
	if form == nil {
		fw.Fatal("c20: unknown X form %q", c.Form)
	}
	op := form(d, s.readSrc("src"))
	if op == "" {
		return "", "", false
	}
	setupPanic := ""
	mk := func(f xField) *starlarkproto.Message {
		// (not a module global: ExecFile would freeze it)
		mv, err := starlark.Call(th, e.T, nil, nil)
		if err != nil {
			fw.Fatal("c20: T(): %v", err)
		}
		setup := fmt.Sprintf("proto.set_field(m, %s, %s)", f.ref(), valueSrc(f.fd))
		_, err, pan := evalExpr(e, th, setup, withVars(e, "m", mv))
		if pan != "" {
			setupPanic = fmt.Sprintf("Go panic (host crash) while populating a field with a valid value: %s [m = T(); %s]", pan, setup)
		} else if err != nil {
			fw.Fatal("c20: X setup %q failed: %v", setup, err)
		}
		return mv.(*starlarkproto.Message)
	}
	src := mk(s)
	dst := mk(d) // the destination already holds a valid value of its own
	if setupPanic != "" {
		return "panic", setupPanic, false
	}
	if c.Frozen {
		dst.Freeze()
	}
	srcBefore := contentOf(src.Message().ProtoReflect())
	dstBefore := contentOf(dst.Message().ProtoReflect())
	prog := fmt.Sprintf("src = T(); proto.set_field(src, %s, %s); dst = T(); proto.set_field(dst, %s, %s)%s; %s",
		s.ref(), valueSrc(s.fd), d.ref(), valueSrc(d.fd), map[bool]string{true: "; <dst frozen>", false: ""}[c.Frozen], op)
	g, err, pan := execProg(e, th, op+"\n", withVars(e, "src", src, "dst", dst))
	if pan != "" {
		return "panic", fmt.Sprintf("Go panic (host crash) instead of an error: %s [%s]", pan, prog), false
	}
	accepted = err == nil
	msgs := []*starlarkproto.Message{src, dst}
	if d2, ok := g["dst2"].(*starlarkproto.Message); ok {
		msgs = append(msgs, d2)
	}
	for _, m := range msgs {
		if bad := checkTyped(m.Message().ProtoReflect()); bad != "" {
			return "illtyped", fmt.Sprintf("after (err=%v) %s: %s", err, prog, bad), accepted
		}
	}
	if now := contentOf(src.Message().ProtoReflect()); now != srcBefore {
		return "source-changed", fmt.Sprintf("the source message changed: %s -> %s [%s]", srcBefore, now, prog), accepted
	}
	if c.Frozen && c.Form != "ctor" {
		if err == nil {
			return "frozen-accepted", fmt.Sprintf("a write to a frozen message succeeded [%s]", prog), accepted
		}
		if now := contentOf(dst.Message().ProtoReflect()); now != dstBefore {
			return "frozen-changed", fmt.Sprintf("a frozen message changed: %s -> %s [%s]", dstBefore, now, prog), accepted
		}
		return "", "", accepted
	}
	// a field's own value written to the same field (whole-value forms)
	if c.Src == c.Dst && (c.Form == "attr" || c.Form == "set_field" || c.Form == "ctor") {
		if err != nil {
			return "rejected-valid", fmt.Sprintf("the value read from field %s was refused by the same field: %v [%s]", s.name, err, prog), accepted
		}
		target := dst
		if c.Form == "ctor" {
			target = g["dst2"].(*starlarkproto.Message)
		}
		if now := contentOf(target.Message().ProtoReflect()); now != srcBefore {
			return "readback", fmt.Sprintf("after writing field %s with the value read from it, the content is %s, the source has %s [%s]", s.name, now, srcBefore, prog), accepted
		}
	}
	return "", "", accepted
}

func runX(c *fw.Ctx, st *fw.Stats) {
	e := getEnv()
	th := e.thread("c20-X")
	fs := e.xFields()
	byName := map[string]xField{}
	for _, f := range fs {
		byName[f.name] = f
	}
	reported := map[string]bool{}
	var n, acc int64
	for _, s := range fs {
		for _, d := range fs {
			for _, form := range xForms {
				for _, frozen := range []bool{false, true} {
					if frozen && s.name != d.name && (s.fd.Kind() != d.fd.Kind() || s.fd.Cardinality() != d.fd.Cardinality()) {
						continue // frozen destinations: only with sources the field would otherwise accept
					}
					xc := xCase{Config: "X", Src: s.name, Dst: d.name, Form: form.name, Frozen: frozen}
					class, what, accepted := runXCase(e, th, byName, xc)
					if class == "" && what == "" && !accepted && form.src(d, "x") == "" {
						continue // form not applicable
					}
					n++
					if accepted {
						acc++
					}
					st.Outcome(fmt.Sprintf("X:%s:%v:frozen=%v", form.name, accepted, frozen))
					if class != "" {
						key := xKey(class, xc, s, d)
						if !reported[key] {
							reported[key] = true
							xc.Prog = what
							st.Violate(key, what, xc)
						}
						st.Count("X.violating_cases", 1)
					}
					if n%9973 == 1 {
						st.Sample(map[string]any{"exploration": "X", "source_field": s.name, "destination_field": d.name, "form": form.name, "frozen_destination": frozen, "accepted": accepted})
					}
				}
			}
		}
	}
	st.Evals += n
	st.Nontrivial += acc
	st.Count("X.cases", n)
	st.Count("X.accepted", acc)
	st.Count("X.fields", int64(len(fs)))
	st.Levels = append(st.Levels, fmt.Sprintf("X:%d source fields x %d destination fields x %d write forms x {mutable, frozen destination} (%d applicable cases)", len(fs), len(fs), len(xForms), n))
}

func replayX(xc xCase) []fw.Viol {
	e := getEnv()
	byName := map[string]xField{}
	for _, f := range e.xFields() {
		byName[f.name] = f
	}
	class, what, _ := runXCase(e, e.thread("c20-replay"), byName, xc)
	if class == "" {
		return nil
	}
	return []fw.Viol{{Key: xKey(class, xc, byName[xc.Src], byName[xc.Dst]), What: strings.TrimSpace(what)}}
}
