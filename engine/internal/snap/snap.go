// Package snap takes a generic deep snapshot of a Go object graph (reflect +
// unsafe, including unexported fields) so that "this read-only operation wrote
// nothing" can be checked without knowing which fields exist: a cache field
// added tomorrow is covered as well.
package snap

import (
	"fmt"
	"hash/fnv"
	"reflect"
	"sort"
	"strings"
	"unsafe"
)

// Options controls what is skipped.
type Options struct {
	// SkipFields lists "TypeName.field" pairs that are excluded (documented
	// lazily-initialised state guarded by its own synchronisation).
	SkipFields map[string]bool
	// MaxNodes bounds the walk (a hard error when exceeded).
	MaxNodes int
}

// Snapshot is a canonical linearisation of everything reachable from the roots.
type Snapshot struct {
	Hash  uint64
	Nodes int
	lines []string // path-labelled leaves, kept for diffing
}

type walker struct {
	opt   Options
	seen  map[visitKey]int
	lines []string
	nodes int
}

type visitKey struct {
	ptr unsafe.Pointer
	typ reflect.Type
}

// Take walks the roots. The walk order is deterministic for identical graphs:
// struct fields in declaration order, slices in index order, maps sorted by
// the rendering of their keys.
func Take(opt Options, roots ...any) *Snapshot {
	if opt.MaxNodes == 0 {
		opt.MaxNodes = 5_000_000
	}
	w := &walker{opt: opt, seen: map[visitKey]int{}}
	for i, r := range roots {
		w.walk(reflect.ValueOf(r), fmt.Sprintf("root%d", i), 0)
	}
	h := fnv.New64a()
	for _, l := range w.lines {
		h.Write([]byte(l))
		h.Write([]byte{'\n'})
	}
	return &Snapshot{Hash: h.Sum64(), Nodes: w.nodes, lines: w.lines}
}

// Diff returns a description of the first few differing leaves.
func Diff(a, b *Snapshot) string {
	if a.Hash == b.Hash {
		return ""
	}
	var out []string
	n := len(a.lines)
	if len(b.lines) < n {
		n = len(b.lines)
	}
	for i := 0; i < n && len(out) < 4; i++ {
		if a.lines[i] != b.lines[i] {
			out = append(out, fmt.Sprintf("before {%s} after {%s}", a.lines[i], b.lines[i]))
		}
	}
	if len(a.lines) != len(b.lines) {
		out = append(out, fmt.Sprintf("snapshot sizes differ: %d vs %d leaves", len(a.lines), len(b.lines)))
	}
	return strings.Join(out, "; ")
}

func (w *walker) leaf(path string, format string, a ...any) {
	w.lines = append(w.lines, path+" = "+fmt.Sprintf(format, a...))
}

func (w *walker) walk(v reflect.Value, path string, depth int) {
	w.nodes++
	if w.nodes > w.opt.MaxNodes {
		panic("snap: object graph larger than MaxNodes")
	}
	if depth > 10000 {
		panic("snap: graph too deep at " + path)
	}
	if !v.IsValid() {
		w.leaf(path, "<invalid>")
		return
	}
	switch v.Kind() {
	case reflect.Bool:
		w.leaf(path, "%v", v.Bool())
	case reflect.Int, reflect.Int8, reflect.Int16, reflect.Int32, reflect.Int64:
		w.leaf(path, "%d", v.Int())
	case reflect.Uint, reflect.Uint8, reflect.Uint16, reflect.Uint32, reflect.Uint64, reflect.Uintptr:
		w.leaf(path, "%d", v.Uint())
	case reflect.Float32, reflect.Float64:
		w.leaf(path, "%x", v.Float())
	case reflect.Complex64, reflect.Complex128:
		w.leaf(path, "%v", v.Complex())
	case reflect.String:
		w.leaf(path, "%q", v.String())
	case reflect.UnsafePointer:
		// opaque (Int's small-value encoding lives here): identity only
		w.leaf(path, "uptr:%x", v.Pointer())
	case reflect.Func:
		if v.IsNil() {
			w.leaf(path, "func:nil")
		} else {
			w.leaf(path, "func:%x", v.Pointer())
		}
	case reflect.Chan:
		w.leaf(path, "chan:%x", v.Pointer())
	case reflect.Interface:
		if v.IsNil() {
			w.leaf(path, "iface:nil")
			return
		}
		e := v.Elem()
		w.leaf(path, "iface:%s", e.Type())
		w.walk(e, path+".("+e.Type().String()+")", depth+1)
	case reflect.Pointer:
		if v.IsNil() {
			w.leaf(path, "nil")
			return
		}
		k := visitKey{unsafe.Pointer(v.Pointer()), v.Type()}
		if id, ok := w.seen[k]; ok {
			w.leaf(path, "->#%d", id)
			return
		}
		id := len(w.seen)
		w.seen[k] = id
		w.leaf(path, "&#%d", id)
		w.walk(v.Elem(), path+"*", depth+1)
	case reflect.Struct:
		t := v.Type()
		for i := 0; i < t.NumField(); i++ {
			f := t.Field(i)
			if w.opt.SkipFields[t.Name()+"."+f.Name] {
				continue
			}
			w.walk(v.Field(i), path+"."+f.Name, depth+1)
		}
	case reflect.Array:
		for i := 0; i < v.Len(); i++ {
			w.walk(v.Index(i), fmt.Sprintf("%s[%d]", path, i), depth+1)
		}
	case reflect.Slice:
		if v.IsNil() {
			w.leaf(path, "slice:nil")
			return
		}
		w.leaf(path, "slice:len=%d,cap=%d", v.Len(), v.Cap())
		if v.Type().Elem().Kind() == reflect.Uint8 {
			w.leaf(path+"[:]", "%x", v.Bytes())
			return
		}
		// Include the spare capacity: a write beyond len is still a write.
		full := v
		if v.Cap() > v.Len() && v.Cap()-v.Len() <= 64 {
			full = v.Slice(0, v.Cap())
		}
		for i := 0; i < full.Len(); i++ {
			w.walk(full.Index(i), fmt.Sprintf("%s[%d]", path, i), depth+1)
		}
	case reflect.Map:
		if v.IsNil() {
			w.leaf(path, "map:nil")
			return
		}
		w.leaf(path, "map:len=%d", v.Len())
		type kv struct {
			ks   string
			k, v reflect.Value
		}
		var keys []kv
		iter := v.MapRange()
		for iter.Next() {
			k := iter.Key()
			keys = append(keys, kv{fmt.Sprintf("%v", printable(k)), k, iter.Value()})
		}
		sort.Slice(keys, func(i, j int) bool { return keys[i].ks < keys[j].ks })
		for _, e := range keys {
			w.walk(e.v, path+"["+e.ks+"]", depth+1)
		}
	default:
		w.leaf(path, "<kind %s>", v.Kind())
	}
}

func printable(k reflect.Value) any {
	switch k.Kind() {
	case reflect.String:
		return k.String()
	case reflect.Int, reflect.Int8, reflect.Int16, reflect.Int32, reflect.Int64:
		return k.Int()
	case reflect.Uint, reflect.Uint8, reflect.Uint16, reflect.Uint32, reflect.Uint64:
		return k.Uint()
	case reflect.Pointer:
		return fmt.Sprintf("ptr:%x", k.Pointer())
	}
	return k.String()
}
