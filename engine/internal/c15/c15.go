// Package c15 decides C15: printed values read back as the same values.
//
// Shape E: for every value of the bounded sets below the real repr() result is
// parsed and evaluated by the real front end and interpreter and the result
// compared with the original (Equal, same Type(), same bit pattern for
// floats); for strings additionally str(s) == s; for strings and bytes the
// Quote -> scanner(unquote) inverse law; for cyclic containers str/repr must
// return a finite string (unbounded recursion is bounded by a stack-size limit
// and surfaces as a worker crash, which the frame attributes to the case).
package c15

import (
	"bytes"
	"encoding/hex"
	"encoding/json"
	"fmt"
	"math"
	"math/big"
	"runtime"
	"runtime/debug"
	"sort"
	"strconv"
	"strings"
	"sync"
	"unicode"
	"unicode/utf8"

	"go.starlark.net/starlark"
	"go.starlark.net/syntax"

	"verif/internal/fw"
)

// ---------------------------------------------------------------------------
// cases

// A vcase describes one value so that Replay can rebuild it exactly.
type vcase struct {
	Kind string `json:"kind"`           // none|bool|int|float|string|bytes|container|cyclic
	Hex  string `json:"hex,omitempty"`  // string/bytes content
	Int  string `json:"int,omitempty"`  // decimal
	Bits string `json:"bits,omitempty"` // float64 bits, hex
	Bool bool   `json:"bool,omitempty"`
	Node *node  `json:"node,omitempty"` // container descriptor
	Text string `json:"text,omitempty"` // human-readable rendering (informational)
}

// node describes a container: kind, children in order.  A child is a
// container node, a scalar leaf (index into leafPool), or a reference to the
// container with the given preorder id (an earlier sibling subtree = shared
// object; an enclosing list/dict = cycle).
type node struct {
	K    string   `json:"k"` // list|tuple|dict
	C    []*child `json:"c,omitempty"`
	KeyT bool     `json:"keyt,omitempty"` // dict: hashable tuple children become keys
}

type child struct {
	N    *node `json:"n,omitempty"`
	Leaf *int  `json:"leaf,omitempty"`
	Ref  *int  `json:"ref,omitempty"`
}

func leafPool() []starlark.Value {
	return []starlark.Value{
		starlark.None, starlark.True, starlark.MakeInt(0), starlark.MakeInt(-1),
		starlark.MakeBigInt(new(big.Int).Lsh(big.NewInt(1), 70)),
		starlark.Float(1.5), starlark.Float(math.Copysign(0, -1)), starlark.Float(1e100),
		starlark.String(""), starlark.String("a\"\n\\"), starlark.String("\u2028\u00e9\U0001F600"),
		starlark.Bytes("\xff\x00q"), starlark.Bytes(""), starlark.False,
	}
}

type builder struct {
	pool []starlark.Value
	objs []starlark.Value // by preorder id; nil while a tuple is under construction
	ok   bool
}

func (b *builder) build(n *node) starlark.Value {
	id := len(b.objs)
	b.objs = append(b.objs, nil)
	var list *starlark.List
	var dict *starlark.Dict
	switch n.K {
	case "list":
		list = starlark.NewList(nil)
		b.objs[id] = list
	case "dict":
		dict = new(starlark.Dict)
		b.objs[id] = dict
	}
	var elems []starlark.Value
	for i, c := range n.C {
		var v starlark.Value
		switch {
		case c.N != nil:
			v = b.build(c.N)
		case c.Leaf != nil:
			v = b.pool[*c.Leaf%len(b.pool)]
		case c.Ref != nil:
			if *c.Ref >= len(b.objs) || b.objs[*c.Ref] == nil {
				b.ok = false // reference to a tuple under construction or to a later node
				v = starlark.None
			} else {
				v = b.objs[*c.Ref]
			}
		}
		switch n.K {
		case "list":
			list.Append(v)
		case "tuple":
			elems = append(elems, v)
		case "dict":
			if t, isT := v.(starlark.Tuple); isT && n.KeyT {
				if _, err := t.Hash(); err == nil {
					dict.SetKey(t, starlark.MakeInt(i))
					continue
				}
			}
			if c.Leaf != nil {
				// a scalar leaf is the key, its successor in the pool the value
				if err := dict.SetKey(v, b.pool[(*c.Leaf+1)%len(b.pool)]); err != nil {
					b.ok = false
				}
				continue
			}
			dict.SetKey(starlark.String("k"+strconv.Itoa(i)), v)
		}
	}
	switch n.K {
	case "list":
		return list
	case "dict":
		return dict
	}
	t := starlark.Tuple(elems)
	if t == nil {
		t = starlark.Tuple{}
	}
	b.objs[id] = t
	return t
}

func buildNode(n *node) (starlark.Value, bool) {
	b := &builder{pool: leafPool(), ok: true}
	v := b.build(n)
	return v, b.ok
}

func (vc *vcase) value() (starlark.Value, bool) {
	switch vc.Kind {
	case "none":
		return starlark.None, true
	case "bool":
		return starlark.Bool(vc.Bool), true
	case "int":
		z, ok := new(big.Int).SetString(vc.Int, 10)
		return starlark.MakeBigInt(z), ok
	case "float":
		u, err := strconv.ParseUint(vc.Bits, 16, 64)
		return starlark.Float(math.Float64frombits(u)), err == nil
	case "string":
		b, err := hex.DecodeString(vc.Hex)
		return starlark.String(b), err == nil
	case "bytes":
		b, err := hex.DecodeString(vc.Hex)
		return starlark.Bytes(b), err == nil
	case "container", "cyclic":
		return buildNode(vc.Node)
	}
	return nil, false
}

// ---------------------------------------------------------------------------
// the checks

type checker struct {
	th   *starlark.Thread
	repr starlark.Value
	str  starlark.Value
}

func newChecker() *checker {
	return &checker{th: &starlark.Thread{Name: "c15"}, repr: starlark.Universe["repr"], str: starlark.Universe["str"]}
}

func (ck *checker) call1(fn, v starlark.Value) (string, error) {
	r, err := starlark.Call(ck.th, fn, starlark.Tuple{v}, nil)
	if err != nil {
		return "", err
	}
	s, ok := starlark.AsString(r)
	if !ok {
		return "", fmt.Errorf("result is %s, not string", r.Type())
	}
	return s, nil
}

func (ck *checker) eval(src string) (starlark.Value, error) {
	expr, err := syntax.ParseExpr("repr", src, 0)
	if err != nil {
		return nil, err
	}
	return starlark.EvalExprOptions(&syntax.FileOptions{}, ck.th, expr, nil)
}

type problem struct{ kind, what string }

// roundTrip applies every obligation of the property to v.
func (ck *checker) roundTrip(v starlark.Value) (reprText string, probs []problem) {
	defer func() {
		if r := recover(); r != nil {
			probs = append(probs, problem{"panic", fmt.Sprint(r)})
		}
	}()
	bad := func(kind, f string, a ...any) { probs = append(probs, problem{kind, fmt.Sprintf(f, a...)}) }
	r, err := ck.call1(ck.repr, v)
	if err != nil {
		bad("repr-fails", "repr(v) failed: %v", err)
		return "", probs
	}
	reprText = r
	if s, ok := v.(starlark.String); ok && !utf8.ValidString(string(s)) {
		// The property quantifies the repr and quoting laws over valid UTF-8 strings (the
		// scanner refuses \x escapes of non-ASCII bytes in string literals by design);
		// for any other string only "str of a string is the string itself" is demanded.
		if got, err := ck.call1(ck.str, v); err != nil || got != string(s) {
			bad("str-not-identity", "str(s) = %q, s = %q (err=%v)", got, string(s), err)
		}
		return reprText, probs
	}
	if !utf8.ValidString(r) {
		bad("repr-not-utf8", "repr(v) is not valid UTF-8 source text: %q", r)
	}
	w, err := ck.eval(r)
	if err != nil {
		bad("repr-not-evaluable", "repr(v) = %s does not evaluate: %v", show(r), err)
	} else {
		if w.Type() != v.Type() {
			bad("type-changed", "repr(v) = %s evaluates to a %s, v is a %s", show(r), w.Type(), v.Type())
		} else if eq, err := starlark.Equal(v, w); err != nil || !eq {
			bad("value-changed", "repr(v) = %s evaluates to %s which is not equal to v (err=%v)", show(r), show(w.String()), err)
		} else if f, ok := v.(starlark.Float); ok {
			if math.Float64bits(float64(f)) != math.Float64bits(float64(w.(starlark.Float))) {
				bad("float-bits-changed", "repr(v) = %s evaluates to bits %016x, v has %016x", r, math.Float64bits(float64(w.(starlark.Float))), math.Float64bits(float64(f)))
			}
		}
	}
	switch s := v.(type) {
	case starlark.String:
		if got, err := ck.call1(ck.str, v); err != nil || got != string(s) {
			bad("str-not-identity", "str(s) = %q, s = %q (err=%v)", got, string(s), err)
		}
		ck.quoteLaw(string(s), false, &probs)
	case starlark.Bytes:
		ck.quoteLaw(string(s), true, &probs)
	}
	return reprText, probs
}

// quoteLaw: the scanner's unquote of Quote(s, b) is (s, b).
func (ck *checker) quoteLaw(s string, b bool, probs *[]problem) {
	qd := syntax.Quote(s, b)
	expr, err := syntax.ParseExpr("quote", qd, 0)
	if err != nil {
		*probs = append(*probs, problem{"quote-not-unquotable", fmt.Sprintf("Quote(%q, %v) = %s is rejected: %v", s, b, show(qd), err)})
		return
	}
	lit, ok := expr.(*syntax.Literal)
	want := syntax.STRING
	if b {
		want = syntax.BYTES
	}
	if !ok || lit.Token != want {
		*probs = append(*probs, problem{"quote-wrong-token", fmt.Sprintf("Quote(%q, %v) = %s is not a single %v literal", s, b, show(qd), want)})
		return
	}
	if got, _ := lit.Value.(string); got != s {
		*probs = append(*probs, problem{"quote-unquote-mismatch", fmt.Sprintf("unquote(Quote(%q, %v)) = %q", s, b, got)})
	}
}

// cyclic: str and repr of a value containing a reference cycle return.
func (ck *checker) cyclic(v starlark.Value) (text string, probs []problem) {
	defer func() {
		if r := recover(); r != nil {
			probs = append(probs, problem{"panic", fmt.Sprint(r)})
		}
	}()
	for _, fn := range []struct {
		name string
		f    starlark.Value
	}{{"repr", ck.repr}, {"str", ck.str}} {
		s, err := ck.call1(fn.f, v)
		if err != nil {
			probs = append(probs, problem{"cyclic-" + fn.name + "-fails", err.Error()})
			continue
		}
		if len(s) > 1<<16 {
			probs = append(probs, problem{"cyclic-" + fn.name + "-huge", fmt.Sprintf("%d bytes", len(s))})
		}
		text = s
	}
	if s := v.String(); len(s) > 1<<16 {
		probs = append(probs, problem{"cyclic-String-huge", fmt.Sprintf("%d bytes", len(s))})
	}
	// The cycle was made while the value was mutable; most values a program
	// prints are frozen (globals of a loaded module): the same text, again finite.
	v.Freeze()
	for _, fn := range []struct {
		name string
		f    starlark.Value
	}{{"repr", ck.repr}, {"str", ck.str}} {
		s, err := ck.call1(fn.f, v)
		switch {
		case err != nil:
			probs = append(probs, problem{"cyclic-frozen-" + fn.name + "-fails", err.Error()})
		case s != text:
			probs = append(probs, problem{"cyclic-frozen-" + fn.name + "-differs", fmt.Sprintf("%s of the frozen value is %s, of the mutable value %s", fn.name, show(s), show(text))})
		}
	}
	return text, probs
}

func show(s string) string {
	if len(s) > 120 {
		s = s[:120] + "…"
	}
	return strconv.QuoteToASCII(s)
}

// ---------------------------------------------------------------------------
// classes (violation keys, outcome classes)

func runeClass(r rune) string {
	switch {
	case r == '"' || r == '\'' || r == '\\':
		return "quote-or-backslash"
	case r < 0x20:
		return "ascii-control"
	case r == 0x7f:
		return "DEL"
	case r < 0x80:
		return "ascii-printable"
	case r < 0xA0:
		return "C1-control"
	case r == 0x2028 || r == 0x2029:
		return "line/paragraph-separator"
	case r == 0xFFFD:
		return "U+FFFD"
	case r == 0xFEFF:
		return "BOM"
	case r >= 0xFDD0 && r <= 0xFDEF || r&0xFFFE == 0xFFFE:
		return "noncharacter"
	case unicode.Is(unicode.Cf, r):
		return "format(Cf)"
	case unicode.Is(unicode.Co, r):
		return "private-use"
	case unicode.Is(unicode.Mn, r) || unicode.Is(unicode.Me, r) || unicode.Is(unicode.Mc, r):
		return "combining"
	case unicode.IsSpace(r):
		return "non-ascii-space"
	case !unicode.IsPrint(r):
		if r >= 0x10000 {
			return "astral-unprintable"
		}
		return "bmp-unprintable"
	case r >= 0x10000:
		return "astral-printable"
	}
	return "bmp-printable"
}

// classPriority orders rune classes from most to least exotic; a string is
// keyed by the most exotic class it contains, so that one root cause gives
// few violation keys.
var classPriority = []string{"U+FFFD", "line/paragraph-separator", "BOM", "noncharacter", "astral-unprintable", "bmp-unprintable",
	"C1-control", "format(Cf)", "private-use", "combining", "non-ascii-space", "DEL", "ascii-control", "quote-or-backslash",
	"astral-printable", "bmp-printable", "ascii-printable"}

func stringClass(s string) string {
	if !utf8.ValidString(s) {
		return "invalid-utf8"
	}
	if s == "" {
		return "empty"
	}
	present := map[string]bool{}
	for _, r := range s {
		present[runeClass(r)] = true
	}
	for _, c := range classPriority {
		if present[c] {
			return c
		}
	}
	return "other"
}

func byteClass(b byte) string {
	switch {
	case b == '"' || b == '\'' || b == '\\':
		return "quote-or-backslash"
	case b < 0x20 || b == 0x7f:
		return "control"
	case b < 0x80:
		return "ascii"
	case b < 0xC0:
		return "utf8-continuation"
	case b < 0xF8:
		return "utf8-lead"
	}
	return "never-utf8"
}

func bytesClass(s string) string {
	if s == "" {
		return "empty"
	}
	present := map[string]bool{}
	for i := 0; i < len(s); i++ {
		present[byteClass(s[i])] = true
	}
	for _, c := range []string{"never-utf8", "utf8-continuation", "utf8-lead", "control", "quote-or-backslash", "ascii"} {
		if present[c] {
			return c
		}
	}
	return "other"
}

func valueClass(vc *vcase, v starlark.Value) string {
	switch vc.Kind {
	case "string":
		return "string:" + stringClass(string(v.(starlark.String)))
	case "bytes":
		return "bytes:" + bytesClass(string(v.(starlark.Bytes)))
	case "float":
		f := float64(v.(starlark.Float))
		switch {
		case f == 0:
			return "float:zero"
		case math.Abs(f) < 0x1p-1022:
			return "float:subnormal"
		case f == math.Trunc(f) && math.Abs(f) < 1e21:
			return "float:integral"
		case math.Abs(f) >= 1e21 || math.Abs(f) < 1e-4:
			return "float:exponent-form"
		}
		return "float:fraction"
	case "container", "cyclic":
		return vc.Kind + ":" + vc.Node.K
	}
	return vc.Kind
}

func reprForm(kind, r string) string {
	switch kind {
	case "string", "bytes":
		var fs []string
		add := func(cond bool, f string) {
			if cond {
				fs = append(fs, f)
			}
		}
		add(strings.Contains(r, `\x`), `\x`)
		add(strings.Contains(r, `\u`), `\u`)
		add(strings.Contains(r, `\U`), `\U`)
		add(strings.ContainsAny(strings.ReplaceAll(strings.ReplaceAll(strings.ReplaceAll(r, `\x`, ""), `\u`, ""), `\U`, ""), `\`), "c-escape")
		nonASCII := false
		for i := 0; i < len(r); i++ {
			if r[i] >= 0x80 {
				nonASCII = true
			}
		}
		add(nonASCII, "raw-non-ascii")
		if len(fs) == 0 {
			return kind + ":plain"
		}
		return kind + ":" + strings.Join(fs, "+")
	case "float":
		if strings.ContainsAny(r, "e") {
			return "float:exponent"
		}
		return "float:decimal"
	}
	return kind
}

// ---------------------------------------------------------------------------
// enumeration

func strCase(s string) *vcase { return &vcase{Kind: "string", Hex: hex.EncodeToString([]byte(s))} }
func bytCase(s string) *vcase { return &vcase{Kind: "bytes", Hex: hex.EncodeToString([]byte(s))} }

var classReps = []rune{
	0x00, 0x01, 0x07, 0x08, 0x09, 0x0A, 0x0B, 0x0C, 0x0D, 0x1B, 0x1F, ' ', '"', '\'', '\\',
	'a', 'n', 'x', 'u', 'U', '0', '7', 'b', 'r', '{', '%', '$', '#', 0x7F,
	0x80, 0x85, 0x9F, 0xA0, 0xAD, 0xE9, 0xFF, 0x0300, 0x0301, 0x034F, 0x061C,
	0x200B, 0x200D, 0x200E, 0x2028, 0x2029, 0x202E, 0x2060, 0x3000, 0x4E16, 0xD7FF, 0xE000, 0xF8FF,
	0xFDD0, 0xFEFF, 0xFFF9, 0xFFFD, 0xFFFE, 0xFFFF,
	0x10000, 0x1F600, 0xE0001, 0xE0100, 0x10FFFD, 0x10FFFF,
}

func intPool() []*big.Int {
	var out []*big.Int
	seen := map[string]bool{}
	add := func(z *big.Int) {
		for _, s := range []int64{1, -1} {
			w := new(big.Int).Mul(z, big.NewInt(s))
			if !seen[w.String()] {
				seen[w.String()] = true
				out = append(out, w)
			}
		}
	}
	for _, k := range []int64{0, 1, 2, 9, 10, 99, 255, 256} {
		add(big.NewInt(k))
	}
	for _, k := range []uint{7, 8, 15, 16, 31, 32, 53, 62, 63, 64, 65, 127, 128, 200, 1000, 16384, 65536} {
		p := new(big.Int).Lsh(big.NewInt(1), k)
		for _, d := range []int64{-1, 0, 1} {
			add(new(big.Int).Add(p, big.NewInt(d)))
		}
	}
	for _, k := range []int64{9, 10, 18, 19, 20, 38, 100, 400, 999, 1000, 4299, 4300, 4301, 9999, 10000, 19728} {
		p := new(big.Int).Exp(big.NewInt(10), big.NewInt(k), nil)
		for _, d := range []int64{-1, 0, 1} {
			add(new(big.Int).Add(p, big.NewInt(d)))
		}
	}
	return out
}

var mantissas = []uint64{
	0, 1, 2, 3, 0xFFFFFFFFFFFFF, 0xFFFFFFFFFFFFE, 0x8000000000000, 0x8000000000001, 0x7FFFFFFFFFFFF,
	0x5555555555555, 0xAAAAAAAAAAAAA, 0x3333333333333, 0xCCCCCCCCCCCCC, 0x999999999999A,
	0x0000000000FFF, 0xFFF0000000000, 0x123456789ABCD, 0xFEDCBA9876543, 0x00000FFFFF000,
	0x1000000000000, 0x4000000000000, 0x2000000000001, 0xE000000000000, 0x6A09E667F3BCD,
}

func floatCase(bits uint64) *vcase { return &vcase{Kind: "float", Bits: strconv.FormatUint(bits, 16)} }

func leaf(i int) *child { return &child{Leaf: &i} }
func ref(i int) *child  { return &child{Ref: &i} }

// shapes returns all ordered rooted trees with k nodes as parent vectors in preorder.
func shapes(k int) [][]int {
	// parent[i] < i, and preorder validity: parent[i] must be on the rightmost path
	var out [][]int
	var rec func(par []int)
	rec = func(par []int) {
		if len(par) == k {
			out = append(out, append([]int{}, par...))
			return
		}
		// candidates: ancestors-or-self of the last node
		last := len(par) - 1
		for a := last; a >= 0; a = par[a] {
			rec(append(par, a))
			if a == 0 {
				break
			}
		}
	}
	rec([]int{-1})
	return out
}

var kinds = []string{"list", "tuple", "dict"}

// treeFrom builds the node tree for a parent vector, kinds and leaf mask.
func treeFrom(par []int, kd []int, leafMask int, keyT bool) *node {
	nodes := make([]*node, len(par))
	for i := range par {
		nodes[i] = &node{K: kinds[kd[i]], KeyT: keyT}
		if leafMask>>uint(i)&1 == 1 {
			nodes[i].C = append(nodes[i].C, leaf(i*3+kd[i]+leafMask))
		}
	}
	for i := 1; i < len(par); i++ {
		nodes[par[i]].C = append(nodes[par[i]].C, &child{N: nodes[i]})
	}
	return nodes[0]
}

func cloneNode(n *node) *node {
	m := &node{K: n.K, KeyT: n.KeyT}
	for _, c := range n.C {
		d := &child{}
		switch {
		case c.N != nil:
			d.N = cloneNode(c.N)
		case c.Leaf != nil:
			v := *c.Leaf
			d.Leaf = &v
		case c.Ref != nil:
			v := *c.Ref
			d.Ref = &v
		}
		m.C = append(m.C, d)
	}
	return m
}

// preorder lists the nodes of a tree with their ancestors' ids.
func preorder(n *node) (nodes []*node, parents []int) {
	var rec func(n *node, parent int)
	rec = func(n *node, parent int) {
		id := len(nodes)
		nodes = append(nodes, n)
		parents = append(parents, parent)
		for _, c := range n.C {
			if c.N != nil {
				rec(c.N, id)
			}
		}
	}
	rec(n, -1)
	return
}

func eachKinds(k int, f func(kd []int)) {
	kd := make([]int, k)
	var rec func(i int)
	rec = func(i int) {
		if i == k {
			f(kd)
			return
		}
		for x := 0; x < 3; x++ {
			kd[i] = x
			rec(i + 1)
		}
	}
	rec(0)
}

// containerCases: all typed shapes of <= maxNodes container nodes with every
// subset of nodes carrying a scalar leaf, dict-key variants, shared-child
// variants, and chains to depth 6.
func containerCases(maxNodes int) (acyclic, cyclic []*vcase) {
	var trees []*node
	for k := 1; k <= maxNodes; k++ {
		for _, par := range shapes(k) {
			eachKinds(k, func(kd []int) {
				for mask := 0; mask < 1<<uint(k); mask++ {
					trees = append(trees, treeFrom(par, kd, mask, false))
					hasDict := false
					for _, x := range kd {
						if x == 2 {
							hasDict = true
						}
					}
					if hasDict && k >= 2 {
						trees = append(trees, treeFrom(par, kd, mask, true))
					}
				}
			})
		}
	}
	// chains of depth 5 and 6 with a leaf at the bottom
	for d := 5; d <= 6; d++ {
		par := make([]int, d)
		for i := range par {
			par[i] = i - 1
		}
		eachKinds(d, func(kd []int) {
			trees = append(trees, treeFrom(par, kd, 1<<uint(d-1), false))
		})
	}
	for _, t := range trees {
		acyclic = append(acyclic, &vcase{Kind: "container", Node: t})
	}
	// shared sub-objects: a node with >= 1 container child gets a second reference to that child
	for _, t := range trees {
		ns, _ := preorder(t)
		if len(ns) > 4 {
			continue
		}
		for id, n := range ns {
			for _, c := range n.C {
				if c.N == nil {
					continue
				}
				// id of that child in preorder
				cid := -1
				for j, m := range ns {
					if m == c.N {
						cid = j
					}
				}
				s := cloneNode(t)
				sn, _ := preorder(s)
				sn[id].C = append(sn[id].C, ref(cid))
				if n.K == "dict" && n.KeyT && c.N.K == "tuple" {
					break // the same tuple twice as a key is one entry: not a new shape
				}
				acyclic = append(acyclic, &vcase{Kind: "container", Node: s})
				break
			}
		}
	}
	// cycles: any node refers to itself (list/dict) or to an enclosing list/dict
	for _, t := range trees {
		if t.KeyT {
			continue
		}
		ns, parents := preorder(t)
		for id := range ns {
			for a := id; a >= 0; a = parents[a] {
				if ns[a].K != "tuple" {
					s := cloneNode(t)
					sn, _ := preorder(s)
					sn[id].C = append(sn[id].C, ref(a))
					cyclic = append(cyclic, &vcase{Kind: "cyclic", Node: s})
				}
			}
		}
	}
	return
}

type level struct {
	name string
	n    int64                // number of cases
	gen  func(i int64) *vcase // case i (nil = skip)
	cyc  bool                 // cyclic level: only termination is checked
}

// container cases are generated once, when a container level is first used
var (
	containerOnce             sync.Once
	acyclicCases, cyclicCases []*vcase
)

func containers() ([]*vcase, []*vcase) {
	containerOnce.Do(func() { acyclicCases, cyclicCases = containerCases(4) })
	return acyclicCases, cyclicCases
}

// The container levels have fixed sizes (checked on first use) so that listing
// the levels does not need to generate them.
const (
	nAcyclic = 36454
	nCyclic  = 50584
)

func sliceLevel(name string, cs []*vcase, cyc bool) level {
	return level{name: name, n: int64(len(cs)), gen: func(i int64) *vcase { return cs[i] }, cyc: cyc}
}

func levels(tier string) []level {
	thorough := tier == "thorough"
	var ls []level
	// 1. scalars
	var sc []*vcase
	sc = append(sc, &vcase{Kind: "none"}, &vcase{Kind: "bool", Bool: true}, &vcase{Kind: "bool", Bool: false})
	for _, z := range intPool() {
		sc = append(sc, &vcase{Kind: "int", Int: z.String()})
	}
	ls = append(ls, sliceLevel("none,bools,int-boundary-pool", sc, false))
	// 2. floats
	var fl []*vcase
	for _, sign := range []uint64{0, 1 << 63} {
		fl = append(fl, floatCase(sign)) // +-0.0
		for _, m := range mantissas[1:] {
			fl = append(fl, floatCase(sign|m)) // subnormals
		}
		for k := uint(0); k < 52; k++ {
			fl = append(fl, floatCase(sign|1<<k))
		}
		for e := uint64(1); e <= 2046; e++ {
			for _, m := range mantissas {
				fl = append(fl, floatCase(sign|e<<52|m))
			}
		}
	}
	// decimal cases that need 15, 16 and 17 significant digits
	for _, f := range []float64{0.1, 0.2, 0.3, 0.1 + 0.2, 1.0 / 3, 2.0 / 3, 1e15, 1e16, 1e17, 1e21, 1e22, 1e23, 123456789012345678, 5e-324, 1.7976931348623157e308, 2.2250738585072014e-308, 9007199254740993, 0.30000000000000004, 1e-5, 1e-4, 0.001, 4.35, 0.285, 1.005} {
		fl = append(fl, floatCase(math.Float64bits(f)), floatCase(math.Float64bits(-f)))
	}
	ls = append(ls, sliceLevel("floats(2046 exponents x 24 mantissas x sign, subnormals, zeros)", fl, false))
	// 3. bytes
	ls = append(ls, level{name: "bytes(256 singles, 65536 pairs, empty)", n: 1 + 256 + 65536, gen: func(i int64) *vcase {
		switch {
		case i == 0:
			return bytCase("")
		case i <= 256:
			return bytCase(string([]byte{byte(i - 1)}))
		}
		i -= 257
		return bytCase(string([]byte{byte(i >> 8), byte(i)}))
	}})
	// 3b. strings (not bytes) of every byte and every pair of bytes: most are not valid UTF-8
	// (a string is a byte sequence: indexing "é"[0] or a host value gives such strings)
	ls = append(ls, level{name: "strings of every single byte and every byte pair, valid UTF-8 or not (65792)", n: 256 + 65536, gen: func(i int64) *vcase {
		if i < 256 {
			return strCase(string([]byte{byte(i)}))
		}
		i -= 256
		return strCase(string([]byte{byte(i >> 8), byte(i)}))
	}})
	// 4. strings over class representatives
	var reps []string
	for _, r := range classReps {
		reps = append(reps, string(r))
	}
	var st []*vcase
	st = append(st, strCase(""))
	for _, a := range reps {
		st = append(st, strCase(a), strCase("a"+a+"z"))
		for _, b := range reps {
			st = append(st, strCase(a+b))
		}
	}
	if thorough {
		for _, a := range reps {
			for _, b := range reps {
				for _, c := range reps {
					st = append(st, strCase(a+b+c))
				}
			}
		}
	}
	ls = append(ls, sliceLevel(fmt.Sprintf("strings over %d class representatives (singles, pairs, embedded)", len(reps)), st, false))
	// 5. containers
	ls = append(ls, level{name: "containers(<=4 nodes x {list,tuple,dict} x leaf subsets, dict-key tuples, shared children, chains to depth 6)", n: nAcyclic, gen: func(i int64) *vcase {
		ac, _ := containers()
		if len(ac) != nAcyclic {
			fw.Fatal("c15: %d acyclic container cases, expected %d", len(ac), nAcyclic)
		}
		return ac[i]
	}})
	ls = append(ls, level{name: "cyclic containers(self, via child, via dict value, through tuples)", n: nCyclic, cyc: true, gen: func(i int64) *vcase {
		_, cy := containers()
		if len(cy) != nCyclic {
			fw.Fatal("c15: %d cyclic container cases, expected %d", len(cy), nCyclic)
		}
		return cy[i]
	}})
	// 6. every Unicode scalar value alone and embedded
	const nScalar = 0x110000 - 0x800
	scalar := func(i int64) rune {
		r := rune(i)
		if r >= 0xD800 {
			r += 0x800
		}
		return r
	}
	ls = append(ls, level{name: "every Unicode scalar value alone (1112064)", n: nScalar, gen: func(i int64) *vcase { return strCase(string(scalar(i))) }})
	ls = append(ls, level{name: "every Unicode scalar value between two ASCII letters (1112064)", n: nScalar, gen: func(i int64) *vcase { return strCase("a" + string(scalar(i)) + "z") }})
	if thorough {
		ls = append(ls, level{name: "every Unicode scalar value after a backslash and before a quote (1112064)", n: nScalar, gen: func(i int64) *vcase { return strCase("\\" + string(scalar(i)) + "\"") }})
		ls = append(ls, level{name: "every Unicode scalar value as bytes (1112064)", n: nScalar, gen: func(i int64) *vcase { return bytCase(string(scalar(i))) }})
		// all 3-byte strings over a 40-byte alphabet of interesting bytes
		var bs []byte
		for _, b := range []byte{0, 1, 9, 10, 13, 31, ' ', '"', '\'', '\\', '0', '7', 'a', 'n', 'x', 'u', 127, 0x80, 0x9f, 0xa0, 0xbf, 0xc0, 0xc2, 0xc3, 0xdf, 0xe0, 0xe2, 0xed, 0xef, 0xf0, 0xf4, 0xf5, 0xff, 0xa8, 0xa9, 0xbb, 0xbd, 0x81, 0x90, 0x8f} {
			bs = append(bs, b)
		}
		nb := int64(len(bs))
		ls = append(ls, level{name: fmt.Sprintf("bytes triples over %d interesting bytes", nb), n: nb * nb * nb, gen: func(i int64) *vcase {
			return bytCase(string([]byte{bs[i/(nb*nb)], bs[i/nb%nb], bs[i%nb]}))
		}})
	}
	return ls
}

// ---------------------------------------------------------------------------
// worker / coordinator / replay

type collector struct {
	viols map[string]fw.Viol
}

func (co *collector) add(key, what string, vc *vcase) {
	raw, _ := json.Marshal(vc)
	v := fw.Viol{Key: key, What: what, Case: raw}
	if old, ok := co.viols[key]; !ok || simpler(v, old) {
		co.viols[key] = v
	}
}

func simpler(a, b fw.Viol) bool {
	if len(a.Case) != len(b.Case) {
		return len(a.Case) < len(b.Case)
	}
	return bytes.Compare(a.Case, b.Case) < 0
}

func sortedViols(m map[string]fw.Viol) []fw.Viol {
	var keys []string
	for k := range m {
		keys = append(keys, k)
	}
	sort.Strings(keys)
	var out []fw.Viol
	for _, k := range keys {
		out = append(out, m[k])
	}
	return out
}

// checkCase runs one case; it returns the violations it shows.
func checkCase(ck *checker, vc *vcase, cyc bool, st *fw.Stats, co *collector) {
	v, ok := vc.value()
	if !ok || v == nil {
		st.Count("descriptors_not_buildable", 1)
		return
	}
	st.Evals++
	class := valueClass(vc, v)
	if cyc {
		text, probs := ck.cyclic(v)
		st.Nontrivial++
		st.Outcome("cyclic:" + vc.Node.K + ":" + ellipsisForm(text))
		if len(st.Samples) < 6 && st.Evals%211 == 7 {
			st.Sample(map[string]any{"cyclic": text})
		}
		for _, p := range probs {
			vc.Text = text
			co.add(p.kind+"/"+class, p.what, vc)
		}
		return
	}
	r, probs := ck.roundTrip(v)
	if vc.Kind == "container" && len(probs) == 0 {
		// the frozen value prints the same
		v.Freeze()
		if r2, err := ck.call1(ck.repr, v); err != nil || r2 != r {
			probs = append(probs, problem{"frozen-repr-differs", fmt.Sprintf("repr of the frozen value is %s (err %v), of the mutable value %s", show(r2), err, show(r))})
		}
	}
	form := reprForm(vc.Kind, r)
	st.Outcome(form)
	if form != "string:plain" && form != "bytes:plain" {
		st.Nontrivial++
	}
	if len(st.Samples) < 6 && st.Evals%3989 == 17 {
		st.Sample(map[string]any{"kind": vc.Kind, "repr": trunc(r, 100), "reads_back_equal": len(probs) == 0})
	}
	for _, p := range probs {
		vc.Text = trunc(r, 200)
		co.add(p.kind+"/"+class, p.what, vc)
	}
}

func ellipsisForm(s string) string {
	switch {
	case strings.Contains(s, "[...]") && strings.Contains(s, "{...}"):
		return "[...]+{...}"
	case strings.Contains(s, "[...]"):
		return "[...]"
	case strings.Contains(s, "{...}"):
		return "{...}"
	}
	return "no-ellipsis"
}

func trunc(s string, n int) string {
	if len(s) > n {
		return s[:n] + "…"
	}
	return s
}

// maxStack bounds recursion depth: an unbounded recursion in the printer
// dies with "stack overflow" after 64 MB instead of 1 GB (a size bound, not a
// time bound).
const maxStack = 64 << 20

func worker(c *fw.Ctx) *fw.Stats {
	runtime.GOMAXPROCS(2)
	debug.SetMaxStack(maxStack)
	st := fw.NewStats()
	ck := newChecker()
	co := &collector{viols: map[string]fw.Viol{}}
	defer func() { st.Viols = append(st.Viols, sortedViols(co.viols)...) }()
	for li, lv := range levels(c.Tier) {
		cut := false
		var done int64
		for i := int64(0); i < lv.n; i++ {
			if !c.Mine(i) {
				continue
			}
			if i&0x3ff == int64(c.Shard) && c.Expired() {
				cut = true
				break
			}
			vc := lv.gen(i)
			if vc == nil {
				continue
			}
			if lv.cyc {
				// unbounded recursion kills the process: tell the frame which case runs
				if !c.Risky(fmt.Sprintf("L%d:%d", li, i)) {
					continue
				}
			}
			checkCase(ck, vc, lv.cyc, st, co)
			done++
		}
		if cut {
			st.Count("levelcut:"+lv.name, 1)
			break
		}
		st.Count("leveldone:"+lv.name, 1)
		st.Count("cases:"+lv.name, done)
	}
	return st
}

func run(c *fw.Ctx) *fw.Stats {
	lvls := levels(c.Tier)
	onCrash := func(ci fw.CrashInfo, s *fw.Stats) {
		// key "L<level>:<index>" names the cyclic case that was being printed
		var li int
		var idx int64
		fmt.Sscanf(ci.Key, "L%d:%d", &li, &idx)
		if li < 0 || li >= len(lvls) || idx >= lvls[li].n {
			fw.Fatal("c15: worker %d died outside a risky case (%q): %s", ci.Shard, ci.Key, ci.Stderr)
		}
		vc := lvls[li].gen(idx)
		reason := "worker killed"
		if strings.Contains(ci.Stderr, "stack overflow") || strings.Contains(ci.Stderr, "stack exceeds") {
			reason = "goroutine stack exceeds the 64 MB bound (unbounded recursion)"
		}
		s.Violate("process-death/cyclic:"+vc.Node.K, "process death while printing a cyclic value: "+reason+" ["+describe(vc.Node)+"]", vc)
	}
	st := c.Sharded(0, onCrash)
	// one violation per key: the simplest case
	best := map[string]fw.Viol{}
	for _, v := range st.Viols {
		if old, ok := best[v.Key]; !ok || simpler(v, old) {
			best[v.Key] = v
		}
	}
	st.Viols = sortedViols(best)
	var n int64
	for k, v := range st.Counters {
		if strings.HasPrefix(k, "leveldone:") && v > n {
			n = v
		}
	}
	for _, lv := range lvls {
		done := st.Counters["leveldone:"+lv.name]
		cases := st.Counters["cases:"+lv.name]
		cutBy := st.Counters["levelcut:"+lv.name]
		delete(st.Counters, "leveldone:"+lv.name)
		delete(st.Counters, "cases:"+lv.name)
		delete(st.Counters, "levelcut:"+lv.name)
		if done == n && n > 0 && cutBy == 0 {
			st.Levels = append(st.Levels, fmt.Sprintf("%s:%d cases", lv.name, cases))
		} else {
			st.Cut = append(st.Cut, fmt.Sprintf("%s (complete in %d of %d shards)", lv.name, done, n))
		}
	}
	return st
}

// describe renders a container descriptor compactly, e.g. list[leaf,tuple[ref0]].
func describe(n *node) string {
	var sb strings.Builder
	var rec func(n *node)
	rec = func(n *node) {
		sb.WriteString(n.K + "[")
		for i, c := range n.C {
			if i > 0 {
				sb.WriteByte(',')
			}
			switch {
			case c.N != nil:
				rec(c.N)
			case c.Leaf != nil:
				sb.WriteString("leaf")
			case c.Ref != nil:
				fmt.Fprintf(&sb, "ref%d", *c.Ref)
			}
		}
		sb.WriteByte(']')
	}
	rec(n)
	return sb.String()
}

func replay(c *fw.Ctx, raw json.RawMessage) []fw.Viol {
	debug.SetMaxStack(maxStack)
	var vc vcase
	if err := json.Unmarshal(raw, &vc); err != nil {
		fw.Fatal("c15 replay: bad case: %v", err)
	}
	st := fw.NewStats()
	co := &collector{viols: map[string]fw.Viol{}}
	checkCase(newChecker(), &vc, vc.Kind == "cyclic", st, co)
	return sortedViols(co.viols)
}

func init() {
	fw.Register(&fw.Prop{
		ID:    "C15",
		Level: "exploration",
		Rule: "exhaustive sets: None, booleans, an int boundary pool (0, +-1, +-(2^k-1,2^k,2^k+1) for k up to 1000, +-(10^k-1,10^k,10^k+1)); floats: every finite biased exponent 1..2046 x 24 mantissa patterns x sign, subnormals (every single-bit mantissa and the patterns), +-0.0, 17-digit decimal cases; " +
			"bytes: all 256 single bytes and all 65536 pairs; strings: every Unicode scalar value alone and between two ASCII letters (2 x 1,112,064), all singles/pairs over 64 class representatives (controls, quotes, backslash, escape letters, DEL, C1, NBSP, soft hyphen, combining, ZWJ, U+2028/9, bidi, BOM, noncharacters, U+FFFD, private use, astral); " +
			"containers: every ordered tree of <=4 container nodes x {list,tuple,dict}^nodes x every subset of nodes carrying a scalar leaf (so 1-tuples and empty containers occur), tuple-as-dict-key variants, a shared (twice referenced) child, chains to depth 6; cyclic: every such tree with one back reference from any node to itself or an enclosing list/dict. " +
			"Each value: repr() by the real builtin, parsed and evaluated by the real front end/interpreter, result Equal and same Type() (floats: same bits); strings: str(s)==s; strings/bytes: scanner-unquote(Quote(s,b)) == (s,b); cyclic: str/repr return a string (stack bounded to 64 MB, death attributed by the frame), and return the same string after the value has been frozen; containers: repr is the same after Freeze. " +
			"non-trivial = values whose repr is not a plain printable-ASCII literal",
		Run: run, Worker: worker, Replay: replay,
		Assumptions: []string{
			"strings are valid UTF-8 (the property's domain); byte strings are arbitrary",
			"syntax.unquote is not exported: the inverse law is observed through the scanner (syntax.ParseExpr of the quoted literal), which is its only caller",
			"unbounded recursion in the printer is detected by a 64 MB goroutine stack bound (size bound), not by time",
		},
		BudgetQuick: 75, BudgetThorough: 900,
	})
}
