// Package c11 decides C11: equality, hashing and ordering are mutually
// coherent.
//
// Shape E: a pool of values that are equal or adjacent across types and
// representations (None, bools, ints/floats of equal magnitude, NaNs,
// strings/bytes around the 12-byte hashing switch, tuples/lists nested to the
// comparison depth limit, ranges, dicts, sets, structs, functions, built-ins,
// bound methods, time values in two zones); ALL ordered pairs and ALL triples
// are checked against the algebraic laws themselves, all short lists of each
// ordered type go through sorted/min/max with and without key and reverse.
// The exact order of ints and floats comes from Python fractions (one batch).
package c11

import (
	"bytes"
	"encoding/json"
	"fmt"
	"math"
	"math/big"
	"os"
	"os/exec"
	"path/filepath"
	"sort"
	"strconv"
	"strings"
	"syscall"
	gotime "time"

	sltime "go.starlark.net/lib/time"
	"go.starlark.net/starlark"
	"go.starlark.net/starlarkstruct"
	"go.starlark.net/syntax"

	"verif/internal/fw"
)

// ---------------------------------------------------------------------------
// pool

type pv struct {
	Name  string
	V     starlark.Value
	Class string // ordered class ("num", "string", "bytes", "bool", "tuple", "list", "time", "duration") or ""
	Num   string // numeric token for the exact-order oracle: i<decimal> / f<hex bits>; "" if not a non-NaN number
}

const helperSrc = `
def eq(x, y): return x == y
def ne(x, y): return x != y
def lt(x, y): return x < y
def le(x, y): return x <= y
def gt(x, y): return x > y
def ge(x, y): return x >= y
def d_in(k, j): return k in {j: "v"}
def d_get(k, j): return {j: "v"}[k]
def d_slot(k, j):
    d = {j: 1}
    d[k] = 2
    return [len(d), d[j]]
def d_two(k, j):
    d = {}
    d[k] = 1
    d[j] = 2
    return [len(d), d[k], d[j]]
def s_in(k, j): return k in set([j])
def s_add(k, j):
    s = set([j])
    s.add(k)
    return len(s)
def l_in(k, j): return k in [j]
def ident(x): return x
def neg(x): return -x
def const(x): return 0
def klen(x): return len(x)
def kabs(x): return abs(x)
def knot(x): return not x
def first(p): return p[0]
def f(): pass
def g(): pass
h = lambda: 1
`

const otherModuleSrc = `
def f(): pass
`

type env struct {
	th   *starlark.Thread
	g    starlark.StringDict
	g2   starlark.StringDict
	pool []pv
	idx  map[string]int
	memo map[[3]int]int8 // (op, i, j) -> 0 false, 1 true, 2 error
	st   *fw.Stats
	rank map[string]int // numeric token -> rank in the exact order
}

var opNames = []string{"eq", "ne", "lt", "le", "gt", "ge"}
var opTokens = []syntax.Token{syntax.EQL, syntax.NEQ, syntax.LT, syntax.LE, syntax.GT, syntax.GE}

const (
	opEQ = iota
	opNE
	opLT
	opLE
	opGT
	opGE
)

func bigInt(s string) starlark.Int {
	n, ok := new(big.Int).SetString(s, 10)
	if !ok {
		fw.Fatal("c11: bad int %q", s)
	}
	return starlark.MakeBigInt(n)
}

func pow2(k uint, d int64) string {
	n := new(big.Int).Lsh(big.NewInt(1), k)
	n.Add(n, big.NewInt(d))
	return n.String()
}

func nestTuple(depth int, leaf starlark.Value) starlark.Value {
	v := leaf
	for i := 0; i < depth; i++ {
		v = starlark.Tuple{v}
	}
	return v
}

func nestList(depth int, leaf starlark.Value) starlark.Value {
	v := leaf
	for i := 0; i < depth; i++ {
		v = starlark.NewList([]starlark.Value{v})
	}
	return v
}

func mkRange(th *starlark.Thread, a ...int) starlark.Value {
	args := make(starlark.Tuple, len(a))
	for i, x := range a {
		args[i] = starlark.MakeInt(x)
	}
	v, err := starlark.Call(th, starlark.Universe["range"], args, nil)
	if err != nil {
		fw.Fatal("c11: range: %v", err)
	}
	return v
}

func strN(n int, last byte) string {
	b := make([]byte, n)
	for i := range b {
		b[i] = 'a' + byte(i%26)
	}
	if n > 0 && last != 0 {
		b[n-1] = last
	}
	return string(b)
}

func newEnv(thorough bool) *env {
	e := &env{th: &starlark.Thread{Name: "c11"}, idx: map[string]int{}, memo: map[[3]int]int8{}, st: fw.NewStats()}
	opts := &syntax.FileOptions{Set: true}
	var err error
	e.g, err = starlark.ExecFileOptions(opts, e.th, "c11helpers.star", helperSrc, nil)
	if err != nil {
		fw.Fatal("c11 helpers: %v", err)
	}
	e.g2, err = starlark.ExecFileOptions(opts, e.th, "c11other.star", otherModuleSrc, nil)
	if err != nil {
		fw.Fatal("c11 helpers: %v", err)
	}
	add := func(name string, v starlark.Value, class string) {
		if _, dup := e.idx[name]; dup {
			fw.Fatal("c11: duplicate pool name %s", name)
		}
		p := pv{Name: name, V: v, Class: class}
		switch x := v.(type) {
		case starlark.Int:
			p.Num = "i" + x.String()
		case starlark.Float:
			if f := float64(x); f == f {
				p.Num = fmt.Sprintf("f%016x", math.Float64bits(f))
			}
		}
		e.idx[name] = len(e.pool)
		e.pool = append(e.pool, p)
	}
	I := func(name, dec string) { add(name, bigInt(dec), "num") }
	F := func(name string, f float64) { add(name, starlark.Float(f), "num") }

	add("None", starlark.None, "")
	add("True", starlark.True, "bool")
	add("False", starlark.False, "bool")
	// ints and floats of equal magnitude
	I("0", "0")
	I("1", "1")
	I("-1", "-1")
	I("2", "2")
	I("2^31", pow2(31, 0))
	I("2^53-1", pow2(53, -1))
	I("2^53", pow2(53, 0))
	I("2^53+1", pow2(53, 1))
	I("2^53+2", pow2(53, 2))
	I("2^63", pow2(63, 0))
	I("2^64", pow2(64, 0))
	I("2^64+1", pow2(64, 1))
	I("-2^64", "-"+pow2(64, 0))
	I("int(1e300)", new(big.Int).Set(func() *big.Int { n, _ := new(big.Float).SetFloat64(1e300).Int(nil); return n }()).String())
	I("10^300", "1"+strings.Repeat("0", 300))
	// ints that are the result of an operation on operands of another magnitude (a value is
	// what it denotes, however it was computed): each equals a pool value written directly
	comp := func(name string, op syntax.Token, x, y string) {
		v, err := starlark.Binary(op, bigInt(x), bigInt(y))
		if err != nil {
			fw.Fatal("c11: computed pool value %s: %v", name, err)
		}
		add(name, v, "num")
	}
	comp("2^40|-5 (= -5)", syntax.PIPE, pow2(40, 0), "-5")
	I("-5", "-5")
	comp("2^40&1 (= 0)", syntax.AMP, pow2(40, 0), "1")
	comp("(2^40+1)^2^40 (= 1)", syntax.CIRCUMFLEX, pow2(40, 1), pow2(40, 0))
	comp("2^70>>69 (= 2)", syntax.GTGT, pow2(70, 0), "69")
	comp("2^64-(2^64-1) (= 1)", syntax.MINUS, pow2(64, 0), pow2(64, -1))
	comp("2^64//2^63 (= 2)", syntax.SLASHSLASH, pow2(64, 0), pow2(63, 0))
	comp("(2^64+1)%2^64 (= 1)", syntax.PERCENT, pow2(64, 1), pow2(64, 0))
	comp("2^32*2^31 (= 2^63)", syntax.STAR, pow2(32, 0), pow2(31, 0))
	comp("1<<31 (= 2^31)", syntax.LTLT, "1", "31")
	comp("-2^40|-1 (= -1)", syntax.PIPE, "-"+pow2(40, 0), "-1")
	F("0.0", 0)
	F("-0.0", math.Copysign(0, -1))
	F("1.0", 1)
	F("-1.0", -1)
	F("2.0", 2)
	F("0.5", 0.5)
	F("1.5", 1.5)
	F("2.0^31", 1<<31)
	F("2.0^53-1", 1<<53-1)
	F("2.0^53", 1<<53)
	F("2.0^53+2", 1<<53+2)
	F("2.0^63", math.Ldexp(1, 63))
	F("2.0^64", math.Ldexp(1, 64))
	F("-2.0^64", -math.Ldexp(1, 64))
	F("1e300", 1e300)
	// integral floats far beyond 2^63 whose 53 mantissa bits are mixed (so that
	// every 32-bit word of the equal int that the mantissa reaches is non-zero)
	// together with the ints that equal them, in both signs
	wide := []int{64, 80, 100}
	if thorough {
		wide = []int{64, 66, 70, 80, 84, 96, 100, 127, 200, 1000}
	}
	for _, k := range wide {
		f := math.Ldexp(float64(0x1A5A5A5A5A5A5B), k-52)
		n, _ := new(big.Float).SetFloat64(f).Int(nil)
		F(fmt.Sprintf("0x1.A5A5A5A5A5A5Bp%d", k), f)
		I(fmt.Sprintf("int(0x1.A5A5A5A5A5A5Bp%d)", k), n.String())
		F(fmt.Sprintf("-0x1.A5A5A5A5A5A5Bp%d", k), -f)
		I(fmt.Sprintf("-int(0x1.A5A5A5A5A5A5Bp%d)", k), "-"+n.String())
	}
	F("1e20", 1e20)
	I("10^20", "100000000000000000000")
	// non-integral floats next to ints beyond the int32 range, in both signs
	// (the int/float order must take floor and ceiling the right way round)
	for _, n := range []int64{3000000000, 1 << 40, 1 << 52} {
		for _, sign := range []int64{1, -1} {
			I(fmt.Sprintf("%d", sign*n), fmt.Sprintf("%d", sign*n))
			I(fmt.Sprintf("%d", sign*(n+1)), fmt.Sprintf("%d", sign*(n+1)))
			F(fmt.Sprintf("%d.0", sign*n), float64(sign*n))
			F(fmt.Sprintf("%d.5", sign*n), float64(sign*n)+float64(sign)*0.5)
			if n < 1<<52 {
				F(fmt.Sprintf("%d.25", sign*(n-1)), float64(sign*(n-1))+float64(sign)*0.25)
			}
		}
	}
	F("5e-324", 5e-324)
	F("+inf", math.Inf(1))
	F("-inf", math.Inf(-1))
	F("nan", math.NaN())
	F("nan(payload)", math.Float64frombits(0x7ff8000000000001))
	F("-nan", math.Float64frombits(0xfff8000000000000))
	if thorough {
		for _, k := range []uint{15, 30, 32, 33, 52, 54, 62, 65, 127, 200} {
			I(fmt.Sprintf("2^%d", k), pow2(k, 0))
			I(fmt.Sprintf("2^%d+1", k), pow2(k, 1))
			I(fmt.Sprintf("-2^%d", k), "-"+pow2(k, 0))
			F(fmt.Sprintf("2.0^%d", k), math.Ldexp(1, int(k)))
			F(fmt.Sprintf("-2.0^%d", k), -math.Ldexp(1, int(k)))
		}
		F("2.0^31+0.5", 1<<31+0.5)
		F("1e308", 1e308)
		F("-1e308", -1e308)
		F("nextafter(1)", math.Nextafter(1, 2))
	}
	// strings and bytes around the 12-byte hashing switch
	for _, n := range []int{0, 1, 11, 12, 13, 40} {
		add(fmt.Sprintf("str%d", n), starlark.String(strN(n, 0)), "string")
		add(fmt.Sprintf("bytes%d", n), starlark.Bytes(strN(n, 0)), "bytes")
	}
	for _, n := range []int{1, 11, 12, 13, 40} {
		// an equal string built differently, and one differing in the last byte
		add(fmt.Sprintf("str%d(dup)", n), starlark.String(strings.Join(strings.Split(strN(n, 0), ""), "")), "string")
		add(fmt.Sprintf("str%d(last=Z)", n), starlark.String(strN(n, 'Z')), "string")
		add(fmt.Sprintf("bytes%d(last=Z)", n), starlark.Bytes(strN(n, 'Z')), "bytes")
	}
	add("str:1", starlark.String("1"), "string")
	// tuples
	one, onef, two := starlark.MakeInt(1), starlark.Float(1), starlark.MakeInt(2)
	sa := starlark.String("a")
	nan := starlark.Float(math.NaN())
	// slices that share the backing array of a longer tuple (what t[:2], t[1:] return)
	base123 := starlark.Tuple{one, two, starlark.MakeInt(3)}
	add("(1,2,3)", base123, "tuple")
	add("(1,2,3)[:2]", base123[:2], "tuple")
	add("(1,2,3)[:1]", base123[:1], "tuple")
	add("(1,2,3)[1:]", base123[1:], "tuple")
	add("(1,2,3)[:0]", base123[:0], "tuple")
	add("(1,2) fresh", starlark.Tuple{starlark.MakeInt(1), starlark.MakeInt(2)}, "tuple")
	add("()", starlark.Tuple{}, "tuple")
	add("(1,)", starlark.Tuple{one}, "tuple")
	add("(1.0,)", starlark.Tuple{onef}, "tuple")
	add("(True,)", starlark.Tuple{starlark.True}, "tuple")
	add("(2,)", starlark.Tuple{two}, "tuple")
	add("(1,2)", starlark.Tuple{one, two}, "tuple")
	add("(1.0,2)", starlark.Tuple{onef, two}, "tuple")
	add("(1,'a')", starlark.Tuple{one, sa}, "tuple")
	add("('a',1)", starlark.Tuple{sa, one}, "tuple")
	add("(1,(2,))", starlark.Tuple{one, starlark.Tuple{two}}, "tuple")
	add("((),)", starlark.Tuple{starlark.Tuple{}}, "tuple")
	add("(nan,)", starlark.Tuple{nan}, "tuple")
	add("(nan2,)", starlark.Tuple{starlark.Float(math.Float64frombits(0x7ff8000000000001))}, "tuple")
	add("([1],)", starlark.Tuple{starlark.NewList([]starlark.Value{one})}, "tuple")
	add("(2^64,)", starlark.Tuple{bigInt(pow2(64, 0))}, "tuple")
	add("(2.0^64,)", starlark.Tuple{starlark.Float(math.Ldexp(1, 64))}, "tuple")
	L := starlark.CompareLimit
	for _, d := range []int{L - 2, L - 1, L, L + 1} {
		add(fmt.Sprintf("tuple^%d(1)", d), nestTuple(d, one), "tuple")
		add(fmt.Sprintf("tuple^%d(1.0)", d), nestTuple(d, onef), "tuple")
		add(fmt.Sprintf("tuple^%d(2)", d), nestTuple(d, two), "tuple")
		add(fmt.Sprintf("list^%d(1)", d), nestList(d, one), "list")
		add(fmt.Sprintf("list^%d(1.0)", d), nestList(d, onef), "list")
	}
	// lists
	add("[]", starlark.NewList(nil), "list")
	add("[1]", starlark.NewList([]starlark.Value{one}), "list")
	add("[1](other)", starlark.NewList([]starlark.Value{one}), "list")
	add("[1.0]", starlark.NewList([]starlark.Value{onef}), "list")
	add("[2]", starlark.NewList([]starlark.Value{two}), "list")
	add("[1,2]", starlark.NewList([]starlark.Value{one, two}), "list")
	add("[2,1]", starlark.NewList([]starlark.Value{two, one}), "list")
	add("['a']", starlark.NewList([]starlark.Value{sa}), "list")
	add("[nan]", starlark.NewList([]starlark.Value{nan}), "list")
	add("[(1,)]", starlark.NewList([]starlark.Value{starlark.Tuple{one}}), "list")
	add("[0]", starlark.NewList([]starlark.Value{starlark.MakeInt(0)}), "list")
	add("[1,2,3]", starlark.NewList([]starlark.Value{one, two, starlark.MakeInt(3)}), "list")
	cyc := starlark.NewList(nil)
	cyc.Append(cyc)
	add("cyclic-list", cyc, "list")
	// ranges denoting equal sequences
	add("range(0)", mkRange(e.th, 0), "")
	add("range(2,1,3)", mkRange(e.th, 2, 1, 3), "")
	add("range(3)", mkRange(e.th, 3), "")
	add("range(0,3,1)", mkRange(e.th, 0, 3, 1), "")
	add("range(0,3,2)", mkRange(e.th, 0, 3, 2), "")
	add("range(0,4,2)", mkRange(e.th, 0, 4, 2), "")
	add("range(1)", mkRange(e.th, 1), "")
	add("range(0,1,5)", mkRange(e.th, 0, 1, 5), "")
	// dicts and sets
	mkDict := func(kv ...starlark.Value) *starlark.Dict {
		d := starlark.NewDict(len(kv) / 2)
		for i := 0; i < len(kv); i += 2 {
			d.SetKey(kv[i], kv[i+1])
		}
		return d
	}
	mkSet := func(ks ...starlark.Value) *starlark.Set {
		s := starlark.NewSet(len(ks))
		for _, k := range ks {
			s.Insert(k)
		}
		return s
	}
	add("{}", mkDict(), "")
	add("{1:2}", mkDict(one, two), "")
	add("{1.0:2}", mkDict(onef, two), "")
	add("{1:2.0}", mkDict(one, starlark.Float(2)), "")
	add("{1:2,'a':1}", mkDict(one, two, sa, one), "")
	add("{'a':1,1:2}", mkDict(sa, one, one, two), "")
	// keys nested close to the comparison depth limit: comparing the collections looks the keys up
	for _, d := range []int{L - 3, L - 2, L - 1} {
		add(fmt.Sprintf("{tuple^%d(1):2}", d), mkDict(nestTuple(d, one), two), "")
		add(fmt.Sprintf("{tuple^%d(1.0):2}", d), mkDict(nestTuple(d, onef), two), "")
		add(fmt.Sprintf("set([tuple^%d(1)])", d), mkSet(nestTuple(d, one)), "")
	}
	add("set()", mkSet(), "")
	add("set([1])", mkSet(one), "")
	add("set([1.0])", mkSet(onef), "")
	add("set([1,2])", mkSet(one, two), "")
	add("set([2,1])", mkSet(two, one), "")
	// structs
	kw := func(kv ...any) []starlark.Tuple {
		var out []starlark.Tuple
		for i := 0; i < len(kv); i += 2 {
			out = append(out, starlark.Tuple{starlark.String(kv[i].(string)), kv[i+1].(starlark.Value)})
		}
		return out
	}
	add("struct(a=1)", starlarkstruct.FromKeywords(starlarkstruct.Default, kw("a", one)), "")
	add("struct(a=1)(other)", starlarkstruct.FromKeywords(starlarkstruct.Default, kw("a", one)), "")
	add("struct(a=1.0)", starlarkstruct.FromKeywords(starlarkstruct.Default, kw("a", onef)), "")
	add("struct(a=True)", starlarkstruct.FromKeywords(starlarkstruct.Default, kw("a", starlark.True)), "")
	add("struct(a=1,b=2)", starlarkstruct.FromKeywords(starlarkstruct.Default, kw("a", one, "b", two)), "")
	add("struct(b=2,a=1)", starlarkstruct.FromKeywords(starlarkstruct.Default, kw("b", two, "a", one)), "")
	add("struct(b=1)", starlarkstruct.FromKeywords(starlarkstruct.Default, kw("b", one)), "")
	add("struct(a=[1])", starlarkstruct.FromKeywords(starlarkstruct.Default, kw("a", starlark.NewList([]starlark.Value{one}))), "")
	add("struct(a=2^64)", starlarkstruct.FromKeywords(starlarkstruct.Default, kw("a", bigInt(pow2(64, 0)))), "")
	add("struct(a=2.0^64)", starlarkstruct.FromKeywords(starlarkstruct.Default, kw("a", starlark.Float(math.Ldexp(1, 64)))), "")
	add("point(a=1)", starlarkstruct.FromKeywords(starlark.String("point"), kw("a", one)), "")
	add("struct()", starlarkstruct.FromKeywords(starlarkstruct.Default, nil), "")
	// functions, built-ins, bound methods
	add("def f", e.g["f"], "")
	add("def g", e.g["g"], "")
	add("lambda h", e.g["h"], "")
	add("def f(other module)", e.g2["f"], "")
	add("builtin len", starlark.Universe["len"], "")
	add("builtin str", starlark.Universe["str"], "")
	bound := func(recv starlark.Value, name string) starlark.Value {
		v, err := recv.(starlark.HasAttrs).Attr(name)
		if err != nil || v == nil {
			fw.Fatal("c11: attr %s: %v", name, err)
		}
		return v
	}
	s := starlark.String("abc")
	add("'abc'.upper", bound(s, "upper"), "")
	add("'abc'.upper(again)", bound(s, "upper"), "")
	add("'abc'.lower", bound(s, "lower"), "")
	add("[].append", bound(starlark.NewList(nil), "append"), "")
	// time values in two zones
	utc := gotime.Date(2020, 6, 1, 12, 0, 0, 0, gotime.UTC)
	east := gotime.FixedZone("EAST", 5*3600)
	add("time(utc)", sltime.Time(utc), "time")
	add("time(same instant,+05)", sltime.Time(utc.In(east)), "time")
	add("time(same wall clock,+05)", sltime.Time(gotime.Date(2020, 6, 1, 12, 0, 0, 0, east)), "time")
	add("time(+1ns)", sltime.Time(utc.Add(1)), "time")
	add("time(zero)", sltime.Time(gotime.Time{}), "time")
	add("duration(0)", sltime.Duration(0), "duration")
	add("duration(1s)", sltime.Duration(gotime.Second), "duration")
	add("duration(1000ms)", sltime.Duration(1000*gotime.Millisecond), "duration")
	add("duration(-1s)", sltime.Duration(-gotime.Second), "duration")
	add("duration(max)", sltime.Duration(math.MaxInt64), "duration")
	return e
}

func typeClass(p pv) string {
	if f, ok := p.V.(starlark.Float); ok && float64(f) != float64(f) {
		return "float(nan)"
	}
	if p.V.Type() == "builtin_function_or_method" {
		if b, ok := p.V.(*starlark.Builtin); ok && b.Receiver() != nil {
			return "bound-method"
		}
		return "builtin"
	}
	if strings.HasPrefix(p.Name, "tuple^") || strings.HasPrefix(p.Name, "list^") {
		return p.Class + "(deep)"
	}
	return p.V.Type()
}

// ---------------------------------------------------------------------------
// evaluation

func (e *env) call(fn string, args ...starlark.Value) (starlark.Value, error) {
	e.st.Evals++
	return starlark.Call(e.th, e.g[fn], starlark.Tuple(args), nil)
}

// rel evaluates x OP y three ways (interpreter, Compare; Equal for ==) and
// returns 0/1/2(error). Disagreement between the entry points is reported.
func (e *env) rel(op, i, j int) int8 {
	k := [3]int{op, i, j}
	if r, ok := e.memo[k]; ok {
		return r
	}
	x, y := e.pool[i].V, e.pool[j].V
	enc := func(b bool, err error) int8 {
		if err != nil {
			return 2
		}
		if b {
			return 1
		}
		return 0
	}
	v, err := e.call(opNames[op], x, y)
	var r int8
	if err != nil {
		r = 2
	} else {
		r = enc(bool(v.(starlark.Bool)), nil)
	}
	e.st.Evals++
	r2 := enc(starlark.Compare(opTokens[op], x, y))
	if r2 != r {
		e.violate("entry-points-disagree("+opNames[op]+")", i, j, -1, fmt.Sprintf("interpreter gives %d, starlark.Compare gives %d (0 false, 1 true, 2 error)", r, r2))
	}
	if op == opEQ {
		e.st.Evals++
		r3 := enc(starlark.Equal(x, y))
		if r3 != r {
			e.violate("entry-points-disagree(Equal)", i, j, -1, fmt.Sprintf("x == y gives %d, starlark.Equal gives %d", r, r3))
		}
	}
	e.memo[k] = r
	return r
}

type violCase struct {
	Law   string   `json:"law"`
	Names []string `json:"values"`
	// sort cases
	Class   string `json:"class,omitempty"`
	Key     string `json:"key,omitempty"`
	Reverse bool   `json:"reverse,omitempty"`
	Fn      string `json:"fn,omitempty"`
}

func (e *env) addViol(key, what string, vc violCase) {
	raw, _ := json.Marshal(vc)
	for n, v := range e.st.Viols {
		if v.Key == key {
			if len(raw) < len(v.Case) || (len(raw) == len(v.Case) && bytes.Compare(raw, v.Case) < 0) {
				e.st.Viols[n] = fw.Viol{Key: key, What: what, Case: raw}
			}
			return
		}
	}
	if len(e.st.Viols) >= 300 {
		e.st.Count("violation_keys_dropped", 1)
		return
	}
	e.st.Viols = append(e.st.Viols, fw.Viol{Key: key, What: what, Case: raw})
}

func (e *env) violate(law string, i, j, k int, detail string) {
	idx := []int{i, j}
	if k >= 0 {
		idx = append(idx, k)
	}
	if j < 0 {
		idx = []int{i}
	}
	var names, classes []string
	for _, n := range idx {
		names = append(names, e.pool[n].Name)
		classes = append(classes, typeClass(e.pool[n]))
	}
	e.addViol(law+"("+strings.Join(classes, ",")+")", fmt.Sprintf("%s on %s: %s", law, strings.Join(names, " , "), detail), violCase{Law: law, Names: names})
}

func hashOf(v starlark.Value) (h uint32, ok bool) {
	defer func() {
		if r := recover(); r != nil {
			ok = false
		}
	}()
	h, err := v.Hash()
	return h, err == nil
}

func render(v starlark.Value) string {
	switch x := v.(type) {
	case starlark.Float:
		f := float64(x)
		if f != f {
			return "float:nan"
		}
		return fmt.Sprintf("float:%016x", math.Float64bits(f))
	case starlark.Tuple:
		var p []string
		for _, el := range x {
			p = append(p, render(el))
		}
		return "(" + strings.Join(p, ",") + ")"
	case *starlark.List:
		var p []string
		for i := 0; i < x.Len(); i++ {
			p = append(p, render(x.Index(i)))
		}
		return "[" + strings.Join(p, ",") + "]"
	}
	return v.Type() + ":" + v.String()
}

// checkPair checks every law that involves the ordered pair (i, j).
func (e *env) checkPair(i, j int) {
	x, y := e.pool[i], e.pool[j]
	eq, ne := e.rel(opEQ, i, j), e.rel(opNE, i, j)
	e.st.Outcome(fmt.Sprintf("%s==%s:%d", typeClass(x), typeClass(y), eq))
	// != is the negation of == (and defined exactly when == is)
	if (eq == 2) != (ne == 2) || (eq != 2 && eq == ne) {
		e.violate("ne-is-negation-of-eq", i, j, -1, fmt.Sprintf("== gives %d, != gives %d", eq, ne))
	}
	// symmetric, including definedness
	if eqr := e.rel(opEQ, j, i); eqr != eq {
		e.violate("eq-symmetric", i, j, -1, fmt.Sprintf("x == y gives %d, y == x gives %d", eq, eqr))
	}
	if i == j && eq == 0 {
		e.violate("eq-reflexive", i, -1, -1, "x == x is False")
	}
	// equal values: same hashability, same hash, interchangeable as keys / members
	hx, okx := hashOf(x.V)
	hy, oky := hashOf(y.V)
	e.st.Evals += 2
	if eq == 1 {
		if okx != oky {
			e.violate("equal-values-differ-in-hashability", i, j, -1, fmt.Sprintf("hashable: %v vs %v", okx, oky))
		} else if okx && hx != hy {
			e.violate("equal-values-hash-differently", i, j, -1, fmt.Sprintf("Hash() %d vs %d", hx, hy))
		}
	}
	// (a key whose own == is undefined, e.g. nested beyond the limit, cannot even be looked up: outside the laws)
	if okx && oky && eq != 2 && e.rel(opEQ, i, i) != 2 && e.rel(opEQ, j, j) != 2 {
		want := eq == 1
		if v, err := e.call("d_in", x.V, y.V); err != nil || bool(v.(starlark.Bool)) != want {
			e.violate("dict-membership-follows-eq", i, j, -1, fmt.Sprintf("x == y is %v but x in {y: ...} gives %v, %v", want, v, err))
		}
		if v, err := e.call("s_in", x.V, y.V); err != nil || bool(v.(starlark.Bool)) != want {
			e.violate("set-membership-follows-eq", i, j, -1, fmt.Sprintf("x == y is %v but x in set([y]) gives %v, %v", want, v, err))
		}
		if v, err := e.call("d_get", x.V, y.V); (err == nil) != want || (want && v != starlark.Value(starlark.String("v"))) {
			e.violate("dict-lookup-follows-eq", i, j, -1, fmt.Sprintf("x == y is %v but {y: 'v'}[x] gives %v, %v", want, v, err))
		}
		if want {
			if v, err := e.call("d_slot", x.V, y.V); err != nil || render(v) != "[int:1,int:2]" {
				e.violate("equal-keys-share-a-slot", i, j, -1, fmt.Sprintf("d = {y: 1}; d[x] = 2 gives [len(d), d[y]] = %v, %v", v, err))
			}
			if v, err := e.call("s_add", x.V, y.V); err != nil || render(v) != "int:1" {
				e.violate("equal-members-share-a-slot", i, j, -1, fmt.Sprintf("s = set([y]); s.add(x); len(s) = %v, %v", v, err))
			}
		} else {
			if v, err := e.call("d_two", x.V, y.V); err != nil || render(v) != "[int:2,int:1,int:2]" {
				e.violate("unequal-keys-are-distinct", i, j, -1, fmt.Sprintf("d[x] = 1; d[y] = 2 gives [len(d), d[x], d[y]] = %v, %v", v, err))
			}
		}
	}
	// membership in a list follows ==
	if eq != 2 {
		if v, err := e.call("l_in", x.V, y.V); err != nil || bool(v.(starlark.Bool)) != (eq == 1) {
			e.violate("list-membership-follows-eq", i, j, -1, fmt.Sprintf("x == y is %d but x in [y] gives %v, %v", eq, v, err))
		}
	}
	// ordering
	lt, le, gt, ge := e.rel(opLT, i, j), e.rel(opLE, i, j), e.rel(opGT, i, j), e.rel(opGE, i, j)
	ltr, gtr, ler, ger := e.rel(opLT, j, i), e.rel(opGT, j, i), e.rel(opLE, j, i), e.rel(opGE, j, i)
	// definedness is symmetric
	if (lt == 2) != (gtr == 2) || (lt == 2) != (ltr == 2) || (le == 2) != (ger == 2) || (le == 2) != (ler == 2) {
		e.violate("ordering-definedness-symmetric", i, j, -1, fmt.Sprintf("x<y %d, y>x %d, y<x %d, x<=y %d, y>=x %d, y<=x %d (2 = error)", lt, gtr, ltr, le, ger, ler))
	}
	if lt != 2 && le != 2 && gt != 2 && ge != 2 && eq != 2 {
		e.st.Count("ordered_pairs", 1)
		n := 0
		for _, r := range []int8{lt, eq, gt} {
			if r == 1 {
				n++
			}
		}
		// (sets are ordered by inclusion, a partial order: two sets may be unrelated)
		bothSets := x.V.Type() == "set" && y.V.Type() == "set"
		if n != 1 && !(bothSets && n == 0) {
			e.violate("exactly-one-of-lt-eq-gt", i, j, -1, fmt.Sprintf("< %d, == %d, > %d", lt, eq, gt))
		}
		if (le == 1) != (lt == 1 || eq == 1) || (ge == 1) != (gt == 1 || eq == 1) {
			e.violate("le-ge-consistent", i, j, -1, fmt.Sprintf("< %d, <= %d, == %d, >= %d, > %d", lt, le, eq, ge, gt))
		}
		if gtr != 2 && lt != gtr {
			e.violate("lt-is-converse-of-gt", i, j, -1, fmt.Sprintf("x < y %d, y > x %d", lt, gtr))
		}
	} else if x.Class != "" && x.Class == y.Class && x.Class != "tuple" && x.Class != "list" {
		// scalar ordered types are totally ordered: every comparison is defined
		e.violate("ordered-type-comparison-undefined", i, j, -1, fmt.Sprintf("< %d, <= %d, > %d, >= %d (2 = error)", lt, le, gt, ge))
	}
	// int/float order is exact
	if x.Num != "" && y.Num != "" && e.rank != nil {
		rx, okx := e.rank[x.Num]
		ry, oky := e.rank[y.Num]
		if okx && oky {
			e.st.Count("exact_order_compared", 1)
			want := func(b bool) int8 {
				if b {
					return 1
				}
				return 0
			}
			if lt != want(rx < ry) || eq != want(rx == ry) || gt != want(rx > ry) || le != want(rx <= ry) || ge != want(rx >= ry) || ne != want(rx != ry) {
				e.violate("int-float-order-exact", i, j, -1, fmt.Sprintf("exact order (fractions) says rank %d vs %d; implementation: < %d, <= %d, == %d, != %d, >= %d, > %d", rx, ry, lt, le, eq, ne, ge, gt))
			}
		}
	}
}

// checkTriple checks the transitivity / congruence laws on (i, j, k).
func (e *env) checkTriple(i, j, k int) {
	eqij, eqjk := e.rel(opEQ, i, j), e.rel(opEQ, j, k)
	if eqij == 1 && eqjk == 1 {
		e.st.Count("triples_eq_premise", 1)
		if r := e.rel(opEQ, i, k); r != 1 {
			e.violate("eq-transitive", i, j, k, fmt.Sprintf("x == y and y == z but x == z gives %d", r))
		}
	}
	ltij, ltjk := e.rel(opLT, i, j), e.rel(opLT, j, k)
	if ltij == 1 && ltjk == 1 {
		e.st.Count("triples_lt_premise", 1)
		if r := e.rel(opLT, i, k); r != 1 {
			e.violate("lt-transitive", i, j, k, fmt.Sprintf("x < y and y < z but x < z gives %d", r))
		}
	}
	// == is a congruence for <: equal values are ordered alike against a third
	if eqij == 1 {
		a, b := e.rel(opLT, i, k), e.rel(opLT, j, k)
		c, d := e.rel(opLT, k, i), e.rel(opLT, k, j)
		if a != 2 && b != 2 && c != 2 && d != 2 {
			e.st.Count("triples_congruence_premise", 1)
			if a != b || c != d {
				e.violate("eq-congruent-for-lt", i, j, k, fmt.Sprintf("x == y but x<z %d, y<z %d, z<x %d, z<y %d", a, b, c, d))
			}
		}
	}
}

// checkHashStable: Hash is the same on every call and after Freeze.
func (e *env) checkHashStable(i int) {
	v := e.pool[i].V
	h1, ok1 := hashOf(v)
	h2, ok2 := hashOf(v)
	e.st.Evals += 2
	if ok1 != ok2 || h1 != h2 {
		e.violate("hash-stable-across-calls", i, -1, -1, fmt.Sprintf("%d,%v then %d,%v", h1, ok1, h2, ok2))
	}
	if e.pool[i].Name == "cyclic-list" {
		return
	}
	v.Freeze()
	h3, ok3 := hashOf(v)
	e.st.Evals++
	if ok1 != ok3 || h1 != h3 {
		e.violate("hash-stable-after-freeze", i, -1, -1, fmt.Sprintf("%d,%v before, %d,%v after Freeze", h1, ok1, h3, ok3))
	}
}

// ---------------------------------------------------------------------------
// sorted / min / max

type sortPool struct {
	class string
	names []string
	keys  []string // key function names ("" = no key)
}

func sortPools() []sortPool {
	return []sortPool{
		{"num", []string{"1", "1.0", "0", "-0.0", "2^53", "2.0^53", "2^53+1", "-1", "nan", "+inf"}, []string{"", "ident", "neg", "kabs", "const"}},
		{"string", []string{"str0", "str1", "str1(dup)", "str1(last=Z)", "str11", "str12", "str12(last=Z)", "str13", "str40", "str:1"}, []string{"", "ident", "klen", "const"}},
		{"bytes", []string{"bytes0", "bytes1", "bytes1(last=Z)", "bytes11", "bytes12", "bytes12(last=Z)", "bytes13", "bytes13(last=Z)", "bytes40", "bytes40(last=Z)"}, []string{"", "ident", "klen", "const"}},
		{"bool", []string{"False", "True"}, []string{"", "ident", "knot", "const"}},
		{"tuple", []string{"()", "(1,)", "(1.0,)", "(2,)", "(1,2)", "(1.0,2)", "(2^64,)", "(2.0^64,)", "(nan,)", "(nan2,)"}, []string{"", "ident", "klen", "const"}},
		{"list", []string{"[]", "[1]", "[1](other)", "[1.0]", "[2]", "[1,2]", "[2,1]", "[nan]", "[0]", "[1,2,3]"}, []string{"", "ident", "klen", "const"}},
		{"duration", []string{"duration(0)", "duration(1s)", "duration(1000ms)", "duration(-1s)", "duration(max)"}, []string{"", "ident", "const"}},
	}
}

func (e *env) cmpVals(op syntax.Token, a, b starlark.Value) (bool, bool) {
	r, err := starlark.Compare(op, a, b)
	return r, err == nil
}

// checkSort runs sorted (and min/max) on the list of pool values idx.
func (e *env) checkSort(class string, names []string, keyName string, reverse bool) {
	elems := make([]starlark.Value, len(names))
	for n, name := range names {
		i, ok := e.idx[name]
		if !ok {
			fw.Fatal("c11: unknown pool value %q", name)
		}
		elems[n] = e.pool[i].V
	}
	vc := func(fn string) violCase {
		return violCase{Law: "sort", Names: names, Class: class, Key: keyName, Reverse: reverse, Fn: fn}
	}
	keyLabel := keyName
	if keyLabel == "" {
		keyLabel = "none"
	}
	kname := func(law string) string {
		return fmt.Sprintf("%s(%s,key=%s,reverse=%v)", law, class, keyLabel, reverse)
	}
	// keys as the implementation computes them
	keys := make([]starlark.Value, len(elems))
	for n, v := range elems {
		if keyName == "" {
			keys[n] = v
			continue
		}
		k, err := starlark.Call(e.th, e.g[keyName], starlark.Tuple{v}, nil)
		if err != nil {
			fw.Fatal("c11: key function %s(%s): %v", keyName, names[n], err)
		}
		keys[n] = k
	}
	// the order must be defined on all keys, otherwise the case is outside the laws
	for a := range keys {
		for b := range keys {
			if _, ok := e.cmpVals(syntax.LT, keys[a], keys[b]); !ok {
				e.st.Count("sort_cases_with_undefined_order", 1)
				return
			}
		}
	}
	var kwargs []starlark.Tuple
	if keyName != "" {
		kwargs = append(kwargs, starlark.Tuple{starlark.String("key"), e.g[keyName]})
	}
	skw := kwargs
	if reverse {
		skw = append(append([]starlark.Tuple{}, kwargs...), starlark.Tuple{starlark.String("reverse"), starlark.True})
	}
	e.st.Evals++
	out, err := starlark.Call(e.th, starlark.Universe["sorted"], starlark.Tuple{starlark.NewList(append([]starlark.Value{}, elems...))}, skw)
	if err != nil {
		e.addViol(kname("sorted-fails"), fmt.Sprintf("sorted(%v, key=%s, reverse=%v) failed although every comparison is defined: %v", names, keyLabel, reverse, err), vc("sorted"))
		return
	}
	ol := out.(*starlark.List)
	e.st.Outcome(fmt.Sprintf("sorted:%s:len%d", class, ol.Len()))
	// permutation: match output elements to input positions (first unused equal rendering)
	used := make([]bool, len(elems))
	pos := make([]int, ol.Len())
	perm := ol.Len() == len(elems)
	for p := 0; perm && p < ol.Len(); p++ {
		r := render(ol.Index(p))
		pos[p] = -1
		for q := range elems {
			if !used[q] && render(elems[q]) == r {
				used[q], pos[p] = true, q
				break
			}
		}
		if pos[p] < 0 {
			perm = false
		}
	}
	if !perm {
		e.addViol(kname("sorted-permutation"), fmt.Sprintf("sorted(%v, key=%s, reverse=%v) = %v is not a permutation of its input", names, keyLabel, reverse, out), vc("sorted"))
		return
	}
	for p := 0; p+1 < len(pos); p++ {
		a, b := keys[pos[p]], keys[pos[p+1]]
		var wrong bool
		if reverse {
			wrong, _ = e.cmpVals(syntax.LT, a, b)
		} else {
			wrong, _ = e.cmpVals(syntax.LT, b, a)
		}
		if wrong {
			e.addViol(kname("sorted-ordered"), fmt.Sprintf("sorted(%v, key=%s, reverse=%v) = %v: positions %d,%d are out of order", names, keyLabel, reverse, out, p, p+1), vc("sorted"))
			return
		}
	}
	for p := 0; p < len(pos); p++ {
		for q := p + 1; q < len(pos); q++ {
			if eq, _ := e.cmpVals(syntax.EQL, keys[pos[p]], keys[pos[q]]); eq && pos[p] > pos[q] {
				e.addViol(kname("sorted-stable"), fmt.Sprintf("sorted(%v, key=%s, reverse=%v) = %v: elements with equal keys changed their relative order (input positions %d and %d)", names, keyLabel, reverse, out, pos[p], pos[q]), vc("sorted"))
				return
			}
		}
	}
	if reverse || len(elems) == 0 {
		return
	}
	// min / max return the first extreme element
	for _, fn := range []string{"min", "max"} {
		want := -1
		for a := range keys {
			extreme := true
			for b := range keys {
				var beats bool
				if fn == "min" {
					beats, _ = e.cmpVals(syntax.LT, keys[b], keys[a])
				} else {
					beats, _ = e.cmpVals(syntax.GT, keys[b], keys[a])
				}
				if beats {
					extreme = false
					break
				}
			}
			if extreme {
				want = a
				break
			}
		}
		e.st.Evals++
		got, err := starlark.Call(e.th, starlark.Universe[fn], starlark.Tuple{starlark.NewList(append([]starlark.Value{}, elems...))}, kwargs)
		if err != nil || want < 0 || render(got) != render(elems[want]) {
			wn := "<none: no extreme element>"
			if want >= 0 {
				wn = names[want]
			}
			e.addViol(kname(fn+"-first-extreme"), fmt.Sprintf("%s(%v, key=%s) = %v, %v; the first extreme element is %s", fn, names, keyLabel, got, err, wn), vc(fn))
			return
		}
		if len(elems) >= 2 {
			// the variadic form must agree
			e.st.Evals++
			got2, err2 := starlark.Call(e.th, starlark.Universe[fn], starlark.Tuple(append([]starlark.Value{}, elems...)), kwargs)
			if err2 != nil || render(got2) != render(got) {
				e.addViol(kname(fn+"-variadic-agrees"), fmt.Sprintf("%s(*%v) = %v, %v but %s(list) = %v", fn, names, got2, err2, fn, got), vc(fn))
				return
			}
		}
	}
}

// checkLongStable sorts a list of n > 12 elements whose keys follow the 0/1
// pattern bits (bit i = key of element i).  Variant "tagged": elements are
// (key, index) tuples sorted with key=first, so every element is identifiable.
// Variant "numrep": no key function; element i is the int or (odd i) the float
// of its key, so equal elements of different representation are identifiable.
func (e *env) checkLongStable(n int, bits uint32, variant string, reverse bool) {
	elems := make([]starlark.Value, n)
	keyOf := make([]int, n)
	for i := 0; i < n; i++ {
		k := int(bits>>uint(i)) & 1
		keyOf[i] = k
		switch {
		case variant == "tagged":
			elems[i] = starlark.Tuple{starlark.MakeInt(k), starlark.MakeInt(i)}
		case i%2 == 1:
			elems[i] = starlark.Float(k)
		default:
			elems[i] = starlark.MakeInt(k)
		}
	}
	var kwargs []starlark.Tuple
	if variant == "tagged" {
		kwargs = append(kwargs, starlark.Tuple{starlark.String("key"), e.g["first"]})
	}
	if reverse {
		kwargs = append(kwargs, starlark.Tuple{starlark.String("reverse"), starlark.True})
	}
	e.st.Evals++
	out, err := starlark.Call(e.th, starlark.Universe["sorted"], starlark.Tuple{starlark.NewList(append([]starlark.Value{}, elems...))}, kwargs)
	vc := violCase{Law: "long-stable", Names: []string{strconv.Itoa(n), strconv.FormatUint(uint64(bits), 2)}, Class: variant, Reverse: reverse}
	key := fmt.Sprintf("sorted-stable-long(%s,reverse=%v)", variant, reverse)
	if err != nil {
		e.addViol(key, fmt.Sprintf("sorted failed on %d elements with key pattern %b: %v", n, bits, err), vc)
		return
	}
	// expected: stable partition by key (ascending, or descending for reverse), input order kept inside each key
	var want []string
	order := []int{0, 1}
	if reverse {
		order = []int{1, 0}
	}
	for _, k := range order {
		for i := 0; i < n; i++ {
			if keyOf[i] == k {
				want = append(want, render(elems[i]))
			}
		}
	}
	ol := out.(*starlark.List)
	var got []string
	for i := 0; i < ol.Len(); i++ {
		got = append(got, render(ol.Index(i)))
	}
	if strings.Join(got, " ") != strings.Join(want, " ") {
		e.addViol(key, fmt.Sprintf("sorted of %d elements, key pattern %b (element i has key bit i), reverse=%v: got %v, the stable result is %v", n, bits, reverse, got, want), vc)
	}
}

// sortCases enumerates every list of length <= maxLen over the sub-pool, key and reverse.
func sortCases(maxLen int, f func(n int64, sp sortPool, names []string, key string, reverse bool)) {
	var n int64
	for _, sp := range sortPools() {
		for l := 0; l <= maxLen; l++ {
			idx := make([]int, l)
			for {
				names := make([]string, l)
				for p, q := range idx {
					names[p] = sp.names[q]
				}
				for _, key := range sp.keys {
					for _, rev := range []bool{false, true} {
						f(n, sp, names, key, rev)
						n++
					}
				}
				p := l - 1
				for p >= 0 {
					idx[p]++
					if idx[p] < len(sp.names) {
						break
					}
					idx[p] = 0
					p--
				}
				if p < 0 {
					break
				}
			}
		}
	}
}

// ---------------------------------------------------------------------------
// exact numeric order from Python fractions (one batch process)

const rankScript = `
import sys, json, struct
from fractions import Fraction
toks = json.load(sys.stdin)
def val(t):
    if t[0] == 'i':
        return (0, Fraction(int(t[1:])))
    f = struct.unpack('<d', struct.pack('<Q', int(t[1:], 16)))[0]
    if f == float('inf'):
        return (1, Fraction(0))
    if f == float('-inf'):
        return (-1, Fraction(0))
    return (0, Fraction(f))
vals = sorted(set(val(t) for t in toks))
rank = {v: n for n, v in enumerate(vals)}
json.dump({t: rank[val(t)] for t in toks}, sys.stdout)
`

func pythonPath() string {
	for _, p := range []string{"/usr/bin/python3", "/usr/local/bin/python3"} {
		if _, err := os.Stat(p); err == nil {
			return p
		}
	}
	return "python3"
}

func pyRanks(toks []string) map[string]int {
	in, _ := json.Marshal(toks)
	cmd := exec.Command(pythonPath(), "-c", rankScript)
	cmd.Stdin = bytes.NewReader(in)
	out, err := cmd.Output()
	if err != nil {
		fw.Fatal("c11: python oracle: %v", err)
	}
	var m map[string]int
	if err := json.Unmarshal(out, &m); err != nil {
		fw.Fatal("c11: python oracle output: %v", err)
	}
	return m
}

func (e *env) numToks() []string {
	var t []string
	for _, p := range e.pool {
		if p.Num != "" {
			t = append(t, p.Num)
		}
	}
	return t
}

func rankFile(tier string) string { return filepath.Join(fw.BinDir(), "c11-"+tier+"-ranks.json") }

// ---------------------------------------------------------------------------
// worker / coordinator

func longMax(thorough bool) int {
	if thorough {
		return 16
	}
	return 14
}

func sortMaxLen(thorough bool) int {
	if thorough {
		return 5
	}
	return 4
}

const fallbackCmd = `ulimit -v 3000000; exec "$0" "$@"`

// ensureFallbackInt re-executes the worker under `ulimit -v` so that the 4 GB
// reservation of the optimised Int representation fails and every Int is a
// *big.Int (the fallback representation).
func ensureFallbackInt() {
	if starlark.VerifIntRepr() == "posix64-fallback" {
		return
	}
	if os.Getenv("VERIF_C11_REEXEC") != "" {
		fw.Fatal("c11: `ulimit -v` did not select the fallback Int representation (have %s)", starlark.VerifIntRepr())
	}
	self, err := os.Executable()
	if err != nil {
		fw.Fatal("c11: %v", err)
	}
	argv := append([]string{"bash", "-c", fallbackCmd, self}, os.Args[1:]...)
	if err := syscall.Exec("/bin/bash", argv, append(os.Environ(), "VERIF_C11_REEXEC=1")); err != nil {
		fw.Fatal("c11: exec bash: %v", err)
	}
}

func worker(c *fw.Ctx) *fw.Stats {
	if len(c.Args) > 0 && c.Args[0] == "fallback-int" {
		ensureFallbackInt()
	}
	e := newEnv(c.Thorough())
	b, err := os.ReadFile(rankFile(c.Tier))
	if err != nil {
		fw.Fatal("c11: %v", err)
	}
	if err := json.Unmarshal(b, &e.rank); err != nil {
		fw.Fatal("c11: %v", err)
	}
	st := e.st
	n := len(e.pool)
	done := func(level string) { st.Count("level_done:"+level, 1) }
	cut := func(level string) { st.Count("level_cut:"+level, 1) }

	// level 1: pairs (rows owned by this shard)
	expired := false
	for i := 0; i < n && !expired; i++ {
		if !c.Mine(int64(i)) {
			continue
		}
		for j := 0; j < n; j++ {
			e.checkPair(i, j)
			st.Nontrivial++
		}
		if c.Expired() {
			expired = true
		}
	}
	if expired {
		cut("1-pairs")
	} else {
		done("1-pairs")
	}
	// level 2: sorted / min / max
	if !expired {
		var cnt int64
		sortCases(sortMaxLen(c.Thorough()), func(k int64, sp sortPool, names []string, key string, rev bool) {
			if expired || !c.Mine(k) {
				return
			}
			e.checkSort(sp.class, names, key, rev)
			st.Nontrivial++
			cnt++
			if cnt&4095 == 0 && c.Expired() {
				expired = true
			}
		})
		st.Count("sort_cases", cnt)
	}
	if expired {
		cut("2-sorted-min-max")
	} else {
		done("2-sorted-min-max")
	}
	// level 2b: stability on lists longer than the insertion-sort threshold of Go's sort package:
	// all 0/1 key patterns of length 13 and 14 [thorough: up to 16]
	if !expired {
		var k, cnt int64
		for n := 13; n <= longMax(c.Thorough()) && !expired; n++ {
			for bits := uint32(0); bits < 1<<uint(n) && !expired; bits++ {
				for _, variant := range []string{"tagged", "numrep"} {
					for _, rev := range []bool{false, true} {
						if c.Mine(k) {
							e.checkLongStable(n, bits, variant, rev)
							st.Nontrivial++
							cnt++
							if cnt&4095 == 0 && c.Expired() {
								expired = true
							}
						}
						k++
					}
				}
			}
		}
		st.Count("long_stability_cases", cnt)
	}
	if expired {
		cut("2b-stability-long-lists")
	} else {
		done("2b-stability-long-lists")
	}
	// level 3: triples (first component owned by this shard)
	if !expired {
		for i := 0; i < n && !expired; i++ {
			if !c.Mine(int64(i)) {
				continue
			}
			for j := 0; j < n; j++ {
				for k := 0; k < n; k++ {
					e.checkTriple(i, j, k)
				}
			}
			st.Count("triples_checked", int64(n*n))
			if c.Expired() {
				expired = true
			}
		}
	}
	if expired {
		cut("3-triples")
	} else {
		done("3-triples")
	}
	// level 4: hash stability (freezes the pool: last)
	if !expired {
		for i := 0; i < n; i++ {
			if c.Mine(int64(i)) {
				e.checkHashStable(i)
				st.Nontrivial++
			}
		}
		done("4-hash-stable-and-after-freeze")
	} else {
		cut("4-hash-stable-and-after-freeze")
	}
	if c.Shard == 0 {
		st.Count("pool_values", int64(n))
		st.Sample(map[string]any{"pair": []string{"2^64", "2.0^64"}, "eq": e.rel(opEQ, e.idx["2^64"], e.idx["2.0^64"]), "lt": e.rel(opLT, e.idx["2^64"], e.idx["2.0^64"])})
		st.Sample(map[string]any{"pair": []string{"2^53+1", "2.0^53"}, "eq": e.rel(opEQ, e.idx["2^53+1"], e.idx["2.0^53"]), "gt": e.rel(opGT, e.idx["2^53+1"], e.idx["2.0^53"])})
		st.Sample(map[string]any{"pair": []string{"nan", "-nan"}, "eq": e.rel(opEQ, e.idx["nan"], e.idx["-nan"])})
		st.Sample(map[string]any{"pair": []string{"time(utc)", "time(same instant,+05)"}, "eq": e.rel(opEQ, e.idx["time(utc)"], e.idx["time(same instant,+05)"])})
		st.Sample(map[string]any{"pair": []string{fmt.Sprintf("tuple^%d(1)", starlark.CompareLimit), fmt.Sprintf("tuple^%d(1.0)", starlark.CompareLimit)}, "eq(2=error)": e.rel(opEQ, e.idx[fmt.Sprintf("tuple^%d(1)", starlark.CompareLimit)], e.idx[fmt.Sprintf("tuple^%d(1.0)", starlark.CompareLimit)])})
	}
	return st
}

func run(c *fw.Ctx) *fw.Stats {
	e := newEnv(c.Thorough())
	ranks := pyRanks(e.numToks())
	b, _ := json.Marshal(ranks)
	if err := os.WriteFile(rankFile(c.Tier), b, 0o644); err != nil {
		fw.Fatal("c11: %v", err)
	}
	total := c.Sharded(16, nil)
	// the same exploration with every Int held in the fallback representation
	fb := c.Sharded(16, nil, "fallback-int")
	os.Remove(rankFile(c.Tier))
	for k, v := range fb.Counters {
		if strings.HasPrefix(k, "level_done:") || strings.HasPrefix(k, "level_cut:") {
			total.Counters["fallback-int:"+k] += v
			delete(fb.Counters, k)
		}
	}
	for i := range fb.Viols {
		fb.Viols[i].What += " [Int representation: fallback (*big.Int for every value)]"
	}
	total.Merge(fb)
	n := int64(len(e.pool))
	levels := []struct{ name, desc string }{
		{"1-pairs", fmt.Sprintf("1-pairs(all %d ordered pairs of %d values: ==, !=, <, <=, >, >= through interpreter/Compare/Equal, Hash, dict/set/list membership and slots)", n*n, n)},
		{"2-sorted-min-max", fmt.Sprintf("2-sorted-min-max(all lists of length <= %d over 7 sub-pools x keys x reverse)", sortMaxLen(c.Thorough()))},
		{"2b-stability-long-lists", fmt.Sprintf("2b-stability-long-lists(all 0/1 key patterns of length 13..%d x {tagged pairs with key, int/float representations without key} x reverse)", longMax(c.Thorough()))},
		{"3-triples", fmt.Sprintf("3-triples(all %d triples: transitivity of ==, <, congruence)", n*n*n)},
		{"4-hash-stable-and-after-freeze", "4-hash-stable-and-after-freeze"},
	}
	for _, l := range levels {
		d, ct := total.Counters["level_done:"+l.name], total.Counters["level_cut:"+l.name]
		delete(total.Counters, "level_done:"+l.name)
		delete(total.Counters, "level_cut:"+l.name)
		if d == 16 && ct == 0 {
			total.Levels = append(total.Levels, l.desc)
		} else {
			total.Cut = append(total.Cut, fmt.Sprintf("%s: cut in %d of 16 shards", l.desc, ct))
		}
		fd, fct := total.Counters["fallback-int:level_done:"+l.name], total.Counters["fallback-int:level_cut:"+l.name]
		delete(total.Counters, "fallback-int:level_done:"+l.name)
		delete(total.Counters, "fallback-int:level_cut:"+l.name)
		if fd == 16 && fct == 0 {
			total.Levels = append(total.Levels, l.name+"(fallback Int representation)")
		} else {
			total.Cut = append(total.Cut, fmt.Sprintf("%s(fallback Int representation): cut in %d of 16 shards", l.name, fct))
		}
	}
	total.Count("numeric_values_ranked_by_python_fractions", int64(len(ranks)))
	sort.SliceStable(total.Viols, func(i, j int) bool {
		a, b := total.Viols[i], total.Viols[j]
		if a.Key != b.Key {
			return a.Key < b.Key
		}
		if len(a.Case) != len(b.Case) {
			return len(a.Case) < len(b.Case)
		}
		return bytes.Compare(a.Case, b.Case) < 0
	})
	if dump := os.Getenv("VERIF_C11_DUMP"); dump != "" {
		var sb strings.Builder
		last := ""
		for _, v := range total.Viols {
			if v.Key != last {
				fmt.Fprintf(&sb, "%s\t%s\n", v.Key, v.What)
				last = v.Key
			}
		}
		os.WriteFile(dump, []byte(sb.String()), 0o644)
		total.Viols = nil
	}
	var kept []fw.Viol
	seen := map[string]bool{}
	for _, v := range total.Viols {
		if seen[v.Key] {
			continue
		}
		seen[v.Key] = true
		if len(kept) >= 60 {
			total.Count("violation_keys_not_listed_over_60", 1)
			continue
		}
		kept = append(kept, v)
	}
	total.Viols = kept
	return total
}

func replay(c *fw.Ctx, raw json.RawMessage) []fw.Viol {
	var vc violCase
	if err := json.Unmarshal(raw, &vc); err != nil {
		fw.Fatal("bad case: %v", err)
	}
	var out []fw.Viol
	if vc.Law == "long-stable" {
		e := newEnv(false)
		n, _ := strconv.Atoi(vc.Names[0])
		bits, _ := strconv.ParseUint(vc.Names[1], 2, 32)
		e.checkLongStable(n, uint32(bits), vc.Class, vc.Reverse)
		return e.st.Viols
	}
	for _, thorough := range []bool{false, true} {
		e := newEnv(thorough)
		ok := true
		var idx []int
		for _, n := range vc.Names {
			i, found := e.idx[n]
			if !found {
				ok = false
			}
			idx = append(idx, i)
		}
		if !ok {
			continue
		}
		if vc.Law == "int-float-order-exact" {
			e.rank = pyRanks(e.numToks())
		}
		switch {
		case vc.Law == "sort":
			e.checkSort(vc.Class, vc.Names, vc.Key, vc.Reverse)
		case strings.HasPrefix(vc.Law, "hash-stable"):
			e.checkHashStable(idx[0])
		case len(idx) == 1:
			e.checkPair(idx[0], idx[0])
		case len(idx) == 2:
			e.checkPair(idx[0], idx[1])
			e.checkPair(idx[1], idx[0])
		case len(idx) == 3:
			e.checkTriple(idx[0], idx[1], idx[2])
		}
		out = e.st.Viols
		break
	}
	return out
}

var _ = strconv.Itoa

func init() {
	fw.Register(&fw.Prop{
		ID:    "C11",
		Level: "exploration",
		Rule: "pool of ~165 values [thorough ~220] (None, bools, ints/floats of equal magnitude incl. 1/1.0/True, 2^53±1, 2^63, 2^64 vs 2.0^64, 1e300, ±0.0, 3 NaNs, ±inf; strings and bytes of length 0,1,11,12,13,40 with equal copies and last-byte variants; " +
			"tuples/lists incl. nesting CompareLimit-2..+1, NaN elements, a cyclic list; ranges with equal sequences; dicts, sets, structs, functions, built-ins, bound methods; time values in two zones, durations): " +
			"ALL ordered pairs (six operators through interpreter, Compare and Equal; Hash; dict/set/list membership, lookup and slot sharing), ALL triples (transitivity, congruence), " +
			"ALL lists of length <= 4 [thorough 5] over a <=10-value sub-pool per ordered type x {no key, identity, collapsing key, negation, constant} x reverse through sorted/min/max, Hash before/after Freeze; " +
			"oracle = the algebraic laws, plus the exact int/float order from Python fractions; non-trivial = pair / sort case / value on which at least one law was evaluated",
		Run: run, Worker: worker, Replay: replay,
		Assumptions: []string{
			"NaN: the property (and the implementation and its tests) make == reflexive with NaN == NaN; doc/spec.md's text (NaN unequal to itself) is stale and not used",
			"comparisons that fail (unordered types, nesting beyond CompareLimit, cyclic values) are outside the laws; only their definedness must be symmetric",
			"None is not checked for ordering (the property's list of ordered types omits it; doc/spec.md lists it, the implementation rejects None < None)",
			"sorted(..., reverse=True) must keep the input order of equal keys (stable in the reversed order), and min/max return the first extreme element: Python's rule; doc/spec.md only says 'stable'",
			"triples are decided on the memoised pair results (each pair operator is evaluated once per worker)",
		},
		BudgetQuick: 60, BudgetThorough: 900,
	})
}
