// Package c19 decides C19: time and duration arithmetic is consistent.
//
// Shape E: every ordered pair of operand values (time, duration, int, float,
// string, None; at least one of them a time or a duration) under every binary
// operator is written as Starlark source `a OP b` and evaluated by the real
// interpreter with the real lib/time values predeclared, so that the operator
// dispatch of starlark/eval.go and the Binary/Cmp/Hash methods of
// lib/time/time.go are what runs.  The oracle is the operator table of the
// lib/time documentation evaluated in exact integer/rational nanoseconds;
// every (kind, op, kind) outside the table must be an error.
package c19

import (
	"encoding/json"
	"fmt"
	"math"
	"math/big"
	"sort"
	gotime "time"
	_ "time/tzdata" // America/New_York must not depend on the host's zoneinfo

	stime "go.starlark.net/lib/time"
	"go.starlark.net/starlark"
	"go.starlark.net/syntax"

	"verif/internal/fw"
)

// ---------------------------------------------------------------------------
// operand pool

type val struct {
	Name string // Starlark global name
	Kind string // time duration int float string None
	Desc string
	ns   *big.Int // time: instant in ns since the epoch; duration: ns
	i    *big.Int
	f    float64
	zone string // time: UTC | fixed | NY | Local
	off  int64  // fixed/UTC: offset in seconds (for the civil-date oracle)
	v    starlark.Value
}

var (
	fixedZone = gotime.FixedZone("", 5*3600+45*60)
	hostZones = []struct {
		name string
		loc  func() *gotime.Location
	}{
		{"host=UTC", func() *gotime.Location { return gotime.UTC }},
		{"host=UTC-09:30", func() *gotime.Location { return gotime.FixedZone("HOST", -(9*3600 + 30*60)) }},
		{"host=America/New_York", func() *gotime.Location { l, _ := gotime.LoadLocation("America/New_York"); return l }},
	}
)

const year250 = 250 * 365 * 86400 // seconds

func bi(x int64) *big.Int { return big.NewInt(x) }
func bs(s string) *big.Int {
	x, ok := new(big.Int).SetString(s, 10)
	if !ok {
		panic(s)
	}
	return x
}

var e9 = bi(1_000_000_000)

func floorDivMod(a, b *big.Int) (*big.Int, *big.Int) {
	q, m := new(big.Int), new(big.Int)
	q.DivMod(a, b, m) // Euclidean; b > 0 so this is floor
	return q, m
}

func pool(thoroughTier bool) []*val {
	// the whole check takes seconds, so both tiers use the full pool; the
	// thorough tier adds the values marked thoroughTier below
	thorough := true
	ny, err := gotime.LoadLocation("America/New_York")
	if err != nil {
		fw.Fatal("tzdata: %v", err)
	}
	var out []*val
	// instants
	type inst struct {
		name string
		ns   *big.Int
	}
	sec := func(s int64) *big.Int { return new(big.Int).Mul(bi(s), e9) }
	insts := []inst{
		{"epoch", bi(0)}, {"p1ns", bi(1)}, {"m1ns", bi(-1)}, {"p1s", sec(1)}, {"m1s", sec(-1)},
		{"p500ms", bi(500_000_000)}, {"m500ms", bi(-500_000_000)}, {"p250y", sec(year250)}, {"m250y", sec(-year250)},
	}
	if thorough {
		insts = append(insts,
			inst{"y2021dstStart", sec(1615705200)},                     // 2021-03-14 07:00:00 UTC: New York springs forward
			inst{"y2021dstEndM1", sec(1636264799)},                     // 2021-11-07 05:59:59 UTC: last second of EDT
			inst{"y2021dstEnd", sec(1636264800)},                       // 2021-11-07 06:00:00 UTC
			inst{"y2021dstStartNoon", sec(1615737600)},                 // 2021-03-14 16:00:00 UTC = 12:00 EDT on the day New York springs forward
			inst{"y2021dstEndNoon", sec(1636304400)},                   // 2021-11-07 17:00:00 UTC = 12:00 EST on the day New York falls back
			inst{"y2021dstStartEve", sec(1615694400)},                  // 2021-03-14 04:00:00 UTC = 2021-03-13 23:00 EST
			inst{"leapday", sec(951825600 + 43200)},                    // 2000-02-29 12:00:00 UTC
			inst{"y2000m1ns", new(big.Int).Sub(sec(946684800), bi(1))}, // 1999-12-31 23:59:59.999999999 UTC
			inst{"max", bs("9223372036854775807")},                     // 2262-04-11, the last int64 nanosecond
			inst{"min", bs("-9223372036854775808")},                    // 1677-09-21
			inst{"p1d", sec(86400)}, inst{"p1us", bi(1000)}, inst{"m1h", sec(-3600)},
			// nanosecond counts that no float64 holds exactly
			inst{"p250y1ns", new(big.Int).Add(sec(year250), bi(1))}, inst{"m2p53m1", bs("-9007199254740993")},
		)
	}
	if thoroughTier {
		insts = append(insts, inst{"p2p62p1", bs("4611686018427387905")}, inst{"y2038", sec(2147483648)}, inst{"m1d", sec(-86400)})
	}
	fromTS := stime.Module.Members["from_timestamp"]
	th := &starlark.Thread{Name: "c19-pool"}
	for _, in := range insts {
		s, n := floorDivMod(in.ns, e9)
		base := gotime.Unix(s.Int64(), n.Int64())
		for _, z := range []string{"UTC", "fixed", "NY", "Local"} {
			v := &val{Name: "t_" + in.name + "_" + z, Kind: "time", ns: in.ns, zone: z}
			switch z {
			case "UTC":
				v.v = stime.Time(base.In(gotime.UTC))
			case "fixed":
				v.v = stime.Time(base.In(fixedZone))
				v.off = 5*3600 + 45*60
			case "NY":
				v.v = stime.Time(base.In(ny))
			case "Local":
				// through the module itself: from_timestamp yields the host's zone
				r, err := starlark.Call(th, fromTS, starlark.Tuple{starlark.MakeInt64(s.Int64()), starlark.MakeInt64(n.Int64())}, nil)
				if err != nil {
					fw.Fatal("from_timestamp: %v", err)
				}
				v.v = r
			}
			v.Desc = fmt.Sprintf("time %s ns since epoch, zone %s (%s)", in.ns, z, v.v.String())
			out = append(out, v)
		}
	}
	// durations
	durs := []struct {
		name string
		ns   *big.Int
	}{
		{"zero", bi(0)}, {"p1ns", bi(1)}, {"m1ns", bi(-1)}, {"p1us", bi(1000)}, {"m1us", bi(-1000)},
		{"p1500ms", bi(1_500_000_000)}, {"m1500ms", bi(-1_500_000_000)}, {"p1h", sec(3600)}, {"m1h", sec(-3600)},
		{"p250y", sec(year250)}, {"m250y", sec(-year250)},
	}
	if thorough {
		durs = append(durs, []struct {
			name string
			ns   *big.Int
		}{{"p1ms", bi(1_000_000)}, {"m1ms", bi(-1_000_000)}, {"p1m", sec(60)}, {"p24h", sec(86400)}, {"m3ns", bi(-3)}, {"p7ns", bi(7)},
			{"max", bs("9223372036854775807")}, {"mmax", bs("-9223372036854775807")}, {"p999999999ns", bi(999_999_999)}, {"m2s", sec(-2)}, {"p3s", sec(3)},
			// nanosecond counts that no float64 holds exactly (a division or multiplication routed through float64 shows)
			{"p2p53p1", bs("9007199254740993")}, {"m2p53p1", bs("-9007199254740993")}, {"p2p62p1", bs("4611686018427387905")}, {"p4800h1ns", new(big.Int).Add(sec(4800*3600), bi(1))}}...)
	}
	for _, d := range durs {
		out = append(out, &val{Name: "d_" + d.name, Kind: "duration", ns: d.ns, v: stime.Duration(d.ns.Int64()), Desc: fmt.Sprintf("duration %s ns", d.ns)})
	}
	// ints
	ints := []struct {
		name string
		i    *big.Int
	}{{"0", bi(0)}, {"1", bi(1)}, {"m1", bi(-1)}, {"2", bi(2)}, {"m2", bi(-2)}, {"2p31", bi(1 << 31)}, {"2p63", bs("9223372036854775808")}, {"m2p63", bs("-9223372036854775808")}}
	if thorough {
		ints = append(ints, []struct {
			name string
			i    *big.Int
		}{{"3", bi(3)}, {"m3", bi(-3)}, {"1000", bi(1000)}, {"1e9", bi(1_000_000_000)}, {"2p62", bi(1 << 62)}, {"2p63m1", bs("9223372036854775807")}, {"2p64", bs("18446744073709551616")}, {"7", bi(7)},
			{"2p53p1", bs("9007199254740993")}, {"m2p53p1", bs("-9007199254740993")}, {"2p62p1", bs("4611686018427387905")}}...)
	}
	for _, x := range ints {
		out = append(out, &val{Name: "i_" + x.name, Kind: "int", i: x.i, v: starlark.MakeBigInt(x.i), Desc: "int " + x.i.String()})
	}
	// floats
	floats := []struct {
		name string
		f    float64
	}{{"0p5", 0.5}, {"m0p5", -0.5}, {"2p0", 2.0}, {"m2p0", -2.0}, {"0p0", 0.0}}
	if thorough {
		floats = append(floats, []struct {
			name string
			f    float64
		}{{"1p5", 1.5}, {"m1p5", -1.5}, {"3p0", 3.0}, {"0p1", 0.1}, {"1e9", 1e9}, {"1e30", 1e30}, {"mzero", math.Copysign(0, -1)}}...)
	}
	for _, x := range floats {
		out = append(out, &val{Name: "f_" + x.name, Kind: "float", f: x.f, v: starlark.Float(x.f), Desc: fmt.Sprintf("float %v", x.f)})
	}
	out = append(out,
		&val{Name: "s_abc", Kind: "string", v: starlark.String("abc"), Desc: `string "abc"`},
		&val{Name: "s_1s", Kind: "string", v: starlark.String("1s"), Desc: `string "1s"`},
		&val{Name: "none", Kind: "None", v: starlark.None, Desc: "None"})
	return out
}

var arithOps = []string{"+", "-", "*", "/", "//", "%"}
var cmpOps = []string{"==", "!=", "<", "<=", ">", ">="}

// ---------------------------------------------------------------------------
// evaluation context (one host zone)

type res struct {
	v   starlark.Value
	err error
	pan string
}

type ectx struct {
	host  string
	vals  []*val
	byN   map[string]*val
	env   starlark.StringDict
	th    *starlark.Thread
	memo  map[string]res
	evals int64
}

func newCtx(host int, thorough bool) *ectx {
	gotime.Local = hostZones[host].loc() // deterministic stand-in for "the host's local zone"
	e := &ectx{host: hostZones[host].name, th: &starlark.Thread{Name: "c19"}, memo: map[string]res{}, byN: map[string]*val{}}
	e.vals = pool(thorough)
	e.env = starlark.StringDict{"time": stime.Module}
	for _, v := range e.vals {
		e.env[v.Name] = v.v
		e.byN[v.Name] = v
	}
	return e
}

func (e *ectx) eval(src string) (r res) {
	if m, ok := e.memo[src]; ok {
		return m
	}
	defer func() {
		if p := recover(); p != nil {
			r = res{pan: fmt.Sprint(p)}
		}
		e.memo[src] = r
	}()
	e.evals++
	v, err := starlark.EvalOptions(&syntax.FileOptions{}, e.th, "c19", src, e.env)
	return res{v: v, err: err}
}

// ---------------------------------------------------------------------------
// oracle: the operator table of the lib/time documentation, exactly

var (
	minI64 = bs("-9223372036854775808")
	maxI64 = bs("9223372036854775807")
)

func fitsI64(x *big.Int) bool { return x.Cmp(minI64) >= 0 && x.Cmp(maxI64) <= 0 }

type expect struct {
	defined  bool     // the table defines (kind, op, kind)
	mustErr  bool     // defined, but this operand pair has no result (division by zero)
	mayErr   bool     // defined, but the int operand is outside int64: rejecting is allowed
	unjudged bool     // exact result not representable in int64 ns (DESIGN section 9)
	typ      string   // time duration int float bool
	exact    *big.Int // time/duration/int results when the quotient is exact
	q        *big.Rat // quotient (duration/int, duration/float, duration//duration, duration/duration)
	relTol   bool     // float-valued computation: relative tolerance 2^-51 (duration/float additionally: >= 1ns)
	b        bool
}

func ratOf(v *val) *big.Rat {
	switch v.Kind {
	case "duration", "time":
		return new(big.Rat).SetInt(v.ns)
	case "int":
		return new(big.Rat).SetInt(v.i)
	case "float":
		r := new(big.Rat)
		r.SetFloat64(v.f)
		return r
	}
	return nil
}

func oracle(a *val, op string, b *val) expect {
	ex := expect{}
	intRes := func(typ string, x *big.Int) expect {
		if !fitsI64(x) {
			return expect{defined: true, unjudged: true, typ: typ}
		}
		return expect{defined: true, typ: typ, exact: x}
	}
	k := a.Kind + " " + op + " " + b.Kind
	switch k {
	case "time + duration", "duration + time":
		return intRes("time", new(big.Int).Add(a.ns, b.ns))
	case "time - duration":
		return intRes("time", new(big.Int).Sub(a.ns, b.ns))
	case "time - time":
		return intRes("duration", new(big.Int).Sub(a.ns, b.ns))
	case "duration + duration":
		return intRes("duration", new(big.Int).Add(a.ns, b.ns))
	case "duration - duration":
		return intRes("duration", new(big.Int).Sub(a.ns, b.ns))
	case "duration * int", "int * duration":
		d, i := a, b
		if a.Kind == "int" {
			d, i = b, a
		}
		r := intRes("duration", new(big.Int).Mul(d.ns, i.i))
		r.mayErr = !fitsI64(i.i)
		return r
	case "duration / duration", "duration // duration", "duration / int", "duration / float":
		den := ratOf(b)
		if den.Sign() == 0 {
			return expect{defined: true, mustErr: true}
		}
		q := new(big.Rat).Quo(ratOf(a), den)
		switch k {
		case "duration / duration":
			return expect{defined: true, typ: "float", q: q, relTol: true}
		case "duration // duration":
			return expect{defined: true, typ: "int", q: q}
		case "duration / int":
			ex = expect{defined: true, typ: "duration", q: q, mayErr: !fitsI64(b.i)}
		case "duration / float":
			ex = expect{defined: true, typ: "duration", q: q, relTol: true}
		}
		// representable?
		fl := new(big.Int).Quo(q.Num(), q.Denom())
		if !fitsI64(fl) || !fitsI64(new(big.Int).Add(fl, bi(1))) || !fitsI64(new(big.Int).Sub(fl, bi(1))) {
			ex.unjudged = true
		}
		return ex
	}
	return ex // not in the table: must be rejected
}

// cmpOracle: spec.md - values of different types are unequal; ordered
// comparison of different types is an error; time and duration are totally
// ordered by instant / length.
func cmpOracle(a *val, op string, b *val) (defined bool, want bool) {
	same := a.Kind == b.Kind && (a.Kind == "time" || a.Kind == "duration")
	if !same {
		switch op {
		case "==":
			return true, false
		case "!=":
			return true, true
		}
		return false, false
	}
	c := a.ns.Cmp(b.ns)
	switch op {
	case "==":
		return true, c == 0
	case "!=":
		return true, c != 0
	case "<":
		return true, c < 0
	case "<=":
		return true, c <= 0
	case ">":
		return true, c > 0
	case ">=":
		return true, c >= 0
	}
	panic(op)
}

// observe turns a result value into (type, exact integer | float).
func observe(v starlark.Value) (typ string, n *big.Int, f float64) {
	switch x := v.(type) {
	case stime.Time:
		t := gotime.Time(x)
		n = new(big.Int).Add(new(big.Int).Mul(bi(t.Unix()), e9), bi(int64(t.Nanosecond())))
		return "time", n, 0
	case stime.Duration:
		return "duration", bi(int64(x)), 0
	case starlark.Int:
		return "int", x.BigInt(), 0
	case starlark.Float:
		return "float", nil, float64(x)
	case starlark.Bool:
		if x {
			return "bool", bi(1), 0
		}
		return "bool", bi(0), 0
	}
	return v.Type(), nil, 0
}

func describe(v starlark.Value) string {
	typ, n, f := observe(v)
	switch typ {
	case "time":
		return fmt.Sprintf("time at %s ns (%s)", n, v.String())
	case "duration":
		return fmt.Sprintf("duration of %s ns (%s)", n, v.String())
	case "float":
		return fmt.Sprintf("float %v", f)
	}
	return typ + " " + v.String()
}

type finding struct{ key, what string }

// matches: does the observed result meet the expectation?
func (ex expect) matches(v starlark.Value) string {
	typ, n, f := observe(v)
	if typ != ex.typ {
		return "result has type " + typ + ", the table says " + ex.typ
	}
	switch {
	case ex.exact != nil:
		if n.Cmp(ex.exact) != 0 {
			return fmt.Sprintf("exact result is %s ns", ex.exact)
		}
	case ex.typ == "float":
		qf, _ := ex.q.Float64()
		diff := new(big.Rat).Sub(new(big.Rat).SetFloat64(f), ex.q)
		tol := new(big.Rat).Mul(new(big.Rat).Abs(ex.q), big.NewRat(1, 1<<51))
		if math.IsNaN(f) || math.IsInf(f, 0) || new(big.Rat).Abs(diff).Cmp(tol) > 0 {
			return fmt.Sprintf("exact quotient is %s (~%v)", ex.q.RatString(), qf)
		}
	default: // quotient delivered as a whole number of nanoseconds (or an int)
		diff := new(big.Rat).Abs(new(big.Rat).Sub(new(big.Rat).SetInt(n), ex.q))
		switch {
		case diff.Sign() == 0:
			// exact
		case ex.q.IsInt() && !ex.relTol:
			return fmt.Sprintf("exact quotient is %s", ex.q.RatString())
		default:
			// not a whole number: floor and truncation are both accepted (the documentation
			// fixes neither); through float arithmetic additionally 2^-51 relative error
			tol := big.NewRat(1, 1)
			if ex.relTol {
				if t2 := new(big.Rat).Mul(new(big.Rat).Abs(ex.q), big.NewRat(1, 1<<51)); t2.Cmp(tol) > 0 {
					tol = t2
				}
			}
			if diff.Cmp(tol) >= 0 {
				return fmt.Sprintf("exact quotient is %s", ex.q.RatString())
			}
		}
	}
	return ""
}

// binop judges `a op b`.
func (e *ectx) binop(a *val, op string, b *val) (fs []finding, class string, judged bool) {
	src := a.Name + " " + op + " " + b.Name
	r := e.eval(src)
	sig := a.Kind + " " + op + " " + b.Kind
	ctx := fmt.Sprintf("%s  [a = %s; b = %s; %s]", src, a.Desc, b.Desc, e.host)
	if r.pan != "" {
		return []finding{{"binop:" + sig + ":panic", ctx + " panicked: " + r.pan}}, sig + " -> panic", true
	}
	isCmp := false
	for _, c := range cmpOps {
		if c == op {
			isCmp = true
		}
	}
	if isCmp {
		def, want := cmpOracle(a, op, b)
		switch {
		case !def && r.err == nil:
			return []finding{{"cmp:" + sig + ":accepted-undefined-comparison", ctx + " returned " + r.v.String() + "; ordered comparison of different types must fail"}}, sig + " -> ACCEPTED", true
		case !def:
			return nil, sig + " -> error", true
		case r.err != nil:
			return []finding{{"cmp:" + sig + ":rejected", fmt.Sprintf("%s failed (%v); expected %v", ctx, r.err, want)}}, sig + " -> REJECTED", true
		}
		if bv, ok := r.v.(starlark.Bool); !ok || bool(bv) != want {
			return []finding{{"cmp:" + sig + ":wrong-result", fmt.Sprintf("%s returned %s; by exact nanoseconds it is %v", ctx, r.v.String(), want)}}, sig + " -> WRONG", true
		}
		return nil, sig + " -> bool", true
	}
	ex := oracle(a, op, b)
	switch {
	case !ex.defined:
		if r.err == nil {
			what := fmt.Sprintf("%s returned %s, but the lib/time operator table does not define %s: it must be rejected", ctx, describe(r.v), sig)
			// which operation was computed instead?
			if rev := oracle(b, op, a); rev.defined && !rev.mustErr && !rev.unjudged && rev.matches(r.v) == "" {
				what += fmt.Sprintf(" (the result is that of the reversed operation %s %s %s)", b.Name, op, a.Name)
			}
			return []finding{{"binop:" + sig + ":accepted-undefined-operation", what}}, sig + " -> ACCEPTED " + r.v.Type(), true
		}
		return nil, sig + " -> error", true
	case ex.mustErr:
		if r.err == nil {
			return []finding{{"binop:" + sig + ":accepted-division-by-zero", ctx + " returned " + describe(r.v)}}, sig + " -> ACCEPTED div0", true
		}
		return nil, sig + " -> error(div0)", true
	case ex.unjudged:
		return nil, sig + " -> unjudged(not representable)", false
	case r.err != nil:
		if ex.mayErr {
			return nil, sig + " -> error(int operand beyond int64)", true
		}
		return []finding{{"binop:" + sig + ":rejected-defined-operation", fmt.Sprintf("%s failed (%v); the table defines it", ctx, r.err)}}, sig + " -> REJECTED", true
	}
	if m := ex.matches(r.v); m != "" {
		return []finding{{"binop:" + sig + ":wrong-result", fmt.Sprintf("%s returned %s; %s", ctx, describe(r.v), m)}}, sig + " -> WRONG", true
	}
	return nil, sig + " -> " + ex.typ, true
}

// ---------------------------------------------------------------------------
// laws, round trips, attributes (each is one Starlark expression or a few)

func (e *ectx) wantTrue(key, src, why string) []finding {
	r := e.eval(src)
	switch {
	case r.pan != "":
		return []finding{{key, fmt.Sprintf("%s panicked: %s [%s]", src, r.pan, e.host)}}
	case r.err != nil:
		return []finding{{key, fmt.Sprintf("%s failed: %v; %s [%s]", src, r.err, why, e.host)}}
	case r.v != starlark.True:
		return []finding{{key, fmt.Sprintf("%s is %s; %s [%s]", src, r.v.String(), why, e.host)}}
	}
	return nil
}

func (e *ectx) evalBool(src string) (bool, bool) {
	r := e.eval(src)
	if r.err != nil || r.pan != "" {
		return false, false
	}
	b, ok := r.v.(starlark.Bool)
	return bool(b), ok
}

// lawPair: laws over an ordered pair of values of kind time/duration.
func (e *ectx) lawPair(a, b *val) (fs []finding, n int) {
	an, bn := a.Name, b.Name
	if a.Kind == "time" && b.Kind == "duration" {
		if s := new(big.Int).Add(a.ns, b.ns); fitsI64(s) {
			n++
			fs = append(fs, e.wantTrue("law:(t+d)-d==t", fmt.Sprintf("(%s + %s) - %s == %s", an, bn, bn, an), "adding and subtracting the same duration must give back the instant")...)
			n++
			fs = append(fs, e.wantTrue("law:(d+t)-d==t", fmt.Sprintf("(%s + %s) - %s == %s", bn, an, bn, an), "d + t is documented as t + d")...)
		}
		if s := new(big.Int).Sub(a.ns, b.ns); fitsI64(s) {
			n++
			fs = append(fs, e.wantTrue("law:(t-d)+d==t", fmt.Sprintf("(%s - %s) + %s == %s", an, bn, bn, an), "subtracting and adding the same duration must give back the instant")...)
		}
	}
	if a.Kind == "time" && b.Kind == "time" {
		if s := new(big.Int).Sub(b.ns, a.ns); fitsI64(s) {
			n++
			fs = append(fs, e.wantTrue("law:(t2-t1)+t1==t2", fmt.Sprintf("(%s - %s) + %s == %s", bn, an, an, bn), "the difference added back must give the minuend")...)
		}
	}
	if a.Kind == b.Kind {
		// trichotomy and agreement of the derived operators, on the implementation's own answers
		lt, ok1 := e.evalBool(an + " < " + bn)
		eq, ok2 := e.evalBool(an + " == " + bn)
		gt, ok3 := e.evalBool(an + " > " + bn)
		le, ok4 := e.evalBool(an + " <= " + bn)
		ge, ok5 := e.evalBool(an + " >= " + bn)
		ne, ok6 := e.evalBool(an + " != " + bn)
		n++
		cnt := 0
		for _, x := range []bool{lt, eq, gt} {
			if x {
				cnt++
			}
		}
		if !(ok1 && ok2 && ok3 && ok4 && ok5 && ok6) || cnt != 1 || le != (lt || eq) || ge != (gt || eq) || ne == eq {
			fs = append(fs, finding{"law:trichotomy:" + a.Kind, fmt.Sprintf("%s vs %s: < %v, == %v, > %v, <= %v, >= %v, != %v: exactly one of <, ==, > must hold and the others must follow [%s]", an, bn, lt, eq, gt, le, ge, ne, e.host)})
		}
		// symmetry
		lt2, _ := e.evalBool(bn + " > " + an)
		eq2, _ := e.evalBool(bn + " == " + an)
		if lt != lt2 || eq != eq2 {
			fs = append(fs, finding{"law:comparison-symmetry:" + a.Kind, fmt.Sprintf("%s < %s is %v but %s > %s is %v; == %v vs %v [%s]", an, bn, lt, bn, an, lt2, eq, eq2, e.host)})
		}
		// == implies equal hash; observed directly and through a dict lookup
		ha, _ := a.v.Hash()
		hb, _ := b.v.Hash()
		n++
		if eq && ha != hb {
			fs = append(fs, finding{"law:eq-implies-equal-hash:" + a.Kind, fmt.Sprintf("%s == %s but Hash() %d != %d [%s; %s] [%s]", an, bn, ha, hb, a.Desc, b.Desc, e.host)})
		}
		n++
		in, okIn := e.evalBool(fmt.Sprintf("%s in {%s: 0}", bn, an))
		if !okIn || in != (a.ns.Cmp(b.ns) == 0) {
			fs = append(fs, finding{"law:dict-lookup:" + a.Kind, fmt.Sprintf("%s in {%s: 0} is %v (ok=%v); the two are equal by exact nanoseconds: %v [%s; %s] [%s]", bn, an, in, okIn, a.ns.Cmp(b.ns) == 0, a.Desc, b.Desc, e.host)})
		}
		if a.ns.Cmp(b.ns) == 0 {
			// a key entered as one spelling of the value is found and removed under another,
			// in a table that holds enough other keys to have several buckets
			n++
			src := fmt.Sprintf("(lambda d: [%[2]s in d, d.pop(%[2]s, 0), %[1]s in d, len(d), d.setdefault(%[2]s, 2), d.pop(%[1]s, 0), len(d)])(dict([(%[1]s, 1)] + [(i, 0) for i in range(20)]))", an, bn)
			got := "error"
			if r := e.eval(src); r.err == nil && r.pan == "" && r.v != nil {
				got = r.v.String()
			} else if r.pan != "" {
				got = "panic: " + r.pan
			}
			if got != "[True, 1, False, 20, 2, 2, 20]" {
				fs = append(fs, finding{"law:dict-insert-delete:" + a.Kind, fmt.Sprintf("%s gives %s, want [True, 1, False, 20, 2, 2, 20] [%s; %s] [%s]", src, got, a.Desc, b.Desc, e.host)})
			}
		}
		if a.Kind == "time" && a.ns.Cmp(b.ns) == 0 {
			// zone independence of the difference
			n++
			fs = append(fs, e.wantTrue("law:zone-independence", fmt.Sprintf("(%s - %s).nanoseconds == 0 and %s == %s", an, bn, an, bn), "the same instant in two zones")...)
		}
	}
	return
}

// lawTriple: transitivity on the implementation's own answers.
func (e *ectx) lawTriple(a, b, c *val) []finding {
	lt := func(x, y *val) bool { r, _ := e.evalBool(x.Name + " < " + y.Name); return r }
	le := func(x, y *val) bool { r, _ := e.evalBool(x.Name + " <= " + y.Name); return r }
	eq := func(x, y *val) bool { r, _ := e.evalBool(x.Name + " == " + y.Name); return r }
	var fs []finding
	if lt(a, b) && lt(b, c) && !lt(a, c) {
		fs = append(fs, finding{"law:transitivity:" + a.Kind, fmt.Sprintf("%s < %s and %s < %s but not %s < %s [%s]", a.Name, b.Name, b.Name, c.Name, a.Name, c.Name, e.host)})
	}
	if le(a, b) && le(b, c) && !le(a, c) {
		fs = append(fs, finding{"law:transitivity:" + a.Kind, fmt.Sprintf("%s <= %s and %s <= %s but not %s <= %s [%s]", a.Name, b.Name, b.Name, c.Name, a.Name, c.Name, e.host)})
	}
	if eq(a, b) && eq(b, c) && !eq(a, c) {
		fs = append(fs, finding{"law:transitivity:" + a.Kind, fmt.Sprintf("%s == %s and %s == %s but not %s == %s [%s]", a.Name, b.Name, b.Name, c.Name, a.Name, c.Name, e.host)})
	}
	return fs
}

// civil converts an instant plus a fixed offset to calendar fields
// (proleptic Gregorian; days-from-civil inverse, independent of package time).
func civil(ns *big.Int, off int64) (y, mo, d, h, mi, s int64, nano int64) {
	tot := new(big.Int).Add(ns, new(big.Int).Mul(bi(off), e9))
	secB, nanoB := floorDivMod(tot, e9)
	sec := secB.Int64()
	nano = nanoB.Int64()
	days := sec / 86400
	rem := sec % 86400
	if rem < 0 {
		rem += 86400
		days--
	}
	h, mi, s = rem/3600, rem%3600/60, rem%60
	z := days + 719468
	era := z / 146097
	if z < 0 {
		era = (z - 146096) / 146097
	}
	doe := z - era*146097
	yoe := (doe - doe/1460 + doe/36524 - doe/146096) / 365
	y = yoe + era*400
	doy := doe - (365*yoe + yoe/4 - yoe/100)
	mp := (5*doy + 2) / 153
	d = doy - (153*mp+2)/5 + 1
	if mp < 10 {
		mo = mp + 3
	} else {
		mo = mp - 9
	}
	if mo <= 2 {
		y++
	}
	return
}

func (e *ectx) wantInt(key, src string, want *big.Int, slack bool, q *big.Rat) []finding {
	r := e.eval(src)
	if r.err != nil || r.pan != "" {
		return []finding{{key, fmt.Sprintf("%s failed: %v %s [%s]", src, r.err, r.pan, e.host)}}
	}
	i, ok := r.v.(starlark.Int)
	if !ok {
		return []finding{{key, fmt.Sprintf("%s is %s %s, want an int [%s]", src, r.v.Type(), r.v.String(), e.host)}}
	}
	if slack {
		diff := new(big.Rat).Abs(new(big.Rat).Sub(new(big.Rat).SetInt(i.BigInt()), q))
		if diff.Cmp(big.NewRat(1, 1)) >= 0 {
			return []finding{{key, fmt.Sprintf("%s is %s, exact value %s [%s]", src, i.String(), q.RatString(), e.host)}}
		}
		return nil
	}
	if i.BigInt().Cmp(want) != 0 {
		return []finding{{key, fmt.Sprintf("%s is %s, want %s [%s]", src, i.String(), want, e.host)}}
	}
	return nil
}

// unary: attribute reads and constructor round trips of one value.
func (e *ectx) unary(a *val) (fs []finding, n int) {
	an := a.Name
	switch a.Kind {
	case "time":
		sec, nano := floorDivMod(a.ns, e9)
		n += 3
		fs = append(fs, e.wantInt("attr:time.unix", an+".unix", sec, false, nil)...)
		fs = append(fs, e.wantInt("attr:time.nanosecond", an+".nanosecond", nano, false, nil)...)
		if fitsI64(a.ns) {
			fs = append(fs, e.wantInt("attr:time.unix_nano", an+".unix_nano", a.ns, false, nil)...)
			n++
			fs = append(fs, e.wantTrue("roundtrip:from_timestamp(0,unix_nano)", fmt.Sprintf("time.from_timestamp(0, %s.unix_nano) == %s", an, an), "unix_nano read back through from_timestamp")...)
		}
		// calendar fields
		var y, mo, d, h, mi, s int64
		if a.zone == "UTC" || a.zone == "fixed" {
			y, mo, d, h, mi, s, _ = civil(a.ns, a.off)
		} else {
			// zone rules are the Go standard library's (trusted base), the wiring of the attributes is what is checked
			t := gotime.Time(a.v.(stime.Time))
			y, mo, d, h, mi, s = int64(t.Year()), int64(t.Month()), int64(t.Day()), int64(t.Hour()), int64(t.Minute()), int64(t.Second())
		}
		for _, f := range []struct {
			name string
			want int64
		}{{"year", y}, {"month", mo}, {"day", d}, {"hour", h}, {"minute", mi}, {"second", s}} {
			n++
			fs = append(fs, e.wantInt("attr:time."+f.name, an+"."+f.name, bi(f.want), false, nil)...)
		}
		n++
		fs = append(fs, e.wantTrue("roundtrip:from_timestamp(unix,nanosecond)", fmt.Sprintf("time.from_timestamp(%s.unix, %s.nanosecond) == %s", an, an, an), "unix and nanosecond read back through from_timestamp")...)
		comps := func(x string) string {
			return fmt.Sprintf("year=%s.year, month=%s.month, day=%s.day, hour=%s.hour, minute=%s.minute, second=%s.second, nanosecond=%s.nanosecond", x, x, x, x, x, x, x)
		}
		loc := map[string]string{"UTC": "UTC", "NY": "America/New_York", "Local": "Local"}[a.zone]
		n++
		if loc != "" && !ambiguous(a) {
			fs = append(fs, e.wantTrue("roundtrip:time(components)", fmt.Sprintf("time.time(%s, location=%q) == %s", comps(an), loc, an), "the components read back through time.time in the same location")...)
		} else {
			fs = append(fs, e.wantTrue("roundtrip:time(components)", fmt.Sprintf("time.time(%s, location=\"UTC\") == %s", comps(an+`.in_location("UTC")`), an), "the UTC components read back through time.time")...)
		}
		n++
		fs = append(fs, e.wantTrue("roundtrip:in_location", fmt.Sprintf(`%s.in_location("America/New_York") == %s and %s.in_location("UTC").unix_nano == %s.unix_nano`, an, an, an, an), "changing the zone does not change the instant")...)
		// in_location: the same instant, read in the named zone - for the value itself and for the same
		// instant carrying a location that Go's time.Parse fabricates (an abbreviation with offset zero, an
		// unnamed numeric offset), whose name may coincide with the name asked for
		fs2, n2 := e.inLocationLaw(a)
		fs = append(fs, fs2...)
		n += n2
	case "duration":
		n += 3
		fs = append(fs, e.wantInt("attr:duration.nanoseconds", an+".nanoseconds", a.ns, false, nil)...)
		fs = append(fs, e.wantInt("attr:duration.microseconds", an+".microseconds", nil, true, new(big.Rat).SetFrac(a.ns, bi(1000)))...)
		fs = append(fs, e.wantInt("attr:duration.milliseconds", an+".milliseconds", nil, true, new(big.Rat).SetFrac(a.ns, bi(1_000_000)))...)
		for _, f := range []struct {
			name string
			unit int64
		}{{"seconds", 1e9}, {"minutes", 60e9}, {"hours", 3600e9}} {
			n++
			q := new(big.Rat).SetFrac(a.ns, bi(f.unit))
			r := e.eval(an + "." + f.name)
			fv, ok := r.v.(starlark.Float)
			bad := r.err != nil || !ok
			if !bad {
				diff := new(big.Rat).Abs(new(big.Rat).Sub(new(big.Rat).SetFloat64(float64(fv)), q))
				bad = diff.Cmp(new(big.Rat).Mul(new(big.Rat).Abs(q), big.NewRat(1, 1<<50))) > 0
			}
			if bad {
				fs = append(fs, finding{"attr:duration." + f.name, fmt.Sprintf("%s.%s = %v (err %v), exact %s [%s]", an, f.name, r.v, r.err, q.RatString(), e.host)})
			}
		}
		n++
		fs = append(fs, e.wantTrue("roundtrip:parse_duration(str)", fmt.Sprintf("time.parse_duration(str(%s)) == %s", an, an), "a duration printed and parsed back")...)
	}
	return
}

var inLocFn starlark.Value

func (e *ectx) inLocationLaw(a *val) (fs []finding, n int) {
	if inLocFn == nil {
		v, err := starlark.EvalOptions(&syntax.FileOptions{}, e.th, "inloc", "lambda t, L: (lambda x: [x.year, x.month, x.day, x.hour, x.minute, x.second, x.nanosecond, x.unix, x == t])(t.in_location(L))", e.env)
		if err != nil {
			fw.Fatal("c19: %v", err)
		}
		inLocFn = v
	}
	base := gotime.Time(a.v.(stime.Time))
	recvs := []struct {
		name string
		t    gotime.Time
	}{
		{"the value", base},
		{"the instant in a fabricated zone EST+0", base.In(gotime.FixedZone("EST", 0))},
		{"the instant in a fabricated zone MST+3600", base.In(gotime.FixedZone("MST", 3600))},
		{"the instant in an unnamed zone -05:00", base.In(gotime.FixedZone("", -5*3600))},
		{"the instant in a zone named UTC at +02:00", base.In(gotime.FixedZone("UTC", 7200))},
	}
	for _, rc := range recvs {
		for _, L := range []string{"UTC", "America/New_York", "Local", "EST", "MST", "", "Asia/Kolkata"} {
			loc, err := gotime.LoadLocation(L)
			if err != nil {
				continue
			}
			n++
			w := rc.t.In(loc)
			want := fmt.Sprintf("[%d, %d, %d, %d, %d, %d, %d, %d, True]", w.Year(), int(w.Month()), w.Day(), w.Hour(), w.Minute(), w.Second(), w.Nanosecond(), w.Unix())
			got := "error"
			r, err := starlark.Call(e.th, inLocFn, starlark.Tuple{stime.Time(rc.t), starlark.String(L)}, nil)
			if err == nil {
				got = r.String()
			} else {
				got = "error: " + err.Error()
			}
			if got != want {
				fs = append(fs, finding{"in_location:components", fmt.Sprintf("%s (%s).in_location(%q): year..second, nanosecond, unix, same instant = %s, the zone database says %s [%s] [%s]", rc.name, rc.t, L, got, want, a.Desc, e.host)})
			}
		}
	}
	return
}

// ambiguous: the wall-clock reading of this instant occurs twice in its zone
// (the hour repeated at the end of daylight saving time); time.time cannot
// tell which one is meant, so the component round trip is not demanded there.
func ambiguous(a *val) bool {
	t := gotime.Time(a.v.(stime.Time))
	_, off := t.Zone()
	_, o1 := t.Add(-gotime.Hour).Zone()
	_, o2 := t.Add(gotime.Hour).Zone()
	return o1 != off || o2 != off
}

// ---------------------------------------------------------------------------
// driver

type Case struct {
	Check string   `json:"check"` // binop | pair | triple | unary
	Host  int      `json:"host"`
	Names []string `json:"names"`
	Op    string   `json:"op,omitempty"`
	Src   string   `json:"src,omitempty"`
}

type runner struct {
	c    *fw.Ctx
	e    *ectx
	host int
	st   *fw.Stats
	best map[string]fw.Viol
	rank map[string]int
}

// report keeps one case per key: the first in the (deterministic,
// simplest-first) enumeration order among those whose operands are all
// non-zero, because a zero operand makes `a - b` and `b - a` look alike.
func (r *runner) report(fs []finding, cs Case) {
	for _, f := range fs {
		raw, _ := json.Marshal(cs)
		r.st.Count("violating_cases", 1)
		rank := 0
		for _, n := range cs.Names {
			v := r.e.byN[n]
			if (v.ns != nil && v.ns.Sign() == 0) || (v.i != nil && v.i.Sign() == 0) || (v.Kind == "float" && v.f == 0) {
				rank = 1
			}
		}
		if old, ok := r.rank[f.key]; !ok || rank < old {
			r.rank[f.key] = rank
			r.best[f.key] = fw.Viol{Key: f.key, What: f.what, Case: raw}
		}
	}
}

func timeLike(v *val) bool { return v.Kind == "time" || v.Kind == "duration" }

func runWorker(c *fw.Ctx) *fw.Stats {
	host := c.Shard
	r := &runner{c: c, host: host, st: fw.NewStats(), best: map[string]fw.Viol{}, rank: map[string]int{}}
	r.e = newCtx(host, c.Thorough())
	e := r.e
	hn := e.host
	cut := false
	level := func(name string, f func() bool) {
		name = hn + " " + name
		if cut || c.Expired() {
			cut = true
			r.st.Cut = append(r.st.Cut, name)
			return
		}
		if f() {
			r.st.Levels = append(r.st.Levels, name)
		} else {
			cut = true
			r.st.Cut = append(r.st.Cut, name)
		}
	}
	tick := 0
	expired := func() bool { tick++; return tick&255 == 0 && c.Expired() }

	level("attributes and constructor round trips of every time and duration", func() bool {
		for _, a := range e.vals {
			fs, n := e.unary(a)
			r.st.Nontrivial++
			r.st.Count("attribute_and_round_trip_checks", int64(n))
			r.report(fs, Case{Check: "unary", Host: host, Names: []string{a.Name}})
		}
		return true
	})
	// simplest first: operators on one representative per kind pair, then all values
	for _, ops := range [][]string{arithOps, cmpOps} {
		ops := ops
		level(fmt.Sprintf("all ordered value pairs (>=1 time/duration operand) x %v", ops), func() bool {
			for _, a := range e.vals {
				for _, b := range e.vals {
					if !timeLike(a) && !timeLike(b) {
						continue
					}
					if expired() {
						return false
					}
					for _, op := range ops {
						fs, class, judged := e.binop(a, op, b)
						if judged {
							r.st.Nontrivial++
						} else {
							r.st.Count("pairs_unjudged_result_not_representable", 1)
						}
						r.st.Outcome(class)
						r.report(fs, Case{Check: "binop", Host: host, Names: []string{a.Name, b.Name}, Op: op})
						if len(r.st.Samples) < 2 && a.Kind == "duration" && b.Kind == "time" && op == "+" && a.ns.Sign() < 0 {
							r.st.Sample(map[string]any{"expr": a.Name + " " + op + " " + b.Name, "a": a.Desc, "b": b.Desc, "class": class, "host": hn})
						}
					}
				}
			}
			return true
		})
	}
	level("laws on all ordered pairs: (t+d)-d==t, (t-d)+d==t, (t2-t1)+t1==t2, trichotomy, symmetry, ==>equal hash, dict lookup, insertion and deletion as a key of a 21-entry dict, zone independence", func() bool {
		for _, a := range e.vals {
			for _, b := range e.vals {
				if !timeLike(a) || !timeLike(b) {
					continue
				}
				if expired() {
					return false
				}
				fs, n := e.lawPair(a, b)
				r.st.Nontrivial++
				r.st.Count("law_instances_checked_on_pairs", int64(n))
				r.report(fs, Case{Check: "pair", Host: host, Names: []string{a.Name, b.Name}})
			}
		}
		return true
	})
	level("transitivity of <, <=, == on all ordered triples of times and of durations", func() bool {
		for _, kind := range []string{"duration", "time"} {
			var vs []*val
			for _, v := range e.vals {
				if v.Kind == kind {
					vs = append(vs, v)
				}
			}
			for _, a := range vs {
				for _, b := range vs {
					if expired() {
						return false
					}
					for _, cc := range vs {
						fs := e.lawTriple(a, b, cc)
						r.st.Count("transitivity_triples_checked(on cached comparison results)", 1)
						r.report(fs, Case{Check: "triple", Host: host, Names: []string{a.Name, b.Name, cc.Name}})
					}
				}
			}
		}
		return true
	})
	r.st.Evals = e.evals
	r.st.Count("operand_values", int64(len(e.vals)))
	keys := make([]string, 0, len(r.best))
	for k := range r.best {
		keys = append(keys, k)
	}
	sort.Strings(keys)
	for _, k := range keys {
		r.st.Viols = append(r.st.Viols, r.best[k])
	}
	return r.st
}

func run(c *fw.Ctx) *fw.Stats {
	st := c.Sharded(len(hostZones), nil)
	// one violation per key: the one from the first host zone that shows it
	best := map[string]fw.Viol{}
	for _, v := range st.Viols {
		var cs Case
		json.Unmarshal(v.Case, &cs)
		if b, ok := best[v.Key]; ok {
			var bc Case
			json.Unmarshal(b.Case, &bc)
			if bc.Host <= cs.Host {
				continue
			}
		}
		best[v.Key] = v
	}
	st.Viols = nil
	for _, v := range best {
		st.Viols = append(st.Viols, v)
	}
	sort.Slice(st.Viols, func(i, j int) bool { return st.Viols[i].Key < st.Viols[j].Key })
	sort.Strings(st.Levels)
	sort.Strings(st.Cut)
	st.Notes = append(st.Notes, "evals counts distinct interpreter evaluations per host zone; laws (trichotomy, symmetry, transitivity) are checked on memoised results of the same expressions, so the law counters can exceed evals; distinct_nontrivial counts one per value (attributes), one per judged (a, op, b) and one per ordered pair put through the laws")
	return st
}

func replay(c *fw.Ctx, raw json.RawMessage) []fw.Viol {
	var cs Case
	if err := json.Unmarshal(raw, &cs); err != nil {
		fw.Fatal("bad case: %v", err)
	}
	e := newCtx(cs.Host, true) // the thorough pool is a superset of the quick one
	var vs []*val
	for _, n := range cs.Names {
		v := e.byN[n]
		if v == nil {
			fw.Fatal("unknown operand %q", n)
		}
		vs = append(vs, v)
	}
	var fs []finding
	switch cs.Check {
	case "binop":
		fs, _, _ = e.binop(vs[0], cs.Op, vs[1])
	case "pair":
		fs, _ = e.lawPair(vs[0], vs[1])
	case "triple":
		fs = e.lawTriple(vs[0], vs[1], vs[2])
	case "unary":
		fs, _ = e.unary(vs[0])
	}
	var out []fw.Viol
	for _, f := range fs {
		out = append(out, fw.Viol{Key: f.key, What: f.what})
	}
	return out
}

func init() {
	fw.Register(&fw.Prop{
		ID:    "C19",
		Level: "exploration",
		Rule: "every ordered pair of operand values with at least one time or duration operand (instants epoch, +-1ns, +-1s, +-0.5s, +-250y each in UTC / a fixed +05:45 zone / America/New_York / the host zone via from_timestamp; durations 0, +-1ns, +-1us, +-1.5s, +-1h, +-250y; ints 0, +-1, +-2, 2^31, +-2^63; floats +-0.5, +-2.0, 0.0; strings; None; thorough adds DST-transition, leap-day and int64-boundary instants and more durations/ints/floats) x the 12 operators + - * / // % == != < <= > >=, each evaluated as Starlark source `a OP b` by the real interpreter, under three different host zones (time.Local = UTC, UTC-09:30, America/New_York); " +
			"oracle = the operator table of the lib/time documentation in exact big-integer/rational nanoseconds, everything outside the table must be an error; plus laws on all pairs/triples and attribute/constructor round trips of every value. " +
			"non-trivial = one (expression, host zone) whose result or rejection was compared with the oracle; pairs whose exact result does not fit int64 nanoseconds are evaluated but counted as unjudged",
		Run:    run,
		Worker: runWorker,
		Replay: replay,
		Assumptions: []string{
			"pairs of two non-time operands (int x float etc.) belong to C10/C11 and are not enumerated here",
			"where the exact quotient of duration / int, duration / float or duration // duration is not an integer, floor and truncation are both accepted (the documentation fixes neither; the implementation truncates, unlike Starlark's // on ints); duration / float and duration / duration are allowed 2^-51 relative error of float arithmetic",
			"int operands beyond int64 may be rejected by duration * int and duration / int",
			"==/!= between different types is False/True and ordered comparison of different types is an error (doc/spec.md)",
			"calendar fields in America/New_York and the host zone are compared with the Go standard library's zone rules (trusted base); in UTC and the fixed zone with an independent civil-date computation",
			"the host's local zone is replaced by assigning time.Local in a dedicated worker process per host zone",
		},
		BudgetQuick: 60, BudgetThorough: 600,
	})
}
