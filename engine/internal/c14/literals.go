package c14

// Literal spellings with the value each denotes (doc/spec.md "Lexical
// elements", "String literals", "String escapes"; for bytes literals and
// \u \U escapes, which spec.md does not describe, the comments of
// syntax/quote.go).

import (
	"fmt"
	"math"
	"math/big"
	"strings"
	"unicode/utf8"
)

const (
	mustAccept = iota // the literal is valid and denotes Lit's value
	mustReject        // the text is not a literal (or not an expression): static, positioned error
	eitherWay         // spec and implementation notes differ or are silent: rejection, or exactly Lit's value
)

type litCase struct {
	Kind   Kind
	Lit    Lit
	Expect int
	Class  string // groups cases of one rule (used in violation keys)
}

func bigPow2(n uint) *big.Int { return new(big.Int).Lsh(big.NewInt(1), n) }

func intCases() []litCase {
	var out []litCase
	var vals []*big.Int
	for _, v := range []int64{0, 1, 7, 8, 9, 10, 15, 16, 255, 256, 1<<31 - 1, 1 << 31, 1 << 32, 1<<53 + 1, math.MaxInt64 - 1, math.MaxInt64} {
		vals = append(vals, big.NewInt(v))
	}
	p63, p64, p200 := bigPow2(63), bigPow2(64), bigPow2(200)
	one := big.NewInt(1)
	vals = append(vals, p63, new(big.Int).Add(p63, one), new(big.Int).Sub(p64, one), p64, new(big.Int).Add(p64, one),
		new(big.Int).Sub(p200, one), p200, new(big.Int).Add(new(big.Int).Exp(big.NewInt(10), big.NewInt(60), nil), big.NewInt(7)))
	add := func(text string, v *big.Int, class string) {
		l := Lit{Text: text}
		if v.IsInt64() {
			l.Int = v.Int64()
		} else {
			l.Big = v
		}
		out = append(out, litCase{Kind: KInt, Lit: l, Expect: mustAccept, Class: class})
	}
	for _, v := range vals {
		size := "small"
		if !v.IsInt64() {
			size = "big"
		}
		add(v.Text(10), v, "int-dec-"+size)
		add("0x"+v.Text(16), v, "int-hex-"+size)
		add("0X"+strings.ToUpper(v.Text(16)), v, "int-hex-"+size)
		add("0x00"+v.Text(16), v, "int-hex-"+size)
		add("0o"+v.Text(8), v, "int-oct-"+size)
		add("0O"+v.Text(8), v, "int-oct-"+size)
		add("0o00"+v.Text(8), v, "int-oct-"+size)
		add("0b"+v.Text(2), v, "int-bin-"+size)
		add("0B"+v.Text(2), v, "int-bin-"+size)
		add("0b00"+v.Text(2), v, "int-bin-"+size)
	}
	// not int literals: legacy octal, missing digits, digits of the wrong base
	// (the longest-match rule then yields two adjacent tokens, which is no expression)
	for _, t := range []string{"0755", "01", "007", "0777777777777777777777", "08", "09", "0x", "0X", "0o", "0O", "0b", "0B", "0o8", "0b2", "0xg",
		"0o78", "0b12", "1_000", "0x_1", "1L", "1l", "0xffL", "123abc", "1__2"} {
		out = append(out, litCase{Kind: KInt, Lit: Lit{Text: t}, Expect: mustReject, Class: "int-malformed"})
	}
	// decimal_lit = ('1'…'9') {decimal_digit} | '0' : "00" is two tokens
	for _, t := range []string{"00", "000", "0000000"} {
		out = append(out, litCase{Kind: KInt, Lit: Lit{Text: t}, Expect: mustReject, Class: "int-zeros"})
	}
	return out
}

// floatValue computes the correctly rounded binary64 value of a decimal
// float literal independently of strconv.
func floatValue(text string) (v float64, overflow bool) {
	f, _, err := big.ParseFloat(text, 10, 4096, big.ToNearestEven)
	if err != nil {
		panic("floatValue " + text + ": " + err.Error())
	}
	v, _ = f.Float64()
	return v, math.IsInf(v, 0)
}

func floatCases() []litCase {
	var out []litCase
	valid := []string{"0.0", "0.", ".0", "1.", ".5", "1.5", "1e5", "1E5", "1e+5", "1E+5", "1e-5", "1E-5", "1.5e3", "1.5E+3", "1.5e-3", "1.e3", "1.E-3",
		".5e3", ".5E-3", ".5e+3", "00.5", "09.5", "0755.5", "0755.", "007e1", "08e2", "0e0", "00e0", "1e0", "1e00", "1e005", "0.1", "0.30000000000000004",
		"3.141592653589793", "9007199254740993.0", "9007199254740992.5", "1e22", "1e23", "8.41e21", "123456789012345678901234567890.5",
		"1e308", "1.7976931348623157e308", "1.7976931348623158e308", "4.9e-324", "5e-324", "2.5e-324", "2.4703282292062328e-324", "2e-324", "1e-400",
		"2.2250738585072014e-308", "2.2250738585072011e-308", "0.000001", "100000000000000000000.0", "1e1", "12e1", "1.0e+0"}
	for _, t := range valid {
		v, ovf := floatValue(t)
		if ovf {
			panic("table: " + t)
		}
		out = append(out, litCase{Kind: KFloat, Lit: Lit{Text: t, Float: v}, Expect: mustAccept, Class: "float"})
	}
	// overflow: rejected, or +Inf; never a finite value
	for _, t := range []string{"1e309", "1.8e308", "1.7976931348623159e308", "1e400", "1e999999", "9e9999999999"} {
		out = append(out, litCase{Kind: KFloat, Lit: Lit{Text: t, Float: math.Inf(1)}, Expect: eitherWay, Class: "float-overflow"})
	}
	for _, t := range []string{"1e", "1E", "1e+", "1e-", "1.e", "1.5e", "1.5e+", ".5e", "1.5.2", "1..2", "0x1.8", "1e5.5", "1e5e5", "1.5f", "1e1_0", "0b1.0", "0o7.5", "1.e+"} {
		out = append(out, litCase{Kind: KFloat, Lit: Lit{Text: t}, Expect: mustReject, Class: "float-malformed"})
	}
	return out
}

type strBody struct {
	text   string // between the quotes
	val    string
	expect int
	class  string
	triple bool // needs a triple-quoted literal (contains a raw newline)
	single bool // only meaningful in single-quoted form
	noCRLF bool
	alt    string // second acceptable value ("" = none)
}

// escapeBodies: bodies for non-raw literals. forBytes selects the rules of b"...".
func escapeBodies(forBytes bool) []strBody {
	var out []strBody
	add := func(text, val string, expect int, class string) {
		out = append(out, strBody{text: text, val: val, expect: expect, class: class})
	}
	add("", "", mustAccept, "plain")
	add("abc", "abc", mustAccept, "plain")
	add("héllo→日本", "héllo→日本", mustAccept, "plain-utf8")
	add("a#b", "a#b", mustAccept, "plain")
	for _, e := range []struct {
		c byte
		v byte
	}{{'a', 7}, {'b', 8}, {'f', 12}, {'n', 10}, {'r', 13}, {'t', 9}, {'v', 11}, {'\\', '\\'}, {'\'', '\''}, {'"', '"'}} {
		add("x\\"+string(e.c)+"y", "x"+string(e.v)+"y", mustAccept, "esc-simple")
	}
	// octal: 1, 2 and 3 digits
	for digits := 1; digits <= 3; digits++ {
		for v := 0; v < 1<<(3*digits); v++ {
			text := fmt.Sprintf("\\%0*o", digits, v)
			switch {
			case v <= 127:
				add(text, string([]byte{byte(v)}), mustAccept, "esc-octal")
			case v <= 255 && forBytes:
				add(text, string([]byte{byte(v)}), mustAccept, "esc-octal-bytes")
			case v <= 255:
				add(text, string([]byte{byte(v)}), eitherWay, "esc-octal-high")
			default:
				add(text, "", mustReject, "esc-octal-over-255")
			}
		}
	}
	add("\\1234", "S4", mustAccept, "esc-octal")
	add("\\08", "\x008", mustAccept, "esc-octal")
	add("\\119", "\t9", mustAccept, "esc-octal")
	add("\\101-\\132", "A-Z", mustAccept, "esc-octal")
	// hex
	for v := 0; v < 256; v++ {
		for _, text := range []string{fmt.Sprintf("\\x%02x", v), fmt.Sprintf("\\x%02X", v)} {
			switch {
			case v <= 127 || forBytes:
				add(text, string([]byte{byte(v)}), mustAccept, "esc-hex")
			default:
				add(text, string([]byte{byte(v)}), eitherWay, "esc-hex-high")
			}
		}
	}
	add("(\\x20)", "( )", mustAccept, "esc-hex")
	add("\\x411", "A1", mustAccept, "esc-hex")
	for _, t := range []string{"\\x", "\\x1", "\\xg1", "\\x1g", "\\X41", "\\x 1", "\\x+1", "\\x-1"} {
		add(t, "", mustReject, "esc-hex-malformed")
	}
	// \u \U
	uexp := mustAccept
	if forBytes {
		uexp = eitherWay // Python treats \u in bytes literally; quote.go encodes it; not judged
	}
	for _, cp := range []rune{0, 0x41, 0x7f, 0x80, 0xe9, 0x7ff, 0x800, 0xd7ff, 0xe000, 0xfffd, 0xffff} {
		add(fmt.Sprintf("\\u%04x", cp), string(cp), uexp, "esc-u")
		add(fmt.Sprintf("\\u%04X", cp), string(cp), uexp, "esc-u")
		add(fmt.Sprintf("\\U%08x", cp), string(cp), uexp, "esc-U")
	}
	for _, cp := range []rune{0x10000, 0x1f600, 0x10ffff} {
		add(fmt.Sprintf("\\U%08x", cp), string(cp), uexp, "esc-U")
		add(fmt.Sprintf("\\U%08X", cp), string(cp), uexp, "esc-U")
	}
	add("\\u00e91", "é1", uexp, "esc-u")
	for _, t := range []string{"\\ud800", "\\udbff", "\\udc00", "\\udfff", "\\uD800", "\\U0000d800", "\\U0000dfff"} {
		add(t, "", mustReject, "esc-u-surrogate")
	}
	for _, t := range []string{"\\U00110000", "\\U7fffffff", "\\Uffffffff", "\\U80000000", "\\U00200000"} {
		add(t, "", mustReject, "esc-U-out-of-range")
	}
	for _, t := range []string{"\\u", "\\u1", "\\u12", "\\u123", "\\u123g", "\\ug123", "\\U", "\\U0001f60", "\\U0001f60g", "\\u+123", "\\U+0001f60"} {
		add(t, "", mustReject, "esc-u-malformed")
	}
	// a backslash must start one of the escapes above
	known := "abfnrtv\\'\"01234567xuU\n"
	for c := byte(0x20); c < 0x7f; c++ {
		if strings.IndexByte(known, c) < 0 {
			add("\\"+string(c), "", mustReject, "esc-unknown")
		}
	}
	add("\\é", "", mustReject, "esc-unknown")
	add("\\\t", "", mustReject, "esc-unknown")
	// escaped newline is ignored
	out = append(out, strBody{text: "ab\\\ncd", val: "abcd", expect: mustAccept, class: "esc-newline"})
	out = append(out, strBody{text: "\\\n", val: "", expect: mustAccept, class: "esc-newline"})
	// raw newline: error in '...', a line feed in '''...'''
	out = append(out, strBody{text: "ab\ncd", val: "", expect: mustReject, class: "newline-in-single", single: true})
	out = append(out, strBody{text: "ab\ncd\n", val: "ab\ncd\n", expect: mustAccept, class: "newline-in-triple", triple: true})
	out = append(out, strBody{text: "\n\n x\n", val: "\n\n x\n", expect: mustAccept, class: "newline-in-triple", triple: true})
	return out
}

func rawBodies() []strBody {
	return []strBody{
		{text: "", val: "", class: "raw"},
		{text: "abc", val: "abc", class: "raw"},
		{text: `a\nb`, val: `a\nb`, class: "raw"},
		{text: `\\`, val: `\\`, class: "raw"},
		{text: `\q\8\x\u12\U`, val: `\q\8\x\u12\U`, class: "raw"},
		{text: `\777\xff`, val: `\777\xff`, class: "raw"},
		{text: `a\'b`, val: `a\'b`, alt: `a'b`, class: "raw-escaped-quote"},
		{text: `a\"b`, val: `a\"b`, alt: `a"b`, class: "raw-escaped-quote"},
		{text: "a\\\nb", val: "a\\\nb", class: "raw-escaped-newline", noCRLF: true},
		{text: "a\nb", val: "a\nb", class: "newline-in-triple", triple: true},
	}
}

// stringCases builds every body in every quoting style.
func stringCases() []litCase {
	var out []litCase
	quotes := []string{`"`, `'`, `"""`, `'''`}
	for _, bytesLit := range []bool{false, true} {
		kind, pfx := KString, ""
		if bytesLit {
			kind, pfx = KBytes, "b"
		}
		for _, b := range escapeBodies(bytesLit) {
			for _, q := range quotes {
				if b.triple && len(q) == 1 || b.single && len(q) == 3 {
					continue
				}
				if b.class == "esc-octal" || b.class == "esc-hex" || strings.HasPrefix(b.class, "esc-octal-") || b.class == "esc-hex-high" {
					// the big tables: one quoting style each for the 2- and 3-digit / hex forms
					if q != `"` && len(b.text) > 2 {
						continue
					}
				}
				out = append(out, litCase{Kind: kind, Lit: Lit{Text: pfx + q + b.text + q, Str: b.val}, Expect: b.expect, Class: b.class})
			}
		}
		for _, b := range rawBodies() {
			for _, q := range quotes {
				if b.triple && len(q) == 1 {
					continue
				}
				out = append(out, litCase{Kind: kind, Lit: Lit{Text: "r" + pfx + q + b.text + q, Str: b.val, NoCRLF: b.noCRLF, Alt: b.alt, HasAlt: b.alt != ""}, Expect: mustAccept, Class: b.class})
			}
		}
	}
	// quotation marks inside literals
	for _, c := range [][]string{
		{`"it's"`, "it's"}, {`'say "hi"'`, `say "hi"`}, {`"\""`, `"`}, {`'\''`, `'`}, {`"it\'s"`, "it's"},
		{`"""a"b""c"""`, `a"b""c`}, {`'''a'b''c'''`, `a'b''c`}, {`"""a\"""b"""`, `a"""b`}, {`'''a\'''b'''`, `a'''b`},
		{`""""a"""`, `"a`}, {`'''a"""b'''`, `a"""b`}, {`"""a'''b"""`, `a'''b`}, {`"""\""""`, `"`}, {`'''it's'''`, `it's`},
		{`""`, ""}, {`''`, ""}, {`""""""`, ""}, {`''''''`, ""}, {`r"\""`, `\"`, `"`}, {`r'\''`, `\'`, `'`}, {`r"""\""""`, `\"`, `"`},
	} {
		out = append(out, litCase{Kind: KString, Lit: Lit{Text: c[0], Str: c[1], Alt: c[len(c)-1], HasAlt: len(c) == 3}, Expect: mustAccept, Class: "quotes"})
	}
	for _, t := range []string{`"abc`, `'abc`, `"abc'`, `'abc"`, `"""abc""`, `'''abc`, `"abc\"`, `r"abc\"`, `"""abc"`, `b"abc`, `"`, `'`, `"""`, `r"`} {
		out = append(out, litCase{Kind: KString, Lit: Lit{Text: t}, Expect: mustReject, Class: "unterminated"})
	}
	for i := range out {
		if !utf8.ValidString(out[i].Lit.Text) {
			panic("table: literal text must be UTF-8")
		}
	}
	return out
}

func allLitCases() []litCase {
	var out []litCase
	out = append(out, intCases()...)
	out = append(out, floatCases()...)
	out = append(out, stringCases()...)
	return out
}
