package c14

import (
	"fmt"
	"io"
	"strings"

	"go.starlark.net/syntax"
)

// The REPL entry point: FileOptions.ParseCompoundStmt reads one statement
// through a callback that hands over one line at a time (so a token, such as
// a string literal with an escaped or a literal line break, may begin in one
// buffer and end in another).  Every single statement (simple-statement line
// or compound statement) of the statement profile and every literal spelling
// in two contexts is also parsed that way; the tree and the positions must be
// the ones Parse gives.

func parseREPL(src string) (f *syntax.File, err error) {
	defer func() {
		if r := recover(); r != nil {
			err = fmt.Errorf("parser panicked: %v", r)
		}
	}()
	lines := strings.SplitAfter(src, "\n")
	i, blanks := 0, 0
	readline := func() ([]byte, error) {
		for i < len(lines) {
			l := lines[i]
			i++
			if l != "" {
				return []byte(l), nil
			}
		}
		// the user ends a compound statement with an empty line
		if blanks < 3 {
			blanks++
			return []byte("\n"), nil
		}
		return nil, io.EOF
	}
	return fileOpts.ParseCompoundStmt("c14.star", readline)
}

func judgeREPL(src string, tree *Node, either bool) []string {
	f, err := parseREPL(src)
	if err != nil {
		if either {
			return nil
		}
		return []string{"parse-error: ParseCompoundStmt (one line per call) rejects a text rendered from a tree: " + err.Error()}
	}
	return compareFile(tree, f)
}

func (w *worker) tryREPL(class, key string, root *Node, src string, either bool) {
	w.st.Evals++
	w.st.Nontrivial++
	errs := judgeREPL(src, root, either)
	if len(errs) == 0 {
		w.st.Outcome("repl-ok:" + class)
		return
	}
	if len(errs) > 3 {
		errs = errs[:3]
	}
	w.violate("repl."+class+"."+firstClass(errs), "repl:"+key, strings.Join(errs, "; ")+" — text "+quote(src),
		violCase{Kind: "repl", Src: b64(src), Show: quote(src), Tree: root, Either: either})
}

func (w *worker) levelREPL(thorough bool) bool {
	// literals: x = [ LIT , c ]  and  f ( LIT )
	for _, lc := range allLitCases() {
		if w.expired() {
			return false
		}
		w.idx++
		if !w.c.Mine(w.idx) || lc.Expect == mustReject {
			continue
		}
		l := lc.Lit
		mkLit := func() *Node { return &Node{K: lc.Kind, Lit: &l} }
		for ti, root := range []*Node{
			mk(KFile, &Node{K: KAssign, Op: "=", Kids: []*Node{id("x"), mk(KList, mkLit(), id("c"))}}),
			mk(KFile, mk(KExprStmt, mk(KCall, id("f"), mkLit()))),
		} {
			r := render1(root, false, nil)
			for _, L := range []*Layout{{}, {CRLF: true}} {
				if src, ok := r.Text(L); ok {
					w.tryREPL("lit-"+lc.Class, fmt.Sprintf("lit:%s:%s|ctx%d|crlf=%v", lc.Class, lc.Lit.Text, ti, L.CRLF), root, src, lc.Expect == eitherWay)
				}
			}
		}
	}
	// statements: every file of the statement profile that is one statement (or one line of simple statements)
	maxSize := 4
	if thorough {
		maxSize = 5
	}
	gs := NewGen(stmtProfile())
	ok := true
	for size := 1; size <= maxSize && ok; size++ {
		gs.EachFile(size, func(f *Node) {
			if !ok {
				return
			}
			if w.expired() {
				ok = false
				return
			}
			oneLine := true
			for i, s := range f.Kids {
				if !s.isSimpleStmt() || (i > 0 && !s.Semi) {
					oneLine = false
				}
			}
			if len(f.Kids) != 1 && !oneLine {
				return
			}
			w.idx++
			if !w.c.Mine(w.idx) {
				return
			}
			root := f.clone()
			rename(root)
			r := render1(root, false, nil)
			for _, L := range []*Layout{{}, {Tight: true}, {CRLF: true}, {Indent: 3}} {
				if src, ok := r.Text(L); ok {
					w.tryREPL("stmt", root.String()+"|"+fmt.Sprint(*L), root, src, false)
				}
			}
		})
	}
	return ok
}
