package c14

// Independent recogniser: the grammar of syntax/grammar.txt written as data
// (EBNF text below, same notation as grammar.txt) and an Earley recogniser
// over it.  Nothing here shares code or tables with syntax/parse.go.
//
// The grammar text is grammar.txt with its stated ambiguity ("resolved using
// operator precedence") made explicit by layering BinaryExpr by the
// precedence table of doc/spec.md, plus the tokens that spec.md adds to
// grammar.txt ('<<' '>>' '~', bytes literals) and the slice forms that the
// spec prose allows ("each of the operands is optional").
//
// Alternatives marked with a leading ~ exist only in the WIDE grammar: they
// are readings of grammar.txt that I am not sure are intended (literal
// readings that Python and the spec prose exclude).  A text is a MEMBER if
// the narrow grammar accepts it, a NON-MEMBER if even the wide grammar
// rejects it, and is not judged otherwise.

import (
	"fmt"
	"strings"
)

const grammarText = `
File = {Statement | newline} eof .
Statement = DefStmt | IfStmt | ForStmt | WhileStmt | SimpleStmt .
DefStmt = 'def' identifier '(' [Parameters [',']] ')' ':' Suite .
Parameters = Parameter {',' Parameter} .
Parameter = identifier | identifier '=' Test | '*' | '*' identifier | '**' identifier .
IfStmt = 'if' Test ':' Suite {'elif' Test ':' Suite} ['else' ':' Suite] .
ForStmt = 'for' LoopVariables 'in' Expression ':' Suite .
WhileStmt = 'while' Test ':' Suite .
Suite = newline indent Statement {Statement} outdent | SimpleStmt .
SimpleStmt = SmallStmt {';' SmallStmt} [';'] newline .
SmallStmt = ReturnStmt | 'break' | 'continue' | 'pass' | AssignStmt | ExprStmt | LoadStmt .
ReturnStmt = 'return' [Expression] .
AssignStmt = Expression ('=' | '+=' | '-=' | '*=' | '/=' | '//=' | '%=' | '&=' | '|=' | '^=' | '<<=' | '>>=') Expression .
ExprStmt = Expression .
LoadStmt = 'load' '(' string ',' LoadSym {',' LoadSym} [','] ')' | ~ 'load' '(' string [','] ')' .
LoadSym = [identifier '='] string .
Expression = Test {',' Test} .
Test = LambdaExpr | IfExpr | OrTest .
LambdaExpr = 'lambda' [Parameters] ':' Test .
IfExpr = OrTest 'if' OrTest 'else' Test | ~ OrTest 'if' Test 'else' Test .
TestNoCond = OrTest | 'lambda' [Parameters] ':' TestNoCond .
WideRhs = 'not' Test | LambdaExpr .
OrTest = AndTest {'or' (AndTest | ~ WideRhs)} .
AndTest = NotTest {'and' (NotTest | ~ WideRhs)} .
NotTest = 'not' NotTest | Comparison | ~ 'not' LambdaExpr .
Comparison = BitOr [('==' | '!=' | '<' | '>' | '<=' | '>=' | 'in' | 'not' 'in') (BitOr | ~ WideRhs)] .
BitOr = BitXor {'|' (BitXor | ~ WideRhs)} .
BitXor = BitAnd {'^' (BitAnd | ~ WideRhs)} .
BitAnd = Shift {'&' (Shift | ~ WideRhs)} .
Shift = Arith {('<<' | '>>') (Arith | ~ WideRhs)} .
Arith = Term {('+' | '-') (Term | ~ WideRhs)} .
Term = Factor {('*' | '/' | '//' | '%') (Factor | ~ WideRhs)} .
Factor = ('+' | '-' | '~') Factor | PrimaryExpr .
PrimaryExpr = Operand | PrimaryExpr DotSuffix | PrimaryExpr CallSuffix | PrimaryExpr SliceSuffix .
Operand = identifier | int | float | string | bytes | ListExpr | ListComp | DictExpr | DictComp | '(' [Expression [',']] ')' .
DotSuffix = '.' identifier .
CallSuffix = '(' [Arguments [',']] ')' .
SliceSuffix = '[' Expression ']' | '[' [Expression] ':' [Test] [':' [Test]] ']' | ~ '[' ']' .
Arguments = Argument {',' Argument} .
Argument = Test | identifier '=' Test | '*' Test | '**' Test .
ListExpr = '[' [Expression [',']] ']' .
ListComp = '[' Test CompFor {CompClause} ']' | ~ '[' Test CompClause {CompClause} ']' .
DictExpr = '{' [Entries [',']] '}' .
DictComp = '{' Entry CompFor {CompClause} '}' | ~ '{' Entry CompClause {CompClause} '}' .
Entries = Entry {',' Entry} .
Entry = Test ':' Test .
CompFor = 'for' LoopVariables 'in' OrTest | ~ 'for' LoopVariables 'in' Test .
CompClause = CompFor | 'if' TestNoCond | ~ 'if' Test .
LoopVariables = LoopVar {',' LoopVar} .
LoopVar = PrimaryExpr | ~ Factor .
`

type gsym struct {
	term bool
	id   int
}

type grule struct {
	lhs int
	rhs []gsym
}

type Grammar struct {
	rules    []grule
	byLHS    [][]int
	nullable []bool
	ntName   []string
	termID   map[string]int
	ntID     map[string]int
	start    int
	maxRHS   int
	// scratch
	seen  []int32
	stamp int32
	sets  [][]eitem
	in    []int
}

// ---- EBNF -> BNF

type ebnfTok struct {
	kind byte // 'n' name, 'q' quoted, or the punctuation itself
	s    string
}

func ebnfLex(s string) []ebnfTok {
	var out []ebnfTok
	for i := 0; i < len(s); {
		c := s[i]
		switch {
		case c == ' ' || c == '\n' || c == '\t':
			i++
		case c == '\'':
			j := strings.IndexByte(s[i+1:], '\'')
			out = append(out, ebnfTok{'q', s[i+1 : i+1+j]})
			i += j + 2
		case strings.IndexByte("()[]{}|=.~", c) >= 0:
			out = append(out, ebnfTok{c, string(c)})
			i++
		default:
			j := i
			for j < len(s) && (s[j] == '_' || s[j] >= 'a' && s[j] <= 'z' || s[j] >= 'A' && s[j] <= 'Z') {
				j++
			}
			if j == i {
				panic("grammar text: bad character " + string(c))
			}
			out = append(out, ebnfTok{'n', s[i:j]})
			i = j
		}
	}
	return out
}

type gbuilder struct {
	g    *Grammar
	toks []ebnfTok
	i    int
	wide bool
	nAux int
}

func (b *gbuilder) nt(name string) int {
	if id, ok := b.g.ntID[name]; ok {
		return id
	}
	id := len(b.g.ntName)
	b.g.ntID[name] = id
	b.g.ntName = append(b.g.ntName, name)
	return id
}

func (b *gbuilder) term(name string) int {
	if id, ok := b.g.termID[name]; ok {
		return id
	}
	id := len(b.g.termID)
	b.g.termID[name] = id
	return id
}

func (b *gbuilder) aux() int {
	b.nAux++
	return b.nt(fmt.Sprintf("#%d", b.nAux))
}

// alternatives parses  seq {'|' seq}  up to a closing token and adds one rule
// per alternative for lhs.
func (b *gbuilder) alternatives(lhs int, closer byte) {
	for {
		wideOnly := false
		if b.toks[b.i].kind == '~' {
			wideOnly = true
			b.i++
		}
		rhs := b.sequence()
		if !wideOnly || b.wide {
			b.g.rules = append(b.g.rules, grule{lhs, rhs})
		}
		if b.toks[b.i].kind == '|' {
			b.i++
			continue
		}
		if b.toks[b.i].kind != closer {
			panic("grammar text: expected " + string(closer) + " got " + b.toks[b.i].s)
		}
		b.i++
		return
	}
}

func (b *gbuilder) sequence() []gsym {
	var rhs []gsym
	for {
		t := b.toks[b.i]
		switch t.kind {
		case 'q':
			rhs = append(rhs, gsym{true, b.term(t.s)})
			b.i++
		case 'n':
			if t.s[0] >= 'a' && t.s[0] <= 'z' {
				rhs = append(rhs, gsym{true, b.term(t.s)})
			} else {
				rhs = append(rhs, gsym{false, b.nt(t.s)})
			}
			b.i++
		case '(':
			b.i++
			a := b.aux()
			b.alternatives(a, ')')
			rhs = append(rhs, gsym{false, a})
		case '[':
			b.i++
			a := b.aux()
			b.alternatives(a, ']')
			b.g.rules = append(b.g.rules, grule{a, nil})
			rhs = append(rhs, gsym{false, a})
		case '{':
			b.i++
			body := b.aux()
			b.alternatives(body, '}')
			rep := b.aux() // rep = | rep body
			b.g.rules = append(b.g.rules, grule{rep, nil}, grule{rep, []gsym{{false, rep}, {false, body}}})
			rhs = append(rhs, gsym{false, rep})
		default:
			return rhs
		}
	}
}

func BuildGrammar(wide bool) *Grammar {
	g := &Grammar{termID: map[string]int{}, ntID: map[string]int{}}
	b := &gbuilder{g: g, toks: ebnfLex(grammarText), wide: wide}
	for b.i < len(b.toks) {
		name := b.toks[b.i]
		if name.kind != 'n' || b.toks[b.i+1].kind != '=' {
			panic("grammar text: production expected at " + name.s)
		}
		b.i += 2
		b.alternatives(b.nt(name.s), '.')
	}
	g.start = g.ntID["File"]
	g.byLHS = make([][]int, len(g.ntName))
	for i, r := range g.rules {
		g.byLHS[r.lhs] = append(g.byLHS[r.lhs], i)
		if len(r.rhs) > g.maxRHS {
			g.maxRHS = len(r.rhs)
		}
	}
	for nt, rs := range g.byLHS {
		if len(rs) == 0 {
			panic("grammar text: no production for " + g.ntName[nt])
		}
	}
	g.nullable = make([]bool, len(g.ntName))
	for changed := true; changed; {
		changed = false
		for _, r := range g.rules {
			if g.nullable[r.lhs] {
				continue
			}
			all := true
			for _, s := range r.rhs {
				if s.term || !g.nullable[s.id] {
					all = false
					break
				}
			}
			if all {
				g.nullable[r.lhs] = true
				changed = true
			}
		}
	}
	return g
}

// ---- Earley recogniser

type eitem struct {
	rule   int32
	dot    int16
	origin int16
}

// Recognise reports whether the token kinds form a sentence; failAt is the
// index of the first token that no derivation can continue with (len(kinds)
// if the input is merely incomplete).
func (g *Grammar) Recognise(kinds []string) (ok bool, failAt int) {
	n := len(kinds)
	if cap(g.in) < n {
		g.in = make([]int, n, n+16)
	}
	in := g.in[:n]
	for i, k := range kinds {
		id, known := g.termID[k]
		if !known {
			id = -1
		}
		in[i] = id
	}
	width := (g.maxRHS + 1) * (n + 1)
	need := len(g.rules) * width
	if len(g.seen) < need || g.stamp > 1<<30 {
		g.seen = make([]int32, need+need/2)
		g.stamp = 0
	}
	for len(g.sets) < n+1 {
		g.sets = append(g.sets, make([]eitem, 0, 256))
	}
	sets := g.sets[:n+1]
	for i := range sets {
		sets[i] = sets[i][:0]
	}
	defer func() { copy(g.sets, sets) }()
	add := func(set *[]eitem, it eitem) {
		k := int(it.rule)*width + int(it.dot)*(n+1) + int(it.origin)
		if g.seen[k] == g.stamp {
			return
		}
		g.seen[k] = g.stamp
		*set = append(*set, it)
	}
	g.stamp++
	for _, r := range g.byLHS[g.start] {
		add(&sets[0], eitem{int32(r), 0, 0})
	}
	for i := 0; i <= n; i++ {
		if i > 0 {
			if len(sets[i]) == 0 {
				return false, i - 1
			}
		}
		set := &sets[i]
		for j := 0; j < len(*set); j++ {
			it := (*set)[j]
			r := &g.rules[it.rule]
			if int(it.dot) < len(r.rhs) {
				s := r.rhs[it.dot]
				if s.term {
					continue // scanned below
				}
				// predict
				for _, pr := range g.byLHS[s.id] {
					add(set, eitem{int32(pr), 0, int16(i)})
				}
				if g.nullable[s.id] {
					add(set, eitem{it.rule, it.dot + 1, it.origin})
				}
				continue
			}
			// complete
			orig := sets[it.origin]
			for k := 0; k < len(orig); k++ {
				p := orig[k]
				pr := &g.rules[p.rule]
				if int(p.dot) < len(pr.rhs) && !pr.rhs[p.dot].term && pr.rhs[p.dot].id == r.lhs {
					add(set, eitem{p.rule, p.dot + 1, p.origin})
				}
			}
		}
		if i == n {
			break
		}
		// scan: items of set i+1 use a fresh stamp
		g.stamp++
		for _, it := range *set {
			r := &g.rules[it.rule]
			if int(it.dot) < len(r.rhs) && r.rhs[it.dot].term && r.rhs[it.dot].id == in[i] {
				add(&sets[i+1], eitem{it.rule, it.dot + 1, it.origin})
			}
		}
	}
	for _, it := range sets[n] {
		r := &g.rules[it.rule]
		if r.lhs == g.start && int(it.dot) == len(r.rhs) && it.origin == 0 {
			return true, -1
		}
	}
	return false, n
}
