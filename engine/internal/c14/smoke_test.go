package c14

import (
	"testing"

	"go.starlark.net/syntax"
)

func parseCmp(t *testing.T, root *Node, L *Layout) {
	extra := map[*Node]int{}
	r := render1(root, L.Full, extra)
	src, ok := r.Text(L)
	if !ok {
		t.Fatalf("layout n/a")
	}
	opts := &syntax.FileOptions{}
	f, err := opts.Parse("x.star", src, 0)
	if err != nil {
		t.Fatalf("parse %q: %v", src, err)
	}
	errs := compareFile(root, f)
	if len(errs) > 0 {
		t.Errorf("mismatch %v", errs)
	}
}

func TestSmoke(t *testing.T) {
	e := bin("+", id("a"), bin("*", un("-", id("b")), cond(id("c"), bin("<", id("d"), id("e")), mk(KLambda, mkn(KParam, "p"), id("f")))))
	file := mk(KFile, mk(KExprStmt, e), mk(KIf, id("x"), mk(KBlock, &Node{K: KBranch, Op: "pass"}, &Node{K: KAssign, Op: "+=", Kids: []*Node{id("y"), mk(KTuple, intLit("1", 1), strLit(`"s"`, "s"))}}), nil))
	parseCmp(t, file, &Layout{})
	parseCmp(t, file.clone(), &Layout{Full: true})
	parseCmp(t, file.clone(), &Layout{Tight: true, CRLF: true, Indent: 6})
	r := render1(file, false, nil)
	for _, d := range r.Devs() {
		L := &Layout{Devs: []Dev{d}}
		src, ok := r.Text(L)
		if !ok {
			continue
		}
		f, err := (&syntax.FileOptions{}).Parse("x.star", src, 0)
		if err != nil {
			t.Errorf("%v %q: %v", d, src, err)
			continue
		}
		if errs := compareFile(file, f); len(errs) > 0 {
			t.Errorf("%v %q: %v", d, src, errs)
		}
	}
}
