package c14

// Private syntax tree of the C14 check.  It is deliberately not syntax.Node:
// the generator builds these trees, the renderer prints them and records where
// every node starts, and the comparer walks one of these next to the tree that
// the real parser returned.

import (
	"fmt"
	"math/big"
	"strings"
)

type Kind uint8

const (
	// expressions
	KIdent       Kind = iota // Name
	KInt                     // Lit
	KFloat                   // Lit
	KString                  // Lit
	KBytes                   // Lit
	KUnary                   // Op in + - ~ not; Kids[0]
	KBinary                  // Op; Kids[0] Kids[1]
	KCond                    // Kids: then, cond, else   (text order)
	KLambda                  // Kids: params..., body (last)
	KTuple                   // >=1 elements, written without parentheses; the renderer adds them where the grammar needs them
	KEmptyTuple              // ()
	KParen                   // explicit ( X ) chosen by the generator
	KList                    // Kids: elements
	KDict                    // Kids: KDictEntry
	KDictEntry               // key, value
	KListComp                // Kids[0] body, then clauses
	KDictComp                // Kids[0] KDictEntry, then clauses
	KForClause               // vars, iterable
	KIfClause                // cond
	KCall                    // Kids[0] fn, then arguments (expression | KArgNamed | KArgStar | KArgStarStar)
	KArgNamed                // Name, Kids[0]
	KArgStar                 // Kids[0]
	KArgStarStar             // Kids[0]
	KIndex                   // x, y
	KSlice                   // x, lo, hi, step (nil when omitted); Flag: second colon written
	KDot                     // Kids[0], Name
	// parameters
	KParam         // Name
	KParamDefault  // Name, Kids[0]
	KParamStar     // Name ("" = bare *)
	KParamStarStar // Name
	// statements
	KExprStmt // Kids[0]
	KAssign   // Op; lhs, rhs
	KDef      // Name; Kids: params..., body KBlock (last)
	KReturn   // Kids[0] may be nil
	KBranch   // Op: break continue pass
	KIf       // cond, then KBlock, else: nil | KBlock | KIf (elif)
	KFor      // vars, iterable, body KBlock
	KWhile    // cond, body KBlock
	KLoad     // Lit (module); Kids: KLoadSym
	KLoadSym  // Name = local name ("" = same as original); Lit = original name string
	KBlock    // Kids: statements; Flag: suite written on the header's line
	KFile     // Kids: statements
)

var kindNames = [...]string{"Ident", "Int", "Float", "String", "Bytes", "Unary", "Binary", "Cond", "Lambda", "Tuple", "EmptyTuple", "Paren",
	"List", "Dict", "DictEntry", "ListComp", "DictComp", "ForClause", "IfClause", "Call", "ArgNamed", "ArgStar", "ArgStarStar", "Index", "Slice", "Dot",
	"Param", "ParamDefault", "ParamStar", "ParamStarStar",
	"ExprStmt", "Assign", "Def", "Return", "Branch", "If", "For", "While", "Load", "LoadSym", "Block", "File"}

func (k Kind) String() string { return kindNames[k] }

// Pos is a 1-based (line, column-in-runes) text position.
type Pos struct{ Line, Col int32 }

func (p Pos) String() string { return fmt.Sprintf("%d:%d", p.Line, p.Col) }

// Lit is one spelling of a literal together with the value it denotes.
type Lit struct {
	Text string // exact source spelling
	// exactly one of these describes the intended value
	Int   int64
	Big   *big.Int // non-nil: value does not fit int64
	Float float64
	Str   string // string and bytes
	// Alt: a second acceptable value where spec.md's wording admits two readings.
	Alt    string
	HasAlt bool
	// NoCRLF: newlines inside the token must stay "\n" when the file is
	// rendered with CRLF line ends (the spec does not say what an escaped
	// CRLF in a raw string denotes).
	NoCRLF bool
}

type Node struct {
	K    Kind
	Op   string
	Name string
	Lit  *Lit
	Kids []*Node
	Flag bool // KSlice: second colon; KBlock: same-line suite
	Semi bool // statement: joined to the previous simple statement with ';'

	// Filled in by the renderer.
	Pos     Pos    // where the node starts (its own first token, inside any parentheses the renderer wrapped around it)
	Parens  []Pos  // '(' positions of the parentheses the renderer wrapped around this node, outermost first
	RParens []Pos  // matching ')' positions, innermost first
	Aux     [4]Pos // kind-specific token positions, see render.go
	End     Pos    // leaves only: position just after the token

	firstTok  int
	parenTok  []int
	rparenTok []int
	auxTok    [4]int
}

func (n *Node) isExpr() bool { return n.K <= KDot }
func (n *Node) isSimpleStmt() bool {
	switch n.K {
	case KExprStmt, KAssign, KReturn, KBranch, KLoad:
		return true
	}
	return false
}

// clone returns a deep copy (generators share subtrees).
func (n *Node) clone() *Node {
	if n == nil {
		return nil
	}
	c := &Node{K: n.K, Op: n.Op, Name: n.Name, Lit: n.Lit, Flag: n.Flag, Semi: n.Semi}
	if len(n.Kids) > 0 {
		c.Kids = make([]*Node, len(n.Kids))
		for i, k := range n.Kids {
			c.Kids[i] = k.clone()
		}
	}
	return c
}

func (n *Node) size() int {
	if n == nil {
		return 0
	}
	s := 1
	for _, k := range n.Kids {
		s += k.size()
	}
	return s
}

func (n *Node) depth() int {
	if n == nil {
		return 0
	}
	d := 0
	for _, k := range n.Kids {
		if x := k.depth(); x > d {
			d = x
		}
	}
	return d + 1
}

// walk visits n and all descendants in pre-order.
func (n *Node) walk(f func(*Node)) {
	if n == nil {
		return
	}
	f(n)
	for _, k := range n.Kids {
		k.walk(f)
	}
}

// String is a compact, layout-free S-expression used in keys and replay files.
func (n *Node) String() string {
	var sb strings.Builder
	n.sexp(&sb)
	return sb.String()
}

func (n *Node) sexp(sb *strings.Builder) {
	if n == nil {
		sb.WriteString("_")
		return
	}
	switch n.K {
	case KIdent:
		sb.WriteString(n.Name)
		return
	case KInt, KFloat, KString, KBytes:
		sb.WriteString(n.Lit.Text)
		return
	}
	sb.WriteByte('(')
	sb.WriteString(n.K.String())
	if n.Op != "" {
		sb.WriteByte(' ')
		sb.WriteString(n.Op)
	}
	if n.Name != "" {
		sb.WriteByte(' ')
		sb.WriteString(n.Name)
	}
	if n.Lit != nil {
		sb.WriteByte(' ')
		sb.WriteString(n.Lit.Text)
	}
	if n.Flag {
		sb.WriteString(" !")
	}
	if n.Semi {
		sb.WriteString(" ;")
	}
	for _, k := range n.Kids {
		sb.WriteByte(' ')
		k.sexp(sb)
	}
	sb.WriteByte(')')
}

// constructors used by generators and tests
func id(name string) *Node            { return &Node{K: KIdent, Name: name} }
func un(op string, x *Node) *Node     { return &Node{K: KUnary, Op: op, Kids: []*Node{x}} }
func bin(op string, x, y *Node) *Node { return &Node{K: KBinary, Op: op, Kids: []*Node{x, y}} }
func cond(t, c, f *Node) *Node        { return &Node{K: KCond, Kids: []*Node{t, c, f}} }
func mk(k Kind, kids ...*Node) *Node  { return &Node{K: k, Kids: kids} }
func mkn(k Kind, name string, kids ...*Node) *Node {
	return &Node{K: k, Name: name, Kids: kids}
}
func lit(k Kind, l *Lit) *Node { return &Node{K: k, Lit: l} }
func intLit(text string, v int64) *Node {
	return &Node{K: KInt, Lit: &Lit{Text: text, Int: v}}
}
func strLit(text, v string) *Node { return &Node{K: KString, Lit: &Lit{Text: text, Str: v}} }
