package c14

// Size-ordered exhaustive generators.
//
// A Profile fixes the grammar forms, operator sets, leaf pool and arity
// bounds.  For a profile, Gen enumerates *all* trees of exactly a given size
// (and at most a given depth) in a fixed order.  Size counts operand leaves,
// operators and constructors; entry / clause / argument wrappers are free.
// Depth counts nesting of expression constructors (wrappers are transparent).
// Lists for sizes below the top one are memoised and shared; the top size is
// streamed.  Trees share subtrees: clone before rendering.

type Profile struct {
	Name       string
	Leaves     []*Node
	Unary      []string
	Binary     []string
	Cond       bool
	Lambda     bool
	Tuple      bool
	Paren      bool
	List       bool
	Dict       bool
	Comp       bool
	Call       bool
	Index      bool
	Slice      bool
	Dot        bool
	MaxArity   int // tuple, list, dict entries
	MaxArgs    int
	MaxParams  int
	MaxClauses int

	// statements
	AssignOps []string
	MaxStmts  int // statements per block / file
	MaxNest   int // nesting of compound statements
	Loads     bool
}

type gkey struct {
	cat         uint8
	size, depth int
}

type Gen struct {
	p    *Profile
	memo map[gkey][]*Node
	seqs map[gkey][][]*Node
}

func NewGen(p *Profile) *Gen {
	return &Gen{p: p, memo: map[gkey][]*Node{}, seqs: map[gkey][][]*Node{}}
}

const (
	catExpr uint8 = iota
	catTarget
	catStmt
	catEntry
)

// Exprs returns all expression trees of exactly this size and depth <= depth.
func (g *Gen) Exprs(size, depth int) []*Node {
	if size < 1 || depth < 1 {
		return nil
	}
	k := gkey{catExpr, size, depth}
	if l, ok := g.memo[k]; ok {
		return l
	}
	var out []*Node
	g.EachExpr(size, depth, func(n *Node) { out = append(out, n) })
	g.memo[k] = out
	return out
}

// compositions calls f with every way to write total as an ordered sum of k
// positive integers.
func compositions(total, k int, f func(parts []int)) {
	parts := make([]int, k)
	var rec func(i, left int)
	rec = func(i, left int) {
		if i == k-1 {
			if left >= 1 {
				parts[i] = left
				f(parts)
			}
			return
		}
		for a := 1; a <= left-(k-1-i); a++ {
			parts[i] = a
			rec(i+1, left-a)
		}
	}
	if k == 0 {
		if total == 0 {
			f(parts)
		}
		return
	}
	rec(0, total)
}

// product calls f with every element of lists[0] x lists[1] x ...
func product(lists [][]*Node, f func(sel []*Node)) {
	for _, l := range lists {
		if len(l) == 0 {
			return
		}
	}
	sel := make([]*Node, len(lists))
	var rec func(i int)
	rec = func(i int) {
		if i == len(lists) {
			f(sel)
			return
		}
		for _, x := range lists[i] {
			sel[i] = x
			rec(i + 1)
		}
	}
	rec(0)
}

// exprTuples calls f with every k-tuple of expressions of total size total.
func (g *Gen) exprTuples(total, k, depth int, f func(sel []*Node)) {
	compositions(total, k, func(parts []int) {
		lists := make([][]*Node, k)
		for i, p := range parts {
			lists[i] = g.Exprs(p, depth)
		}
		product(lists, f)
	})
}

func cp(sel []*Node) []*Node { return append([]*Node(nil), sel...) }

// Targets: assignment / loop-variable shapes of exactly this size.
func (g *Gen) Targets(size int) []*Node {
	switch size {
	case 1:
		return []*Node{id("t")}
	case 2:
		return []*Node{mkn(KDot, "f", id("t"))}
	case 3:
		return []*Node{
			mk(KTuple, id("t"), id("t")),
			mk(KIndex, id("t"), id("t")),
			mk(KList, id("t"), id("t")),
		}
	case 4:
		return []*Node{mk(KParen, mk(KTuple, id("t"), id("t")))}
	case 5:
		return []*Node{mk(KTuple, id("t"), mk(KTuple, id("t"), id("t")))}
	}
	return nil
}

// itemSeqs enumerates sequences described by a shape string; each letter is
// an item kind; 'x'-like letters that carry an expression consume size.
// Sizes: every item costs what its expression costs; items without an
// expression cost 1.
func (g *Gen) paramLists(total, depth int) [][]*Node {
	k := gkey{10, total, depth}
	if l, ok := g.seqs[k]; ok {
		return l
	}
	var out [][]*Node
	if total == 0 {
		out = append(out, nil)
	}
	letters := "rosbk"
	var shapes []string
	var rec func(s string)
	rec = func(s string) {
		if len(s) > 0 {
			shapes = append(shapes, s)
		}
		if len(s) == g.p.MaxParams {
			return
		}
		for i := range letters {
			rec(s + letters[i:i+1])
		}
	}
	rec("")
	for _, sh := range shapes {
		no := 0
		for i := range sh {
			if sh[i] == 'o' {
				no++
			}
		}
		fixed := len(sh) // every parameter name costs 1
		if total-fixed < no || (no == 0 && total != fixed) {
			continue
		}
		emit := func(defs []*Node) {
			var ps []*Node
			di := 0
			for i := range sh {
				switch sh[i] {
				case 'r':
					ps = append(ps, mkn(KParam, "p"))
				case 'o':
					ps = append(ps, mkn(KParamDefault, "p", defs[di]))
					di++
				case 's':
					ps = append(ps, mkn(KParamStar, "p"))
				case 'b':
					ps = append(ps, mkn(KParamStar, ""))
				case 'k':
					ps = append(ps, mkn(KParamStarStar, "p"))
				}
			}
			out = append(out, ps)
		}
		if no == 0 {
			emit(nil)
		} else {
			g.exprTuples(total-fixed, no, depth, emit)
		}
	}
	g.seqs[k] = out
	return out
}

func (g *Gen) argLists(total, depth int) [][]*Node {
	k := gkey{11, total, depth}
	if l, ok := g.seqs[k]; ok {
		return l
	}
	var out [][]*Node
	if total == 0 {
		out = append(out, nil)
	}
	letters := "pnsk"
	var rec func(s string)
	var shapes []string
	rec = func(s string) {
		if len(s) > 0 {
			shapes = append(shapes, s)
		}
		if len(s) == g.p.MaxArgs {
			return
		}
		for i := range letters {
			rec(s + letters[i:i+1])
		}
	}
	rec("")
	for _, sh := range shapes {
		sh := sh
		if total < len(sh) {
			continue
		}
		g.exprTuples(total, len(sh), depth, func(sel []*Node) {
			var as []*Node
			for i := range sh {
				switch sh[i] {
				case 'p':
					as = append(as, sel[i])
				case 'n':
					as = append(as, mkn(KArgNamed, "k", sel[i]))
				case 's':
					as = append(as, mk(KArgStar, sel[i]))
				case 'k':
					as = append(as, mk(KArgStarStar, sel[i]))
				}
			}
			out = append(out, as)
		})
	}
	g.seqs[k] = out
	return out
}

func (g *Gen) entries(size, depth int) []*Node {
	k := gkey{catEntry, size, depth}
	if l, ok := g.memo[k]; ok {
		return l
	}
	var out []*Node
	g.exprTuples(size, 2, depth, func(sel []*Node) { out = append(out, mk(KDictEntry, sel[0], sel[1])) })
	g.memo[k] = out
	return out
}

func (g *Gen) clauseLists(total, depth int) [][]*Node {
	k := gkey{12, total, depth}
	if l, ok := g.seqs[k]; ok {
		return l
	}
	var out [][]*Node
	var rec func(prefix []*Node, left int)
	rec = func(prefix []*Node, left int) {
		if left == 0 && len(prefix) > 0 {
			out = append(out, cp(prefix))
			return
		}
		if len(prefix) == g.p.MaxClauses || left <= 0 {
			return
		}
		// for clause: vars + iterable
		for vs := 1; vs <= 5 && vs < left; vs++ {
			for _, v := range g.Targets(vs) {
				for xs := 1; xs <= left-vs; xs++ {
					for _, x := range g.Exprs(xs, depth) {
						rec(append(prefix, mk(KForClause, v, x)), left-vs-xs)
					}
				}
			}
		}
		if len(prefix) > 0 {
			for cs := 1; cs <= left; cs++ {
				for _, c := range g.Exprs(cs, depth) {
					rec(append(prefix, mk(KIfClause, c)), left-cs)
				}
			}
		}
	}
	rec(nil, total)
	g.seqs[k] = out
	return out
}

// EachExpr streams all expression trees of exactly this size, depth <= depth.
func (g *Gen) EachExpr(size, depth int, yield func(*Node)) {
	p := g.p
	if size < 1 || depth < 1 {
		return
	}
	if size == 1 {
		for _, l := range p.Leaves {
			yield(l)
		}
		return
	}
	if depth < 2 {
		return
	}
	d := depth - 1
	rest := size - 1
	for _, op := range p.Unary {
		for _, x := range g.Exprs(rest, d) {
			yield(un(op, x))
		}
	}
	for _, op := range p.Binary {
		g.exprTuples(rest, 2, d, func(s []*Node) { yield(bin(op, s[0], s[1])) })
	}
	if p.Cond {
		g.exprTuples(rest, 3, d, func(s []*Node) { yield(cond(s[0], s[1], s[2])) })
	}
	if p.Lambda {
		for ps := 0; ps < rest; ps++ {
			for _, pl := range g.paramLists(ps, d) {
				for _, b := range g.Exprs(rest-ps, d) {
					yield(&Node{K: KLambda, Kids: append(cp(pl), b)})
				}
			}
		}
	}
	if p.Tuple {
		for k := 1; k <= p.MaxArity; k++ {
			g.exprTuples(rest, k, d, func(s []*Node) { yield(mk(KTuple, cp(s)...)) })
		}
	}
	if p.Paren {
		for _, x := range g.Exprs(rest, d) {
			yield(mk(KParen, x))
		}
	}
	if p.List {
		for k := 1; k <= p.MaxArity; k++ {
			g.exprTuples(rest, k, d, func(s []*Node) { yield(mk(KList, cp(s)...)) })
		}
	}
	if p.Dict {
		for k := 1; k <= p.MaxArity; k++ {
			compositions(rest, k, func(parts []int) {
				lists := make([][]*Node, k)
				for i, q := range parts {
					lists[i] = g.entries(q, d)
				}
				product(lists, func(s []*Node) { yield(mk(KDict, cp(s)...)) })
			})
		}
	}
	if p.Comp {
		for bs := 1; bs < rest; bs++ {
			for _, cl := range g.clauseLists(rest-bs, d) {
				for _, b := range g.Exprs(bs, d) {
					yield(&Node{K: KListComp, Kids: append([]*Node{b}, cl...)})
				}
				for _, b := range g.entries(bs, d) {
					yield(&Node{K: KDictComp, Kids: append([]*Node{b}, cl...)})
				}
			}
		}
	}
	if p.Call {
		for fs := 1; fs <= rest; fs++ {
			for _, al := range g.argLists(rest-fs, d) {
				for _, f := range g.Exprs(fs, d) {
					yield(&Node{K: KCall, Kids: append([]*Node{f}, al...)})
				}
			}
		}
	}
	if p.Index {
		g.exprTuples(rest, 2, d, func(s []*Node) { yield(mk(KIndex, s[0], s[1])) })
	}
	if p.Slice {
		for mask := 0; mask < 8; mask++ {
			k := 1
			for b := 0; b < 3; b++ {
				if mask&(1<<b) != 0 {
					k++
				}
			}
			g.exprTuples(rest, k, d, func(s []*Node) {
				kids := []*Node{s[0], nil, nil, nil}
				j := 1
				for b := 0; b < 3; b++ {
					if mask&(1<<b) != 0 {
						kids[1+b] = s[j]
						j++
					}
				}
				yield(&Node{K: KSlice, Kids: kids})
				if kids[3] == nil {
					yield(&Node{K: KSlice, Kids: kids, Flag: true})
				}
			})
		}
	}
	if p.Dot {
		for _, x := range g.Exprs(rest, d) {
			yield(mkn(KDot, "f", x))
		}
	}
}

// ---------------------------------------------------------------------------
// statements

var loadForms = func() [][]*Node {
	s := func(local, orig string) *Node {
		return &Node{K: KLoadSym, Name: local, Lit: &Lit{Text: `"` + orig + `"`, Str: orig}}
	}
	return [][]*Node{
		{s("", "a")},
		{s("z", "a")},
		{s("", "a"), s("y", "c")},
		{s("y", "c"), s("", "a")},
	}
}()

// Stmts returns all statements of exactly this size whose compound nesting is <= nest.
func (g *Gen) Stmts(size, nest int) []*Node {
	k := gkey{catStmt, size, nest}
	if l, ok := g.memo[k]; ok {
		return l
	}
	var out []*Node
	g.EachStmt(size, nest, func(n *Node) { out = append(out, n) })
	g.memo[k] = out
	return out
}

const stmtExprDepth = 3

func (g *Gen) EachStmt(size, nest int, yield func(*Node)) {
	p := g.p
	// expression statement (free wrapper)
	for _, x := range g.Exprs(size, stmtExprDepth) {
		yield(mk(KExprStmt, x))
	}
	rest := size - 1
	if rest == 0 {
		yield(&Node{K: KBranch, Op: "pass"})
		yield(&Node{K: KBranch, Op: "break"})
		yield(&Node{K: KBranch, Op: "continue"})
		yield(mk(KReturn, nil))
		return
	}
	for _, x := range g.Exprs(rest, stmtExprDepth) {
		yield(mk(KReturn, x))
	}
	for i, op := range p.AssignOps {
		for ts := 1; ts <= 5 && ts < rest; ts++ {
			for _, t := range g.Targets(ts) {
				if i > 0 && (t.K == KTuple || t.K == KList || t.K == KParen) {
					continue // augmented assignment takes a single target
				}
				for _, x := range g.Exprs(rest-ts, stmtExprDepth) {
					yield(&Node{K: KAssign, Op: op, Kids: []*Node{t, x}})
				}
			}
		}
	}
	if p.Loads {
		for _, lf := range loadForms {
			if len(lf) == rest {
				yield(&Node{K: KLoad, Lit: &Lit{Text: `"m.star"`, Str: "m.star"}, Kids: lf})
			}
		}
	}
	if nest < 1 {
		return
	}
	// def
	for ps := 0; ps < rest; ps++ {
		for _, pl := range g.paramLists(ps, stmtExprDepth) {
			for _, b := range g.Blocks(rest-ps, nest-1) {
				yield(&Node{K: KDef, Name: "fn", Kids: append(cp(pl), b)})
			}
		}
	}
	// while, if, if-else, if-elif
	for cs := 1; cs < rest; cs++ {
		for _, c := range g.Exprs(cs, stmtExprDepth) {
			for _, b := range g.Blocks(rest-cs, nest-1) {
				yield(mk(KWhile, c, b))
				yield(mk(KIf, c, b, nil))
			}
			for bs := 1; bs < rest-cs; bs++ {
				for _, b := range g.Blocks(bs, nest-1) {
					for _, e := range g.Blocks(rest-cs-bs, nest-1) {
						yield(mk(KIf, c, b, e))
					}
					for _, e := range g.Stmts(rest-cs-bs, nest) {
						if e.K == KIf {
							yield(mk(KIf, c, b, e))
						}
					}
				}
			}
		}
	}
	// for
	for vs := 1; vs <= 5 && vs < rest; vs++ {
		for _, v := range g.Targets(vs) {
			for xs := 1; xs < rest-vs; xs++ {
				for _, x := range g.Exprs(xs, stmtExprDepth) {
					for _, b := range g.Blocks(rest-vs-xs, nest-1) {
						yield(mk(KFor, v, x, b))
					}
				}
			}
		}
	}
}

// stmtSeqs: sequences of 1..MaxStmts statements of total size, with every
// choice of ';' joins between adjacent simple statements.
func (g *Gen) stmtSeqs(total, nest int) [][]*Node {
	k := gkey{13, total, nest}
	if l, ok := g.seqs[k]; ok {
		return l
	}
	var out [][]*Node
	for n := 1; n <= g.p.MaxStmts; n++ {
		compositions(total, n, func(parts []int) {
			lists := make([][]*Node, n)
			for i, q := range parts {
				lists[i] = g.Stmts(q, nest)
			}
			product(lists, func(sel []*Node) {
				// join choices
				var joinable []int
				for i := 1; i < n; i++ {
					if sel[i].isSimpleStmt() && sel[i-1].isSimpleStmt() {
						joinable = append(joinable, i)
					}
				}
				for mask := 0; mask < 1<<len(joinable); mask++ {
					seq := cp(sel)
					for b, i := range joinable {
						if mask&(1<<b) != 0 {
							c := *seq[i]
							c.Semi = true
							seq[i] = &c
						}
					}
					out = append(out, seq)
				}
			})
		})
	}
	g.seqs[k] = out
	return out
}

// Blocks: all suites of exactly this size.
func (g *Gen) Blocks(size, nest int) []*Node {
	k := gkey{14, size, nest}
	if l, ok := g.memo[k]; ok {
		return l
	}
	var out []*Node
	for _, seq := range g.stmtSeqs(size, nest) {
		out = append(out, &Node{K: KBlock, Kids: seq})
		inline := true
		for i, s := range seq {
			if !s.isSimpleStmt() || (i > 0 && !s.Semi) {
				inline = false
			}
		}
		if inline {
			out = append(out, &Node{K: KBlock, Kids: seq, Flag: true})
		}
	}
	g.memo[k] = out
	return out
}

// EachFile streams all files of exactly this size.
func (g *Gen) EachFile(size int, yield func(*Node)) {
	for _, seq := range g.stmtSeqs(size, g.p.MaxNest) {
		yield(&Node{K: KFile, Kids: seq})
	}
}

// ---------------------------------------------------------------------------
// naming

var namePool = []string{"a", "é", "c", "d", "日本", "x1", "_g", "h", "жук", "j", "K", "m"}
var paramPool = []string{"p", "q", "ü", "s", "t2", "u"}

// rename gives every identifier, parameter and keyword-argument name a
// distinct name in text order, so that swapped operands cannot compare equal.
func rename(root *Node) {
	ni, pi := 0, 0
	next := func(pool []string, i *int, pfx string) string {
		var s string
		if *i < len(pool) {
			s = pool[*i]
		} else {
			s = pfx + itoa(*i)
		}
		*i++
		return s
	}
	root.walk(func(n *Node) {
		switch n.K {
		case KIdent:
			n.Name = next(namePool, &ni, "v")
		case KParam, KParamDefault, KParamStarStar, KArgNamed:
			n.Name = next(paramPool, &pi, "w")
		case KParamStar:
			if n.Name != "" {
				n.Name = next(paramPool, &pi, "w")
			}
		}
	})
}

func itoa(i int) string {
	if i == 0 {
		return "0"
	}
	var b []byte
	for i > 0 {
		b = append([]byte{byte('0' + i%10)}, b...)
		i /= 10
	}
	return string(b)
}
