// Package c14 decides C14: parsing is faithful to the grammar.
//
// Shape E.  (i) Every tree of a bounded, explicitly enumerated set is printed
// under every layout vector of a bounded set; the real parser must return
// that tree, every literal's value, and every node's start position.
// (ii) Every one-token deletion, duplication and adjacent swap of every short
// valid text is classified by an independent Earley recogniser over the
// grammar; the real parser (or resolver) must reject the non-members with a
// positioned error and must read the members as exactly their own tokens.
package c14

import (
	"encoding/base64"
	"encoding/json"
	"fmt"
	"hash/fnv"
	"math"
	"math/big"
	"runtime"
	"runtime/debug"
	"sort"
	"strings"
	"time"

	"go.starlark.net/resolve"
	"go.starlark.net/syntax"

	"verif/internal/fw"
)

// ---------------------------------------------------------------------------
// JSON form of Lit (values are arbitrary byte strings, floats may be Inf)

type litJSON struct {
	Text   string `json:"text"`
	Int    int64  `json:"int,omitempty"`
	Big    string `json:"big,omitempty"`
	FBits  uint64 `json:"fbits,omitempty"`
	Str    string `json:"str,omitempty"`
	Alt    string `json:"alt,omitempty"`
	HasAlt bool   `json:"hasalt,omitempty"`
	NoCRLF bool   `json:"nocrlf,omitempty"`
}

func b64(s string) string { return base64.StdEncoding.EncodeToString([]byte(s)) }
func unb64(s string) string {
	b, _ := base64.StdEncoding.DecodeString(s)
	return string(b)
}

func (l *Lit) MarshalJSON() ([]byte, error) {
	j := litJSON{Text: b64(l.Text), Int: l.Int, FBits: math.Float64bits(l.Float), Str: b64(l.Str), Alt: b64(l.Alt), HasAlt: l.HasAlt, NoCRLF: l.NoCRLF}
	if l.Big != nil {
		j.Big = l.Big.String()
	}
	return json.Marshal(j)
}

func (l *Lit) UnmarshalJSON(b []byte) error {
	var j litJSON
	if err := json.Unmarshal(b, &j); err != nil {
		return err
	}
	*l = Lit{Text: unb64(j.Text), Int: j.Int, Float: math.Float64frombits(j.FBits), Str: unb64(j.Str), Alt: unb64(j.Alt), HasAlt: j.HasAlt, NoCRLF: j.NoCRLF}
	if j.Big != "" {
		l.Big, _ = new(big.Int).SetString(j.Big, 10)
	}
	return nil
}

// ---------------------------------------------------------------------------
// cases

type violCase struct {
	Kind   string          `json:"kind"` // tree | reject | near
	Src    string          `json:"src"`  // base64 of the source text
	Show   string          `json:"show"` // the same text, quoted, for the reader
	Tree   *Node           `json:"tree,omitempty"`
	Expr   bool            `json:"expr,omitempty"`   // parsed with ParseExpr
	Either bool            `json:"either,omitempty"` // rejection is acceptable too
	Layout *Layout         `json:"layout,omitempty"`
	Wide   json.RawMessage `json:"wide,omitempty"` // kind wide: the (container, unit, n) triple; the text is rebuilt from it
	Key    string          `json:"key"`
}

var fileOpts = &syntax.FileOptions{Set: true, While: true, TopLevelControl: true, GlobalReassign: true}

func parseFile(src string) (f *syntax.File, err error) {
	defer func() {
		if r := recover(); r != nil {
			err = fmt.Errorf("parser panicked: %v", r)
		}
	}()
	return fileOpts.Parse("c14.star", src, 0)
}

func parseExpr(src string) (e syntax.Expr, err error) {
	defer func() {
		if r := recover(); r != nil {
			err = fmt.Errorf("parser panicked: %v", r)
		}
	}()
	return fileOpts.ParseExpr("c14.star", src, 0)
}

// positioned reports whether err carries a source position with a line.
func positioned(err error) bool {
	switch e := err.(type) {
	case syntax.Error:
		return e.Pos.Line > 0
	case resolve.ErrorList:
		return len(e) > 0 && e[0].Pos.Line > 0
	case resolve.Error:
		return e.Pos.Line > 0
	}
	return false
}

// judgeTree parses src and compares with the tree (which carries the
// positions recorded for exactly this text). It returns disagreements.
func judgeTree(src string, tree *Node, exprMode, either bool) []string {
	if exprMode {
		e, err := parseExpr(src)
		if err != nil {
			return []string{"parse-error: ParseExpr rejects a text rendered from a tree: " + err.Error()}
		}
		c := &cmpr{}
		c.expr(tree.Kids[0].Kids[0], e)
		return c.errs
	}
	f, err := parseFile(src)
	if err != nil {
		if either {
			if !positioned(err) {
				return []string{"unpositioned: rejected without a positioned error: " + err.Error()}
			}
			return nil
		}
		return []string{"parse-error: Parse rejects a text rendered from a tree: " + err.Error()}
	}
	return compareFile(tree, f)
}

func judgeReject(src string) string {
	f, err := parseFile(src)
	if err == nil {
		rerr := resolve.File(f, func(string) bool { return true }, func(string) bool { return false })
		if rerr == nil {
			return "accepted: text that is not in the language parses and resolves without error"
		}
		err = rerr
	}
	if !positioned(err) {
		return "unpositioned: rejected without a positioned error: " + err.Error()
	}
	return ""
}

// ---------------------------------------------------------------------------
// near-miss judgement

type recog struct {
	narrow, wide *Grammar
}

func newRecog() *recog { return &recog{narrow: BuildGrammar(false), wide: BuildGrammar(true)} }

type nearVerdict struct {
	class   string // member-ok nonmember-parser nonmember-resolver skipped-ambiguous skipped-unsupported
	viol    string // "" or description
	violKey string
}

func kindsOf(toks []ltok) []string {
	ks := make([]string, len(toks))
	for i, t := range toks {
		ks[i] = t.kind
	}
	return ks
}

func (r *recog) judgeNear(text string) nearVerdict {
	toks, unsupported, lexErr := lexText(text)
	if unsupported {
		return nearVerdict{class: "skipped-unsupported"}
	}
	member, nonmember := false, false
	where := ""
	if lexErr != nil {
		nonmember = true
		where = "lex:" + lexErr.Error()
	} else {
		ks := kindsOf(toks)
		okW, failAt := r.wide.Recognise(ks)
		if !okW {
			nonmember = true
			lo := failAt - 2
			if lo < 0 {
				lo = 0
			}
			hi := failAt + 1
			if hi > len(ks) {
				hi = len(ks)
			}
			where = "after[" + strings.Join(ks[lo:hi], " ") + "]"
		} else if okN, _ := r.narrow.Recognise(ks); okN {
			member = true
		}
	}
	if !member && !nonmember {
		return nearVerdict{class: "skipped-ambiguous"}
	}
	f, perr := parseFile(text)
	if nonmember {
		if perr != nil {
			if !positioned(perr) {
				return nearVerdict{class: "nonmember-parser", viol: "rejected without a positioned error: " + perr.Error(), violKey: "near:unpositioned:" + where}
			}
			return nearVerdict{class: "nonmember-parser"}
		}
		rerr := resolve.File(f, func(string) bool { return true }, func(string) bool { return false })
		if rerr != nil {
			if !positioned(rerr) {
				return nearVerdict{class: "nonmember-resolver", viol: "rejected without a positioned error: " + rerr.Error(), violKey: "near:unpositioned:" + where}
			}
			return nearVerdict{class: "nonmember-resolver"}
		}
		return nearVerdict{class: "nonmember-ACCEPTED", viol: "the grammar does not generate this text (recogniser stops " + where + ") but Parse and resolve.File accept it", violKey: "near:accept-nonmember:" + where}
	}
	if perr != nil {
		return nearVerdict{class: "member-REJECTED", viol: "the grammar generates this text but Parse rejects it: " + perr.Error(), violKey: "near:reject-member:" + kindString(toks)}
	}
	if m := matchFile(f, toks); m != "" {
		return nearVerdict{class: "member-REREAD", viol: "the returned tree does not print back to the text's tokens: " + m, violKey: "near:reread:" + kindString(toks)}
	}
	return nearVerdict{class: "member-ok"}
}

// flatten turns a rendering into its flat token list including the layout tokens.
func (r *Rendered) flatten() []ltok {
	var out []ltok
	var prev []int
	for li := range r.lines {
		l := &r.lines[li]
		// pop / push blocks
		common := 0
		for common < len(prev) && common < len(l.blocks) && prev[common] == l.blocks[common] {
			common++
		}
		for i := len(prev); i > common; i-- {
			out = append(out, ltok{"outdent", ""})
		}
		for i := common; i < len(l.blocks); i++ {
			out = append(out, ltok{"indent", ""})
		}
		prev = l.blocks
		for i := l.first; i < l.end; i++ {
			out = append(out, ltok{"tok", r.toks[i].text})
		}
		out = append(out, ltok{"newline", ""})
	}
	for range prev {
		out = append(out, ltok{"outdent", ""})
	}
	return out
}

// realise writes a flat token list (possibly mutated) as text in canonical
// layout. ok=false if the layout tokens cannot be realised (more outdents than indents).
func realise(flat []ltok) (string, bool) {
	var sb strings.Builder
	level := 0
	bol := true
	for _, t := range flat {
		switch t.kind {
		case "indent":
			level++
		case "outdent":
			level--
			if level < 0 {
				return "", false
			}
		case "newline":
			sb.WriteByte('\n')
			bol = true
		default:
			if bol {
				for i := 0; i < level; i++ {
					sb.WriteString("    ")
				}
				bol = false
			} else {
				sb.WriteByte(' ')
			}
			sb.WriteString(t.text)
		}
	}
	if !bol {
		sb.WriteByte('\n')
	}
	return sb.String(), true
}

// mutants calls f with every deletion, duplication and adjacent swap of one
// token, and every removal of one matched pair of parentheses.
func mutants(flat []ltok, f func(kind string, at int, m []ltok)) {
	n := len(flat)
	buf := make([]ltok, 0, n+1)
	for i := 0; i < n; i++ {
		buf = append(buf[:0], flat[:i]...)
		buf = append(buf, flat[i+1:]...)
		f("del", i, buf)
	}
	for i := 0; i < n; i++ {
		buf = append(buf[:0], flat[:i+1]...)
		buf = append(buf, flat[i:]...)
		f("dup", i, buf)
	}
	for i := 0; i+1 < n; i++ {
		buf = append(buf[:0], flat...)
		buf[i], buf[i+1] = buf[i+1], buf[i]
		f("swap", i, buf)
	}
	// one matched pair of parentheses removed (this is how a chain of
	// non-associative comparisons arises from a valid text)
	var stack []int
	for i := 0; i < n; i++ {
		switch {
		case flat[i].kind == "tok" && flat[i].text == "(":
			stack = append(stack, i)
		case flat[i].kind == "tok" && flat[i].text == ")" && len(stack) > 0:
			o := stack[len(stack)-1]
			stack = stack[:len(stack)-1]
			buf = append(buf[:0], flat[:o]...)
			buf = append(buf, flat[o+1:i]...)
			buf = append(buf, flat[i+1:]...)
			f("unparen", o, buf)
		}
	}
}

func hash64(s string) uint64 {
	h := fnv.New64a()
	h.Write([]byte(s))
	return h.Sum64()
}

// ---------------------------------------------------------------------------
// profiles

func exprProfileA() *Profile {
	return &Profile{Name: "exprA",
		Leaves: []*Node{id("x"), intLit("1", 1), strLit(`"s"`, "s"), mk(KEmptyTuple), mk(KList), mk(KDict)},
		Unary:  []string{"-", "not"}, Binary: []string{"or", "<", "+", "*"},
		Cond: true, Lambda: true, Tuple: true, Paren: true, List: true, Dict: true, Comp: true, Call: true, Index: true, Slice: true, Dot: true,
		MaxArity: 2, MaxArgs: 2, MaxParams: 2, MaxClauses: 2}
}

func exprProfileB() *Profile {
	return &Profile{Name: "exprB",
		Leaves: []*Node{id("x")},
		Unary:  []string{"-", "not"}, Binary: []string{"and", "in", "-"},
		Cond: true, Lambda: true, Tuple: true, Paren: true, List: true, Dict: true, Comp: true, Call: true, Index: true, Slice: true, Dot: true,
		MaxArity: 3, MaxArgs: 3, MaxParams: 3, MaxClauses: 3}
}

func stmtProfile() *Profile {
	return &Profile{Name: "stmt",
		Leaves: []*Node{id("x")}, Binary: []string{"+"}, Call: true, Tuple: true,
		MaxArity: 2, MaxArgs: 1, MaxParams: 2, MaxClauses: 1,
		AssignOps: augOps, MaxStmts: 2, MaxNest: 3, Loads: true}
}

func wrapExpr(e *Node) *Node { return mk(KFile, mk(KExprStmt, e)) }

// ---------------------------------------------------------------------------
// worker

type elevel struct {
	name string
	run  func(w *worker) bool // false: cut by budget
}

type worker struct {
	c     *fw.Ctx
	st    *fw.Stats
	idx   int64 // tree counter (sharding unit)
	rec   *recog
	seenN map[uint64]struct{}
	seenB map[uint64]struct{}
	nviol map[string]int
	polls int
}

const maxViolPerClass = 2

func (w *worker) violate(class, key, what string, vc violCase) {
	w.st.Count("viol."+class, 1)
	if w.nviol[class] >= maxViolPerClass {
		return
	}
	w.nviol[class]++
	vc.Key = key
	w.st.Violate(key, what, vc)
}

func (w *worker) expired() bool {
	w.polls++
	if w.polls%256 != 0 {
		return false
	}
	return w.c.Expired()
}

func quote(s string) string {
	if len(s) > 300 {
		s = s[:300] + "…"
	}
	return fmt.Sprintf("%q", s)
}

func firstClass(errs []string) string {
	if i := strings.IndexByte(errs[0], ':'); i > 0 {
		return errs[0][:i]
	}
	return "other"
}

// one (tree, layout) case
func (w *worker) tryLayout(profile string, root *Node, r *Rendered, L *Layout, exprMode, either bool) {
	src, ok := r.Text(L)
	if !ok {
		return
	}
	w.st.Evals++
	w.st.Nontrivial++
	errs := judgeTree(src, root, exprMode, either)
	if len(errs) == 0 {
		w.st.Outcome("tree-ok:" + profile)
		return
	}
	class := firstClass(errs)
	lj, _ := json.Marshal(L)
	key := fmt.Sprintf("tree:%s:%s:%s|%s", class, profile, root.Kids[0].String(), lj)
	if len(root.Kids) > 1 {
		key = fmt.Sprintf("tree:%s:%s:%s|%s", class, profile, root.String(), lj)
	}
	if exprMode {
		key += "|ParseExpr"
	}
	w.violate(profile+"."+class, key, strings.Join(errs, "; ")+" — text "+quote(src),
		violCase{Kind: "tree", Src: b64(src), Show: quote(src), Tree: root, Expr: exprMode, Either: either, Layout: L})
}

// runTree checks one tree under the layout set of the given effort.
//
//	effort 0: canonical, fully parenthesised, tight, tight+parenthesised, CRLF
//	effort 1: + every global variant, every single deviation, one extra pair of parentheses around each node
//	effort 2: + every single deviation on the parenthesised / CRLF / tight bases, every pair of deviations
func (w *worker) runTree(profile string, root *Node, effort int, exprMode bool) {
	w.idx++
	if !w.c.Mine(w.idx) {
		return
	}
	root = root.clone()
	rename(root)
	w.st.Count("trees."+profile, 1)
	rMin := render1(root, false, nil)
	hasBlocks := rMin.nblocks > 0
	base := []*Layout{{}, {Tight: true}, {CRLF: true}, {CR: true}}
	for _, L := range base {
		w.tryLayout(profile, root, rMin, L, false, false)
		if exprMode && !L.CRLF && !L.CR {
			w.tryLayout(profile, root, rMin, L, true, false)
		}
	}
	var devs []Dev
	if effort >= 1 {
		devs = rMin.Devs()
		w.tryLayout(profile, root, rMin, &Layout{CRLF: true, Tight: true}, false, false)
		if hasBlocks {
			for s := 1; s < nIndentSchemes; s++ {
				w.tryLayout(profile, root, rMin, &Layout{Indent: s}, false, false)
				w.tryLayout(profile, root, rMin, &Layout{Indent: s, CRLF: true}, false, false)
			}
		}
		for _, d := range devs {
			w.tryLayout(profile, root, rMin, &Layout{CR: true, Devs: []Dev{d}}, false, false)
			w.tryLayout(profile, root, rMin, &Layout{Devs: []Dev{d}}, false, false)
			if exprMode && d.K != "lsemi" { // (a trailing ';' belongs to statements, not to an expression)
				// the same text handed to ParseExpr: blank and comment lines before and after, continuations, ...
				w.tryLayout(profile, root, rMin, &Layout{Devs: []Dev{d}}, true, false)
			}
		}
		if exprMode {
			w.tryLayout(profile, root, rMin, &Layout{CRLF: true}, true, false)
		}
		w.st.Count("layouts.single-deviation", int64(len(devs)))
	}
	if effort >= 2 {
		for _, d := range devs {
			w.tryLayout(profile, root, rMin, &Layout{CRLF: true, Devs: []Dev{d}}, false, false)
			w.tryLayout(profile, root, rMin, &Layout{Tight: true, Devs: []Dev{d}}, false, false)
			if hasBlocks {
				w.tryLayout(profile, root, rMin, &Layout{Indent: 6, Devs: []Dev{d}}, false, false)
			}
		}
		for i := range devs {
			for j := i + 1; j < len(devs); j++ {
				w.tryLayout(profile, root, rMin, &Layout{Devs: []Dev{devs[i], devs[j]}}, false, false)
			}
		}
	}
	// redundant parentheses
	rFull := render1(root, true, nil)
	w.tryLayout(profile, root, rFull, &Layout{Full: true}, false, false)
	w.tryLayout(profile, root, rFull, &Layout{Full: true, Tight: true}, false, false)
	if exprMode {
		w.tryLayout(profile, root, rFull, &Layout{Full: true}, true, false)
	}
	if effort >= 2 {
		for _, d := range rFull.Devs() {
			w.tryLayout(profile, root, rFull, &Layout{Full: true, Devs: []Dev{d}}, false, false)
		}
	}
	if effort >= 1 {
		w.tryLayout(profile, root, rFull, &Layout{Full: true, CRLF: true, Tight: true}, false, false)
		n := len(rMin.exprs)
		exprs := append([]*Node(nil), rMin.exprs...)
		for i := 0; i < n; i++ {
			rx := render1(root, false, map[*Node]int{exprs[i]: 1})
			w.tryLayout(profile, root, rx, &Layout{Extra: i + 1}, false, false)
		}
	}
}

// ---------------------------------------------------------------------------
// levels

func (w *worker) levelLiterals(thorough bool) bool {
	cases := allLitCases()
	for _, lc := range cases {
		if w.expired() {
			return false
		}
		w.idx++
		if !w.c.Mine(w.idx) {
			continue
		}
		lc := lc
		w.st.Count("literal_spellings", 1)
		switch lc.Expect {
		case mustReject:
			for _, src := range []string{"x = " + lc.Lit.Text + "\n", "x = [ " + lc.Lit.Text + " , c ]\n", lc.Lit.Text, "f ( " + lc.Lit.Text + " )\r\n"} {
				w.st.Evals++
				w.st.Nontrivial++
				if msg := judgeReject(src); msg != "" {
					w.violate("lit-"+lc.Class, "lit:"+lc.Class+":"+lc.Lit.Text, msg+" — text "+quote(src)+" (the literal spelling must be rejected)",
						violCase{Kind: "reject", Src: b64(src), Show: quote(src)})
				} else {
					w.st.Outcome("literal-rejected")
				}
			}
		default:
			either := lc.Expect == eitherWay
			l := lc.Lit
			mkLit := func() *Node { return &Node{K: lc.Kind, Lit: &l} }
			trees := []*Node{
				mk(KFile, &Node{K: KAssign, Op: "=", Kids: []*Node{id("x"), mk(KList, mkLit(), id("c"))}}),
				mk(KFile, mk(KExprStmt, mk(KCall, mkn(KDot, "f", mkLit()), mkLit())), mk(KExprStmt, id("y"))),
			}
			for ti, root := range trees {
				r := render1(root, false, nil)
				layouts := []*Layout{{}, {Tight: true}, {CRLF: true}, {CRLF: true, Tight: true}}
				if ti == 0 {
					layouts = append(layouts, &Layout{Devs: []Dev{{"fnonl", 0}}}, &Layout{Devs: []Dev{{"lc0", 0}}})
				}
				for _, L := range layouts {
					src, ok := r.Text(L)
					if !ok {
						continue
					}
					w.st.Evals++
					w.st.Nontrivial++
					errs := judgeTree(src, root, false, either)
					if len(errs) > 0 {
						lj, _ := json.Marshal(L)
						w.violate("lit-"+lc.Class, fmt.Sprintf("lit:%s:%s|ctx%d|%s", lc.Class, lc.Lit.Text, ti, lj),
							strings.Join(errs, "; ")+" — text "+quote(src),
							violCase{Kind: "tree", Src: b64(src), Show: quote(src), Tree: root, Either: either, Layout: L})
					} else {
						w.st.Outcome("literal-" + lc.Kind.String() + "-ok")
					}
				}
			}
		}
	}
	return true
}

// levelLitPairs: two and three int literals in one text, every ordered pair (triple) of
// spellings of every width and base: a token must not inherit anything from the previous one.
func (w *worker) levelLitPairs() bool {
	sp := []string{"0", "7", "0x1f", "0X1F", "0o17", "0O17", "0b101", "0B11", "9223372036854775807", "9223372036854775808",
		"18446744073709551616", "0xffffffffffffffffffff", "0o7777777777777777777777777", "0b1" + strings.Repeat("0", 64), "1208925819614629174706176"}
	mkLit := func(t string) *Node {
		z, ok := new(big.Int).SetString(t, 0)
		if !ok {
			fw.Fatal("c14: literal %s", t)
		}
		if z.IsInt64() {
			return &Node{K: KInt, Lit: &Lit{Text: t, Int: z.Int64()}}
		}
		return &Node{K: KInt, Lit: &Lit{Text: t, Big: z}}
	}
	try := func(root *Node, key string) {
		r := render1(root, false, nil)
		for _, L := range []*Layout{{}, {Tight: true}} {
			src, ok := r.Text(L)
			if !ok {
				continue
			}
			w.st.Evals++
			w.st.Nontrivial++
			if errs := judgeTree(src, root, false, false); len(errs) > 0 {
				w.violate("lit-sequence", "lit-sequence:"+key, strings.Join(errs, "; ")+" — text "+quote(src),
					violCase{Kind: "tree", Src: b64(src), Show: quote(src), Tree: root, Layout: L})
			} else {
				w.st.Outcome("literal-sequence-ok")
			}
		}
	}
	for _, a := range sp {
		for _, b := range sp {
			w.idx++
			if !w.c.Mine(w.idx) {
				continue
			}
			if w.expired() {
				return false
			}
			try(wrapExpr(mk(KList, mkLit(a), mkLit(b))), a+","+b)
			try(mk(KFile, &Node{K: KAssign, Op: "=", Kids: []*Node{id("x"), mkLit(a)}}, &Node{K: KAssign, Op: "=", Kids: []*Node{id("y"), mkLit(b)}}), a+";"+b)
			for _, c := range []string{"7", "0o17", "18446744073709551616"} {
				try(wrapExpr(mk(KTuple, mkLit(a), mkLit(b), mkLit(c))), a+","+b+","+c)
			}
		}
	}
	return true
}

func (w *worker) levelPrec(k int, ops []opDef, name string, effort int) bool {
	g := newOpGen(ops)
	ok := true
	g.each(k, func(n *Node) {
		if !ok {
			return
		}
		if w.expired() {
			ok = false
			return
		}
		w.runTree(name, wrapExpr(n), effort, true)
	})
	return ok
}

func (w *worker) levelExpr(p *Profile, size, depth, effort int) bool {
	g := NewGen(p)
	ok := true
	g.EachExpr(size, depth, func(n *Node) {
		if !ok {
			return
		}
		if w.expired() {
			ok = false
			return
		}
		w.runTree(p.Name, wrapExpr(n), effort, true)
	})
	return ok
}

func (w *worker) levelStmt(p *Profile, size, effort int) bool {
	g := NewGen(p)
	ok := true
	g.EachFile(size, func(n *Node) {
		if !ok {
			return
		}
		if w.expired() {
			ok = false
			return
		}
		w.runTree(p.Name, n, effort, false)
	})
	return ok
}

// near-misses of every tree that each() yields, if its canonical text has <= maxToks tokens.
func (w *worker) nearFrom(each func(yield func(*Node)), maxToks int) bool {
	ok := true
	each(func(n *Node) {
		if !ok {
			return
		}
		if w.expired() {
			ok = false
			return
		}
		root := n.clone()
		rename(root)
		r := render1(root, false, nil)
		flat := r.flatten()
		if len(flat) > maxToks {
			return
		}
		// bases with the same token kinds have the same mutants up to names
		text, _ := realise(flat)
		toks, unsup, err := lexText(text)
		if unsup || err != nil {
			fw.Fatal("c14: own tokeniser cannot read a canonical rendering %q: %v", text, err)
		}
		ks := kindString(toks)
		hb := hash64(ks)
		if _, dup := w.seenB[hb]; dup {
			return
		}
		w.seenB[hb] = struct{}{}
		// self-check: the recogniser must accept what the renderer writes
		if w.c.Mine(int64(hb % 1000003)) {
			if okN, at := w.rec.narrow.Recognise(kindsOf(toks)); !okN {
				fw.Fatal("c14: recogniser rejects a canonical rendering %q at token %d (%s)", text, at, ks)
			}
			w.st.Count("near.bases", 1)
		}
		mutants(flat, func(kind string, at int, m []ltok) {
			mt, okR := realise(m)
			if !okR {
				if w.c.Mine(int64(hb % 1000003)) {
					w.st.Count("near.unrealisable", 1)
				}
				return
			}
			mtoks, unsup, _ := lexText(mt)
			var hk uint64
			if unsup {
				hk = hash64(mt)
			} else {
				hk = hash64(kindString(mtoks))
			}
			if !w.c.Mine(int64(hk % 1000003)) {
				return
			}
			if _, dup := w.seenN[hk]; dup {
				return
			}
			w.seenN[hk] = struct{}{}
			w.st.Evals++
			v := w.rec.judgeNear(mt)
			w.st.Outcome(v.class)
			w.st.Count("near."+kind, 1)
			if strings.HasPrefix(v.class, "skipped") {
				w.st.Count("near.skipped", 1)
			} else {
				w.st.Nontrivial++
			}
			if v.viol != "" {
				w.violate("near-"+strings.SplitN(v.violKey, ":", 3)[1], v.violKey, v.viol+" — text "+quote(mt)+" ("+kind+" of token "+itoa(at)+" of "+quote(text)+")",
					violCase{Kind: "near", Src: b64(mt), Show: quote(mt)})
			}
		})
	})
	return ok
}

func levels(tier string) []elevel {
	thorough := tier == "thorough"
	all := precOps()
	reps := repOps(all)
	pa, pb, ps := exprProfileA(), exprProfileB(), stmtProfile()
	var ls []elevel
	add := func(name string, run func(w *worker) bool) { ls = append(ls, elevel{name, run}) }

	add("literals(every spelling x 2 contexts x 4-6 layouts; malformed ones x 4 contexts)", func(w *worker) bool { return w.levelLiterals(thorough) })
	add("literal sequences(all ordered pairs and some triples of 15 int spellings of every base and width)", func(w *worker) bool { return w.levelLitPairs() })
	add("prec:k=1(42 operators/contexts; pairs of deviations)", func(w *worker) bool { return w.levelPrec(1, all, "prec", 2) })
	add("exprA:size<=2(pairs of deviations)", func(w *worker) bool { return w.levelExpr(pa, 1, 3, 2) && w.levelExpr(pa, 2, 3, 2) })
	add("stmt:size<=2(pairs of deviations)", func(w *worker) bool { return w.levelStmt(ps, 1, 2) && w.levelStmt(ps, 2, 2) })
	add("prec:k=2(all ordered pairs in every slot; single deviations)", func(w *worker) bool { return w.levelPrec(2, all, "prec", 1) })
	add("exprA:size=3,depth<=3(single deviations)", func(w *worker) bool { return w.levelExpr(pa, 3, 3, 1) })
	add("stmt:size=3(single deviations)", func(w *worker) bool { return w.levelStmt(ps, 3, 1) })
	nearSrc := func(exprSize, stmtSize, preck int) func(yield func(*Node)) {
		return func(yield func(*Node)) {
			ga, gs := NewGen(pa), NewGen(ps)
			for s := 1; s <= exprSize; s++ {
				ga.EachExpr(s, 3, func(n *Node) { yield(wrapExpr(n)) })
			}
			for s := 1; s <= stmtSize; s++ {
				gs.EachFile(s, yield)
			}
			og := newOpGen(all)
			for k := 1; k <= preck; k++ {
				og.each(k, func(n *Node) { yield(wrapExpr(n)) })
			}
		}
	}
	add("near-miss:bases exprA<=3,stmt<=4,prec<=2 with <=12 tokens", func(w *worker) bool { return w.nearFrom(nearSrc(3, 4, 2), 12) })
	add("wide:every unit of size<=2 as n equal neighbours in 12 kinds of sequence, n up to 1025 (thorough: 4097)", func(w *worker) bool { return w.levelWide(thorough) })
	add("repl:every literal spelling and every single statement of size<=4 (thorough 5) through ParseCompoundStmt, one line per call", func(w *worker) bool { return w.levelREPL(thorough) })
	add("prec:k=3(all ordered triples,all shapes; base layouts)", func(w *worker) bool { return w.levelPrec(3, all, "prec", 0) })
	add("exprA:size=4,depth<=3(single deviations)", func(w *worker) bool { return w.levelExpr(pa, 4, 3, 1) })
	add("stmt:size=4(single deviations)", func(w *worker) bool { return w.levelStmt(ps, 4, 1) })
	add("exprB:size=4(single deviations),size=5(base layouts),depth<=4", func(w *worker) bool { return w.levelExpr(pb, 4, 4, 1) && w.levelExpr(pb, 5, 4, 0) })
	add("stmt:size=5(base layouts)", func(w *worker) bool { return w.levelStmt(ps, 5, 0) })
	if thorough {
		core := coreOps(all)
		add("prec:k=4(19 level representatives,all shapes,depth<=5; base layouts)", func(w *worker) bool { return w.levelPrec(4, reps, "prec-reps", 0) })
		add("near-miss:bases exprA<=4,stmt<=5,prec<=3 with <=12 tokens", func(w *worker) bool { return w.nearFrom(nearSrc(4, 5, 3), 12) })
		add("exprA:size=3,stmt:size=3(pairs of deviations)", func(w *worker) bool { return w.levelExpr(pa, 3, 3, 2) && w.levelStmt(ps, 3, 2) })
		add("prec:k=2(pairs of deviations)", func(w *worker) bool { return w.levelPrec(2, all, "prec", 2) })
		add("exprA:size=4,depth<=4(single deviations)", func(w *worker) bool { return w.levelExpr(pa, 4, 4, 1) })
		add("stmt:size=5(single deviations)", func(w *worker) bool { return w.levelStmt(ps, 5, 1) })
		add("exprA:size=5,depth<=4(base layouts)", func(w *worker) bool { return w.levelExpr(pa, 5, 4, 0) })
		add("stmt:size=6(base layouts)", func(w *worker) bool { return w.levelStmt(ps, 6, 0) })
		add("exprB:size=6..7,depth<=4(base layouts)", func(w *worker) bool { return w.levelExpr(pb, 6, 4, 0) && w.levelExpr(pb, 7, 4, 0) })
		add("prec:k=5(10 class representatives,all shapes,depth<=6; base layouts)", func(w *worker) bool { return w.levelPrec(5, core, "prec-core", 0) })
		add("stmt:size=4(pairs of deviations)", func(w *worker) bool { return w.levelStmt(ps, 4, 2) })
	}
	return ls
}

func workerMain(c *fw.Ctx) *fw.Stats {
	// 16 worker processes share the machine: keep each one's runtime small.
	runtime.GOMAXPROCS(2)
	debug.SetGCPercent(400)
	w := &worker{c: c, st: fw.NewStats(), rec: newRecog(), seenN: map[uint64]struct{}{}, seenB: map[uint64]struct{}{}, nviol: map[string]int{}}
	for i, l := range levels(c.Tier) {
		if c.Expired() {
			break
		}
		before := w.st.Evals
		t0 := time.Now()
		if l.run(w) {
			w.st.Count(fmt.Sprintf("level_done.%02d", i), 1)
		}
		w.st.Count(fmt.Sprintf("level_evals.%02d", i), w.st.Evals-before)
		w.st.Count(fmt.Sprintf("level_ms.%02d", i), time.Since(t0).Milliseconds()) // reporting only
	}
	if c.Shard == 0 {
		// a few written-out cases
		for _, e := range []*Node{
			bin("+", id("x"), bin("*", un("-", id("x")), cond(id("x"), bin("not in", id("x"), id("x")), mk(KLambda, mkn(KParam, "p"), id("x"))))),
			mk(KListComp, id("x"), mk(KForClause, mk(KTuple, id("x"), id("x")), id("x")), mk(KIfClause, id("x"))),
		} {
			root := wrapExpr(e)
			rename(root)
			r := render1(root, false, nil)
			L := &Layout{Devs: []Dev{{"gbs", 2}}}
			if src, ok := r.Text(L); ok {
				w.st.Sample(map[string]any{"tree": root.Kids[0].String(), "layout": L, "text": src, "root_pos": root.Kids[0].Pos.String()})
			}
		}
		w.st.Sample(map[string]any{"near_miss": "for a , in c : pass\n", "verdict": w.rec.judgeNear("for a , in c : pass\n").class})
		w.st.Sample(map[string]any{"near_miss": "a < c < d\n", "verdict": w.rec.judgeNear("a < c < d\n").class})
	}
	return w.st
}

func run(c *fw.Ctx) *fw.Stats {
	st := c.Sharded(16, nil)
	ls := levels(c.Tier)
	for i, l := range ls {
		done := st.Counters[fmt.Sprintf("level_done.%02d", i)]
		ev := st.Counters[fmt.Sprintf("level_evals.%02d", i)]
		delete(st.Counters, fmt.Sprintf("level_done.%02d", i))
		delete(st.Counters, fmt.Sprintf("level_evals.%02d", i))
		ms := st.Counters[fmt.Sprintf("level_ms.%02d", i)]
		delete(st.Counters, fmt.Sprintf("level_ms.%02d", i))
		st.Count("evals["+l.name+"]", ev)
		st.Count("worker_ms_avg["+l.name+"]", ms/16)
		if done == 16 {
			st.Levels = append(st.Levels, l.name)
		} else {
			st.Cut = append(st.Cut, fmt.Sprintf("%s(%d/16 shards finished)", l.name, done))
		}
	}
	sort.Strings(st.Notes)
	// Keep the three simplest cases per violation class (every worker reports
	// up to two per class; the totals stay in the viol.* counters).
	sort.SliceStable(st.Viols, func(i, j int) bool {
		a, b := st.Viols[i], st.Viols[j]
		if len(a.Key) != len(b.Key) {
			return len(a.Key) < len(b.Key)
		}
		return a.Key < b.Key
	})
	perClass := map[string]int{}
	seenKey := map[string]bool{}
	var keep []fw.Viol
	for _, v := range st.Viols {
		if seenKey[v.Key] {
			continue
		}
		seenKey[v.Key] = true
		parts := strings.SplitN(v.Key, ":", 3)
		class := v.Key
		if len(parts) == 3 {
			class = parts[0] + ":" + parts[1]
		}
		if perClass[class] >= 3 {
			st.Count("violations_not_listed(beyond 3 per class)", 1)
			continue
		}
		perClass[class]++
		keep = append(keep, v)
	}
	st.Viols = keep
	return st
}

func replay(c *fw.Ctx, raw json.RawMessage) []fw.Viol {
	var vc violCase
	if err := json.Unmarshal(raw, &vc); err != nil {
		fw.Fatal("bad case: %v", err)
	}
	src := unb64(vc.Src)
	switch vc.Kind {
	case "tree":
		if errs := judgeTree(src, vc.Tree, vc.Expr, vc.Either); len(errs) > 0 {
			return []fw.Viol{{Key: vc.Key, What: strings.Join(errs, "; ")}}
		}
	case "repl":
		if errs := judgeREPL(src, vc.Tree, vc.Either); len(errs) > 0 {
			return []fw.Viol{{Key: vc.Key, What: strings.Join(errs, "; ")}}
		}
	case "wide":
		var wc wideCase
		if err := json.Unmarshal(vc.Wide, &wc); err != nil {
			fw.Fatal("bad wide case: %v", err)
		}
		if _, errs := judgeWide(wc); len(errs) > 0 {
			if len(errs) > 3 {
				errs = errs[:3]
			}
			return []fw.Viol{{Key: vc.Key, What: strings.Join(errs, "; ")}}
		}
	case "reject":
		if msg := judgeReject(src); msg != "" {
			return []fw.Viol{{Key: vc.Key, What: msg}}
		}
	case "near":
		if v := newRecog().judgeNear(src); v.viol != "" {
			return []fw.Viol{{Key: vc.Key, What: v.viol}}
		}
	}
	return nil
}

func init() {
	fw.Register(&fw.Prop{
		ID:    "C14",
		Level: "exploration",
		Rule: "(i) every tree of each profile (literal table; operator-nesting trees with k operators over 42 operators/contexts; all expression trees and all statement files of a given size over all grammar forms) " +
			"is printed under every layout vector of the level's set (canonical, tight, CRLF, bare CR, 7 indentation schemes, fully parenthesised, one extra pair of parentheses per node, every single deviation at every site, pairs of deviations on the small levels) " +
			"and parsed by FileOptions.Parse (and ParseExpr); the returned tree must equal the printed one node for node, every Literal.Value must equal the intended value, every node's Span() start (and named token positions) must equal the recorded line:column; " +
			"(ii) every deletion, duplication and adjacent swap of one token (including newline/indent/outdent), and every removal of one matched pair of parentheses, of every canonical text of <= 12 tokens is classified by an Earley recogniser over the grammar written as data: " +
			"non-members must be rejected by Parse or resolve.File with a positioned error, members must parse to a tree that prints back to the same tokens; " +
			"non-trivial = one (tree, layout) pair parsed and compared, or one distinct near-miss token-kind sequence judged (not skipped)",
		Run:    run,
		Worker: workerMain,
		Replay: replay,
		Assumptions: []string{
			"precedence and associativity are encoded from doc/spec.md (Binary operators table, non-associative comparisons, unary operators on PrimaryExpr) and grammar.txt; the conditional expression nests to the right in its else-branch and its other operands are or-level expressions (Python 3 grammar, which Starlark is a syntactic subset of); 'not' lies between 'and' and the comparisons",
			"bytes literals and \\u \\U escapes are not described in spec.md: they are judged by the comments of syntax/quote.go; \\x80-\\xff and octal > \\177 in string (non-bytes) literals, \\u in bytes literals and float literals that overflow may be rejected or yield the stated value",
			"tab width is not defined by the spec: indentation layouts use spaces only, tabs only, or prefix-consistent mixtures whose nesting is the same for every tab width",
			"a lone CR is not generated (spec lists CR as white space, the scanner treats it as a line end); CR LF is",
			"near-miss texts whose membership depends on a literal reading of grammar.txt that Python and the spec prose exclude (operand of 'not'/binary operators being a lambda, conditional inside a comprehension clause, load with no symbols, ...) are not judged; an empty Suite is taken to be outside the grammar",
			"resolve.File is consulted only for near-misses that Parse accepts; an unrelated resolver error can mask an acceptance (counted in outcome nonmember-resolver)",
		},
		BudgetQuick: 75, BudgetThorough: 1000,
	})
}
