package c14

// Renderer: private tree -> source text, recording where every node starts.
//
// Phase 1 (tokens) turns a tree into logical lines of tokens, inserting the
// parentheses that the precedence table of prec.go requires, plus redundant
// ones when asked to.  Phase 2 (layout) writes the tokens as text under a
// layout vector and tracks (line, column-in-runes) of every token.

import (
	"strings"
	"unicode/utf8"
)

type tkind uint8

const (
	tWord tkind = iota // identifier or keyword
	tNum
	tStr
	tPunct
)

type rtok struct {
	text    string
	kind    tkind
	inBr    bool // the gap after this token lies inside brackets
	lit     *Lit
	commaOK bool // closing bracket before which a trailing comma may be written
}

type rline struct {
	first, end int   // token range
	blocks     []int // ids of the enclosing indented blocks, outermost first
	simple     bool  // the line ends with a simple statement (a trailing ';' is allowed)
}

// Rendered is the result of phase 1.
type Rendered struct {
	root     *Node
	toks     []rtok
	lines    []rline
	nblocks  int
	exprs    []*Node // expression nodes around which redundant parentheses may be written
	commas   []int   // token indexes of closers that admit a trailing comma
	tokPos   []Pos
	tokEnd   []Pos
	textSize int
}

type rend struct {
	Rendered
	depth     int
	blockPath []int
	full      bool
	extra     map[*Node]int
	varsTuple *Node
	lineOpen  bool
}

// render1 runs phase 1. full: wrap every eligible expression in one pair of
// parentheses. extra: additional pairs around particular nodes.
func render1(root *Node, full bool, extra map[*Node]int) *Rendered {
	r := &rend{full: full, extra: extra}
	r.root = root
	switch root.K {
	case KFile:
		root.firstTok = 0
		r.stmts(root.Kids)
	default:
		panic("render1: root must be a File")
	}
	return &r.Rendered
}

func (r *rend) tok(text string, kind tkind) int {
	if !r.lineOpen {
		r.lineOpen = true
		r.lines = append(r.lines, rline{first: len(r.toks), blocks: append([]int(nil), r.blockPath...)})
	}
	r.toks = append(r.toks, rtok{text: text, kind: kind, inBr: r.depth > 0})
	return len(r.toks) - 1
}
func (r *rend) word(s string) int  { return r.tok(s, tWord) }
func (r *rend) punct(s string) int { return r.tok(s, tPunct) }
func (r *rend) open(s string) int {
	r.depth++
	return r.tok(s, tPunct)
}
func (r *rend) close(s string, commaOK bool) int {
	r.depth--
	// the gap before a closer is still inside the bracket
	if len(r.toks) > 0 {
		r.toks[len(r.toks)-1].inBr = true
	}
	i := r.tok(s, tPunct)
	if commaOK {
		r.toks[i].commaOK = true
		r.commas = append(r.commas, i)
	}
	return i
}
func (r *rend) endLine(simple bool) {
	if !r.lineOpen {
		return
	}
	l := &r.lines[len(r.lines)-1]
	l.end = len(r.toks)
	l.simple = simple
	r.lineOpen = false
}

func (r *rend) opTok(op string) int {
	if op[0] >= 'a' && op[0] <= 'z' {
		return r.word(op)
	}
	return r.punct(op)
}

// expr writes n where the grammar demands an expression of at least level need.
func (r *rend) expr(n *Node, need int, elig bool) {
	np := 0
	if level(n) < need || (n.K == KTuple && len(n.Kids) == 1) {
		np = 1
	}
	if elig {
		if r.full && np == 0 {
			np = 1
		}
		np += r.extra[n]
		r.exprs = append(r.exprs, n)
	}
	n.parenTok = n.parenTok[:0]
	n.rparenTok = n.rparenTok[:0]
	for i := 0; i < np; i++ {
		n.parenTok = append(n.parenTok, r.open("("))
	}
	n.firstTok = len(r.toks)
	r.body(n)
	for i := 0; i < np; i++ {
		n.rparenTok = append(n.rparenTok, r.close(")", i == 0 && n.K == KTuple && len(n.Kids) >= 2))
	}
}

func (r *rend) list(kids []*Node, need int) {
	for i, k := range kids {
		if i > 0 {
			r.punct(",")
		}
		r.item(k, need)
	}
}

// item: an element of an argument or parameter list, or a plain expression.
func (r *rend) item(k *Node, need int) {
	switch k.K {
	case KArgNamed, KParamDefault:
		k.firstTok = r.word(k.Name)
		k.auxTok[0] = r.punct("=")
		r.expr(k.Kids[0], lvLambda, true)
	case KArgStar:
		k.firstTok = r.punct("*")
		r.expr(k.Kids[0], lvLambda, true)
	case KArgStarStar:
		k.firstTok = r.punct("**")
		r.expr(k.Kids[0], lvLambda, true)
	case KParam:
		k.firstTok = r.word(k.Name)
	case KParamStar:
		k.firstTok = r.punct("*")
		if k.Name != "" {
			k.auxTok[0] = r.word(k.Name)
		}
	case KParamStarStar:
		k.firstTok = r.punct("**")
		k.auxTok[0] = r.word(k.Name)
	case KDictEntry:
		k.firstTok = len(r.toks)
		r.expr(k.Kids[0], lvLambda, true)
		k.auxTok[0] = r.punct(":")
		r.expr(k.Kids[1], lvLambda, true)
	default:
		r.expr(k, need, true)
	}
}

func (r *rend) vars(n *Node) {
	if n.K == KTuple {
		r.varsTuple = n
		r.expr(n, lvTuple, true)
		return
	}
	r.expr(n, lvPrimary, true)
}

func (r *rend) clauses(cs []*Node) {
	for _, c := range cs {
		switch c.K {
		case KForClause:
			c.firstTok = r.word("for")
			r.vars(c.Kids[0])
			c.auxTok[1] = r.word("in")
			r.expr(c.Kids[1], lvOr, true)
		case KIfClause:
			c.firstTok = r.word("if")
			r.expr(c.Kids[0], lvOr, true)
		default:
			panic("bad clause")
		}
	}
}

func (r *rend) body(n *Node) {
	switch n.K {
	case KIdent:
		r.word(n.Name)
	case KInt, KFloat:
		r.tok(n.Lit.Text, tNum)
	case KString, KBytes:
		i := r.tok(n.Lit.Text, tStr)
		r.toks[i].lit = n.Lit
	case KUnary:
		n.auxTok[0] = r.opTok(n.Op)
		r.expr(n.Kids[0], operandNeed(n, 0), true)
	case KBinary:
		r.expr(n.Kids[0], operandNeed(n, 0), true)
		if n.Op == "not in" {
			n.auxTok[0] = r.word("not")
			n.auxTok[1] = r.word("in")
		} else {
			n.auxTok[0] = r.opTok(n.Op)
		}
		r.expr(n.Kids[1], operandNeed(n, 1), true)
	case KCond:
		r.expr(n.Kids[0], operandNeed(n, 0), true)
		n.auxTok[0] = r.word("if")
		r.expr(n.Kids[1], operandNeed(n, 1), true)
		n.auxTok[1] = r.word("else")
		r.expr(n.Kids[2], operandNeed(n, 2), true)
	case KLambda:
		r.word("lambda")
		r.list(n.Kids[:len(n.Kids)-1], lvLambda)
		r.punct(":")
		r.expr(n.Kids[len(n.Kids)-1], lvLambda, true)
	case KTuple:
		need := lvLambda
		if r.varsTuple == n {
			need = lvPrimary
			r.varsTuple = nil
		}
		r.list(n.Kids, need)
		if len(n.Kids) == 1 {
			r.punct(",")
		}
	case KEmptyTuple:
		r.open("(")
		n.auxTok[1] = r.close(")", false)
	case KParen:
		r.open("(")
		k := n.Kids[0]
		r.expr(k, lvTuple, true)
		n.auxTok[1] = r.close(")", k.K == KTuple && len(k.Kids) >= 2 && len(k.parenTok) == 0)
	case KList:
		r.open("[")
		r.list(n.Kids, lvLambda)
		n.auxTok[1] = r.close("]", len(n.Kids) > 0)
	case KDict:
		r.open("{")
		r.list(n.Kids, lvLambda)
		n.auxTok[1] = r.close("}", len(n.Kids) > 0)
	case KListComp:
		r.open("[")
		r.item(n.Kids[0], lvLambda)
		r.clauses(n.Kids[1:])
		n.auxTok[1] = r.close("]", false)
	case KDictComp:
		r.open("{")
		r.item(n.Kids[0], lvLambda)
		r.clauses(n.Kids[1:])
		n.auxTok[1] = r.close("}", false)
	case KCall:
		r.expr(n.Kids[0], lvPrimary, true)
		n.auxTok[0] = r.open("(")
		r.list(n.Kids[1:], lvLambda)
		n.auxTok[1] = r.close(")", len(n.Kids) > 1)
	case KIndex:
		r.expr(n.Kids[0], lvPrimary, true)
		n.auxTok[0] = r.open("[")
		r.expr(n.Kids[1], lvTuple, true)
		n.auxTok[1] = r.close("]", false)
	case KSlice:
		r.expr(n.Kids[0], lvPrimary, true)
		n.auxTok[0] = r.open("[")
		if n.Kids[1] != nil {
			r.expr(n.Kids[1], lvTuple, true)
		}
		r.punct(":")
		if n.Kids[2] != nil {
			r.expr(n.Kids[2], lvLambda, true)
		}
		if n.Flag || n.Kids[3] != nil {
			r.punct(":")
		}
		if n.Kids[3] != nil {
			r.expr(n.Kids[3], lvLambda, true)
		}
		n.auxTok[1] = r.close("]", false)
	case KDot:
		r.expr(n.Kids[0], lvPrimary, true)
		n.auxTok[0] = r.punct(".")
		n.auxTok[1] = r.word(n.Name)
	default:
		panic("render: not an expression: " + n.K.String())
	}
}

func (r *rend) simple(n *Node) {
	switch n.K {
	case KExprStmt:
		n.firstTok = len(r.toks)
		r.expr(n.Kids[0], lvTuple, true)
	case KAssign:
		n.firstTok = len(r.toks)
		r.expr(n.Kids[0], lvTuple, true)
		n.auxTok[0] = r.punct(n.Op)
		r.expr(n.Kids[1], lvTuple, true)
	case KReturn:
		n.firstTok = r.word("return")
		if n.Kids[0] != nil {
			r.expr(n.Kids[0], lvTuple, true)
		}
	case KBranch:
		n.firstTok = r.word(n.Op)
	case KLoad:
		n.firstTok = r.word("load")
		r.open("(")
		n.auxTok[0] = r.tok(n.Lit.Text, tStr)
		for _, s := range n.Kids {
			r.punct(",")
			if s.Name != "" {
				s.auxTok[0] = r.word(s.Name)
				r.punct("=")
			}
			s.firstTok = r.tok(s.Lit.Text, tStr)
		}
		n.auxTok[1] = r.close(")", true)
	default:
		panic("render: not a simple statement: " + n.K.String())
	}
}

// stmts writes a statement list; simple statements whose successor has Semi
// share a line.
func (r *rend) stmts(list []*Node) {
	for i := 0; i < len(list); i++ {
		s := list[i]
		if s.isSimpleStmt() {
			r.simple(s)
			for i+1 < len(list) && list[i+1].Semi && list[i+1].isSimpleStmt() {
				i++
				r.punct(";")
				r.simple(list[i])
			}
			r.endLine(true)
			continue
		}
		r.compound(s, "")
	}
}

func (r *rend) suite(b *Node) {
	b.firstTok = -1
	if b.Flag {
		// same-line suite: all statements simple, joined by ';'
		for i, s := range b.Kids {
			if i > 0 {
				r.punct(";")
			}
			r.simple(s)
		}
		r.endLine(true)
		return
	}
	r.endLine(false)
	r.blockPath = append(r.blockPath, r.nblocks)
	r.nblocks++
	r.stmts(b.Kids)
	r.blockPath = r.blockPath[:len(r.blockPath)-1]
}

func (r *rend) compound(n *Node, kw string) {
	switch n.K {
	case KDef:
		n.firstTok = r.word("def")
		n.auxTok[0] = r.word(n.Name)
		n.auxTok[1] = r.open("(")
		np := len(n.Kids) - 1
		r.list(n.Kids[:np], lvLambda)
		n.auxTok[2] = r.close(")", np > 0)
		r.punct(":")
		r.suite(n.Kids[np])
	case KIf:
		if kw == "" {
			kw = "if"
		}
		n.firstTok = r.word(kw)
		r.expr(n.Kids[0], lvLambda, true)
		r.punct(":")
		r.suite(n.Kids[1])
		switch e := n.Kids[2]; {
		case e == nil:
		case e.K == KIf:
			n.auxTok[0] = len(r.toks)
			r.compound(e, "elif")
		default:
			n.auxTok[0] = r.word("else")
			r.punct(":")
			r.suite(e)
		}
	case KFor:
		n.firstTok = r.word("for")
		r.vars(n.Kids[0])
		r.word("in")
		r.expr(n.Kids[1], lvTuple, true)
		r.punct(":")
		r.suite(n.Kids[2])
	case KWhile:
		n.firstTok = r.word("while")
		r.expr(n.Kids[0], lvLambda, true)
		r.punct(":")
		r.suite(n.Kids[1])
	default:
		panic("render: not a statement: " + n.K.String())
	}
}

// ---------------------------------------------------------------------------
// phase 2: layout

// Dev is one deviation from the canonical layout.
type Dev struct {
	K    string `json:"k"`
	Site int    `json:"site"`
}

// Layout is a layout vector.
type Layout struct {
	CRLF   bool  `json:"crlf,omitempty"`
	CR     bool  `json:"cr,omitempty"`     // every line ends in a bare carriage return (old Mac files)
	Tight  bool  `json:"tight,omitempty"`  // no white space wherever two tokens may touch
	Indent int   `json:"indent,omitempty"` // indentation scheme
	Full   bool  `json:"full,omitempty"`   // every expression in redundant parentheses (phase 1)
	Extra  int   `json:"extra,omitempty"`  // 1+index of the expression given one more pair of parentheses (phase 1)
	Devs   []Dev `json:"devs,omitempty"`
}

// gap deviations: replace the single space between two tokens of a logical line.
var gapDevs = []struct {
	k       string
	text    string
	bracket bool // only inside brackets
}{
	{"g0", "", false},
	{"g2", "  ", false},
	{"gtab", "\t", false},
	{"gsts", " \t ", false},
	{"gbs", " \\\n", false},
	{"gbsi", "\\\n    ", false},
	{"gnl", "\n", true},
	{"gnli", "\n       ", true},
	{"gnlt", "\n\t", true},
	{"gcnl", " # c\n  ", true},
	{"gnlnl", "\n\n ", true},
	{"gnlc", "\n # c )]}\n", true},
}

// line deviations
var lineDevs = []string{
	"lc",    // comment at line end
	"lc0",   // comment at line end, no space
	"ls",    // trailing spaces
	"lt",    // trailing tab
	"lsemi", // trailing ';' (simple statement lines only)
	"lbb",   // empty line before
	"lbw",   // white-space-only line before
	"lbt",   // tab-only line before
	"lcs",   // comment line before, same indentation
	"lc00",  // comment line before, column 1
	"lcd",   // comment line before, deeper
	"lc1",   // comment line before, one space
}

// file deviations (site 0)
var fileDevs = []string{
	"fnonl",   // no newline after the last line
	"fendc",   // comment without newline after the last line
	"fendb",   // blank lines at the end
	"fendw",   // white space without newline at the end
	"fendcn",  // indented comment line at the end
	"fbeginb", // blank line first
	"fbeginc", // comment line first
}

var punctTokens = []string{"+", "-", "*", "/", "//", "%", "=", "+=", "-=", "*=", "/=", "//=", "%=", "==", "!=", "^", "<", ">", "<<", ">>", "&", "|",
	"^=", "<=", ">=", "<<=", ">>=", "&=", "|=", ".", ",", ";", ":", "~", "**", "(", ")", "[", "]", "{", "}"}

var punctPrefix = func() map[string]bool {
	m := map[string]bool{}
	for _, p := range punctTokens {
		for i := 1; i <= len(p); i++ {
			m[p[:i]] = true
		}
	}
	m["!"] = true
	return m
}()

// mayTouch reports whether b can be written directly after a without
// changing how the text splits into tokens (conservative).
func mayTouch(a, b *rtok) bool {
	aw := a.kind == tWord || a.kind == tNum
	bw := b.kind == tWord || b.kind == tNum
	switch {
	case aw && bw:
		return false
	case aw && b.kind == tStr, a.kind == tStr && b.kind == tStr, a.kind == tStr && bw:
		return false
	case a.kind == tNum && b.kind == tPunct && b.text[0] == '.':
		return false
	case a.kind == tPunct && a.text[len(a.text)-1] == '.' && b.kind == tNum:
		return false
	case a.kind == tPunct && b.kind == tPunct:
		return !punctPrefix[a.text+b.text[:1]]
	}
	return true
}

func indentUnit(scheme, block int) string {
	switch scheme {
	case 0:
		return "    "
	case 1:
		return " "
	case 2:
		return "  "
	case 3:
		return "        "
	case 4:
		return "\t"
	case 5:
		return "\t\t"
	case 6:
		return []string{"\t", "  ", "\t ", " ", "\t\t"}[block%5]
	case 7:
		return strings.Repeat(" ", 1+(block*3)%5)
	}
	panic("indent scheme")
}

const nIndentSchemes = 8

type writer struct {
	sb   strings.Builder
	line int32
	col  int32
	crlf bool
	cr   bool
}

func (w *writer) pos() Pos { return Pos{w.line, w.col} }
func (w *writer) write(s string) {
	for i := 0; i < len(s); {
		c := s[i]
		if c == '\n' {
			if w.crlf || w.cr {
				w.sb.WriteByte('\r')
			}
			if !w.cr {
				w.sb.WriteByte('\n')
			}
			w.line++
			w.col = 1
			i++
			continue
		}
		if c < utf8.RuneSelf {
			w.sb.WriteByte(c)
			w.col++
			i++
			continue
		}
		_, sz := utf8.DecodeRuneInString(s[i:])
		w.sb.WriteString(s[i : i+sz])
		w.col++
		i += sz
	}
}

// writeRaw writes s with its newlines unchanged.
func (w *writer) writeRaw(s string) {
	save, saveCR := w.crlf, w.cr
	w.crlf, w.cr = false, false
	w.write(s)
	w.crlf, w.cr = save, saveCR
}

// Text runs phase 2 and stores every node's positions in the tree.
// ok=false: the layout does not apply to this text (for example "g0" at a gap
// where the two tokens may not touch).
func (r *Rendered) Text(L *Layout) (src string, ok bool) {
	var gap map[int]string
	var pre, post map[int][]string
	var comma map[int]bool
	var fdev []string
	if len(L.Devs) > 0 {
		gap = map[int]string{}
		pre = map[int][]string{}
		post = map[int][]string{}
		comma = map[int]bool{}
	}
	for _, d := range L.Devs {
		switch d.K[0] {
		case 'g':
			if _, dup := gap[d.Site]; dup {
				return "", false
			}
			found := false
			for _, g := range gapDevs {
				if g.k == d.K {
					if g.bracket && !r.toks[d.Site].inBr {
						return "", false
					}
					if d.K == "g0" && (L.Tight || !mayTouch(&r.toks[d.Site], &r.toks[d.Site+1])) {
						return "", false
					}
					gap[d.Site] = g.text
					found = true
				}
			}
			if !found {
				panic("unknown gap deviation " + d.K)
			}
		case 'l':
			switch d.K {
			case "lc", "lc0", "ls", "lt", "lsemi":
				if d.K == "lsemi" && !r.lines[d.Site].simple {
					return "", false
				}
				if len(post[d.Site]) > 0 {
					return "", false
				}
				post[d.Site] = append(post[d.Site], d.K)
			default:
				pre[d.Site] = append(pre[d.Site], d.K)
			}
		case 't':
			if comma[d.Site] {
				return "", false
			}
			comma[d.Site] = true
		case 'f':
			fdev = append(fdev, d.K)
		default:
			panic("unknown deviation " + d.K)
		}
	}
	has := func(k string) bool {
		for _, f := range fdev {
			if f == k {
				return true
			}
		}
		return false
	}
	nEnd := 0
	for _, f := range fdev {
		if strings.HasPrefix(f, "fend") || f == "fnonl" {
			nEnd++
		}
	}
	if nEnd > 1 {
		return "", false
	}

	w := &writer{line: 1, col: 1, crlf: L.CRLF, cr: L.CR}
	w.sb.Grow(r.textSize + 64)
	if cap(r.tokPos) < len(r.toks) {
		r.tokPos = make([]Pos, len(r.toks))
		r.tokEnd = make([]Pos, len(r.toks))
	}
	r.tokPos = r.tokPos[:len(r.toks)]
	r.tokEnd = r.tokEnd[:len(r.toks)]
	if has("fbeginb") {
		w.write("\n")
	}
	if has("fbeginc") {
		w.write("# first\n")
	}
	for li := range r.lines {
		l := &r.lines[li]
		ind := ""
		for _, b := range l.blocks {
			ind += indentUnit(L.Indent, b)
		}
		for _, p := range pre[li] {
			switch p {
			case "lbb":
				w.write("\n")
			case "lbw":
				w.write("   \n")
			case "lbt":
				w.write("\t\n")
			case "lcs":
				w.write(ind + "# c\n")
			case "lc00":
				w.write("# c\n")
			case "lcd":
				w.write(ind + "         # c\n")
			case "lc1":
				w.write(" # c\n")
			}
		}
		w.write(ind)
		for i := l.first; i < l.end; i++ {
			t := &r.toks[i]
			if t.commaOK && comma[i] {
				// trailing comma: ", " before the closer (the preceding gap has been written)
				w.write(",")
				if !L.Tight {
					w.write(" ")
				}
			}
			r.tokPos[i] = w.pos()
			if t.lit != nil && t.lit.NoCRLF {
				w.writeRaw(t.text)
			} else {
				w.write(t.text)
			}
			r.tokEnd[i] = w.pos()
			if i+1 < l.end {
				if g, ok := gap[i]; ok {
					w.write(g)
				} else if L.Tight && mayTouch(t, &r.toks[i+1]) {
				} else {
					w.write(" ")
				}
			}
		}
		for _, p := range post[li] {
			switch p {
			case "lc":
				w.write(" # c")
			case "lc0":
				w.write("#c")
			case "ls":
				w.write("  ")
			case "lt":
				w.write("\t")
			case "lsemi":
				w.write(" ;")
			}
		}
		if li == len(r.lines)-1 {
			switch {
			case has("fnonl"):
			case has("fendc"):
				w.write("\n# end")
			case has("fendb"):
				w.write("\n\n\n")
			case has("fendw"):
				w.write("\n   ")
			case has("fendcn"):
				w.write("\n      # end\n")
			default:
				w.write("\n")
			}
		} else {
			w.write("\n")
		}
	}
	for g := range gap {
		// a gap deviation must sit between two tokens of one logical line
		okGap := false
		for li := range r.lines {
			if g >= r.lines[li].first && g+1 < r.lines[li].end {
				okGap = true
			}
		}
		if !okGap {
			return "", false
		}
	}
	r.assign()
	if w.sb.Len() > r.textSize {
		r.textSize = w.sb.Len()
	}
	return w.sb.String(), true
}

func (r *Rendered) assign() {
	at := func(i int) Pos {
		if i < 0 || i >= len(r.tokPos) {
			return Pos{}
		}
		return r.tokPos[i]
	}
	r.root.walk(func(n *Node) {
		if n.K == KBlock {
			return
		}
		n.Pos = at(n.firstTok)
		n.Parens = n.Parens[:0]
		n.RParens = n.RParens[:0]
		for _, t := range n.parenTok {
			n.Parens = append(n.Parens, at(t))
		}
		for _, t := range n.rparenTok {
			n.RParens = append(n.RParens, at(t))
		}
		for i, t := range n.auxTok {
			n.Aux[i] = at(t)
		}
		switch n.K {
		case KIdent, KInt, KFloat, KString, KBytes:
			n.End = r.tokEnd[n.firstTok]
		}
	})
}

// Devs enumerates every single deviation that applies to this text.
func (r *Rendered) Devs() []Dev {
	var out []Dev
	for li := range r.lines {
		l := &r.lines[li]
		for i := l.first; i+1 < l.end; i++ {
			for _, g := range gapDevs {
				if g.bracket && !r.toks[i].inBr {
					continue
				}
				if g.k == "g0" && !mayTouch(&r.toks[i], &r.toks[i+1]) {
					continue
				}
				out = append(out, Dev{g.k, i})
			}
		}
	}
	for li := range r.lines {
		for _, k := range lineDevs {
			if k == "lsemi" && !r.lines[li].simple {
				continue
			}
			out = append(out, Dev{k, li})
		}
	}
	for _, c := range r.commas {
		out = append(out, Dev{"tc", c})
	}
	for _, k := range fileDevs {
		out = append(out, Dev{k, 0})
	}
	return out
}

// ntoks is the number of tokens including one NEWLINE per logical line and
// the INDENT/OUTDENT pairs.
func (r *Rendered) ntoks() int { return len(r.toks) + len(r.lines) + 2*r.nblocks }
