package c14

import (
	"encoding/json"
	"fmt"
	"strings"
)

// Wide texts: a parse carries state from one construct to the next (the
// scanner's line and column, indentation stack, token buffers; any counter a
// parser keeps).  Every unit (each small expression and statement form) is
// therefore also parsed as the k-th of n equal neighbours, for every n of a
// ladder that straddles the powers of two and decades up to 4097, in every
// kind of sequence the grammar has.  The oracle is the same as elsewhere: the
// renderer records where each of the n copies starts, and the parser must
// return exactly that tree.

var wideContainers = []string{"list", "tuple", "dict", "call", "chain", "index-chain", "file", "semi", "def-body", "params", "if-chain", "comp-clauses"}

func wideWidths(thorough bool) []int {
	if thorough {
		return []int{5, 16, 17, 100, 255, 256, 257, 999, 1000, 1001, 1023, 1024, 1025, 4095, 4096, 4097}
	}
	return []int{5, 17, 256, 257, 1000, 1001, 1025}
}

// wideUnits: every expression of profile A of size <= 2 (all constructors
// once, around every leaf) and every statement of the statement profile of
// size <= 2.
func wideUnits() (exprs, stmts []*Node) {
	g := NewGen(exprProfileA())
	for s := 1; s <= 2; s++ {
		g.EachExpr(s, 3, func(n *Node) { exprs = append(exprs, n) })
	}
	gs := NewGen(stmtProfile())
	for s := 1; s <= 2; s++ {
		gs.EachFile(s, func(f *Node) {
			if len(f.Kids) == 1 && f.Kids[0].K != KLoad {
				stmts = append(stmts, f.Kids[0])
			}
		})
	}
	return
}

func copies(u *Node, n int) []*Node {
	out := make([]*Node, n)
	for i := range out {
		out[i] = u.clone()
	}
	return out
}

// wideTree builds the file for (container, unit, n); nil if the unit does not fit the container.
func wideTree(container string, u *Node, n int) *Node {
	if u.isExpr() {
		switch container {
		case "list":
			return wrapExpr(mk(KList, copies(u, n)...))
		case "tuple":
			return wrapExpr(mk(KTuple, copies(u, n)...))
		case "dict":
			var es []*Node
			for i := 0; i < n; i++ {
				es = append(es, mk(KDictEntry, u.clone(), u.clone()))
			}
			return wrapExpr(mk(KDict, es...))
		case "call":
			return wrapExpr(mk(KCall, append([]*Node{id("f")}, copies(u, n)...)...))
		case "chain":
			t := u.clone()
			for i := 1; i < n; i++ {
				t = &Node{K: KBinary, Op: "+", Kids: []*Node{t, u.clone()}}
			}
			return wrapExpr(t)
		case "index-chain":
			t := id("y")
			for i := 0; i < n; i++ {
				t = mk(KIndex, t, u.clone())
			}
			return wrapExpr(t)
		case "file":
			var ss []*Node
			for i := 0; i < n; i++ {
				ss = append(ss, mk(KExprStmt, u.clone()))
			}
			return mk(KFile, ss...)
		case "semi":
			var ss []*Node
			for i := 0; i < n; i++ {
				s := mk(KExprStmt, u.clone())
				s.Semi = i > 0
				ss = append(ss, s)
			}
			return mk(KFile, ss...)
		case "params":
			var ps []*Node
			for i := 0; i < n; i++ {
				ps = append(ps, &Node{K: KParamDefault, Name: "p", Kids: []*Node{u.clone()}})
			}
			return wrapExpr(mk(KLambda, append(ps, id("x"))...))
		case "if-chain":
			// if u: pass / elif u: pass / ... n arms
			var top, cur *Node
			for i := 0; i < n; i++ {
				arm := mk(KIf, u.clone(), mk(KBlock, &Node{K: KBranch, Op: "pass"}), nil)
				if top == nil {
					top = arm
				} else {
					cur.Kids[2] = arm
				}
				cur = arm
			}
			return mk(KFile, top)
		case "comp-clauses":
			cl := []*Node{id("x")}
			for i := 0; i < n; i++ {
				cl = append(cl, mk(KForClause, id("v"), mk(KParen, u.clone())))
			}
			return wrapExpr(mk(KListComp, cl...))
		}
		return nil
	}
	switch container {
	case "file":
		return mk(KFile, copies(u, n)...)
	case "semi":
		if !u.isSimpleStmt() {
			return nil
		}
		ss := copies(u, n)
		for i := 1; i < n; i++ {
			ss[i].Semi = true
		}
		return mk(KFile, ss...)
	case "def-body":
		return mk(KFile, &Node{K: KDef, Name: "f", Kids: []*Node{mk(KBlock, copies(u, n)...)}})
	}
	return nil
}

type wideCase struct {
	Container string `json:"container"`
	N         int    `json:"n"`
	Unit      *Node  `json:"unit"`
	CRLF      bool   `json:"crlf,omitempty"`
}

func judgeWide(wc wideCase) (src string, errs []string) {
	root := wideTree(wc.Container, wc.Unit, wc.N)
	if root == nil {
		return "", nil
	}
	rename(root)
	r := render1(root, false, nil)
	src, ok := r.Text(&Layout{CRLF: wc.CRLF})
	if !ok {
		return "", nil
	}
	return src, judgeTree(src, root, false, false)
}

func (w *worker) levelWide(thorough bool) bool {
	exprs, stmts := wideUnits()
	units := append(append([]*Node{}, exprs...), stmts...)
	for _, n := range wideWidths(thorough) {
		for _, container := range wideContainers {
			for _, u := range units {
				w.idx++
				if !w.c.Mine(w.idx) {
					continue
				}
				if w.c.Expired() {
					return false
				}
				for _, crlf := range []bool{false, true} {
					if crlf && n != 257 && n != 1025 {
						continue
					}
					wc := wideCase{Container: container, N: n, Unit: u, CRLF: crlf}
					src, errs := judgeWide(wc)
					if src == "" {
						continue
					}
					w.st.Evals++
					w.st.Nontrivial++
					w.st.Count("wide.texts", 1)
					w.st.Count("wide.bytes", int64(len(src)))
					if len(errs) == 0 {
						w.st.Outcome("wide-ok:" + container)
						continue
					}
					class := firstClass(errs)
					key := fmt.Sprintf("wide:%s:%s:n=%d:crlf=%v:%s", class, container, n, crlf, u.String())
					raw, _ := json.Marshal(wc)
					if len(errs) > 3 {
						errs = errs[:3]
					}
					w.violate("wide."+container+"."+class, key, strings.Join(errs, "; ")+" — text "+quote(src),
						violCase{Kind: "wide", Show: quote(src), Wide: raw})
				}
			}
		}
	}
	return true
}
