package c14

// Canonical printer for syntax.Node trees, in matcher form: it walks the tree
// the real parser returned and checks that the input's token stream (from the
// check's own tokeniser) is exactly a printing of that tree.  Tokens that the
// tree does not retain (optional trailing comma / semicolon, the redundant
// second colon of a slice, same-line versus indented suites) are accepted
// where the grammar makes them optional.  Any other difference means the
// parser read the text as something else than what it says.

import (
	"fmt"

	"go.starlark.net/syntax"
)

type matcher struct {
	toks []ltok
	i    int
	err  string
}

func (m *matcher) fail(format string, a ...any) {
	if m.err == "" {
		m.err = fmt.Sprintf("token %d: ", m.i) + fmt.Sprintf(format, a...)
	}
}

func (m *matcher) peek() string {
	if m.i < len(m.toks) {
		return m.toks[m.i].kind
	}
	return "<end>"
}

func (m *matcher) want(kind string) {
	if m.err != "" {
		return
	}
	if m.peek() != kind {
		m.fail("tree prints %q, text has %q", kind, m.peek())
		return
	}
	m.i++
}

func (m *matcher) wantText(kind, text string) {
	if m.err != "" {
		return
	}
	if m.peek() != kind || m.toks[m.i].text != text {
		got := m.peek()
		if m.i < len(m.toks) {
			got += " " + m.toks[m.i].text
		}
		m.fail("tree prints %s %q, text has %s", kind, text, got)
		return
	}
	m.i++
}

func (m *matcher) opt(kind string) bool {
	if m.err == "" && m.peek() == kind {
		m.i++
		return true
	}
	return false
}

// matchFile returns "" if toks is a printing of f.
func matchFile(f *syntax.File, toks []ltok) string {
	m := &matcher{toks: toks}
	m.stmts(f.Stmts)
	m.want("eof")
	if m.err == "" && m.i != len(toks) {
		m.fail("text continues after the tree ends")
	}
	return m.err
}

func isSimple(s syntax.Stmt) bool {
	switch s.(type) {
	case *syntax.DefStmt, *syntax.IfStmt, *syntax.ForStmt, *syntax.WhileStmt:
		return false
	}
	return true
}

func (m *matcher) stmts(list []syntax.Stmt) {
	for _, s := range list {
		if m.err != "" {
			return
		}
		if isSimple(s) {
			m.small(s)
			semi := m.opt(";")
			if m.peek() == "newline" {
				m.i++
			} else if !semi {
				m.want("newline")
			}
			continue
		}
		m.compound(s, false)
	}
}

func (m *matcher) suite(body []syntax.Stmt) {
	if m.opt("newline") {
		m.want("indent")
		m.stmts(body)
		m.want("outdent")
		return
	}
	m.stmts(body)
}

func (m *matcher) compound(s syntax.Stmt, elif bool) {
	switch s := s.(type) {
	case *syntax.DefStmt:
		m.want("def")
		m.wantText("identifier", s.Name.Name)
		m.want("(")
		m.list(s.Params, true)
		m.want(")")
		m.want(":")
		m.suite(s.Body)
	case *syntax.IfStmt:
		if elif {
			m.want("elif")
		} else {
			m.want("if")
		}
		m.expr(s.Cond)
		m.want(":")
		m.suite(s.True)
		if s.False != nil {
			if m.peek() == "elif" {
				if len(s.False) != 1 {
					m.fail("elif in text, tree has %d statements in False", len(s.False))
					return
				}
				m.compound(s.False[0], true)
				return
			}
			m.want("else")
			m.want(":")
			m.suite(s.False)
		}
	case *syntax.ForStmt:
		m.want("for")
		m.expr(s.Vars)
		m.want("in")
		m.expr(s.X)
		m.want(":")
		m.suite(s.Body)
	case *syntax.WhileStmt:
		m.want("while")
		m.expr(s.Cond)
		m.want(":")
		m.suite(s.Body)
	default:
		m.fail("unexpected statement %T", s)
	}
}

func (m *matcher) small(s syntax.Stmt) {
	switch s := s.(type) {
	case *syntax.ExprStmt:
		m.expr(s.X)
	case *syntax.AssignStmt:
		m.expr(s.LHS)
		m.want(s.Op.String())
		m.expr(s.RHS)
	case *syntax.ReturnStmt:
		m.want("return")
		if s.Result != nil {
			m.expr(s.Result)
		}
	case *syntax.BranchStmt:
		m.want(s.Token.String())
	case *syntax.LoadStmt:
		m.want("load")
		m.want("(")
		m.wantText("string", s.Module.Raw)
		for i := range s.From {
			m.want(",")
			if s.To[i] != s.From[i] {
				m.wantText("identifier", s.To[i].Name)
				m.want("=")
			}
			if m.peek() == "string" && len(m.toks[m.i].text) >= 2 && m.toks[m.i].text[1:len(m.toks[m.i].text)-1] == s.From[i].Name {
				m.i++
			} else {
				m.fail("tree prints load symbol %q", s.From[i].Name)
			}
		}
		m.opt(",")
		m.want(")")
	default:
		m.fail("unexpected statement %T", s)
	}
}

// list prints comma-separated items; a trailing comma is optional.
func (m *matcher) list(es []syntax.Expr, trailing bool) {
	for i, e := range es {
		if i > 0 {
			m.want(",")
		}
		m.expr(e)
	}
	if trailing && len(es) > 0 {
		m.opt(",")
	}
}

func (m *matcher) tuple(t *syntax.TupleExpr, inParens bool) {
	m.list(t.List, false)
	if len(t.List) == 1 {
		m.want(",")
	} else if inParens {
		m.opt(",")
	}
}

func (m *matcher) expr(e syntax.Expr) {
	if m.err != "" {
		return
	}
	switch e := e.(type) {
	case *syntax.Ident:
		m.wantText("identifier", e.Name)
	case *syntax.Literal:
		kind := map[syntax.Token]string{syntax.INT: "int", syntax.FLOAT: "float", syntax.STRING: "string", syntax.BYTES: "bytes"}[e.Token]
		m.wantText(kind, e.Raw)
	case *syntax.ParenExpr:
		m.want("(")
		if t, ok := e.X.(*syntax.TupleExpr); ok && !t.Lparen.IsValid() {
			m.tuple(t, true)
		} else {
			m.expr(e.X)
		}
		m.want(")")
	case *syntax.TupleExpr:
		if len(e.List) == 0 {
			m.want("(")
			m.want(")")
			return
		}
		m.tuple(e, false)
	case *syntax.UnaryExpr:
		m.want(e.Op.String())
		if e.X != nil {
			m.expr(e.X)
		}
	case *syntax.BinaryExpr:
		m.expr(e.X)
		if e.Op == syntax.NOT_IN {
			m.want("not")
			m.want("in")
		} else {
			m.want(e.Op.String())
		}
		m.expr(e.Y)
	case *syntax.CondExpr:
		m.expr(e.True)
		m.want("if")
		m.expr(e.Cond)
		m.want("else")
		m.expr(e.False)
	case *syntax.LambdaExpr:
		m.want("lambda")
		m.list(e.Params, false)
		m.want(":")
		m.expr(e.Body)
	case *syntax.ListExpr:
		m.want("[")
		m.list(e.List, true)
		m.want("]")
	case *syntax.DictExpr:
		m.want("{")
		m.list(e.List, true)
		m.want("}")
	case *syntax.DictEntry:
		m.expr(e.Key)
		m.want(":")
		m.expr(e.Value)
	case *syntax.Comprehension:
		open, close := "[", "]"
		if e.Curly {
			open, close = "{", "}"
		}
		m.want(open)
		m.expr(e.Body)
		for _, c := range e.Clauses {
			switch c := c.(type) {
			case *syntax.ForClause:
				m.want("for")
				m.expr(c.Vars)
				m.want("in")
				m.expr(c.X)
			case *syntax.IfClause:
				m.want("if")
				m.expr(c.Cond)
			}
		}
		m.want(close)
	case *syntax.CallExpr:
		m.expr(e.Fn)
		m.want("(")
		m.list(e.Args, true)
		m.want(")")
	case *syntax.IndexExpr:
		m.expr(e.X)
		m.want("[")
		m.expr(e.Y)
		m.want("]")
	case *syntax.SliceExpr:
		m.expr(e.X)
		m.want("[")
		if e.Lo != nil {
			m.expr(e.Lo)
		}
		m.want(":")
		if e.Hi != nil {
			m.expr(e.Hi)
		}
		if e.Step != nil {
			m.want(":")
			m.expr(e.Step)
		} else {
			m.opt(":")
		}
		m.want("]")
	case *syntax.DotExpr:
		m.expr(e.X)
		m.want(".")
		m.wantText("identifier", e.Name.Name)
	default:
		m.fail("unexpected expression %T", e)
	}
}
