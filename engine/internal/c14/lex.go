package c14

// The check's own tokeniser, used only for near-miss texts (which the check
// itself writes in canonical single-space layout, spaces-only indentation,
// plain literals).  It synthesises newline / indent / outdent the way the
// Python reference describes: a stack of indentation widths, no layout tokens
// inside brackets, blank and comment-only lines ignored.

import (
	"fmt"
	"strings"
	"unicode"
	"unicode/utf8"
)

type ltok struct {
	kind string // grammar terminal: identifier int float string bytes newline indent outdent eof, or the token text itself
	text string
}

var keywords = map[string]bool{"and": true, "break": true, "continue": true, "def": true, "elif": true, "else": true, "for": true, "if": true,
	"in": true, "lambda": true, "load": true, "not": true, "or": true, "pass": true, "return": true, "while": true}

var reserved = map[string]bool{"as": true, "async": true, "await": true, "class": true, "del": true, "except": true, "finally": true, "from": true,
	"global": true, "import": true, "is": true, "nonlocal": true, "raise": true, "try": true, "with": true, "yield": true}

// punctuation, longest first
var punctByLen = func() []string {
	ps := append([]string(nil), punctTokens...)
	for i := range ps {
		for j := i + 1; j < len(ps); j++ {
			if len(ps[j]) > len(ps[i]) {
				ps[i], ps[j] = ps[j], ps[i]
			}
		}
	}
	return ps
}()

func isLetter(r rune) bool {
	return r == '_' || 'a' <= r && r <= 'z' || 'A' <= r && r <= 'Z' || r >= utf8.RuneSelf && unicode.IsLetter(r)
}
func isDigit(r rune) bool { return '0' <= r && r <= '9' }

// lexText tokenises src. An error means the text is lexically malformed
// (which makes it a non-member) or uses something outside the subset this
// tokeniser supports (unsupported=true: the text must not be judged).
func lexText(src string) (toks []ltok, unsupported bool, err error) {
	indents := []int{0}
	depth := 0
	i := 0
	n := len(src)
	lineStart := true
	emittedOnLine := false
	for i < n {
		if lineStart {
			w := 0
			j := i
			for j < n && src[j] == ' ' {
				w++
				j++
			}
			if j < n && src[j] == '\t' {
				return nil, true, fmt.Errorf("tab in indentation")
			}
			if j >= n || src[j] == '\n' || src[j] == '#' {
				// blank line
				for j < n && src[j] != '\n' {
					j++
				}
				if j < n {
					j++
				}
				i = j
				continue
			}
			i = j
			lineStart = false
			if depth == 0 {
				top := indents[len(indents)-1]
				if w > top {
					indents = append(indents, w)
					toks = append(toks, ltok{"indent", ""})
				} else if w < top {
					for len(indents) > 1 && w < indents[len(indents)-1] {
						indents = indents[:len(indents)-1]
						toks = append(toks, ltok{"outdent", ""})
					}
					if w != indents[len(indents)-1] {
						return toks, false, fmt.Errorf("inconsistent dedent")
					}
				}
			}
		}
		c := src[i]
		switch {
		case c == ' ':
			i++
		case c == '\t' || c == '\r' || c == '\\':
			return nil, true, fmt.Errorf("unsupported character %q", c)
		case c == '#':
			for i < n && src[i] != '\n' {
				i++
			}
		case c == '\n':
			i++
			if depth > 0 {
				continue // no layout tokens inside brackets; leading spaces are skipped as ordinary spaces
			}
			if emittedOnLine {
				toks = append(toks, ltok{"newline", ""})
			}
			emittedOnLine = false
			lineStart = true
		case c == '"' || c == '\'':
			j, ok := lexString(src, i)
			if !ok {
				return toks, false, fmt.Errorf("unterminated string")
			}
			toks = append(toks, ltok{"string", src[i:j]})
			i = j
			emittedOnLine = true
		case isDigit(rune(c)) || c == '.' && i+1 < n && isDigit(rune(src[i+1])):
			j, kind, ok := lexNumber(src, i)
			if !ok {
				return nil, true, fmt.Errorf("number form outside the tokeniser's subset")
			}
			toks = append(toks, ltok{kind, src[i:j]})
			i = j
			emittedOnLine = true
		default:
			r, sz := utf8.DecodeRuneInString(src[i:])
			if isLetter(r) {
				j := i + sz
				for j < n {
					r2, s2 := utf8.DecodeRuneInString(src[j:])
					if !isLetter(r2) && !isDigit(r2) {
						break
					}
					j += s2
				}
				w := src[i:j]
				if (w == "b" || w == "r" || w == "rb") && j < n && (src[j] == '"' || src[j] == '\'') {
					if w != "b" {
						return nil, true, fmt.Errorf("raw strings are outside the tokeniser's subset")
					}
					k, ok := lexString(src, j)
					if !ok {
						return toks, false, fmt.Errorf("unterminated string")
					}
					toks = append(toks, ltok{"bytes", src[i:k]})
					i = k
					emittedOnLine = true
					continue
				}
				switch {
				case keywords[w]:
					toks = append(toks, ltok{w, w})
				case reserved[w]:
					toks = append(toks, ltok{"reserved", w})
				default:
					toks = append(toks, ltok{"identifier", w})
				}
				i = j
				emittedOnLine = true
				continue
			}
			matched := false
			for _, p := range punctByLen {
				if strings.HasPrefix(src[i:], p) {
					switch p {
					case "(", "[", "{":
						depth++
					case ")", "]", "}":
						if depth > 0 {
							depth--
						}
					}
					toks = append(toks, ltok{p, p})
					i += len(p)
					matched = true
					emittedOnLine = true
					break
				}
			}
			if !matched {
				return toks, false, fmt.Errorf("illegal character %q", c)
			}
		}
	}
	if emittedOnLine && depth == 0 {
		toks = append(toks, ltok{"newline", ""})
	}
	for len(indents) > 1 {
		indents = indents[:len(indents)-1]
		toks = append(toks, ltok{"outdent", ""})
	}
	toks = append(toks, ltok{"eof", ""})
	return toks, false, nil
}

// lexString handles "..." and '...' without newlines; a backslash protects
// the next character.  Triple quotes are outside the subset and are reported
// as unterminated only if they really are.
func lexString(src string, i int) (end int, ok bool) {
	q := src[i]
	j := i + 1
	for j < len(src) {
		switch src[j] {
		case '\\':
			j += 2
			continue
		case '\n':
			return 0, false
		case q:
			return j + 1, true
		}
		j++
	}
	return 0, false
}

// lexNumber: decimal ints without leading zero, and floats of the form
// digits '.' digits; everything else is reported as outside the subset.
func lexNumber(src string, i int) (end int, kind string, ok bool) {
	j := i
	for j < len(src) && isDigit(rune(src[j])) {
		j++
	}
	kind = "int"
	if j < len(src) && src[j] == '.' {
		k := j + 1
		for k < len(src) && isDigit(rune(src[k])) {
			k++
		}
		kind = "float"
		j = k
	}
	if kind == "int" && j-i > 1 && src[i] == '0' {
		return 0, "", false
	}
	if j < len(src) {
		r, _ := utf8.DecodeRuneInString(src[j:])
		if isLetter(r) || isDigit(r) {
			return 0, "", false
		}
	}
	return j, kind, true
}

func kindString(toks []ltok) string {
	var sb strings.Builder
	for i, t := range toks {
		if i > 0 {
			sb.WriteByte(' ')
		}
		sb.WriteString(t.kind)
	}
	return sb.String()
}
