package c14

// The pure operator-precedence profile: every way to nest k "operators"
// (binary, unary, conditional, lambda, suffixes and the contexts in which
// lambda / conditional / 'in' interact with neighbouring syntax), all other
// operand slots being plain identifiers.

type opDef struct {
	name  string
	slots int
	rep   bool // representative of its precedence level (used for the deep levels)
	build func(k []*Node) *Node
}

func precOps() []opDef {
	var ops []opDef
	reps := map[string]bool{"or": true, "and": true, "<": true, "in": true, "not in": true, "|": true, "^": true, "&": true, "<<": true, "+": true, "*": true}
	for _, op := range binaryOps {
		op := op
		ops = append(ops, opDef{"bin " + op, 2, reps[op], func(k []*Node) *Node { return bin(op, k[0], k[1]) }})
	}
	for _, op := range unaryOps {
		op := op
		ops = append(ops, opDef{"un " + op, 1, op == "-" || op == "not", func(k []*Node) *Node { return un(op, k[0]) }})
	}
	x := func() *Node { return id("x") }
	ops = append(ops,
		opDef{"cond", 3, true, func(k []*Node) *Node { return cond(k[0], k[1], k[2]) }},
		opDef{"lambda", 1, true, func(k []*Node) *Node { return mk(KLambda, k[0]) }},
		opDef{"lambda-default", 2, false, func(k []*Node) *Node { return mk(KLambda, mkn(KParamDefault, "p", k[0]), k[1]) }},
		opDef{"dot", 1, true, func(k []*Node) *Node { return mkn(KDot, "f", k[0]) }},
		opDef{"index", 2, true, func(k []*Node) *Node { return mk(KIndex, k[0], k[1]) }},
		opDef{"call", 2, false, func(k []*Node) *Node { return mk(KCall, k[0], k[1]) }},
		opDef{"call-named", 2, false, func(k []*Node) *Node { return mk(KCall, k[0], mkn(KArgNamed, "k", k[1])) }},
		opDef{"call-star", 2, false, func(k []*Node) *Node { return mk(KCall, k[0], mk(KArgStar, k[1])) }},
		opDef{"slice", 3, false, func(k []*Node) *Node { return &Node{K: KSlice, Kids: []*Node{k[0], k[1], k[2], nil}} }},
		opDef{"slice-step", 2, false, func(k []*Node) *Node { return &Node{K: KSlice, Kids: []*Node{k[0], nil, nil, k[1]}} }},
		opDef{"tuple", 2, true, func(k []*Node) *Node { return mk(KTuple, k[0], k[1]) }},
		opDef{"list", 2, false, func(k []*Node) *Node { return mk(KList, k[0], k[1]) }},
		opDef{"dict", 2, false, func(k []*Node) *Node { return mk(KDict, mk(KDictEntry, k[0], k[1])) }},
		opDef{"comp-body", 1, false, func(k []*Node) *Node { return mk(KListComp, k[0], mk(KForClause, x(), x())) }},
		opDef{"comp-in", 1, true, func(k []*Node) *Node { return mk(KListComp, x(), mk(KForClause, x(), k[0])) }},
		opDef{"comp-if", 1, false, func(k []*Node) *Node { return mk(KListComp, x(), mk(KForClause, x(), x()), mk(KIfClause, k[0])) }},
		opDef{"dictcomp-entry", 2, false, func(k []*Node) *Node { return mk(KDictComp, mk(KDictEntry, k[0], k[1]), mk(KForClause, x(), x())) }},
	)
	return ops
}

type opGen struct {
	ops  []opDef
	memo map[int][]*Node
}

func newOpGen(ops []opDef) *opGen { return &opGen{ops: ops, memo: map[int][]*Node{0: {id("x")}}} }

func (g *opGen) trees(k int) []*Node {
	if l, ok := g.memo[k]; ok {
		return l
	}
	var out []*Node
	g.each(k, func(n *Node) { out = append(out, n) })
	g.memo[k] = out
	return out
}

// each streams all trees with exactly k operator nodes.
func (g *opGen) each(k int, yield func(*Node)) {
	if k == 0 {
		yield(id("x"))
		return
	}
	for _, op := range g.ops {
		op := op
		weak(k-1, op.slots, func(parts []int) {
			lists := make([][]*Node, op.slots)
			for i, p := range parts {
				lists[i] = g.trees(p)
			}
			product(lists, func(sel []*Node) { yield(op.build(cp(sel))) })
		})
	}
}

// weak calls f with every way to write total as an ordered sum of k non-negative integers.
func weak(total, k int, f func(parts []int)) {
	parts := make([]int, k)
	var rec func(i, left int)
	rec = func(i, left int) {
		if i == k-1 {
			parts[i] = left
			f(parts)
			return
		}
		for a := 0; a <= left; a++ {
			parts[i] = a
			rec(i+1, left-a)
		}
	}
	rec(0, total)
}

// coreOps: one operator per precedence class, for the deepest level.
func coreOps(ops []opDef) []opDef {
	core := map[string]bool{"lambda": true, "cond": true, "bin or": true, "un not": true, "bin <": true, "bin in": true, "bin |": true, "bin +": true, "un -": true, "index": true}
	var out []opDef
	for _, o := range ops {
		if core[o.name] {
			out = append(out, o)
		}
	}
	return out
}

func repOps(ops []opDef) []opDef {
	var out []opDef
	for _, o := range ops {
		if o.rep {
			out = append(out, o)
		}
	}
	return out
}
