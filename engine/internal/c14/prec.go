package c14

// Operator precedence and associativity, written down from doc/spec.md
// ("Binary operators": the table "in order of increasing precedence", the
// sentence on non-associative comparisons; "Unary operators": + - ~ apply to
// a PrimaryExpr, 'not' to a Test) and syntax/grammar.txt (IfExpr, LambdaExpr,
// PrimaryExpr suffixes, Expression = Test {',' Test}).  Nothing here is
// derived from parse.go's preclevels table.
//
// A level is the binding strength of an expression's outermost construct;
// a slot demands a minimum level; the renderer writes parentheses exactly
// when level(child) < need(slot).

const (
	lvTuple   = -1 // a, b          (Expression, only where the grammar says Expression)
	lvLambda  = 0  // lambda ...: Test        (any Test)
	lvCond    = 1  // x if c else y           (else-branch is a Test: nests to the right)
	lvOr      = 2
	lvAnd     = 3
	lvNot     = 4 // not x : binds tighter than and/or, looser than comparisons
	lvCmp     = 5 // == != < > <= >= in 'not in'   (non-associative)
	lvPipe    = 6
	lvCaret   = 7
	lvAmp     = 8
	lvShift   = 9
	lvAdd     = 10
	lvMul     = 11
	lvUnary   = 12 // + - ~ applied to a PrimaryExpr (or another unary)
	lvPrimary = 13 // operands and operand suffix...
)

// binLevel: spec.md "Binary operators", one row per level, lowest first.
var binLevel = map[string]int{
	"or":  lvOr,
	"and": lvAnd,
	"==":  lvCmp, "!=": lvCmp, "<": lvCmp, ">": lvCmp, "<=": lvCmp, ">=": lvCmp, "in": lvCmp, "not in": lvCmp,
	"|":  lvPipe,
	"^":  lvCaret,
	"&":  lvAmp,
	"<<": lvShift, ">>": lvShift,
	"-": lvAdd, "+": lvAdd,
	"*": lvMul, "/": lvMul, "//": lvMul, "%": lvMul,
}

// binaryOps in a fixed order (maps are never ranged over when enumerating).
var binaryOps = []string{"or", "and", "==", "!=", "<", ">", "<=", ">=", "in", "not in", "|", "^", "&", "<<", ">>", "-", "+", "*", "/", "//", "%"}
var unaryOps = []string{"+", "-", "~", "not"}
var augOps = []string{"=", "+=", "-=", "*=", "/=", "//=", "%=", "&=", "|=", "^=", "<<=", ">>="}

func level(n *Node) int {
	switch n.K {
	case KTuple:
		return lvTuple
	case KLambda:
		return lvLambda
	case KCond:
		return lvCond
	case KBinary:
		return binLevel[n.Op]
	case KUnary:
		if n.Op == "not" {
			return lvNot
		}
		return lvUnary
	}
	return lvPrimary
}

// operandNeed returns the minimum level of the i-th operand of an operator node.
func operandNeed(n *Node, i int) int {
	switch n.K {
	case KBinary:
		l := binLevel[n.Op]
		if l == lvCmp {
			return l + 1 // non-associative: neither side may be a bare comparison
		}
		if i == 0 {
			return l // left-associative
		}
		return l + 1
	case KUnary:
		if n.Op == "not" {
			return lvNot
		}
		return lvUnary
	case KCond:
		if i == 2 {
			return lvLambda // else-branch: any Test
		}
		return lvOr
	}
	return lvLambda
}
