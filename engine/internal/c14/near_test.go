package c14

import "testing"

// Verdicts of the independent recogniser (and of the unchanged parser) on
// hand-written texts: a regression test for the grammar data in earley.go.

func TestNearVerdicts(t *testing.T) {
	r := newRecog()
	for _, c := range []struct{ text, want string }{
		{"a + c\n", "member-ok"},
		{"a < c < d\n", "nonmember-parser"},
		{"for a , in c : pass\n", "nonmember-parser"},
		{"[ a for c , in d ]\n", "nonmember-parser"},
		{"if a :\nc\n", "nonmember-parser"},
		{"if a :\n    c\n  d\n", "nonmember-parser"},
		{"if a :\n        c\n", "member-ok"},
		{"a = c = d\n", "nonmember-parser"},
		{"a + 1 = c\n", "member-ok"},
		{"f ( a = 1 , c )\n", "member-ok"},
		{"f ( a + 1 = 2 )\n", "nonmember-parser"},
		{"x = 1 ,\n", "nonmember-parser"},
		{"a [ 1 , ]\n", "nonmember-parser"},
		{"a [ ]\n", "skipped-ambiguous"},
		{"a [ : : ]\n", "member-ok"},
		{"[ a if c ]\n", "skipped-ambiguous"},
		{"[ a for c in d if e else f ]\n", "skipped-ambiguous"},
		{"a == not c\n", "skipped-ambiguous"},
		{"a or lambda : c\n", "skipped-ambiguous"},
		{"not lambda : c\n", "skipped-ambiguous"},
		{"- not a\n", "nonmember-parser"},
		{"load ( \"m\" )\n", "skipped-ambiguous"},
		{"load ( \"m\" , \"a\" , )\n", "member-ok"},
		{"load ( \"m\" , a = \"c\" )\n", "member-ok"},
		{"load ( \"m\" , b\"a\" )\n", "nonmember-parser"},
		{"lambda a , : a\n", "nonmember-parser"},
		{"def f ( a , ) : pass\n", "member-ok"},
		{"def f ( ) :\n", "nonmember-parser"},
		{"a ; ; c\n", "nonmember-parser"},
		{"a ; c ;\n", "member-ok"},
		{"if a : pass ; pass\n", "member-ok"},
		{"if a : if c : pass\n", "nonmember-parser"},
		{"( a , )\n", "member-ok"},
		{"( , )\n", "nonmember-parser"},
		{"a if c else d if e else f\n", "member-ok"},
		{"a if c if d else e else f\n", "skipped-ambiguous"},
		{"lambda : a if c else d\n", "member-ok"},
		{"for - a in c : pass\n", "skipped-ambiguous"},
		{"- - a\n", "member-ok"},
		{"a not in c\n", "member-ok"},
		{"a not c\n", "nonmember-parser"},
		{"a in in c\n", "nonmember-parser"},
		{"class\n", "nonmember-parser"},
		{"a . 5\n", "nonmember-parser"},
		{"1 . f\n", "member-ok"},
		{")\n", "nonmember-parser"},
		{"( a\n", "nonmember-parser"},
		{"return\n", "member-ok"},
		{"x = [ a\n, c ]\n", "member-ok"},
		{"{ a : c for d in e }\n", "member-ok"},
		{"{ a for d in e }\n", "nonmember-parser"},
		{"f ( * a , ** c , )\n", "member-ok"},
		{"f ( * )\n", "nonmember-parser"},
		{"def f ( * ) : pass\n", "member-ok"},
		{"def f ( * , ) : pass\n", "member-ok"},
		{"a [ 1 : 2 : 3 : 4 ]\n", "nonmember-parser"},
		{"a [ c , d : e ]\n", "member-ok"},
		{"a [ c : d , e ]\n", "nonmember-parser"},
	} {
		v := r.judgeNear(c.text)
		if v.class != c.want {
			t.Errorf("%q: verdict %s %s, expected %s", c.text, v.class, v.viol, c.want)
		}
	}
}
