package c14

// Structural comparer: private tree (with the positions the renderer
// recorded) against the syntax.Node tree returned by the real parser.

import (
	"fmt"
	"math"
	"math/big"

	"go.starlark.net/syntax"
)

type cmpr struct {
	errs []string
}

func (c *cmpr) bad(class string, n *Node, format string, a ...any) {
	if len(c.errs) < 4 {
		where := ""
		if n != nil {
			where = fmt.Sprintf(" at %s node @%s", n.K, n.Pos)
		}
		c.errs = append(c.errs, class+": "+fmt.Sprintf(format, a...)+where)
	}
}

func posEq(p syntax.Position, q Pos) bool { return p.Line == q.Line && p.Col == q.Col }

func (c *cmpr) start(n *Node, s syntax.Node) {
	st, _ := s.Span()
	if !posEq(st, n.Pos) {
		c.bad("pos", n, "Span() start %d:%d, text has it at %s", st.Line, st.Col, n.Pos)
	}
}

func (c *cmpr) tokpos(n *Node, what string, p syntax.Position, q Pos) {
	if !posEq(p, q) {
		c.bad("tokpos", n, "%s reported at %d:%d, text has it at %s", what, p.Line, p.Col, q)
	}
}

// compareFile compares a KFile tree with a parsed file. It returns a list of
// disagreements, each prefixed with its class (kind, op, pos, value, ...).
func compareFile(n *Node, f *syntax.File) []string {
	c := &cmpr{}
	c.stmts(n, n.Kids, f.Stmts)
	if len(n.Kids) > 0 && len(f.Stmts) > 0 {
		st, _ := f.Span()
		first := n.Kids[0]
		if !posEq(st, outerPos(first)) {
			c.bad("pos", n, "File.Span() start %d:%d, first statement is at %s", st.Line, st.Col, outerPos(first))
		}
	}
	return c.errs
}

// outerPos is where the node's text starts including parentheses around it.
func outerPos(n *Node) Pos {
	if len(n.Parens) > 0 {
		return n.Parens[0]
	}
	return n.Pos
}

func (c *cmpr) stmts(parent *Node, ns []*Node, ss []syntax.Stmt) {
	if len(ns) != len(ss) {
		c.bad("kind", parent, "%d statements, parser returned %d", len(ns), len(ss))
		return
	}
	for i := range ns {
		c.stmt(ns[i], ss[i])
	}
}

func (c *cmpr) stmt(n *Node, s syntax.Stmt) {
	if len(c.errs) > 0 {
		return
	}
	switch n.K {
	case KExprStmt:
		x, ok := s.(*syntax.ExprStmt)
		if !ok {
			c.bad("kind", n, "parser returned %T", s)
			return
		}
		c.expr(n.Kids[0], x.X)
		c.start(n, x)
	case KAssign:
		x, ok := s.(*syntax.AssignStmt)
		if !ok {
			c.bad("kind", n, "parser returned %T", s)
			return
		}
		if x.Op.String() != n.Op {
			c.bad("op", n, "assignment operator %s, parser returned %s", n.Op, x.Op)
		}
		c.expr(n.Kids[0], x.LHS)
		c.expr(n.Kids[1], x.RHS)
		c.start(n, x)
		c.tokpos(n, "OpPos", x.OpPos, n.Aux[0])
	case KReturn:
		x, ok := s.(*syntax.ReturnStmt)
		if !ok {
			c.bad("kind", n, "parser returned %T", s)
			return
		}
		if (n.Kids[0] == nil) != (x.Result == nil) {
			c.bad("kind", n, "return operand presence differs")
			return
		}
		if n.Kids[0] != nil {
			c.expr(n.Kids[0], x.Result)
		}
		c.start(n, x)
	case KBranch:
		x, ok := s.(*syntax.BranchStmt)
		if !ok {
			c.bad("kind", n, "parser returned %T", s)
			return
		}
		if x.Token.String() != n.Op {
			c.bad("op", n, "%s, parser returned %s", n.Op, x.Token)
		}
		c.start(n, x)
	case KLoad:
		x, ok := s.(*syntax.LoadStmt)
		if !ok {
			c.bad("kind", n, "parser returned %T", s)
			return
		}
		c.start(n, x)
		if x.Module == nil || x.Module.Token != syntax.STRING || x.Module.Value != any(n.Lit.Str) {
			c.bad("value", n, "load module %q differs", n.Lit.Str)
			return
		}
		c.tokpos(n, "Module", x.Module.TokenPos, n.Aux[0])
		c.tokpos(n, "Rparen", x.Rparen, n.Aux[1])
		if len(x.From) != len(n.Kids) || len(x.To) != len(n.Kids) {
			c.bad("kind", n, "%d load symbols, parser returned %d/%d", len(n.Kids), len(x.From), len(x.To))
			return
		}
		for i, sym := range n.Kids {
			from, to := x.From[i], x.To[i]
			if from.Name != sym.Lit.Str {
				c.bad("value", sym, "load: original name %q, parser returned %q", sym.Lit.Str, from.Name)
			}
			inner := Pos{sym.Pos.Line, sym.Pos.Col + 1} // the name starts after the quote
			c.tokpos(sym, "From.NamePos", from.NamePos, inner)
			local := sym.Name
			lp := inner
			if local == "" {
				local = sym.Lit.Str
			} else {
				lp = sym.Aux[0]
			}
			if to.Name != local {
				c.bad("value", sym, "load: local name %q, parser returned %q", local, to.Name)
			}
			c.tokpos(sym, "To.NamePos", to.NamePos, lp)
		}
	case KDef:
		x, ok := s.(*syntax.DefStmt)
		if !ok {
			c.bad("kind", n, "parser returned %T", s)
			return
		}
		c.start(n, x)
		if x.Name.Name != n.Name {
			c.bad("value", n, "def name %s, parser returned %s", n.Name, x.Name.Name)
		}
		c.tokpos(n, "Name", x.Name.NamePos, n.Aux[0])
		c.tokpos(n, "Lparen", x.Lparen, n.Aux[1])
		c.tokpos(n, "Rparen", x.Rparen, n.Aux[2])
		np := len(n.Kids) - 1
		c.params(n, n.Kids[:np], x.Params)
		c.stmts(n, n.Kids[np].Kids, x.Body)
	case KIf:
		x, ok := s.(*syntax.IfStmt)
		if !ok {
			c.bad("kind", n, "parser returned %T", s)
			return
		}
		c.start(n, x)
		c.expr(n.Kids[0], x.Cond)
		c.stmts(n, n.Kids[1].Kids, x.True)
		switch e := n.Kids[2]; {
		case e == nil:
			if x.False != nil {
				c.bad("kind", n, "no else branch, parser returned one")
			}
		case e.K == KIf:
			if len(x.False) != 1 {
				c.bad("kind", n, "elif, parser returned %d statements in False", len(x.False))
				return
			}
			c.tokpos(n, "ElsePos", x.ElsePos, n.Aux[0])
			c.stmt(e, x.False[0])
		default:
			c.tokpos(n, "ElsePos", x.ElsePos, n.Aux[0])
			c.stmts(n, e.Kids, x.False)
		}
	case KFor:
		x, ok := s.(*syntax.ForStmt)
		if !ok {
			c.bad("kind", n, "parser returned %T", s)
			return
		}
		c.start(n, x)
		c.expr(n.Kids[0], x.Vars)
		c.expr(n.Kids[1], x.X)
		c.stmts(n, n.Kids[2].Kids, x.Body)
	case KWhile:
		x, ok := s.(*syntax.WhileStmt)
		if !ok {
			c.bad("kind", n, "parser returned %T", s)
			return
		}
		c.start(n, x)
		c.expr(n.Kids[0], x.Cond)
		c.stmts(n, n.Kids[1].Kids, x.Body)
	default:
		c.bad("kind", n, "harness: unexpected statement kind")
	}
}

func (c *cmpr) params(parent *Node, ns []*Node, es []syntax.Expr) {
	if len(ns) != len(es) {
		c.bad("kind", parent, "%d parameters, parser returned %d", len(ns), len(es))
		return
	}
	for i, p := range ns {
		c.item(p, es[i])
	}
}

// item compares a parameter, an argument, or a plain expression.
func (c *cmpr) item(n *Node, e syntax.Expr) {
	switch n.K {
	case KParam:
		x, ok := e.(*syntax.Ident)
		if !ok {
			c.bad("kind", n, "parameter: parser returned %T", e)
			return
		}
		if x.Name != n.Name {
			c.bad("value", n, "parameter %s, parser returned %s", n.Name, x.Name)
		}
		c.start(n, x)
	case KParamDefault, KArgNamed:
		x, ok := e.(*syntax.BinaryExpr)
		if !ok || x.Op != syntax.EQ {
			c.bad("kind", n, "name=value: parser returned %T", e)
			return
		}
		id, ok := x.X.(*syntax.Ident)
		if !ok || id.Name != n.Name {
			c.bad("value", n, "name %s differs", n.Name)
			return
		}
		c.start(n, x)
		c.tokpos(n, "OpPos(=)", x.OpPos, n.Aux[0])
		c.expr(n.Kids[0], x.Y)
	case KParamStar, KParamStarStar, KArgStar, KArgStarStar:
		x, ok := e.(*syntax.UnaryExpr)
		want := syntax.STAR
		if n.K == KParamStarStar || n.K == KArgStarStar {
			want = syntax.STARSTAR
		}
		if !ok || x.Op != want {
			c.bad("kind", n, "star item: parser returned %T", e)
			return
		}
		c.start(n, x)
		switch n.K {
		case KArgStar, KArgStarStar:
			if x.X == nil {
				c.bad("kind", n, "star argument without operand")
				return
			}
			c.expr(n.Kids[0], x.X)
		default:
			if (n.Name == "") != (x.X == nil) {
				c.bad("kind", n, "star parameter name presence differs")
				return
			}
			if n.Name != "" {
				id, ok := x.X.(*syntax.Ident)
				if !ok || id.Name != n.Name {
					c.bad("value", n, "star parameter name %s differs", n.Name)
					return
				}
				c.tokpos(n, "name", id.NamePos, n.Aux[0])
			}
		}
	case KDictEntry:
		x, ok := e.(*syntax.DictEntry)
		if !ok {
			c.bad("kind", n, "dict entry: parser returned %T", e)
			return
		}
		c.expr(n.Kids[0], x.Key)
		c.expr(n.Kids[1], x.Value)
		c.start(n, x)
		c.tokpos(n, "Colon", x.Colon, n.Aux[0])
	default:
		c.expr(n, e)
	}
}

func (c *cmpr) items(parent *Node, ns []*Node, es []syntax.Expr) {
	if len(ns) != len(es) {
		c.bad("kind", parent, "%d elements, parser returned %d", len(ns), len(es))
		return
	}
	for i := range ns {
		c.item(ns[i], es[i])
	}
}

func (c *cmpr) clauses(parent *Node, ns []*Node, cs []syntax.Node) {
	if len(ns) != len(cs) {
		c.bad("kind", parent, "%d clauses, parser returned %d", len(ns), len(cs))
		return
	}
	for i, n := range ns {
		switch n.K {
		case KForClause:
			x, ok := cs[i].(*syntax.ForClause)
			if !ok {
				c.bad("kind", n, "for clause: parser returned %T", cs[i])
				return
			}
			c.start(n, x)
			c.tokpos(n, "In", x.In, n.Aux[1])
			c.expr(n.Kids[0], x.Vars)
			c.expr(n.Kids[1], x.X)
		case KIfClause:
			x, ok := cs[i].(*syntax.IfClause)
			if !ok {
				c.bad("kind", n, "if clause: parser returned %T", cs[i])
				return
			}
			c.start(n, x)
			c.expr(n.Kids[0], x.Cond)
		}
	}
}

func (c *cmpr) expr(n *Node, e syntax.Expr) {
	if len(c.errs) > 0 {
		return
	}
	if e == nil {
		c.bad("kind", n, "parser returned no expression")
		return
	}
	// parentheses written by the renderer
	np := len(n.Parens)
	for i := 0; i < np; i++ {
		pe, ok := e.(*syntax.ParenExpr)
		if !ok {
			c.bad("paren", n, "text has %d pair(s) of parentheses here, parser returned %T at nesting %d", np, e, i)
			return
		}
		c.tokpos(n, "ParenExpr.Lparen", pe.Lparen, n.Parens[i])
		c.tokpos(n, "ParenExpr.Rparen", pe.Rparen, n.RParens[np-1-i])
		st, _ := pe.Span()
		if !posEq(st, n.Parens[i]) {
			c.bad("pos", n, "ParenExpr.Span() start %d:%d, '(' is at %s", st.Line, st.Col, n.Parens[i])
		}
		e = pe.X
	}
	if _, ok := e.(*syntax.ParenExpr); ok && n.K != KParen {
		c.bad("paren", n, "parser returned a ParenExpr where the text has no (further) parentheses")
		return
	}
	switch n.K {
	case KIdent:
		x, ok := e.(*syntax.Ident)
		if !ok {
			c.bad("kind", n, "identifier %s: parser returned %T", n.Name, e)
			return
		}
		if x.Name != n.Name {
			c.bad("value", n, "identifier %s, parser returned %s", n.Name, x.Name)
		}
		c.start(n, x)
		c.leafEnd(n, x)
	case KInt, KFloat, KString, KBytes:
		x, ok := e.(*syntax.Literal)
		if !ok {
			c.bad("kind", n, "literal %s: parser returned %T", n.Lit.Text, e)
			return
		}
		c.literal(n, x)
		c.start(n, x)
		c.leafEnd(n, x)
	case KUnary:
		x, ok := e.(*syntax.UnaryExpr)
		if !ok {
			c.bad("kind", n, "unary %s: parser returned %T", n.Op, e)
			return
		}
		if x.Op.String() != n.Op {
			c.bad("op", n, "unary %s, parser returned %s", n.Op, x.Op)
			return
		}
		if x.X == nil {
			c.bad("kind", n, "unary without operand")
			return
		}
		c.expr(n.Kids[0], x.X)
		c.start(n, x)
		c.tokpos(n, "OpPos", x.OpPos, n.Aux[0])
	case KBinary:
		x, ok := e.(*syntax.BinaryExpr)
		if !ok {
			c.bad("kind", n, "binary %s: parser returned %T", n.Op, e)
			return
		}
		if x.Op.String() != n.Op {
			c.bad("op", n, "binary %s, parser returned %s", n.Op, x.Op)
			return
		}
		c.expr(n.Kids[0], x.X)
		c.expr(n.Kids[1], x.Y)
		c.start(n, x)
		if n.Op != "not in" { // OpPos of 'not in' is not judged (parser reports the 'in')
			c.tokpos(n, "OpPos", x.OpPos, n.Aux[0])
		}
	case KCond:
		x, ok := e.(*syntax.CondExpr)
		if !ok {
			c.bad("kind", n, "conditional: parser returned %T", e)
			return
		}
		c.expr(n.Kids[0], x.True)
		c.expr(n.Kids[1], x.Cond)
		c.expr(n.Kids[2], x.False)
		c.start(n, x)
		c.tokpos(n, "If", x.If, n.Aux[0])
		c.tokpos(n, "ElsePos", x.ElsePos, n.Aux[1])
	case KLambda:
		x, ok := e.(*syntax.LambdaExpr)
		if !ok {
			c.bad("kind", n, "lambda: parser returned %T", e)
			return
		}
		np := len(n.Kids) - 1
		c.params(n, n.Kids[:np], x.Params)
		c.expr(n.Kids[np], x.Body)
		c.start(n, x)
	case KTuple:
		x, ok := e.(*syntax.TupleExpr)
		if !ok {
			c.bad("kind", n, "tuple: parser returned %T", e)
			return
		}
		if x.Lparen.IsValid() {
			c.bad("kind", n, "tuple: parser set Lparen on a non-empty tuple")
		}
		c.items(n, n.Kids, x.List)
		if len(x.List) > 0 {
			c.start(n, x)
		}
	case KEmptyTuple:
		x, ok := e.(*syntax.TupleExpr)
		if !ok || len(x.List) != 0 {
			c.bad("kind", n, "(): parser returned %T", e)
			return
		}
		c.start(n, x)
		c.tokpos(n, "Rparen", x.Rparen, n.Aux[1])
	case KParen:
		x, ok := e.(*syntax.ParenExpr)
		if !ok {
			c.bad("paren", n, "( ): parser returned %T", e)
			return
		}
		c.expr(n.Kids[0], x.X)
		c.start(n, x)
		c.tokpos(n, "Rparen", x.Rparen, n.Aux[1])
	case KList:
		x, ok := e.(*syntax.ListExpr)
		if !ok {
			c.bad("kind", n, "list: parser returned %T", e)
			return
		}
		c.items(n, n.Kids, x.List)
		c.start(n, x)
		c.tokpos(n, "Rbrack", x.Rbrack, n.Aux[1])
	case KDict:
		x, ok := e.(*syntax.DictExpr)
		if !ok {
			c.bad("kind", n, "dict: parser returned %T", e)
			return
		}
		c.items(n, n.Kids, x.List)
		c.start(n, x)
		c.tokpos(n, "Rbrace", x.Rbrace, n.Aux[1])
	case KListComp, KDictComp:
		x, ok := e.(*syntax.Comprehension)
		if !ok {
			c.bad("kind", n, "comprehension: parser returned %T", e)
			return
		}
		if x.Curly != (n.K == KDictComp) {
			c.bad("kind", n, "comprehension bracket kind differs")
			return
		}
		c.item(n.Kids[0], x.Body)
		c.clauses(n, n.Kids[1:], x.Clauses)
		c.start(n, x)
		c.tokpos(n, "Rbrack", x.Rbrack, n.Aux[1])
	case KCall:
		x, ok := e.(*syntax.CallExpr)
		if !ok {
			c.bad("kind", n, "call: parser returned %T", e)
			return
		}
		c.expr(n.Kids[0], x.Fn)
		c.items(n, n.Kids[1:], x.Args)
		c.start(n, x)
		c.tokpos(n, "Lparen", x.Lparen, n.Aux[0])
		c.tokpos(n, "Rparen", x.Rparen, n.Aux[1])
	case KIndex:
		x, ok := e.(*syntax.IndexExpr)
		if !ok {
			c.bad("kind", n, "index: parser returned %T", e)
			return
		}
		c.expr(n.Kids[0], x.X)
		c.expr(n.Kids[1], x.Y)
		c.start(n, x)
		c.tokpos(n, "Lbrack", x.Lbrack, n.Aux[0])
		c.tokpos(n, "Rbrack", x.Rbrack, n.Aux[1])
	case KSlice:
		x, ok := e.(*syntax.SliceExpr)
		if !ok {
			c.bad("kind", n, "slice: parser returned %T", e)
			return
		}
		c.expr(n.Kids[0], x.X)
		for i, p := range []syntax.Expr{x.Lo, x.Hi, x.Step} {
			k := n.Kids[1+i]
			if (k == nil) != (p == nil) {
				c.bad("kind", n, "slice part %d presence differs", i)
				return
			}
			if k != nil {
				c.expr(k, p)
			}
		}
		c.start(n, x)
		c.tokpos(n, "Lbrack", x.Lbrack, n.Aux[0])
		c.tokpos(n, "Rbrack", x.Rbrack, n.Aux[1])
	case KDot:
		x, ok := e.(*syntax.DotExpr)
		if !ok {
			c.bad("kind", n, "dot: parser returned %T", e)
			return
		}
		c.expr(n.Kids[0], x.X)
		if x.Name == nil || x.Name.Name != n.Name {
			c.bad("value", n, "attribute name %s differs", n.Name)
			return
		}
		c.start(n, x)
		c.tokpos(n, "Dot", x.Dot, n.Aux[0])
		c.tokpos(n, "Name.NamePos", x.Name.NamePos, n.Aux[1])
	default:
		c.item(n, e)
	}
}

func (c *cmpr) leafEnd(n *Node, s syntax.Node) {
	_, end := s.Span()
	if !posEq(end, n.End) {
		c.bad("leafend", n, "Span() end %d:%d, token ends at %s", end.Line, end.Col, n.End)
	}
}

func (c *cmpr) literal(n *Node, x *syntax.Literal) {
	l := n.Lit
	if x.Raw != normNL(l.Text) {
		c.bad("value", n, "Literal.Raw %q, text has %q", x.Raw, l.Text)
	}
	switch n.K {
	case KInt:
		if x.Token != syntax.INT {
			c.bad("kind", n, "int literal %s: token %s", l.Text, x.Token)
			return
		}
		switch v := x.Value.(type) {
		case int64:
			if l.Big != nil || v != l.Int {
				c.bad("value", n, "int literal %s denotes %s, parser returned int64 %d", l.Text, litIntString(l), v)
			}
		case *big.Int:
			want := l.Big
			if want == nil {
				want = big.NewInt(l.Int)
			}
			if v.Cmp(want) != 0 {
				c.bad("value", n, "int literal %s denotes %s, parser returned %s", l.Text, want, v)
			}
		default:
			c.bad("value", n, "int literal %s: Value has type %T", l.Text, x.Value)
		}
	case KFloat:
		v, ok := x.Value.(float64)
		if x.Token != syntax.FLOAT || !ok {
			c.bad("kind", n, "float literal %s: token %s value %T", l.Text, x.Token, x.Value)
			return
		}
		if math.Float64bits(v) != math.Float64bits(l.Float) {
			c.bad("value", n, "float literal %s denotes %v, parser returned %v", l.Text, l.Float, v)
		}
	case KString, KBytes:
		want := syntax.STRING
		if n.K == KBytes {
			want = syntax.BYTES
		}
		v, ok := x.Value.(string)
		if x.Token != want || !ok {
			c.bad("kind", n, "literal %s: token %s value %T", l.Text, x.Token, x.Value)
			return
		}
		if v != l.Str && !(l.HasAlt && v == l.Alt) {
			c.bad("value", n, "literal %s denotes %q, parser returned %q", l.Text, l.Str, v)
		}
	}
}

func litIntString(l *Lit) string {
	if l.Big != nil {
		return l.Big.String()
	}
	return fmt.Sprint(l.Int)
}

// normNL: Literal.Raw is documented as the uninterpreted text; line ends in it
// are not judged, so CR LF and LF are identified before comparing.
func normNL(s string) string {
	for i := 0; i < len(s); i++ {
		if s[i] == '\r' {
			b := make([]byte, 0, len(s))
			for j := 0; j < len(s); j++ {
				if s[j] == '\r' && j+1 < len(s) && s[j+1] == '\n' {
					continue
				}
				if s[j] == '\r' {
					b = append(b, '\n') // a bare CR is a line end too
					continue
				}
				b = append(b, s[j])
			}
			return string(b)
		}
	}
	return s
}
