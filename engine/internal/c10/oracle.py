#!/usr/bin/env python3
"""C10 oracle: enumerates the whole case table and computes, with Python's
arbitrary-precision ints, fractions.Fraction and range, what the Starlark
specification (doc/spec.md) requires for every case.  Nothing here depends on
Go's math/big.

usage: oracle.py <tier> <outdir> <nshards> <part> <nparts>

Case number i goes to file <outdir>/c10-<tier>-<i % nshards>.tsv; process
<part> of <nparts> writes the shard files k with k % nparts == part (every
process enumerates the same sequence, so the numbering is identical).

Line format (TAB separated):  op  args(comma separated tokens)  expectation
A line '#level <name>' starts an enumeration level.

Tokens: i<decimal> int, f<16 hex digits> float bits, fnan, T, F, N (None),
s<text> string.  Expectation: alternatives separated by '|'; 'E' = must fail,
'?' = the specification does not define the result (not judged);
lists '[a;b]', tuples '(a;b)'.

Where Starlark's specification differs from Python the difference is encoded
here (see the comments at each operator); where the specification is silent
the expectation is '?'.
"""
import sys, struct, math, random
from fractions import Fraction

TIER, OUTDIR, NSHARDS, PART, NPARTS = sys.argv[1], sys.argv[2], int(sys.argv[3]), int(sys.argv[4]), int(sys.argv[5])
THOROUGH = TIER == "thorough"

# ---------------------------------------------------------------- encoding

def fbits(f):
    return struct.unpack('<Q', struct.pack('<d', f))[0]

def frombits(b):
    return struct.unpack('<d', struct.pack('<Q', b))[0]

class _Err:
    pass
ERR = _Err()      # the operation must fail
UNJ = object()    # not defined by the specification: not judged
NONE = object()   # Starlark None (argument only)

class Alt:
    """any of several results is acceptable"""
    def __init__(self, *vs):
        self.vs = vs

class Bytes:
    def __init__(self, s):
        self.s = s

def enc(v):
    if v is ERR:
        return 'E'
    if v is UNJ:
        return '?'
    if v is NONE or v is None:
        return 'N'
    if isinstance(v, Alt):
        out = []
        for x in v.vs:
            e = enc(x)
            if e not in out:
                out.append(e)
        return '|'.join(out)
    if v is True:
        return 'T'
    if v is False:
        return 'F'
    if isinstance(v, int):
        return 'i%d' % v
    if isinstance(v, float):
        if v != v:
            return 'fnan'
        return 'f%016x' % fbits(v)
    if isinstance(v, str):
        return 's' + v
    if isinstance(v, Bytes):
        return 'y' + v.s
    if isinstance(v, list):
        return '[' + ';'.join(enc(x) for x in v) + ']'
    if isinstance(v, tuple):
        return '(' + ';'.join(enc(x) for x in v) + ')'
    raise TypeError(v)

def orE(v):
    """built-in rule of the property: the exact result, or a failure"""
    e = enc(v)
    if e == '?' or e == 'E' or e.endswith('|E'):
        return e
    return e + '|E'

class Out:
    def __init__(self):
        self.i = 0
        self.files = {}
        for k in range(NSHARDS):
            if k % NPARTS == PART:
                self.files[k] = open('%s/c10-%s-%d.tsv' % (OUTDIR, TIER, k), 'w', buffering=1 << 20)
        self.counts = {}
        self.level_name = None

    def level(self, name):
        self.level_name = name
        for f in self.files.values():
            f.write('#level %s\n' % name)

    def next(self):
        """returns the file for the next case if this process owns it"""
        k = self.i % NSHARDS
        self.i += 1
        self.counts[self.level_name] = self.counts.get(self.level_name, 0) + 1
        return self.files.get(k)

    def close(self):
        for f in self.files.values():
            f.close()

OUT = Out()

def emit(op, args, thunk):
    f = OUT.next()
    if f is not None:
        f.write('%s\t%s\t%s\n' % (op, ','.join(enc(a) for a in args), thunk()))

# ---------------------------------------------------------------- pools

def int_pool(ks):
    s = [0, 1, -1, 2, -2, 3, -3, 7, -7]
    for k in ks:
        for d in (0, 1, -1):
            s.append(2 ** k + d)
            s.append(-(2 ** k) + d)
    out = []
    for x in s:
        if x not in out:
            out.append(x)
    return out

K_QUICK = [15, 30, 31, 32, 33, 52, 53, 54, 62, 63, 64, 65, 127, 200]
K_THOROUGH = sorted(set(K_QUICK + [7, 8, 16, 24, 29, 48, 61, 66, 96, 128, 255, 256, 511, 512, 1023, 1024]))
INTS = int_pool(K_THOROUGH if THOROUGH else K_QUICK)
INF = float('inf')
NAN = float('nan')

def float_pool():
    base = [0.0, 5e-324, 2.2250738585072014e-308, 0.5, 1.0, 1.5, 2.0, 3.0,
            2.0 ** 31 - 0.5, 2.0 ** 31, 2.0 ** 31 + 0.5, 2.0 ** 32,
            2.0 ** 53 - 1, 2.0 ** 53, 2.0 ** 53 + 2, 2.0 ** 63, 2.0 ** 64, 1e308, INF]
    if THOROUGH:
        base += [math.nextafter(1.0, 2.0), math.nextafter(1.0, 0.0), 0.1, 2.5, 7.0, 2.0 ** 52 + 0.5,
                 2.0 ** 62, 2.0 ** 63 * (1 - 2.0 ** -53), 2.0 ** 127, 2.0 ** 200, 1.7976931348623157e308, 1e-300]
    out = []
    for x in base:
        out.append(x)
        out.append(-x)
    out.append(NAN)
    return out

FLOATS = float_pool()
NUMS = INTS + FLOATS

def is_int(x):
    return isinstance(x, int) and not isinstance(x, bool)

def is_float(x):
    return isinstance(x, float)

def finite(f):
    return f == f and f not in (INF, -INF)

# ---------------------------------------------------------------- operator semantics (doc/spec.md)

def to_f(x):
    """spec: in mixed arithmetic 'the int operand is first converted to a float'
    (IEEE 754 round-to-nearest-even, which is what Python's float(int) does).
    Ints beyond the float range: the spec does not say -> None."""
    if is_float(x):
        return x
    try:
        return float(x)
    except OverflowError:
        return None

def exact(x):
    """exact rational value of a finite number"""
    return Fraction(x)

def cmp_num(x, y):
    """exact three-way comparison of two non-NaN numbers"""
    def key(v):
        if is_float(v) and v == INF:
            return (1, 0)
        if is_float(v) and v == -INF:
            return (-1, 0)
        return (0, exact(v))
    a, b = key(x), key(y)
    return (a > b) - (a < b)

def fl_floor(q):
    """floor of a float as a float, keeping zeros, infinities and NaN"""
    if q != q or q in (INF, -INF) or q == 0:
        return q
    return float(math.floor(q))  # floor of a double is a double: exact

def zero_any():
    return Alt(0.0, -0.0)

def binop(op, x, y):
    xi, yi = is_int(x), is_int(y)
    xf, yf = is_float(x), is_float(y)
    if not ((xi or xf) and (yi or yf)):
        return ERR  # spec: operands of arithmetic operators must both be numbers; bool is not a number
    both_int = xi and yi
    if op in ('add', 'sub', 'mul'):
        if both_int:
            return x + y if op == 'add' else x - y if op == 'sub' else x * y
        a, b = to_f(x), to_f(y)
        if a is None or b is None:
            return UNJ
        return a + b if op == 'add' else a - b if op == 'sub' else a * b
    if op == 'truediv':
        # spec: real division, always a float; division by zero is a dynamic error.
        if both_int:
            if y == 0:
                return ERR
            a, b = to_f(x), to_f(y)
            alts = []
            if a is not None and b is not None:
                alts.append(a / b)           # convert-then-divide (the rule for mixed operands)
            try:
                alts.append(x / y)           # correctly rounded exact quotient
            except OverflowError:
                pass
            if not alts or a is None or b is None:
                return UNJ
            return Alt(*alts)
        a, b = to_f(x), to_f(y)
        if a is None or b is None:
            return UNJ
        if b == 0:
            return ERR
        return a / b
    if op == 'floordiv':
        if both_int:
            if y == 0:
                return ERR
            return x // y
        a, b = to_f(x), to_f(y)
        if a is None or b is None:
            return UNJ
        if b == 0:
            return ERR
        # spec: 'x // y yields floor(x / y)' (NOT Python's fmod-based float floor division)
        return fl_floor(a / b)
    if op == 'mod':
        if both_int:
            if y == 0:
                return ERR
            return x % y
        a, b = to_f(x), to_f(y)
        if a is None or b is None:
            return UNJ
        if b == 0:
            return ERR
        if a != a or b != b:
            return NAN
        if a in (INF, -INF):
            return NAN  # IEEE remainder of an infinite dividend
        if b in (INF, -INF):
            return UNJ  # remainder of *floored* division by an infinity: spec silent
        # finite: remainder of floored division, sign of the divisor, correctly rounded.
        fa, fb = Fraction(a), Fraction(b)
        r = fa - fb * math.floor(fa / fb)
        if r == 0:
            return zero_any()  # sign of a zero remainder is not specified
        return r.numerator / r.denominator  # int/int true division: correctly rounded
    if op in ('and', 'or', 'xor'):
        if not both_int:
            return ERR  # spec: '&' requires two ints (or sets); '|', '^' likewise
        return x & y if op == 'and' else x | y if op == 'or' else x ^ y
    if op in ('lsh', 'rsh'):
        if not both_int:
            return ERR  # spec: '<<' and '>>' require operands of int type both
        if y < 0:
            return ERR  # spec: dynamic error if the second operand is negative
        if op == 'lsh':
            if y < 512:
                return x << y
            if y <= 4096:
                return Alt(x << y, ERR)  # spec: an implementation may limit the count of a left shift
            return UNJ
        n = x.bit_length()
        r = (x >> y) if y <= n + 1 else (0 if x >= 0 else -1)
        if y >= 2 ** 31:
            return Alt(r, ERR)  # counts beyond int32 are rejected by both Starlark implementations: tolerated
        return r
    if op in ('eq', 'ne', 'lt', 'le', 'gt', 'ge'):
        if (xf and x != x) or (yf and y != y):
            return UNJ  # NaN ordering: doc/spec.md and the implementation disagree; C11 checks coherence
        c = cmp_num(x, y)
        return {'eq': c == 0, 'ne': c != 0, 'lt': c < 0, 'le': c <= 0, 'gt': c > 0, 'ge': c >= 0}[op]
    raise ValueError(op)

ARITH = ['add', 'sub', 'mul', 'truediv', 'floordiv', 'mod']
BITS = ['and', 'or', 'xor', 'lsh', 'rsh']
CMPS = ['eq', 'ne', 'lt', 'le', 'gt', 'ge']
BINOPS = ARITH + BITS + CMPS

def trunc_f(f):
    return int(f)  # exact truncation towards zero

def round_half_away(x):
    if is_int(x):
        return x
    fr = Fraction(x)
    if fr >= 0:
        return math.floor(fr + Fraction(1, 2))
    return -math.floor(-fr + Fraction(1, 2))

def num_as_any(n):
    """the integer n as an int or, if exactly representable, as a float"""
    alts = [n]
    try:
        f = float(n)
        if Fraction(f) == n:
            alts.append(f)
            if n == 0:
                alts.append(-0.0)
    except OverflowError:
        pass
    return Alt(*alts)

def hexs(n, fmt):
    s = {'x': '%x', 'X': '%X', 'o': '%o', 'd': '%d', 'i': '%d'}[fmt] % abs(n)
    return ('-' if n < 0 else '') + s

def unop(op, x):
    xi, xf, xb = is_int(x), is_float(x), isinstance(x, bool)
    if op == 'neg':
        return ERR if xb else -x
    if op == 'pos':
        return ERR if xb else x
    if op == 'inv':
        return ~x if xi else ERR  # spec: '~ number (int)'
    if op == 'abs':
        return ERR if xb else abs(x)
    if op == 'bool':
        return bool(x != 0) if not xb else x  # NaN is non-zero: true
    if op == 'int':
        if xb:
            return 1 if x else 0
        if xi:
            return x
        if not finite(x):
            return ERR  # spec: error if x is not finite
        return trunc_f(x)
    if op == 'float':
        if xb:
            return 1.0 if x else 0.0
        if xf:
            return x
        f = to_f(x)
        if f is None:
            return UNJ
        return f
    if op in ('str', 'repr', 'fmt_s', 'fmt_r'):
        if xi:
            return '%d' % x
        return UNJ  # float / bool formatting belongs to C15
    if op in ('fmt_d', 'fmt_i', 'fmt_x', 'fmt_X', 'fmt_o'):
        if xb:
            return ERR  # spec: 'A Boolean argument is not considered a number'
        if xi:
            return hexs(x, op[-1])
        if not finite(x):
            return ERR
        return Alt(hexs(trunc_f(x), op[-1]), ERR)  # conversion of a float for an integer verb: truncation, or refusal
    if op in ('floor', 'ceil'):
        if xb:
            return ERR
        if xi:
            return x
        if not finite(x):
            return ERR
        return math.floor(x) if op == 'floor' else math.ceil(x)
    if op == 'round':
        if xb:
            return ERR
        if xf and not finite(x):
            return UNJ
        return num_as_any(round_half_away(x))
    raise ValueError(op)

UNOPS = ['neg', 'pos', 'inv', 'abs', 'bool', 'int', 'float', 'str', 'repr', 'fmt_s', 'fmt_r',
         'fmt_d', 'fmt_i', 'fmt_x', 'fmt_X', 'fmt_o', 'floor', 'ceil', 'round']
BUILTIN_UNOPS = {'floor', 'ceil', 'round'}

# ---------------------------------------------------------------- int <-> string

DIGITS = '0123456789abcdefghijklmnopqrstuvwxyz'

def to_base(n, b):
    if n == 0:
        return '0'
    s = []
    m = abs(n)
    while m:
        m, d = divmod(m, b)
        s.append(DIGITS[d])
    return ('-' if n < 0 else '') + ''.join(reversed(s))

PREFIX = {2: '0b', 8: '0o', 16: '0x'}

def level_conv():
    OUT.level('1-unary-conversions')
    for x in NUMS + [True, False]:
        for op in UNOPS:
            if op in BUILTIN_UNOPS:
                emit(op, [x], lambda: orE(unop(op, x)))
            else:
                emit(op, [x], lambda: enc(unop(op, x)))
    # literals through the scanner: decimal, hex, octal, binary
    for n in INTS:
        for form in ('%d', '0x%x', '0X%X', '0o%o', '0b%s'):
            def lit():
                m = abs(n)
                t = form % (bin(m)[2:] if form == '0b%s' else m)
                return ('-' if n < 0 else '') + t
            emit('lit', [lit()], lambda: enc(n))
    # two literals in one text, every ordered pair of spellings: nothing may leak from one token to the next
    spell = []
    for n in (0, 7, 2 ** 31, 2 ** 63 - 1, 2 ** 63, 2 ** 64 - 1, 2 ** 64, 2 ** 64 + 1, 2 ** 200):
        for form in ('%d', '0x%x', '0o%o', '0b%s'):
            spell.append((form % (bin(n)[2:] if form == '0b%s' else n), n))
    for t, v in (('1.5', 1.5), ('1e3', 1000.0), ('0.0', 0.0), ('9007199254740993.0', 9007199254740992.0)):
        spell.append((t, v))
    for t1, v1 in spell:
        for t2, v2 in spell:
            emit('lit2', [t1, t2], lambda: enc([v1, v2]))
    # spellings padded with leading zeros (every width on both sides of the longest int64 spelling of each base),
    # and every literal of small value *used* where the implementation asks "is this a small int?":
    # shift count, repetition count, sequence and range index, dict key, set member
    padded = []
    for n in (0, 1, 3, 5, 31, 36, 49):
        padded.append(('%d' % n, n))
        for width in (15, 16, 17, 18, 40):
            padded.append(('0x' + ('%x' % n).rjust(width, '0'), n))
        for width in (20, 21, 22, 23, 40):
            padded.append(('0o' + ('%o' % n).rjust(width, '0'), n))
        for width in (62, 63, 64, 65, 100):
            padded.append(('0b' + bin(n)[2:].rjust(width, '0'), n))
    for t, n in padded:
        emit('lit', [t], lambda: enc(n))
        emit('lituse', [t, n], lambda: enc([1 << n, (3 << 100) >> n, -7 >> n, 2 * n, n, 100 + 7 * n, 5, True, True, n, n + 1]))
    for t1, v1 in padded[::7]:
        for t2, v2 in padded[::5]:
            emit('lit2', [t1, t2], lambda: enc([v1, v2]))
    # chains of literals in one expression (what a compiler may fold ahead of time): + - * of two,
    # three and four int literals around the int64 boundaries, left to right and parenthesised
    lits = [0, 1, 2, 2 ** 31, 2 ** 62, 2 ** 63 - 1, 2 ** 63, 2 ** 64 - 1]
    for a in lits:
        for b in lits:
            for c in lits:
                emit('litexpr', ['%d + %d + %d' % (a, b, c)], lambda: enc(a + b + c))
                emit('litexpr', ['%d + (%d + %d)' % (a, b, c)], lambda: enc(a + b + c))
                emit('litexpr', ['%d - %d - %d' % (a, b, c)], lambda: enc(a - b - c))
                emit('litexpr', ['%d * %d + %d' % (a, b, c)], lambda: enc(a * b + c))
                emit('litexpr', ['%d + %d * %d' % (a, b, c)], lambda: enc(a + b * c))
                emit('litexpr', ['-%d + %d - -%d' % (a, b, c)], lambda: enc(-a + b + c))
    for a in lits[3:]:
        emit('litexpr', ['%d + %d + %d + %d' % (a, a, a, a)], lambda: enc(4 * a))
        emit('litexpr', ['%d * %d * %d' % (a, a, a)], lambda: enc(a ** 3))
    for x in FLOATS:
        if finite(x):
            for form in ('%r', '%.20e', '%.1100f'):
                t = form % x
                if form == '%.1100f':
                    if not (abs(x) < 1e30):
                        continue
                    t = t.rstrip('0')
                    if t.endswith('.'):
                        t += '0'
                emit('lit', [t], lambda: enc(float(t)))
    # int(s, base) for base 0, 2..36 and int(s)
    for n in INTS:
        for b in range(2, 37):
            body = to_base(abs(n), b)
            sign = '-' if n < 0 else ''
            forms = [sign + body, sign + body.upper()]
            if n >= 0:
                forms.append('+' + body)
            if b in PREFIX:
                forms.append(sign + PREFIX[b] + body)           # matching prefix permitted
                forms.append(sign + PREFIX[b].upper() + body)
            seen = []
            for s in forms:
                if s in seen:
                    continue
                seen.append(s)
                assert int(s, b) == n
                # spec: 'a matching base prefix is also permitted, and has no effect'; to_base never
                # produces a leading zero.  The spec shows lower-case digits and prefixes only:
                # upper-case spellings may be refused, but never misread.
                if s != s.lower():
                    emit('int_sb', [s, b], lambda: enc(Alt(n, ERR)))
                else:
                    emit('int_sb', [s, b], lambda: enc(n))
        # base 0: like a literal
        for b, p in PREFIX.items():
            s = ('-' if n < 0 else '') + p + to_base(abs(n), b)
            emit('int_sb', [s, 0], lambda: enc(n))
        emit('int_sb', [to_base(n, 10), 0], lambda: enc(n))
        emit('int_s', [to_base(n, 10)], lambda: enc(n))
        if n >= 0:
            emit('int_s', ['+' + to_base(n, 10)], lambda: enc(n))
    # the spec's own examples, including the failing one
    for s, b, want in [('11', None, 11), ('11', 0, 11), ('11', 10, 11), ('11', 2, 3), ('11', 8, 9), ('11', 16, 17),
                       ('0x11', 0, 17), ('0x11', 16, 17), ('0b1', 16, 177), ('0b1', 2, 1), ('0b1', 0, 1),
                       ('0x11', None, ERR)]:
        if b is None:
            emit('int_s', [s], lambda: enc(want))
        else:
            emit('int_sb', [s, b], lambda: enc(want))

def emit_pair(x, y, ops):
    for op in ops:
        emit(op, [x, y], lambda: enc(binop(op, x, y)))
    if is_int(x) and is_int(y) and y != 0 and ops is BINOPS:
        # spec (Integers): (x // y) * y + (x % y) == x; remainder has the sign of the divisor; |r| < |y|
        emit('divmod_law', [x, y], lambda: '[T;T;T]')

def level_binary(name, xs, ys, ops):
    OUT.level(name)
    for x in xs:
        for y in ys:
            emit_pair(x, y, ops)

SHIFT_COUNTS = list(range(0, 70)) + [127, 128, 255, 256, 500, 511, 512, 513, 1023, 1024, 2 ** 31 - 1, 2 ** 31]

def level_shift():
    OUT.level('2b-shift-counts')
    xs = [x for x in INTS if abs(x) <= 7 or any(abs(x) in (2 ** k, 2 ** k + 1, 2 ** k - 1) for k in (31, 32, 63, 64, 200))]
    for x in xs:
        for y in SHIFT_COUNTS:
            if y > 1024:
                emit('lsh', [x, y], lambda: enc(binop('lsh', x, y)))
                emit('rsh', [x, y], lambda: enc(binop('rsh', x, y)))
                continue
            emit('lsh', [x, y], lambda: enc(binop('lsh', x, y)))
            emit('rsh', [x, y], lambda: enc(binop('rsh', x, y)))

def level_bool_operands():
    OUT.level('2c-bool-is-not-a-number')
    for b in (True, False):
        for y in (0, 1, 2 ** 31, 2 ** 64, 1.5):
            for op in ARITH + BITS:
                if op in ('and', 'or', 'xor') :
                    continue
                emit(op, [b, y], lambda: enc(ERR))
                if not (op == 'mul'):
                    emit(op, [y, b], lambda: enc(ERR))

# ---------------------------------------------------------------- range

def rlen(a, b, c):
    if c > 0:
        return max(0, (b - a + c - 1) // c)
    return max(0, (a - b - c - 1) // (-c))

def rin(a, b, c, x):
    if is_float(x):
        if not finite(x) or x != math.floor(x):
            return False
        x = int(x)
    n = rlen(a, b, c)
    d = x - a
    if d % c != 0:
        return False
    q = d // c
    return 0 <= q < n

def slice_indices(n, i, j, k):
    """doc/spec.md 'Slice expressions': effective start/stop for length n"""
    if k is None:
        k = 1
    if k == 0:
        return None
    if k > 0:
        lo, hi = 0, n
        start = lo if i is None else (i + n if i < 0 else i)
        stop = hi if j is None else (j + n if j < 0 else j)
    else:
        lo, hi = -1, n - 1
        start = hi if i is None else (i + n if i < 0 else i)
        stop = lo if j is None else (j + n if j < 0 else j)
    start = min(max(start, lo), hi)
    stop = min(max(stop, lo), hi)
    return start, stop, k

def rslice(a, b, c, i, j, k):
    """parameters (a', b', c') of range(a,b,c)[i:j:k], or None if it must fail"""
    n = rlen(a, b, c)
    t = slice_indices(n, i, j, k)
    if t is None:
        return None
    s, e, k = t
    return a + s * c, a + e * c, c * k

def range_strs(a, b, c):
    out = ['range(%d, %d, %d)' % (a, b, c)]
    if c == 1:
        out.append('range(%d, %d)' % (a, b))
        if a == 0:
            out.append('range(%d)' % b)
    return Alt(*out)

def level_range():
    OUT.level('3-range')
    if THOROUGH:
        S = [0, 1, -1, 2, 3, 7, -7, 10, 2 ** 31 - 1, 2 ** 31, -2 ** 31, -2 ** 31 - 1, 2 ** 32, 2 ** 32 + 1, -2 ** 33, 2 ** 40, 2 ** 41,
             2 ** 53, 2 ** 62, -2 ** 62, 2 ** 63 - 1, 2 ** 63 - 2, -2 ** 63, -2 ** 63 + 1, 2 ** 63, -2 ** 63 - 1, 2 ** 64]
        T = [1, -1, 2, -2, 3, -3, 7, 2 ** 31, -2 ** 31, 2 ** 32, -2 ** 32, 2 ** 62, -2 ** 62, 2 ** 63 - 1, -2 ** 63, 2 ** 63]
    else:
        S = [0, 1, -1, 3, 7, -7, 2 ** 31 - 1, 2 ** 31, -2 ** 31 - 1, 2 ** 32 + 1, 2 ** 41, 2 ** 53, 2 ** 62,
             2 ** 63 - 1, -2 ** 63, -2 ** 63 + 1, 2 ** 63, 2 ** 64]
        T = [1, -1, 2, -3, 7, 2 ** 31, -2 ** 32, 2 ** 62, -2 ** 63, 2 ** 63 - 1]
    ABS_INT = [0, 1, -1, 2 ** 31, 2 ** 32, 2 ** 40, 2 ** 63 - 1, -2 ** 63, 2 ** 63, 2 ** 64]
    ABS_FLT = [0.0, -0.0, 1.0, 1.5, 0.5, -0.5, 2.0 ** 31, 2.0 ** 31 + 0.5, 2.0 ** 53, 2.0 ** 63, 1e308, INF, -INF, NAN]
    SL = [(None, None, None), (1, None, None), (None, -1, None), (1, -1, None), (None, None, 2), (None, None, -1),
          (None, None, -2), (2, None, 3), (-3, None, None), (None, 2, None), (1, 3, 1), (-1, 0, -1),
          (None, None, 2 ** 31), (None, None, 2 ** 62), (None, None, -2 ** 63), (None, None, 2 ** 63 - 1), (0, 2 ** 63 - 1, 1),
          (-2 ** 63, None, None), (2 ** 31, None, None), (None, 2 ** 64, None), (None, None, 0)]
    for a in S:
        for b in S:
            for c in T + [None]:
                if c is None:
                    # two-argument and one-argument forms
                    emit('range2_len', [a, b], lambda: orE(rlen(a, b, 1)))
                    if a == 0:
                        emit('range1_len', [b], lambda: orE(rlen(0, b, 1)))
                        emit('range1_str', [b], lambda: orE(range_strs(0, b, 1)))
                    continue
                n = rlen(a, b, c)
                if n < 2 ** 63:
                    assert n == len(range(a, b, c))
                R = [a, b, c]
                emit('range_len', R, lambda: orE(n))
                emit('range_bool', R, lambda: orE(n != 0))
                emit('range_str', R, lambda: orE(range_strs(a, b, c)))
                emit('range_first3', R, lambda: orE([a + t * c for t in range(min(n, 3))]))
                emit('go_range_first3', R, lambda: orE([a + t * c for t in range(min(n, 3))]))
                if n <= 40:
                    emit('range_list', R, lambda: orE([a + t * c for t in range(n)]))
                    emit('range_reversed', R, lambda: orE([a + t * c for t in range(n - 1, -1, -1)]))
                idx = []
                for i in [0, 1, 2, -1, -2, n - 1, n, -n, -n - 1, n // 2, 2 ** 31 - 1, 2 ** 31, 2 ** 63 - 1, -2 ** 63, 2 ** 63, 2 ** 64]:
                    if i not in idx:
                        idx.append(i)
                for i in idx:
                    emit('range_idx', R + [i], lambda: (orE(a + (i if i >= 0 else n + i) * c) if -n <= i < n else 'E'))
                probes = []
                rel = [a, a + c, a - c, b, b - c, b + c, a + 1, a + (n - 1) * c, a + n * c, a + (n // 2) * c, a + (n // 2) * c + 1]
                for x in rel + ABS_INT:
                    if x not in probes:
                        probes.append(x)
                for x in probes:
                    assert rin(a, b, c, x) == (x in range(a, b, c))  # self-check against Python's range
                    emit('range_in', R + [x], lambda: orE(rin(a, b, c, x)))
                fl = list(ABS_FLT)
                for x in (a, a + c, b):
                    f = to_f(x)
                    if f is not None:
                        for g in (f, f + 0.5, math.nextafter(f, INF)):
                            if not any((g == h and fbits(g) == fbits(h)) for h in fl if h == h):
                                fl.append(g)
                for x in fl:
                    emit('range_in', R + [x], lambda: orE(rin(a, b, c, x)))
                for (i, j, k) in SL:
                    A = R + [NONE if i is None else i, NONE if j is None else j, NONE if k is None else k]
                    p = rslice(a, b, c, i, j, k)
                    if p is None:
                        emit('range_slice_len', A, lambda: 'E')
                        continue
                    m = rlen(*p)
                    # self-check of the slice model above against Python's own range slicing
                    pr = range(a, b, c)[slice(i, j, k)]
                    assert m == rlen(pr.start, pr.stop, pr.step), (a, b, c, i, j, k)
                    assert m == 0 or (p[0] == pr.start and (m == 1 or p[2] == pr.step)), (a, b, c, i, j, k)
                    emit('range_slice_len', A, lambda: orE(m))
                    emit('range_slice_first3', A, lambda: orE([p[0] + t * p[2] for t in range(min(m, 3))]))
                    emit('go_range_slice_first3', A, lambda: orE([p[0] + t * p[2] for t in range(min(m, 3))]))
                    emit('range_slice_idx', A + [-1], lambda: (orE(p[0] + (m - 1) * p[2]) if m > 0 else 'E'))
    # range equality: same sequence of integers
    OUT.level('3b-range-equality')
    E = [0, 1, 2, 3, -1, 7, 2 ** 31, 2 ** 63 - 1, -2 ** 63]
    ET = [1, 2, -1, 3, 2 ** 31, 2 ** 63 - 1, -2 ** 63]
    rs = [(a, b, c) for a in E for b in E for c in ET]
    if not THOROUGH:
        rs = [r for r in rs if rlen(*r) <= 3 or r[2] in (1, 2 ** 63 - 1) or r[0] == 0]
    for r1 in rs:
        n1 = rlen(*r1)
        for r2 in rs:
            def eq():
                n2 = rlen(*r2)
                return n1 == n2 and (n1 == 0 or (r1[0] == r2[0] and (n1 == 1 or r1[2] == r2[2])))
            emit('range_eq', list(r1) + list(r2), lambda: orE(eq()))

def level_builtins():
    OUT.level('4-enumerate-repetition')
    for s in INTS:
        emit('enumerate', [s], lambda: orE([(s, 'a'), (s + 1, 'b'), (s + 2, 'c')]))
        # the same over iterables that have no length (string views) and over a dict and a tuple
        for kind in ('elems', 'codepoints', 'dict', 'tuple'):
            emit('enumerate_' + kind, [s], lambda: orE([(s, 'a'), (s + 1, 'b'), (s + 2, 'c')]))
    for x in (1.5, 1.0, INF, NAN):
        emit('enumerate', [x], lambda: 'E')  # spec: start specifies an integer value
    emit('enumerate0', [], lambda: enc([(0, 'a'), (1, 'b'), (2, 'c')]))
    for n in INTS + [4, 5, 40]:
        if 2 ** 19 < n < 2 ** 30 - 1:
            continue  # would allocate hundreds of MB: memory exhaustion is outside the property
        for kind in ('str', 'bytes', 'list', 'tuple'):
            for side in ('l', 'r'):
                want = 2 * n if n > 0 else 0
                emit('rep_len_%s_%s' % (kind, side), [n], lambda: orE(want))
                if n <= 40:
                    m = max(n, 0)
                    v = {'str': 'ab' * m, 'bytes': Bytes('ab' * m), 'list': ['a', 'b'] * m, 'tuple': tuple(['a', 'b'] * m)}[kind]
                    emit('rep_val_%s_%s' % (kind, side), [n], lambda: orE(v))
    for x in (1.5, 2.0):
        emit('rep_val_str_l', [x], lambda: 'E')
        emit('rep_val_list_r', [x], lambda: 'E')

# ---------------------------------------------------------------- ternary (thorough)

def level_ternary():
    OUT.level('5-ternary')
    sub = [0, 1, -1, 3, -7, 2 ** 31 - 1, 2 ** 31, -2 ** 31, -2 ** 31 - 1, 2 ** 32, 2 ** 53 + 1, 2 ** 63 - 1, 2 ** 63, -2 ** 63, -2 ** 63 - 1,
           2 ** 64, 2 ** 64 + 1, -2 ** 127, 2 ** 200 + 1,
           0.5, -1.5, 2.0 ** 31 + 0.5, 2.0 ** 53, -(2.0 ** 53) - 2, 2.0 ** 63, 1e308, 5e-324, -0.0, INF, NAN]
    ops = ['add', 'sub', 'mul', 'floordiv', 'mod', 'and', 'or', 'xor']
    for a in sub:
        for b in sub:
            for op1 in ops:
                r1 = binop(op1, a, b)
                simple = not (r1 is ERR or r1 is UNJ or isinstance(r1, Alt))
                for c in sub:
                    for op2 in ops:
                        def t():
                            if r1 is ERR:
                                return 'E'
                            if not simple:
                                return '?'
                            return enc(binop(op2, r1, c))
                        emit('t_%s_%s' % (op1, op2), [a, b, c], t)

# ---------------------------------------------------------------- int -> float rounding boundaries

def rounding_ints():
    """ints that sit on, just below and just above a float64 rounding tie at each magnitude where
    int -> float conversion has to round (so that a conversion that rounds twice, truncates, or
    breaks ties the wrong way is visible), with both parities of the kept mantissa"""
    out = []
    for k in ([53, 54, 63, 64, 65, 100, 127, 200, 1023] if THOROUGH else [53, 54, 63, 64, 65, 127, 200]):
        h = 2 ** (k - 53)            # half an ulp at magnitude 2^k
        for base in (2 ** k, 2 ** k + 2 * h, 2 ** (k + 1) - 2 * h):
            for d in (-1, 0, 1):
                for x in (base + h + d, -(base + h + d)):
                    if x not in out:
                        out.append(x)
        # a tie that is only visible beyond 64 bits of the operand (k > 64): low bits far below the tie
        if k > 64:
            for x in (2 ** k + h + 2 ** (k - 70), 2 ** k + h - 2 ** (k - 70), 2 ** k + 2 ** (k - 64) + 1):
                out.append(x)
                out.append(-x)
    return out

def level_rounding():
    OUT.level('1b-int-float-rounding-boundaries')
    xs = rounding_ints()
    partners = [0.0, 1.0, -1.0, 0.5, 2.0 ** 53, 2.0 ** 64, -(2.0 ** 64), 1, -1, 0]
    for x in xs:
        for op in UNOPS:
            if op in BUILTIN_UNOPS:
                emit(op, [x], lambda: orE(unop(op, x)))
            else:
                emit(op, [x], lambda: enc(unop(op, x)))
        near = []
        try:
            f = float(x)
            near = [f, math.nextafter(f, INF), math.nextafter(f, -INF)]
        except OverflowError:
            pass
        for y in partners + near:
            emit_pair(x, y, BINOPS)
            emit_pair(y, x, BINOPS)

GO_INT_TYPES = [('int', -2 ** 63, 2 ** 63 - 1), ('int8', -2 ** 7, 2 ** 7 - 1), ('int16', -2 ** 15, 2 ** 15 - 1), ('int32', -2 ** 31, 2 ** 31 - 1),
                ('int64', -2 ** 63, 2 ** 63 - 1), ('uint', 0, 2 ** 64 - 1), ('uint8', 0, 2 ** 8 - 1), ('uint16', 0, 2 ** 16 - 1),
                ('uint32', 0, 2 ** 32 - 1), ('uint64', 0, 2 ** 64 - 1), ('uintptr', 0, 2 ** 64 - 1)]

def nearest_float(n):
    try:
        return float(n)          # correctly rounded, ties to even
    except OverflowError:
        return INF if n > 0 else -INF

def level_goapi():
    # the conversions a host application uses to take numbers out of (and put them into) the interpreter:
    # AsInt into every Go integer type, AsInt32, Int.Int64/Uint64/Float/Sign/BigInt, AsFloat, NumberToInt,
    # MakeInt64/MakeUint64/MakeBigInt round trips
    OUT.level('5-go-api-conversions')
    small_edges = []
    for k in (7, 8, 15, 16, 31, 32, 63, 64):
        for d in (-2, -1, 0, 1, 2):
            small_edges += [2 ** k + d, -(2 ** k) + d]
    xs = []
    for x in INTS + small_edges + rounding_ints():
        if x not in xs:
            xs.append(x)
    for n in xs:
        for t, lo, hi in GO_INT_TYPES:
            emit('go_asint', [n, t], lambda: enc(n if lo <= n <= hi else ERR))
        emit('go_asint32', [n], lambda: enc(n if -2 ** 31 <= n <= 2 ** 31 - 1 else ERR))
        emit('go_int64', [n], lambda: enc(n if -2 ** 63 <= n <= 2 ** 63 - 1 else ERR))
        emit('go_uint64', [n], lambda: enc(n if 0 <= n <= 2 ** 64 - 1 else ERR))
        emit('go_float', [n], lambda: enc(nearest_float(n)))
        emit('go_asfloat', [n], lambda: enc(nearest_float(n)))
        emit('go_numbertoint', [n], lambda: enc(n))
        emit('go_sign', [n], lambda: enc((n > 0) - (n < 0)))
        emit('go_roundtrip', [n], lambda: enc(n))
    for x in FLOATS:
        emit('go_asfloat', [x], lambda: enc(x))
        emit('go_numbertoint', [x], lambda: enc(int(x)) if finite(x) else 'E')
        for t, lo, hi in GO_INT_TYPES[:2]:
            emit('go_asint', [x, t], lambda: 'E')
    for v in (True, None, 'x'):
        emit('go_asint', [v, 'int'], lambda: 'E')
        emit('go_asint32', [v], lambda: 'E')
        emit('go_numbertoint', [v], lambda: 'E')
        emit('go_asfloat', [v], lambda: 'E')

def level_sampled():
    OUT.level('9-sampled-extra')
    rnd = random.Random(10)
    xs = []
    for _ in range(32 if THOROUGH else 16):
        bits = rnd.randrange(1, 201)
        v = rnd.getrandbits(bits)
        xs.append(-v if rnd.random() < 0.5 else v)
    core = [0, 1, -1, 7, 2 ** 31, -2 ** 31 - 1, 2 ** 63, 2 ** 64 + 1, 1.5, 2.0 ** 53]
    for x in xs:
        for y in xs + core:
            for op in BINOPS:
                emit(op, [x, y], lambda: enc(binop(op, x, y)))
                if y in core:
                    emit(op, [y, x], lambda: enc(binop(op, y, x)))

def main():
    level_conv()
    level_rounding()
    small = [x for x in NUMS if (is_int(x) and abs(x) <= 2 ** 33 + 1) or (is_float(x) and (x != x or abs(x) <= 2.0 ** 32 or x in (INF, -INF)))]
    big = [x for x in NUMS if x not in small and not (is_float(x) and x != x)]
    # nan != nan, so 'not in' keeps it in small only (identity), as intended
    level_binary('2-binary-small-operands', small, small, BINOPS)
    OUT.level('2a-binary-all-operands')
    for x in NUMS:
        for y in NUMS:
            if any(x is s for s in small) and any(y is s for s in small):
                continue
            emit_pair(x, y, BINOPS)
    level_shift()
    level_bool_operands()
    level_range()
    level_builtins()
    level_goapi()
    if THOROUGH:
        level_ternary()
    level_sampled()
    OUT.close()
    if PART == 0:
        with open('%s/c10-%s-meta.txt' % (OUTDIR, TIER), 'w') as f:
            f.write('total\t%d\n' % OUT.i)
            f.write('ints\t%d\nfloats\t%d\n' % (len(INTS), len(FLOATS)))
            for k, v in OUT.counts.items():
                f.write('level\t%s\t%d\n' % (k, v))

main()
